#!/venv/bin/python
"""Tie B: regenerate small *pure* fragments of /repo's current sources as Gallina definitions.

Fail-closed: a fragment is translated only if its Python AST lies inside the tiny supported subset
(integer / boolean expressions over len(self.<list>), self.capacity, integer literals, comparison,
and/or/not, `if c: return e` chains).  Anything else -> the fragment is reported as "fallback" and the
expected definition (the one the hand-written model uses) is emitted instead, so that the
development still builds; the check then records "tie B unavailable" for it and relies on the
differential correspondence (tie A) for that behaviour.

Output: <out>/SrcFragments.v and <out>/report.json."""
import ast, sys, os, json, argparse, hashlib

FIELDS = ["items", "ready_items", "reservations_put", "reservations_get", "reserved_events", "reserve_put_queue",
          "reserve_get_queue"]


class Unsupported(Exception):
    pass


def fld(node):
    """self.X / self.inbuiltstore.X -> X"""
    if isinstance(node, ast.Attribute) and isinstance(node.value, ast.Name) and node.value.id == "self":
        return node.attr
    if (isinstance(node, ast.Attribute) and isinstance(node.value, ast.Attribute)
            and isinstance(node.value.value, ast.Name) and node.value.value.id == "self"
            and node.value.attr == "inbuiltstore"):
        return node.attr
    raise Unsupported(ast.dump(node)[:80])


class Tr:
    """expressions over the record `lens`; Z-valued and bool-valued"""

    def __init__(self, env=None):
        self.env = env or {}

    def z(self, n):
        if isinstance(n, ast.Constant) and isinstance(n.value, int) and not isinstance(n.value, bool):
            return "(%d)" % n.value
        if isinstance(n, ast.Call) and isinstance(n.func, ast.Name) and n.func.id == "len" and len(n.args) == 1:
            f = fld(n.args[0])
            if f not in FIELDS:
                raise Unsupported("len of " + f)
            return "(n_%s l)" % f
        if isinstance(n, ast.Name) and n.id in self.env:
            return self.env[n.id]
        if isinstance(n, ast.Subscript) and isinstance(n.value, ast.Name) and n.value.id == "previous_state_rep" \
                and isinstance(n.slice, ast.Constant) and n.slice.value in (0, 1):
            return "p" if n.slice.value == 0 else "b"
        if isinstance(n, ast.Attribute):
            f = fld(n)
            if f == "capacity":
                return "(capacity l)"
            raise Unsupported("attribute " + f)
        if isinstance(n, ast.BinOp):
            ops = {ast.Add: "+", ast.Sub: "-", ast.Mult: "*", ast.Mod: "mod"}
            if type(n.op) not in ops:
                raise Unsupported("binop")
            return "(%s %s %s)" % (self.z(n.left), ops[type(n.op)], self.z(n.right))
        if isinstance(n, ast.UnaryOp) and isinstance(n.op, ast.USub):
            return "(- %s)" % self.z(n.operand)
        raise Unsupported(ast.dump(n)[:80])

    def b(self, n):
        if isinstance(n, ast.Constant) and isinstance(n.value, bool):
            return "true" if n.value else "false"
        if isinstance(n, ast.BoolOp):
            op = "&&" if isinstance(n.op, ast.And) else "||"
            return "(" + (" %s " % op).join(self.b(v) for v in n.values) + ")"
        if isinstance(n, ast.UnaryOp) and isinstance(n.op, ast.Not):
            # `not <list>` is emptiness, `not <bool>` is negation
            try:
                return "(n_%s l =? 0)" % self._listfield(n.operand)
            except Unsupported:
                return "(negb %s)" % self.b(n.operand)
        if isinstance(n, ast.Compare) and len(n.ops) == 1 and isinstance(n.ops[0], ast.Eq) and isinstance(n.left, ast.Name) \
                and n.left.id == "previous_state_rep" and isinstance(n.comparators[0], ast.Tuple) and len(n.comparators[0].elts) == 2:
            a, c = n.comparators[0].elts
            return "((p =? %s) && (b =? %s))" % (self.z(a), self.z(c))
        if isinstance(n, ast.Compare) and len(n.ops) == 1:
            ops = {ast.Lt: "<?", ast.LtE: "<=?", ast.Gt: ">?", ast.GtE: ">=?", ast.Eq: "=?"}
            a, c = self.z(n.left), self.z(n.comparators[0])
            if isinstance(n.ops[0], ast.NotEq):
                return "(negb (%s =? %s))" % (a, c)
            if type(n.ops[0]) not in ops:
                raise Unsupported("cmp")
            return "(%s %s %s)" % (a, ops[type(n.ops[0])], c)
        # truthiness of a list
        return "(negb (n_%s l =? 0))" % self._listfield(n)

    def _listfield(self, n):
        f = fld(n)
        if f not in FIELDS:
            raise Unsupported("truthiness of " + f)
        return f

    def returns(self, body):
        """`if c: return e` chains ending in `return e` -> nested if-then-else (bool)"""
        body = [s for s in body if not (isinstance(s, ast.Expr) and isinstance(s.value, ast.Constant))]
        if not body:
            raise Unsupported("empty body")
        s = body[0]
        if isinstance(s, ast.Return):
            return self.b(s.value)
        if isinstance(s, ast.If) and not s.orelse and len(s.body) == 1 and isinstance(s.body[0], ast.Return):
            return "(if %s then %s else %s)" % (self.b(s.test), self.b(s.body[0].value), self.returns(body[1:]))
        raise Unsupported("statement " + type(s).__name__)

    def returns_z(self, body):
        body = [s for s in body if not (isinstance(s, ast.Expr) and isinstance(s.value, ast.Constant))]
        if len(body) == 1 and isinstance(body[0], ast.Return):
            return self.z(body[0].value)
        raise Unsupported("not a single return")


def find(tree, cls, fn):
    for n in tree.body:
        if isinstance(n, ast.ClassDef) and n.name == cls:
            for m in n.body:
                if isinstance(m, ast.FunctionDef) and m.name == fn:
                    return m
    for n in tree.body:
        if isinstance(n, ast.FunctionDef) and n.name == fn and cls is None:
            return n
    raise Unsupported("no %s.%s" % (cls, fn))


def first_if_test(fn):
    """the guard of a function whose body is `if <cond>: ...` (after the docstring / prints)"""
    body = [s for s in fn.body if not (isinstance(s, ast.Expr) and isinstance(s.value, (ast.Constant, ast.Call)))]
    if len(body) == 1 and isinstance(body[0], ast.If) and not body[0].orelse:
        return body[0].test
    raise Unsupported("body is not a single guarded block")


def second_test_of_do_put(fn):
    """_do_put: the `if <capacity test>:` that follows `self.reservations_put.remove(...)`"""
    ifs = [s for s in fn.body if isinstance(s, ast.If)]
    for s in ifs:
        src = ast.unparse(s.test)
        if "capacity" in src:
            return s.test
    raise Unsupported("no capacity test in _do_put")


def rr_update(fn):
    """RoundRobin_edge_selector: `i = (i + 1) % len(edges)` inside `while True`"""
    for n in ast.walk(fn):
        if isinstance(n, ast.Assign) and len(n.targets) == 1 and isinstance(n.targets[0], ast.Name) \
                and n.targets[0].id == "i" and isinstance(n.value, ast.BinOp):
            return n.value
    raise Unsupported("no update of i")


FRAGS = []


def frag(name, file, how, fallback, kind="bool"):
    FRAGS.append(dict(name=name, file=file, how=how, fallback=fallback, kind=kind))


ADM_PUT3 = "(n_reservations_put l + n_items l + n_ready_items l <? capacity l)"
ADM_PUT2 = "(n_reservations_put l + n_items l <? capacity l)"
for cls, f, three in [("ReservableReqStore", "base/reservable_req_store.py", False),
                      ("ReservablePriorityReqStore", "base/reservable_priority_req_store.py", False),
                      ("ReservablePriorityReqFilterStore", "base/reservable_priority_req_filter_store.py", False),
                      ("BufferStore", "base/buffer_store.py", True),
                      ("FleetStore", "base/fleet_store.py", True)]:
    frag("%s_allow_put" % cls, f, lambda t, c=cls: Tr().b(first_if_test(find(t, c, "_do_reserve_put"))),
         ADM_PUT3 if three else ADM_PUT2)
    frag("%s_allow_get" % cls, f, lambda t, c=cls: Tr().b(first_if_test(find(t, c, "_do_reserve_get"))),
         "(n_reservations_get l <? n_ready_items l)" if three else "(n_reservations_get l <? n_items l)")
    frag("%s_put_room" % cls, f, lambda t, c=cls: Tr().b(second_test_of_do_put(find(t, c, "_do_put"))),
         "(n_items l + n_ready_items l <? capacity l)" if three else "(n_items l <? capacity l)")
for cls, f, occ in [("Buffer", "edges/buffer.py", "occupancy"), ("Fleet", "edges/fleet.py", "get_occupancy")]:
    frag("%s_can_put" % cls, f, lambda t, c=cls: Tr().returns(find(t, c, "can_put").body),
         "(if (n_items l + n_ready_items l =? capacity l) then false else "
         "(capacity l - n_items l - n_ready_items l >? n_reservations_put l))")
    frag("%s_can_get" % cls, f, lambda t, c=cls: Tr().returns(find(t, c, "can_get").body),
         "(if (n_ready_items l =? 0) then false else (n_ready_items l >? n_reservations_get l))")
    frag("%s_occupancy" % cls, f, lambda t, c=cls, o=occ: Tr().returns_z(find(t, c, o).body),
         "(n_items l + n_ready_items l)", kind="Z")
frag("round_robin_next", "utils/utils.py",
     lambda t: Tr(env={"i": "i", "edges": None}).z(_rr(t)), "((i + 1) mod n_edges)", kind="rr")


def state_rep_cond(tree, state):
    """the test of the `if` in Machine.update_state_rep whose body charges the elapsed time to [state]"""
    fn = find(tree, "Machine", "update_state_rep")
    for n in ast.walk(fn):
        if isinstance(n, ast.If):
            for st in n.body:
                if isinstance(st, ast.AugAssign) and isinstance(st.op, ast.Add) and state in ast.unparse(st.target) \
                        and "total_time_spent_in_states" in ast.unparse(st.target):
                    return n.test
    raise Unsupported("no branch for " + state)


MACHINE_STATES = {"IDLE_STATE": "((p =? 0) && (b =? 0))", "ALL_ACTIVE_BLOCKED_STATE": "((b >? 0) && (p =? 0))",
                  "ATLEAST_ONE_PROCESSING_STATE": "(p >? 0)", "ALL_ACTIVE_PROCESSING_STATE": "((p >? 0) && (b =? 0))",
                  "ATLEAST_ONE_BLOCKED_STATE": "(b >? 0)"}
for st_, fb in MACHINE_STATES.items():
    frag("Machine_cond_%s" % st_, "nodes/machine.py", lambda t, s_=st_: Tr().b(state_rep_cond(t, s_)), fb, kind="pb")


def _rr(t):
    e = rr_update(find(t, None, "RoundRobin_edge_selector"))
    # len(edges) -> n_edges
    class R(ast.NodeTransformer):
        def visit_Call(self, n):
            if isinstance(n.func, ast.Name) and n.func.id == "len" and isinstance(n.args[0], ast.Name) and n.args[0].id == "edges":
                return ast.Name(id="n_edges")
            return self.generic_visit(n)
    return R().visit(e)


def main():
    ap = argparse.ArgumentParser()
    ap.add_argument("--repo", default="/repo")
    ap.add_argument("--out", required=True)
    a = ap.parse_args()
    src = os.path.join(a.repo, "src", "factorysimpy")
    out = ["(* GENERATED by translator/py_to_gallina.py from %s -- do not edit, never committed *)" % src,
           "From Coq Require Import ZArith Bool.", "Open Scope Z_scope.",
           "Record lens := { " + "; ".join("n_%s : Z" % f for f in FIELDS) + "; capacity : Z }.", ""]
    report = {}
    trees = {}
    for fr in FRAGS:
        path = os.path.join(src, fr["file"])
        status, text, why = "ok", None, ""
        try:
            if path not in trees:
                trees[path] = ast.parse(open(path).read())
            if fr["kind"] == "rr":
                tr = Tr(env={"i": "i", "n_edges": "n_edges"})
                text = tr.z(_rr(trees[path]))
            else:
                text = fr["how"](trees[path])
        except Exception as ex:  # fail closed
            status, why, text = "fallback", "%s: %s" % (type(ex).__name__, ex), fr["fallback"]
        if fr["kind"] == "rr":
            out.append("Definition %s (i n_edges : Z) : Z := %s." % (fr["name"], text))
        elif fr["kind"] == "pb":
            out.append("Definition %s (p b : Z) : bool := %s." % (fr["name"], text))
        else:
            out.append("Definition %s (l : lens) : %s := %s." % (fr["name"], "Z" if fr["kind"] == "Z" else "bool", text))
        report[fr["name"]] = dict(status=status, source=fr["file"], gallina=text, why=why)
    text = "\n".join(out) + "\n"
    os.makedirs(a.out, exist_ok=True)
    target = os.path.join(a.out, "SrcFragments.v")
    if not os.path.exists(target) or open(target).read() != text:
        open(target, "w").write(text)
    json.dump(report, open(os.path.join(a.out, "report.json"), "w"), indent=1, sort_keys=True)
    return 0


if __name__ == "__main__":
    sys.exit(main())
