#!/venv/bin/python
"""Tie B: regenerate small *pure* fragments of /repo's current sources as Gallina definitions.

Fail-closed: a fragment is translated only if its Python AST lies inside the tiny supported subset
(integer / boolean expressions over len(self.<list>), self.capacity, integer literals, comparison,
and/or/not, `if c: return e` chains).  Anything else -> the fragment is reported as "fallback" and the
expected definition (the one the hand-written model uses) is emitted instead, so that the
development still builds; the check then records "tie B unavailable" for it and relies on the
differential correspondence (tie A) for that behaviour.

Output: <out>/SrcFragments.v and <out>/report.json."""
import ast, sys, os, json, argparse, hashlib

FIELDS = ["items", "ready_items", "reservations_put", "reservations_get", "reserved_events", "reserve_put_queue",
          "reserve_get_queue"]


class Unsupported(Exception):
    pass


def fld(node):
    """self.X / self.inbuiltstore.X -> X"""
    if isinstance(node, ast.Attribute) and isinstance(node.value, ast.Name) and node.value.id == "self":
        return node.attr
    if (isinstance(node, ast.Attribute) and isinstance(node.value, ast.Attribute)
            and isinstance(node.value.value, ast.Name) and node.value.value.id == "self"
            and node.value.attr in ("inbuiltstore", "belt")):
        return node.attr
    raise Unsupported(ast.dump(node)[:80])


class Tr:
    """expressions over the record `lens`; Z-valued and bool-valued"""

    def __init__(self, env=None):
        self.env = env or {}

    def z(self, n):
        if isinstance(n, ast.Constant) and isinstance(n.value, int) and not isinstance(n.value, bool):
            return "(%d)" % n.value
        if isinstance(n, ast.Call) and isinstance(n.func, ast.Name) and n.func.id == "len" and len(n.args) == 1:
            f = fld(n.args[0])
            if f not in FIELDS:
                raise Unsupported("len of " + f)
            return "(n_%s l)" % f
        if isinstance(n, ast.Name) and n.id in self.env:
            return self.env[n.id]
        if isinstance(n, ast.Subscript) and isinstance(n.value, ast.Name) and n.value.id == "previous_state_rep" \
                and isinstance(n.slice, ast.Constant) and n.slice.value in (0, 1):
            return "p" if n.slice.value == 0 else "b"
        if isinstance(n, ast.Attribute):
            f = fld(n)
            if f == "capacity":
                return "(capacity l)"
            raise Unsupported("attribute " + f)
        if isinstance(n, ast.BinOp):
            ops = {ast.Add: "+", ast.Sub: "-", ast.Mult: "*", ast.Mod: "mod"}
            if type(n.op) not in ops:
                raise Unsupported("binop")
            return "(%s %s %s)" % (self.z(n.left), ops[type(n.op)], self.z(n.right))
        if isinstance(n, ast.UnaryOp) and isinstance(n.op, ast.USub):
            return "(- %s)" % self.z(n.operand)
        raise Unsupported(ast.dump(n)[:80])

    def b(self, n):
        if isinstance(n, ast.Constant) and isinstance(n.value, bool):
            return "true" if n.value else "false"
        if isinstance(n, ast.BoolOp):
            op = "&&" if isinstance(n.op, ast.And) else "||"
            return "(" + (" %s " % op).join(self.b(v) for v in n.values) + ")"
        if isinstance(n, ast.UnaryOp) and isinstance(n.op, ast.Not):
            # `not <list>` is emptiness, `not <bool>` is negation
            try:
                return "(n_%s l =? 0)" % self._listfield(n.operand)
            except Unsupported:
                return "(negb %s)" % self.b(n.operand)
        if isinstance(n, ast.Compare) and len(n.ops) == 1 and isinstance(n.ops[0], ast.Eq) and isinstance(n.left, ast.Name) \
                and n.left.id == "previous_state_rep" and isinstance(n.comparators[0], ast.Tuple) and len(n.comparators[0].elts) == 2:
            a, c = n.comparators[0].elts
            return "((p =? %s) && (b =? %s))" % (self.z(a), self.z(c))
        if isinstance(n, ast.Compare) and len(n.ops) == 1:
            ops = {ast.Lt: "<?", ast.LtE: "<=?", ast.Gt: ">?", ast.GtE: ">=?", ast.Eq: "=?"}
            a, c = self.z(n.left), self.z(n.comparators[0])
            if isinstance(n.ops[0], ast.NotEq):
                return "(negb (%s =? %s))" % (a, c)
            if type(n.ops[0]) not in ops:
                raise Unsupported("cmp")
            return "(%s %s %s)" % (a, ops[type(n.ops[0])], c)
        # truthiness of a list
        return "(negb (n_%s l =? 0))" % self._listfield(n)

    def _listfield(self, n):
        f = fld(n)
        if f not in FIELDS:
            raise Unsupported("truthiness of " + f)
        return f

    def returns(self, body):
        """`if c: return e` chains ending in `return e` -> nested if-then-else (bool)"""
        body = [s for s in body if not (isinstance(s, ast.Expr) and isinstance(s.value, ast.Constant))]
        if not body:
            raise Unsupported("empty body")
        s = body[0]
        if isinstance(s, ast.Return):
            return self.b(s.value)
        if isinstance(s, ast.If) and not s.orelse and len(s.body) == 1 and isinstance(s.body[0], ast.Return):
            return "(if %s then %s else %s)" % (self.b(s.test), self.b(s.body[0].value), self.returns(body[1:]))
        if isinstance(s, ast.If) and len(s.body) == 1 and isinstance(s.body[0], ast.Return) and len(s.orelse) == 1 \
                and isinstance(s.orelse[0], ast.Return) and len(body) == 1:
            return "(if %s then %s else %s)" % (self.b(s.test), self.b(s.body[0].value), self.b(s.orelse[0].value))
        raise Unsupported("statement " + type(s).__name__)

    def returns_z(self, body):
        body = [s for s in body if not (isinstance(s, ast.Expr) and isinstance(s.value, ast.Constant))]
        if len(body) == 1 and isinstance(body[0], ast.Return):
            return self.z(body[0].value)
        raise Unsupported("not a single return")


def find(tree, cls, fn):
    for n in tree.body:
        if isinstance(n, ast.ClassDef) and n.name == cls:
            for m in n.body:
                if isinstance(m, ast.FunctionDef) and m.name == fn:
                    return m
    for n in tree.body:
        if isinstance(n, ast.FunctionDef) and n.name == fn and cls is None:
            return n
    raise Unsupported("no %s.%s" % (cls, fn))


def first_if_test(fn):
    """the guard of a function whose body is `if <cond>: ...` (after the docstring / prints)"""
    body = [s for s in fn.body if not (isinstance(s, ast.Expr) and isinstance(s.value, (ast.Constant, ast.Call)))]
    if len(body) == 1 and isinstance(body[0], ast.If) and not body[0].orelse:
        return body[0].test
    raise Unsupported("body is not a single guarded block")


def second_test_of_do_put(fn):
    """_do_put: the `if <capacity test>:` that follows `self.reservations_put.remove(...)`"""
    ifs = [s for s in fn.body if isinstance(s, ast.If)]
    for s in ifs:
        src = ast.unparse(s.test)
        if "capacity" in src:
            return s.test
    raise Unsupported("no capacity test in _do_put")


def rr_update(fn):
    """RoundRobin_edge_selector: `i = (i + 1) % len(edges)` inside `while True`"""
    for n in ast.walk(fn):
        if isinstance(n, ast.Assign) and len(n.targets) == 1 and isinstance(n.targets[0], ast.Name) \
                and n.targets[0].id == "i" and isinstance(n.value, ast.BinOp):
            return n.value
    raise Unsupported("no update of i")


FRAGS = []


def frag(name, file, how, fallback, kind="bool"):
    FRAGS.append(dict(name=name, file=file, how=how, fallback=fallback, kind=kind))


ADM_PUT3 = "(n_reservations_put l + n_items l + n_ready_items l <? capacity l)"
ADM_PUT2 = "(n_reservations_put l + n_items l <? capacity l)"
for cls, f, three in [("ReservableReqStore", "base/reservable_req_store.py", False),
                      ("ReservablePriorityReqStore", "base/reservable_priority_req_store.py", False),
                      ("ReservablePriorityReqFilterStore", "base/reservable_priority_req_filter_store.py", False),
                      ("BufferStore", "base/buffer_store.py", True),
                      ("FleetStore", "base/fleet_store.py", True)]:
    frag("%s_allow_put" % cls, f, lambda t, c=cls: Tr().b(first_if_test(find(t, c, "_do_reserve_put"))),
         ADM_PUT3 if three else ADM_PUT2)
    frag("%s_allow_get" % cls, f, lambda t, c=cls: Tr().b(first_if_test(find(t, c, "_do_reserve_get"))),
         "(n_reservations_get l <? n_ready_items l)" if three else "(n_reservations_get l <? n_items l)")
    frag("%s_put_room" % cls, f, lambda t, c=cls: Tr().b(second_test_of_do_put(find(t, c, "_do_put"))),
         "(n_items l + n_ready_items l <? capacity l)" if three else "(n_items l <? capacity l)")
for cls, f, occ in [("Buffer", "edges/buffer.py", "occupancy"), ("Fleet", "edges/fleet.py", "get_occupancy")]:
    frag("%s_can_put" % cls, f, lambda t, c=cls: Tr().returns(find(t, c, "can_put").body),
         "(if (n_items l + n_ready_items l =? capacity l) then false else "
         "(capacity l - n_items l - n_ready_items l >? n_reservations_put l))")
    frag("%s_can_get" % cls, f, lambda t, c=cls: Tr().returns(find(t, c, "can_get").body),
         "(if (n_ready_items l =? 0) then false else (n_ready_items l >? n_reservations_get l))")
    frag("%s_occupancy" % cls, f, lambda t, c=cls, o=occ: Tr().returns_z(find(t, c, o).body),
         "(n_items l + n_ready_items l)", kind="Z")
# the continuous conveyor's stall test (C13): stalled = an item waits at the exit
frag("ContBelt_is_stalled", "edges/continuous_conveyor.py", lambda t: Tr().returns(find(t, "ConveyorBelt", "is_stalled").body),
     "(if (negb (n_ready_items l =? 0)) then true else false)")
frag("round_robin_next", "utils/utils.py",
     lambda t: Tr(env={"i": "i", "edges": None}).z(_rr(t)), "((i + 1) mod n_edges)", kind="rr")


def slot_order(tree, cls, pull_attr):
    """statement order in <cls>.behaviour: is the worker slot requested (self.worker_thread.request())
    textually before the first call of <pull_attr> (reserve_get / get with one argument) on an in-edge?"""
    fn = find(tree, cls, "behaviour")
    req, pull = [], []
    for n in ast.walk(fn):
        if isinstance(n, ast.Call) and isinstance(n.func, ast.Attribute):
            recv = ast.unparse(n.func.value)
            if n.func.attr == "request" and recv == "self.worker_thread":
                req.append((n.lineno, n.col_offset))
            if n.func.attr == pull_attr and ("edge" in recv or "outstore" in recv) and \
                    len(n.args) == (0 if pull_attr == "reserve_get" else 1) and not n.keywords:
                pull.append((n.lineno, n.col_offset))
    if not req or not pull:
        raise Unsupported("%s.behaviour: no slot request or no %s call found" % (cls, pull_attr))
    return "true" if min(req) < min(pull) else "false"


def slot_before_call(tree, cls, callee):
    """statement order in <cls>.behaviour: is the worker slot requested textually before the first call of self.<callee>()?"""
    fn = find(tree, cls, "behaviour")
    req, call = [], []
    for n in ast.walk(fn):
        if isinstance(n, ast.Call) and isinstance(n.func, ast.Attribute):
            recv = ast.unparse(n.func.value)
            if n.func.attr == "request" and recv == "self.worker_thread":
                req.append((n.lineno, n.col_offset))
            if n.func.attr == callee and recv == "self":
                call.append((n.lineno, n.col_offset))
    if not req or not call:
        raise Unsupported("%s.behaviour: no slot request or no %s call found" % (cls, callee))
    return "true" if min(req) < min(call) else "false"


def combiner_recipe_loop(tree, what):
    """Combiner.behaviour: `for edge_idx in range(<start>, len(self.in_edges)): qty = self.target_quantity_of_each_item[<index>]`
    -> the start of the range / the index expression as a function of edge_idx"""
    fn = find(tree, "Combiner", "behaviour")
    for n in ast.walk(fn):
        if isinstance(n, ast.For) and isinstance(n.target, ast.Name) and isinstance(n.iter, ast.Call) \
                and getattr(n.iter.func, "id", None) == "range" and len(n.iter.args) == 2 \
                and ast.unparse(n.iter.args[1]) == "len(self.in_edges)":
            var = n.target.id
            subs = [m for m in ast.walk(n) if isinstance(m, ast.Subscript) and ast.unparse(m.value) == "self.target_quantity_of_each_item"]
            if len(subs) != 1:
                continue
            if what == "start":
                return Tr().z(n.iter.args[0])
            return Tr(env={var: "edge_idx"}).z(subs[0].slice)
    raise Unsupported("no `for <v> in range(_, len(self.in_edges))` reading target_quantity_of_each_item[...] in Combiner.behaviour")


frag("Combiner_first_ingredient_edge", "nodes/combiner.py", lambda t: combiner_recipe_loop(t, "start"), "1", kind="constZ")
frag("Combiner_recipe_index", "nodes/combiner.py", lambda t: combiner_recipe_loop(t, "index"), "edge_idx", kind="idx")
frag("Machine_slot_before_reserve", "nodes/machine.py", lambda t: slot_order(t, "Machine", "reserve_get"), "true", kind="const")
frag("Combiner_slot_before_reserve", "nodes/combiner.py", lambda t: slot_order(t, "Combiner", "reserve_get"), "true", kind="const")
frag("Machine_slot_before_index_draw", "nodes/machine.py", lambda t: slot_before_call(t, "Machine", "_get_in_edge_index"), "true", kind="const")
frag("Splitter_slot_before_get", "nodes/splitter.py", lambda t: slot_order(t, "Splitter", "get"), "true", kind="const")


def state_rep_cond(tree, state):
    """the test of the `if` in Machine.update_state_rep whose body charges the elapsed time to [state]"""
    fn = find(tree, "Machine", "update_state_rep")
    for n in ast.walk(fn):
        if isinstance(n, ast.If):
            for st in n.body:
                if isinstance(st, ast.AugAssign) and isinstance(st.op, ast.Add) and state in ast.unparse(st.target) \
                        and "total_time_spent_in_states" in ast.unparse(st.target):
                    return n.test
    raise Unsupported("no branch for " + state)


MACHINE_STATES = {"IDLE_STATE": "((p =? 0) && (b =? 0))", "ALL_ACTIVE_BLOCKED_STATE": "((b >? 0) && (p =? 0))",
                  "ATLEAST_ONE_PROCESSING_STATE": "(p >? 0)", "ALL_ACTIVE_PROCESSING_STATE": "((p >? 0) && (b =? 0))",
                  "ATLEAST_ONE_BLOCKED_STATE": "(b >? 0)"}
for st_, fb in MACHINE_STATES.items():
    frag("Machine_cond_%s" % st_, "nodes/machine.py", lambda t, s_=st_: Tr().b(state_rep_cond(t, s_)), fb, kind="pb")


def _rr(t):
    e = rr_update(find(t, None, "RoundRobin_edge_selector"))
    # len(edges) -> n_edges
    class R(ast.NodeTransformer):
        def visit_Call(self, n):
            if isinstance(n.func, ast.Name) and n.func.id == "len" and isinstance(n.args[0], ast.Name) and n.args[0].id == "edges":
                return ast.Name(id="n_edges")
            return self.generic_visit(n)
    return R().visit(e)


# ---------------------------------------------------------------------------------------------------
# the admission test of the two belt stores (BeltStore._do_reserve_put): the decision structure is
# translated (nested ifs -> one boolean over the record `glens`); the two local quantities
# time_on_belt / time_on_belt_last_item must be defined by exactly the expected expressions (the model
# computes them as TBelt.tob), otherwise the fragment falls back.
GL_NAMES = {"time_on_belt": "(g_tob_last g)", "time_on_belt_last_item": "(g_tob_first g)"}
TOB_EXPECTED = {
    "time_on_belt": ["self.env.now - self.items[-1][0].conveyor_entry_time - self.items[-1][0].total_interruption_time",
                     "self.env.now - self.items[-1][0].conveyor_entry_time - (self.env.now - self.items[-1][0].interruption_start_time) - self.items[-1][0].total_interruption_time"],
    "time_on_belt_last_item": ["self.env.now - self.items[0][0].conveyor_entry_time - self.items[0][0].total_interruption_time",
                               "self.env.now - self.items[0][0].conveyor_entry_time - (self.env.now - self.items[0][0].interruption_start_time) - self.items[0][0].total_interruption_time"]}
TOB_GUARD = {"time_on_belt": "self.items[-1][0].interruption_start_time is not None",
             "time_on_belt_last_item": "self.items[0][0].interruption_start_time is not None"}


class GTr:
    """expressions of the belt admission test over the record glens"""

    def z(self, n):
        src = ast.unparse(n)
        if isinstance(n, ast.Name) and n.id in GL_NAMES:
            return GL_NAMES[n.id]
        if isinstance(n, ast.Call) and isinstance(n.func, ast.Name) and n.func.id == "len" and len(n.args) == 1:
            f = fld(n.args[0])
            if f in ("reservations_put", "items", "ready_items"):
                return "(g_n_%s g)" % f
            raise Unsupported("len of " + f)
        if src == "self.capacity":
            return "(g_cap g)"
        if src == "self.env.now":
            return "(g_now g)"
        if src in ("self.items[-1][0].length / self.speed", "self.delay"):
            return "(g_u g)"
        if src == "self.items[0][0].length * self.capacity / self.speed":
            return "(g_D g)"
        if src == "self.items[-1][0].conveyor_entry_time":
            return "(g_entry_last g)"
        if isinstance(n, ast.Constant) and isinstance(n.value, int) and not isinstance(n.value, bool):
            return "(%d)" % n.value
        if isinstance(n, ast.BinOp) and isinstance(n.op, (ast.Add, ast.Sub)):
            return "(%s %s %s)" % (self.z(n.left), "+" if isinstance(n.op, ast.Add) else "-", self.z(n.right))
        raise Unsupported("belt term " + src[:60])

    def flag(self, n):
        src = ast.unparse(n)
        return {"self.accumulation_mode_indicator": "(g_acc g)", "self.noaccumulation_mode_on": "(g_noacc g)",
                "self.one_item_inserted": "(g_one g)"}.get(src)

    def b(self, n):
        src = ast.unparse(n)
        if isinstance(n, ast.BoolOp):
            # np.abs(a - b) < 1e-05 or a > b   ==   b <= a   (on values whose differences are not below the tolerance)
            if isinstance(n.op, ast.Or) and len(n.values) == 2:
                l, r = n.values
                if (isinstance(l, ast.Compare) and isinstance(l.ops[0], ast.Lt) and isinstance(l.left, ast.Call)
                        and ast.unparse(l.left.func) == "np.abs" and isinstance(l.left.args[0], ast.BinOp)
                        and isinstance(l.left.args[0].op, ast.Sub) and isinstance(l.comparators[0], ast.Constant)
                        and l.comparators[0].value == 1e-05 and isinstance(r, ast.Compare) and isinstance(r.ops[0], ast.Gt)
                        and ast.unparse(r.left) == ast.unparse(l.left.args[0].left)
                        and ast.unparse(r.comparators[0]) == ast.unparse(l.left.args[0].right)):
                    return "(%s <=? %s)" % (self.z(r.comparators[0]), self.z(r.left))
            op = "&&" if isinstance(n.op, ast.And) else "||"
            return "(" + (" %s " % op).join(self.b(v) for v in n.values) + ")"
        if isinstance(n, ast.UnaryOp) and isinstance(n.op, ast.Not):
            return "(negb %s)" % self.b(n.operand)
        if self.flag(n):
            return self.flag(n)
        if isinstance(n, ast.Compare) and len(n.ops) == 1:
            l, r = n.left, n.comparators[0]
            if self.flag(l) and isinstance(r, ast.Constant) and isinstance(r.value, bool) and isinstance(n.ops[0], ast.Eq):
                return self.flag(l) if r.value else "(negb %s)" % self.flag(l)
            ops = {ast.Lt: "%s <? %s", ast.LtE: "%s <=? %s", ast.Gt: "%s >? %s", ast.GtE: "%s >=? %s", ast.Eq: "%s =? %s"}
            if type(n.ops[0]) in ops:
                return "(" + ops[type(n.ops[0])] % (self.z(l), self.z(r)) + ")"
        if src in ("self.items", "self.reservations_put"):
            return "(negb (g_n_%s g =? 0))" % src.split(".")[1]
        raise Unsupported("belt test " + src[:60])

    def grants(self, stmts):
        """boolean: executing these statements reaches the grant (reservations_put.append / dry-run True)"""
        guard = []       # negated early-return conditions
        alts = []
        for s in stmts:
            if isinstance(s, ast.Expr) and isinstance(s.value, ast.Constant):
                continue
            if isinstance(s, ast.Expr) and isinstance(s.value, ast.Call):
                src = ast.unparse(s.value)
                if src.startswith("print("):
                    continue
                if src in ("self.reservations_put.append(event)", "event.succeed()"):
                    alts.append("true")
                    break
                raise Unsupported("call " + src[:50])
            if isinstance(s, ast.Assign) and len(s.targets) == 1 and isinstance(s.targets[0], ast.Name) and s.targets[0].id in TOB_EXPECTED:
                if ast.unparse(s.value) != TOB_EXPECTED[s.targets[0].id][0]:
                    raise Unsupported("definition of %s changed" % s.targets[0].id)
                continue
            if isinstance(s, ast.Assign) and ast.unparse(s) == "self.one_item_inserted = True":
                continue
            if isinstance(s, ast.If):
                tsrc = ast.unparse(s.test)
                if tsrc == "dry_run" and len(s.body) == 1 and ast.unparse(s.body[0]) == "return True" and not s.orelse:
                    continue                     # the grant follows
                if tsrc in TOB_GUARD.values() and not s.orelse:
                    body = [b_ for b_ in s.body if not (isinstance(b_, ast.Expr) and ast.unparse(b_.value).startswith("print("))]
                    name = [k for k, v in TOB_GUARD.items() if v == tsrc][0]
                    if len(body) == 1 and isinstance(body[0], ast.Assign) and ast.unparse(body[0].targets[0]) == name \
                            and ast.unparse(body[0].value) == TOB_EXPECTED[name][1]:
                        continue
                    raise Unsupported("interrupted-time correction of %s changed" % name)
                if tsrc == "self.noaccumulation_mode_on" and all(ast.unparse(b_) == "self.one_item_inserted = True" for b_ in s.body) and not s.orelse:
                    continue
                if not s.orelse and len(s.body) == 1 and isinstance(s.body[0], ast.Return) and s.body[0].value is None:
                    guard.append("(negb %s)" % self.b(s.test))
                    continue
                c = self.b(s.test)
                th = self.grants(s.body)
                el = self.grants(s.orelse) if s.orelse else "false"
                alts.append("(if %s then %s else %s)" % (c, th, el))
                continue
            if isinstance(s, ast.Pass):
                continue
            raise Unsupported("statement " + ast.unparse(s)[:50])
        body = "(" + " || ".join(alts) + ")" if alts else "false"
        return "(" + " && ".join(guard + [body]) + ")" if guard else body


GATE_FALLBACK_CONT = ("((negb (negb (g_n_reservations_put g =? 0))) && ((if (negb (g_n_items g =? 0)) then ((if ((g_n_reservations_put g + g_n_items g) + g_n_ready_items g <? g_cap g) "
                      "then ((if ((g_acc g) || ((negb (g_noacc g)) && (g_n_ready_items g =? (0))) || ((g_noacc g) && (g_n_ready_items g =? (0)))) then ((if ((g_u g) <=? (g_tob_last g)) "
                      "then ((if ((g_tob_first g) >=? (g_D g)) then false else true)) else false)) else false)) else false)) else "
                      "(if ((((g_n_reservations_put g + g_n_items g) + g_n_ready_items g) <? (g_cap g)) && ((g_acc g) || ((g_n_ready_items g) =? (0)))) then true else false))))")


# ---------------------------------------------------------------- fleet departure, statistics arithmetic
class NTr(Tr):
    """expressions over named scalars: `names` maps (normalised) Python source text to a Gallina variable"""

    def __init__(self, names):
        super().__init__()
        self.names = {ast.unparse(ast.parse(k, mode="eval").body): v for k, v in names.items()}

    def z(self, n):
        src = ast.unparse(n)
        if src in self.names:
            return self.names[src]
        return super().z(n)


def fleet_capacity_trigger(tree):
    """FleetStore._do_put: the test of the `if ... == self.capacity:` whose body triggers activate_fleet"""
    fn = find(tree, "FleetStore", "_do_put")
    hits = [n for n in ast.walk(fn) if isinstance(n, ast.If) and "capacity" in ast.unparse(n.test)
            and "activate_fleet" in ast.unparse(n) and "append" not in "".join(ast.unparse(x) for x in n.body)]
    if len(hits) != 1:
        raise Unsupported("%d candidate capacity-trigger tests in FleetStore._do_put" % len(hits))
    return Tr().b(hits[0].test)


def fleet_activation_guard(tree):
    """FleetStore.fleet_activation_process: the test of the `if` under which a batch is sent off"""
    fn = find(tree, "FleetStore", "fleet_activation_process")
    hits = [n for n in ast.walk(fn) if isinstance(n, ast.If) and "move_to_ready_items" in ast.unparse(n)]
    if not hits:
        raise Unsupported("no departure branch")
    outer = min(hits, key=lambda n: (n.lineno, n.col_offset))
    return Tr().b(outer.test)


def fleet_transit_legs(tree):
    """FleetStore.move_to_ready_items: how many `yield self.env.timeout(self.transit_delay)` precede the unloading loop"""
    fn = find(tree, "FleetStore", "move_to_ready_items")
    loops = [n for n in ast.walk(fn) if isinstance(n, ast.For)]
    if len(loops) != 1:
        raise Unsupported("expected one unloading loop")
    legs = 0
    for n in ast.walk(fn):
        if isinstance(n, ast.Yield) and n.value is not None and n.lineno < loops[0].lineno:
            if ast.unparse(n.value) != "self.env.timeout(self.transit_delay)":
                raise Unsupported("a wait that is not a transit leg: " + ast.unparse(n.value))
            legs += 1
    later = [n for n in ast.walk(fn) if isinstance(n, ast.Yield) and n.lineno >= loops[0].lineno]
    if later:
        raise Unsupported("a wait inside or after the unloading loop")
    return "(%d)" % legs


def assigned_value(fn, target_src):
    """the right-hand side of the single plain or augmented assignment to <target_src> in fn, together with the
    local definitions (name = expr) that textually precede it"""
    hits, locals_ = [], []
    for n in ast.walk(fn):
        if isinstance(n, ast.Assign) and len(n.targets) == 1:
            if ast.unparse(n.targets[0]) == target_src:
                hits.append(n)
            elif isinstance(n.targets[0], ast.Name):
                locals_.append(n)
        if isinstance(n, ast.AugAssign) and ast.unparse(n.target) == target_src:
            if not isinstance(n.op, ast.Add):
                raise Unsupported("augmented assignment that is not +=")
            hits.append(n)
    if len(hits) != 1:
        raise Unsupported("%d assignments to %s" % (len(hits), target_src))
    return hits[0].value, [l for l in locals_ if l.lineno < hits[0].lineno]


def scalar_expr(fn, target_src, names):
    value, locs = assigned_value(fn, target_src)
    tr = NTr(names)
    for l in sorted(locs, key=lambda n: n.lineno):
        try:
            tr.names[l.targets[0].id] = tr.z(l.value)
        except Unsupported:
            pass
    return tr.z(value)


def node_elapsed(tree):
    fn = find(tree, "Node", "update_state")
    return scalar_expr(fn, "elapsed", {"current_time": "now_", "self.stats['last_state_change_time']": "last"})


def node_state_charge(tree):
    """Node.update_state: total[state] = total.get(state, 0.0) + elapsed  -> old + (now - last)"""
    fn = find(tree, "Node", "update_state")
    return scalar_expr(fn, "self.stats['total_time_spent_in_states'][self.state]",
                       {"current_time": "now_", "self.stats['last_state_change_time']": "last",
                        "self.stats['total_time_spent_in_states'].get(self.state, 0.0)": "old"})


def sink_cycle(tree):
    fn = find(tree, "Sink", "behaviour")
    return scalar_expr(fn, "self.stats['total_cycle_time']",
                       {"self.env.now": "now_", "self.item_in_process.timestamp_creation": "created"})


LEVEL_NAMES = {"self.env.now": "now_", "self._last_level_change_time": "lastt", "self._last_num_items": "lastn"}
frag("FleetStore_capacity_trigger", "base/fleet_store.py", fleet_capacity_trigger, "(n_items l + n_ready_items l =? capacity l)")
frag("FleetStore_activation_guard", "base/fleet_store.py", fleet_activation_guard, "(negb (n_items l =? 0))")
frag("FleetStore_transit_legs", "base/fleet_store.py", fleet_transit_legs, "2", kind="constZ")
frag("Node_elapsed", "nodes/node.py", node_elapsed, "(now_ - last)", kind="sig:(now_ last : Z) : Z")
frag("Node_state_charge", "nodes/node.py", node_state_charge, "(old + (now_ - last))", kind="sig:(old now_ last : Z) : Z")
frag("Sink_cycle_increment", "nodes/sink.py", sink_cycle, "(now_ - created)", kind="sig:(now_ created : Z) : Z")
for cls_, f_ in (("BufferStore", "base/buffer_store.py"), ("FleetStore", "base/fleet_store.py")):
    frag("%s_level_increment" % cls_, f_,
         lambda t, c=cls_: scalar_expr(find(t, c, "_update_time_averaged_level"), "self._weighted_sum", LEVEL_NAMES),
         "(lastn * (now_ - lastt))", kind="sig:(now_ lastt lastn : Z) : Z")
    frag("%s_level_count" % cls_, f_,
         lambda t, c=cls_: Tr().z(assigned_value(find(t, c, "_update_time_averaged_level"), "self._last_num_items")[0]),
         "(n_items l + n_ready_items l)", kind="Z")


# ---------------------------------------------------------------- the commit protocol of the node processes
# after `yield self.env.any_of(L)`:   X = next((event for event in L if event.<flag>), None)
#                                      idx = L.index(X)            [L.remove(X)]
#                                      for event in L: [if event is not X:] event.resourcename.reserve_{put,get}_cancel(event)
# regenerated as three Gallina functions over lists of abstract events (SrcFragments' pyev): which event is chosen, which
# index is recorded, which events are withdrawn.
def _blocks(fn):
    """every statement list inside fn"""
    for n in ast.walk(fn):
        for f in ("body", "orelse", "finalbody"):
            b = getattr(n, f, None)
            if isinstance(b, list) and b and isinstance(b[0], ast.stmt):
                yield b


def _pick_of(stmt):
    """`X = next((event for event in L if event.<flag>), None)` -> (X source, L source, var, flag) or None"""
    if not (isinstance(stmt, ast.Assign) and len(stmt.targets) == 1 and isinstance(stmt.value, ast.Call)):
        return None
    c = stmt.value
    if not (isinstance(c.func, ast.Name) and c.func.id == "next" and len(c.args) == 2 and isinstance(c.args[0], ast.GeneratorExp)):
        return None
    g = c.args[0]
    if len(g.generators) != 1 or not isinstance(g.elt, ast.Name) or not isinstance(g.generators[0].target, ast.Name):
        return None
    gen = g.generators[0]
    if gen.target.id != g.elt.id or len(gen.ifs) != 1:
        return None
    t = gen.ifs[0]
    if not (isinstance(t, ast.Attribute) and isinstance(t.value, ast.Name) and t.value.id == g.elt.id):
        raise Unsupported("selection test is not `event.<flag>`: " + ast.unparse(t))
    if not (isinstance(c.args[1], ast.Constant) and c.args[1].value is None):
        raise Unsupported("default of next() is not None")
    return ast.unparse(stmt.targets[0]), ast.unparse(gen.iter), g.elt.id, t.attr


def _cancel_call(node, var):
    """event.resourcename.reserve_put_cancel(event) -> 'put' / 'get'"""
    if isinstance(node, ast.Call) and isinstance(node.func, ast.Attribute) and node.func.attr in ("reserve_put_cancel", "reserve_get_cancel") \
            and ast.unparse(node.func.value) == var + ".resourcename" and len(node.args) == 1 and not node.keywords \
            and ast.unparse(node.args[0]) == var:
        return node.func.attr[8:11]
    return None


def _withdraw_loop(loop, X):
    """the body of `for event in L:` -> (guarded by `event is not X`?, side); anything the loop does besides cancelling
    (in particular any change of the list it walks) is unsupported"""
    var = loop.target.id
    found = []

    def walk(stmts, guarded):
        for st in stmts:
            if isinstance(st, ast.Expr) and isinstance(st.value, ast.Call):
                side = _cancel_call(st.value, var)
                if side:
                    found.append((guarded, side))
                    continue
                if isinstance(st.value.func, ast.Name) and st.value.func.id == "print":
                    continue
                raise Unsupported("call in the withdrawal loop: " + ast.unparse(st)[:80])
            if isinstance(st, ast.Assign) and len(st.targets) == 1 and isinstance(st.targets[0], ast.Name):
                if isinstance(st.value, ast.Constant):
                    continue
                side = _cancel_call(st.value, var)
                if side:
                    found.append((guarded, side))
                    continue
                raise Unsupported("assignment in the withdrawal loop: " + ast.unparse(st)[:80])
            if isinstance(st, ast.If) and not st.orelse:
                src = ast.unparse(st.test)
                if src == "%s is not %s" % (var, X):
                    walk(st.body, True)
                    continue
                if isinstance(st.test, ast.UnaryOp) and isinstance(st.test.op, ast.Not) and isinstance(st.test.operand, ast.Name) \
                        and all(isinstance(x, ast.Raise) for x in st.body):
                    continue            # `if not cancelled: raise ...`
                raise Unsupported("test in the withdrawal loop: " + src[:80])
            if isinstance(st, (ast.Raise, ast.Pass)):
                continue
            raise Unsupported("statement in the withdrawal loop: " + ast.unparse(st)[:80])
    walk(loop.body, False)
    if len(found) != 1:
        raise Unsupported("%d cancel calls in the withdrawal loop" % len(found))
    return found[0]


def commit_sites(tree, cls, meth, lst, need_withdraw=True):
    """all commit sequences over the list <lst> in <cls>.<meth>: [(pick, index, withdraw, side)] as Gallina texts"""
    fn = find(tree, cls, meth)
    out = []
    for blk in _blocks(fn):
        for k, st in enumerate(blk):
            pk = _pick_of(st)
            if not pk or pk[1] != lst:
                continue
            X, L, var, flag = pk
            if flag not in ("triggered", "processed", "ok"):
                raise Unsupported("selection by event.%s" % flag)
            pick = "find (fun event => ev_%s event) l" % flag
            cur, index, withdraw, side = "l", None, None, None
            for st2 in (blk[k + 1:] if need_withdraw else []):
                src = ast.unparse(st2)
                if any(isinstance(n, ast.Call) and ast.unparse(n) == "%s.index(%s)" % (L, X) for n in ast.walk(st2)) \
                        and not isinstance(st2, (ast.For, ast.While, ast.If)):
                    if index is None:
                        index = "pyindex x (%s)" % cur
                    continue
                if isinstance(st2, ast.Expr) and src == "%s.remove(%s)" % (L, X):
                    cur = "pyremove x (%s)" % cur
                    continue
                if isinstance(st2, ast.For) and isinstance(st2.target, ast.Name) and ast.unparse(st2.iter) == L:
                    guarded, side = _withdraw_loop(st2, X)
                    withdraw = ("filter (fun event => negb (ev_is event x)) (%s)" % cur) if guarded else "(%s)" % cur
                    break
                # nothing else may touch the list between the choice and the withdrawal
                for n in ast.walk(st2):
                    if isinstance(n, ast.Call) and isinstance(n.func, ast.Attribute) and ast.unparse(n.func.value) == L \
                            and n.func.attr in ("remove", "pop", "append", "insert", "clear", "sort", "reverse", "extend"):
                        raise Unsupported("the event list is changed before the withdrawal: " + src[:80])
                    if isinstance(n, (ast.Assign, ast.AugAssign)) and any(ast.unparse(t) == L for t in (n.targets if isinstance(n, ast.Assign) else [n.target])):
                        raise Unsupported("the event list is reassigned before the withdrawal: " + src[:80])
            out.append((pick, index, withdraw, side))
    if not out:
        raise Unsupported("no `next((event for event in %s if ...), None)` in %s.%s" % (lst, cls, meth))
    if any(o != out[0] for o in out):
        raise Unsupported("%s.%s: the commit sequences over %s differ from each other" % (cls, meth, lst))
    return out[0]


def commit_frag(tree, cls, meth, lst, what, side=None):
    pick, index, withdraw, sd = commit_sites(tree, cls, meth, lst, need_withdraw=(what != "pick" or side is not None))
    if what == "pick":
        return pick
    if what == "index":
        if index is None:
            raise Unsupported("no `%s.index(chosen)` after the choice" % lst)
        return index
    if withdraw is None:
        raise Unsupported("no withdrawal loop over %s after the choice" % lst)
    if sd != side:
        raise Unsupported("withdrawal calls reserve_%s_cancel, expected reserve_%s_cancel" % (sd, side))
    return withdraw


COMMIT_SITES = [("Machine_worker", "nodes/machine.py", "Machine", "worker", "out_edge_events", "put", "guard"),
                ("Splitter_worker", "nodes/splitter.py", "Splitter", "worker", "out_edge_events", "put", "guard"),
                ("Combiner_worker", "nodes/combiner.py", "Combiner", "worker", "out_edge_events", "put", "guard"),
                ("Source_behaviour", "nodes/source.py", "Source", "behaviour", "self.out_edge_events", "put", "remove"),
                ("Machine_behaviour", "nodes/machine.py", "Machine", "behaviour", "self.in_edge_events", "get", "guard"),
                ("Splitter_behaviour", "nodes/splitter.py", "Splitter", "behaviour", "self.in_edge_events", "get", "guard"),
                ("Sink_behaviour", "nodes/sink.py", "Sink", "behaviour", "self.in_edge_events", "get", "remove"),
                ("Combiner_gather", "nodes/combiner.py", "Combiner", "behaviour", "reservation_tokens", None, None)]
for nm, f, cls, meth, lst, side, form in COMMIT_SITES:
    frag("%s_pick" % nm, f, lambda t, c=cls, m=meth, l=lst, sd=side: commit_frag(t, c, m, l, "pick", sd),
         "find (fun event => ev_triggered event) l", kind="sig:(l : list pyev) : option pyev")
    if side:
        frag("%s_index" % nm, f, lambda t, c=cls, m=meth, l=lst: commit_frag(t, c, m, l, "index"),
             "pyindex x (l)", kind="sig:(l : list pyev) (x : pyev) : nat")
        frag("%s_withdraw" % nm, f, lambda t, c=cls, m=meth, l=lst, sd=side: commit_frag(t, c, m, l, "withdraw", sd),
             "filter (fun event => negb (ev_is event x)) (l)" if form == "guard" else "(pyremove x (l))",
             kind="sig:(l : list pyev) (x : pyev) : list pyev")


# ---------------------------------------------------------------- the probe loop of the non-blocking FIRST_AVAILABLE paths
#   X = None
#   for edge in self.out_edges:
#       if edge.can_put():
#           X = edge
#           break
#   if X is not None: ... self._push_item(item, X) ...   else: ... self.stats["num_item_discarded"] += 1
# regenerated as: which edge is chosen (a function over lists of abstract edges, SrcFragments' pyedge) and whether the item is
# pushed (true) or dropped (false) given the outcome of the search.
def probe_sites(tree, cls, meth):
    fn = find(tree, cls, meth)
    out = []
    for blk in _blocks(fn):
        for k, st in enumerate(blk):
            if not (isinstance(st, ast.For) and isinstance(st.target, ast.Name) and ast.unparse(st.iter) == "self.out_edges" and not st.orelse):
                continue
            var = st.target.id
            body = [b for b in st.body if not (isinstance(b, ast.Expr) and isinstance(b.value, ast.Call) and getattr(b.value.func, "id", "") == "print")]
            if not (len(body) == 1 and isinstance(body[0], ast.If) and not body[0].orelse):
                if any(isinstance(n, ast.Call) and ast.unparse(n) == var + ".can_put()" for n in ast.walk(st)):
                    raise Unsupported("%s.%s: probe loop body is not a single `if %s.can_put():`" % (cls, meth, var))
                continue
            iff = body[0]
            if ast.unparse(iff.test) != var + ".can_put()":
                if "can_put" in ast.unparse(iff.test):
                    raise Unsupported("%s.%s: probe test is `%s`" % (cls, meth, ast.unparse(iff.test)))
                continue
            inner = [b for b in iff.body if not (isinstance(b, ast.Expr) and isinstance(b.value, ast.Call) and getattr(b.value.func, "id", "") == "print")]
            if not (len(inner) == 2 and isinstance(inner[0], ast.Assign) and len(inner[0].targets) == 1 and isinstance(inner[0].targets[0], ast.Name)
                    and ast.unparse(inner[0].value) == var and isinstance(inner[1], ast.Break)):
                raise Unsupported("%s.%s: the probe loop does not `X = %s; break` on success" % (cls, meth, var))
            X = inner[0].targets[0].id
            # X = None just before the loop, the decision right after it
            if k == 0 or ast.unparse(blk[k - 1]) != "%s = None" % X:
                raise Unsupported("%s.%s: %s is not reset to None before the probe loop" % (cls, meth, X))
            if k + 1 >= len(blk) or not isinstance(blk[k + 1], ast.If) or ast.unparse(blk[k + 1].test) != "%s is not None" % X:
                raise Unsupported("%s.%s: no `if %s is not None:` after the probe loop" % (cls, meth, X))
            dec = blk[k + 1]

            def has(stmts, what):
                for s_ in stmts:
                    for n in ast.walk(s_):
                        if what == "push" and isinstance(n, ast.Call) and ast.unparse(n.func) == "self._push_item" and len(n.args) == 2 \
                                and ast.unparse(n.args[1]) == X:
                            return True
                        if what == "drop" and isinstance(n, ast.AugAssign) and isinstance(n.op, ast.Add) \
                                and ast.unparse(n.target) in ("self.stats['num_item_discarded']", 'self.stats["num_item_discarded"]') \
                                and ast.unparse(n.value) == "1":
                            return True
                return False
            yes = (has(dec.body, "push"), has(dec.body, "drop"))
            no = (has(dec.orelse, "push"), has(dec.orelse, "drop"))
            if yes[0] == yes[1] or no[0] == no[1]:
                raise Unsupported("%s.%s: a branch after the probe loop neither / both pushes and drops" % (cls, meth))
            out.append(("find (fun edge => ed_can_put edge) l",
                        "match r with Some _ => %s | None => %s end" % ("true" if yes[0] else "false", "true" if no[0] else "false")))
    if not out:
        raise Unsupported("no probe loop over self.out_edges in %s.%s" % (cls, meth))
    if any(o != out[0] for o in out):
        raise Unsupported("%s.%s: the probe loops differ from each other" % (cls, meth))
    return out[0]


def index_probe(tree, cls, meth):
    """the room test of the non-blocking index-policy path: `if outedge_to_put.can_put():` -- a CALL"""
    fn = find(tree, cls, meth)
    tests = [n.test for n in ast.walk(fn) if isinstance(n, ast.If) and "outedge_to_put" in ast.unparse(n.test) and "can_put" in ast.unparse(n.test)]
    if not tests:
        raise Unsupported("no room test on outedge_to_put in %s.%s" % (cls, meth))
    if all(ast.unparse(t) == "outedge_to_put.can_put()" for t in tests):
        return "ed_can_put edge"
    if all(ast.unparse(t) == "outedge_to_put.can_put" for t in tests):
        return "true"                       # a bound method is always true
    raise Unsupported("room test `%s`" % ast.unparse(tests[0]))


PROBE_SITES = [("Source_behaviour", "nodes/source.py", "Source", "behaviour"), ("Machine_worker", "nodes/machine.py", "Machine", "worker"),
               ("Splitter_worker", "nodes/splitter.py", "Splitter", "worker"), ("Combiner_worker", "nodes/combiner.py", "Combiner", "worker")]
for nm, f, cls, meth in PROBE_SITES:
    frag("%s_probe" % nm, f, lambda t, c=cls, m=meth: probe_sites(t, c, m)[0],
         "find (fun edge => ed_can_put edge) l", kind="sig:(l : list pyedge) : option pyedge")
    frag("%s_probe_pushes" % nm, f, lambda t, c=cls, m=meth: probe_sites(t, c, m)[1],
         "match r with Some _ => true | None => false end", kind="sig:(r : option pyedge) : bool")
    frag("%s_index_probe" % nm, f, lambda t, c=cls, m=meth: index_probe(t, c, m), "ed_can_put edge", kind="sig:(edge : pyedge) : bool")


# ---------------------------------------------------------------- the Buffer / Fleet edge wrappers only delegate
def delegates(tree, cls, meth):
    """<cls>.<meth> touches self.inbuiltstore through exactly ONE call of the store's method of the same name (arguments are
    the wrapper's own) -- nothing else is called on the store and no attribute of it is assigned; reading its lists (for the
    statistics / a trace line) is allowed.  The edge objects of the model ARE their stores, so anything more here is unmodelled."""
    fn = find(tree, cls, meth)
    calls = []
    for n in ast.walk(fn):
        if isinstance(n, ast.Call) and isinstance(n.func, ast.Attribute) and ast.unparse(n.func.value) == "self.inbuiltstore":
            calls.append(n.func.attr)
        if isinstance(n, (ast.Assign, ast.AugAssign, ast.AnnAssign)):
            tg = n.targets if isinstance(n, ast.Assign) else [n.target]
            for t in tg:
                if "self.inbuiltstore" in ast.unparse(t):
                    raise Unsupported("%s.%s assigns %s" % (cls, meth, ast.unparse(t)))
        if isinstance(n, ast.Call) and isinstance(n.func, ast.Attribute) and ast.unparse(n.func.value).startswith("self.inbuiltstore."):
            # a method of an object hanging off the store (e.g. an event's succeed())
            raise Unsupported("%s.%s calls %s" % (cls, meth, ast.unparse(n.func)))
    return "true" if calls == [meth] else "false"


for cls, f in (("Buffer", "edges/buffer.py"), ("Fleet", "edges/fleet.py")):
    for meth in ("reserve_put", "reserve_get", "put", "get", "reserve_put_cancel", "reserve_get_cancel"):
        frag("%s_%s_delegates" % (cls, meth), f, lambda t, c=cls, m=meth: delegates(t, c, m), "true", kind="const")


# ---------------------------------------------------------------- observers of the Buffer / Fleet edges leave the store's lists alone
STAT_FIELDS = {"_weighted_sum", "_last_level_change_time", "_last_num_items", "time_averaged_num_of_items_in_store"}
MUTATORS = {"append", "extend", "insert", "remove", "pop", "clear", "sort", "reverse", "__setitem__", "__delitem__", "__iadd__"}


def observer_pure(tree, cls, meth):
    """<cls>.<meth> (a query or a statistics refresh) assigns no attribute of self.inbuiltstore except the four level-statistics
    fields, calls no method of the store (its own level-statistics update aside), deletes nothing, and neither a list of the store nor a local name bound to one
    (`x = self.inbuiltstore.items`: the live list, not a copy) is updated in place (`+=`, append / extend / remove / pop / ...,
    item or slice assignment).  The model's queries are functions of the store state, and its statistics refresh changes nothing
    but the level accumulators."""
    fn = find(tree, cls, meth)
    alias = set()

    def is_store_list(e):
        return (isinstance(e, ast.Attribute) and ast.unparse(e.value) == "self.inbuiltstore") or (isinstance(e, ast.Name) and e.id in alias)

    for n in ast.walk(fn):                              # aliases first (order-insensitive: any binding anywhere counts)
        if isinstance(n, ast.Assign) and isinstance(n.value, ast.Attribute) and ast.unparse(n.value.value) == "self.inbuiltstore":
            for t in n.targets:
                if isinstance(t, ast.Name):
                    alias.add(t.id)
        if isinstance(n, (ast.NamedExpr,)) and isinstance(n.value, ast.Attribute) and ast.unparse(n.value.value) == "self.inbuiltstore":
            alias.add(n.target.id)
    for n in ast.walk(fn):
        if isinstance(n, (ast.Assign, ast.AugAssign, ast.AnnAssign, ast.Delete)):
            tg = n.targets if isinstance(n, (ast.Assign, ast.Delete)) else [n.target]
            for t in tg:
                for x in ([t] if not isinstance(t, (ast.Tuple, ast.List)) else t.elts):
                    if isinstance(x, ast.Attribute) and ast.unparse(x.value) == "self.inbuiltstore" and x.attr not in STAT_FIELDS:
                        return "false"
                    if isinstance(x, ast.Attribute) and ast.unparse(x.value) == "self" and x.attr == "inbuiltstore":
                        return "false"
                    if isinstance(x, ast.Subscript) and is_store_list(x.value):
                        return "false"
                    if isinstance(n, ast.AugAssign) and isinstance(x, ast.Name) and x.id in alias:
                        return "false"
        if isinstance(n, ast.Call) and isinstance(n.func, ast.Attribute):
            if ast.unparse(n.func.value) == "self.inbuiltstore" and n.func.attr != "_update_time_averaged_level":
                return "false"                          # a method of the store other than its level-statistics update
            if is_store_list(n.func.value) and n.func.attr in MUTATORS:
                return "false"
    return "true"


for cls, f, meths in (("Buffer", "edges/buffer.py", ("can_put", "can_get", "occupancy", "ready_items", "items",
                                                     "update_final_buffer_avg_content", "_buffer_stats_collector")),
                      ("Fleet", "edges/fleet.py", ("can_put", "can_get", "get_occupancy", "get_ready_items", "get_items",
                                                   "update_final_fleet_avg_content", "_fleet_stats_collector"))):
    for meth in meths:
        frag("%s_%s_observes" % (cls, meth.lstrip("_")), f, lambda t, c=cls, m=meth: observer_pure(t, c, m), "true", kind="const")


# ---------------------------------------------------------------- the push helpers: reserve, wait, put THE item
def push_shape(tree, cls):
    """<cls>._push_item(self, ITEM, EDGE): in every class-name branch the statements that matter are exactly
         TOKEN = EDGE.reserve_put();  [x =] yield TOKEN;  [y =] EDGE.put(TOKEN | x, ITEM)
    in this order (prints, `outstore = out_edge`, stamps on ITEM and `if y: print` aside) -- no probe, no cancellation, no other
    item, no early return: the model's push process is reserve / wait / put of the item it was started with."""
    fn = find(tree, cls, "_push_item")
    args = [a.arg for a in fn.args.args]
    if len(args) != 3:
        raise Unsupported("%s._push_item takes %s" % (cls, args))
    ITEM, EDGE = args[1], args[2]

    def branch(stmts):
        alias, tok, waited, seq = {EDGE}, None, {None}, []
        for st in stmts:
            src = ast.unparse(st)
            if isinstance(st, ast.Expr) and isinstance(st.value, ast.Constant):
                continue
            if isinstance(st, ast.Expr) and isinstance(st.value, ast.Call) and getattr(st.value.func, "id", "") == "print":
                continue
            if isinstance(st, ast.Assign) and len(st.targets) == 1 and isinstance(st.targets[0], ast.Name) and ast.unparse(st.value) in alias:
                alias.add(st.targets[0].id)
                continue
            if isinstance(st, ast.Assign) and len(st.targets) == 1 and isinstance(st.targets[0], ast.Attribute) \
                    and ast.unparse(st.targets[0].value) == ITEM and not any(isinstance(n, ast.Call) and ast.unparse(n.func.value) in alias
                                                                             for n in ast.walk(st.value) if isinstance(n, ast.Call) and isinstance(n.func, ast.Attribute)):
                continue                                        # a stamp on the item
            if isinstance(st, ast.Expr) and isinstance(st.value, ast.Call) and isinstance(st.value.func, ast.Attribute) \
                    and ast.unparse(st.value.func.value) == ITEM and st.value.func.attr in ("update_node_event", "set_creation"):
                continue
            if isinstance(st, ast.Assign) and len(st.targets) == 1 and isinstance(st.targets[0], ast.Name) and isinstance(st.value, ast.Call) \
                    and isinstance(st.value.func, ast.Attribute) and ast.unparse(st.value.func.value) in alias and st.value.func.attr == "reserve_put" \
                    and not st.value.args:
                tok = st.targets[0].id
                seq.append("R")
                continue
            y = st.value if isinstance(st, (ast.Expr, ast.Assign)) else None
            if isinstance(y, ast.Yield) and tok and ast.unparse(y.value) == tok:
                if isinstance(st, ast.Assign):
                    waited.add(st.targets[0].id)
                waited.add(tok)
                seq.append("Y")
                continue
            if isinstance(y, ast.Call) and isinstance(y.func, ast.Attribute) and ast.unparse(y.func.value) in alias and y.func.attr == "put":
                if len(y.args) == 2 and ast.unparse(y.args[0]) in waited - {None} and ast.unparse(y.args[1]) == ITEM:
                    seq.append("P")
                    continue
                raise Unsupported("%s._push_item puts %s" % (cls, ast.unparse(y)))
            if isinstance(st, ast.If) and isinstance(st.test, ast.Name) and not st.orelse and \
                    all(isinstance(b, ast.Expr) and isinstance(b.value, ast.Call) and getattr(b.value.func, "id", "") == "print" for b in st.body):
                continue                                        # `if y: print(...)`
            raise Unsupported("%s._push_item: %s" % (cls, src[:90]))
        return seq == ["R", "Y", "P"]

    body = [st for st in fn.body if not (isinstance(st, ast.Expr) and isinstance(st.value, ast.Constant))]
    oks = []

    def walk(stmts):
        if len(stmts) == 1 and isinstance(stmts[0], ast.If) and "__class__.__name__" in ast.unparse(stmts[0].test):
            oks.append(branch(stmts[0].body))
            if stmts[0].orelse:
                if all(isinstance(x, ast.Raise) for x in stmts[0].orelse):
                    return
                walk(stmts[0].orelse)
            return
        oks.append(branch(stmts))
    walk(body)
    return "true" if oks and all(oks) else "false"


for cls, f in (("Source", "nodes/source.py"), ("Machine", "nodes/machine.py"), ("Splitter", "nodes/splitter.py"), ("Combiner", "nodes/combiner.py")):
    frag("%s_push_item_shape" % cls, f, lambda t, c=cls: push_shape(t, c), "true", kind="const")


# ---------------------------------------------------------------- get_delay advances its source once
def delay_draws(tree, cls):
    """<cls>.get_delay(self, delay): `if hasattr(delay, '__next__'): ... next(delay) ... elif callable(delay): ... delay() ... else: ...`
    -> how often the generator / the callable is advanced in one call (every occurrence counts, also inside a validation)"""
    fn = find(tree, cls, "get_delay")
    if [a.arg for a in fn.args.args] != ["self", "delay"]:
        raise Unsupported("%s.get_delay takes %s" % (cls, [a.arg for a in fn.args.args]))
    top = [st for st in fn.body if isinstance(st, ast.If)]
    if not top or ast.unparse(top[0].test) != "hasattr(delay, '__next__')" or len(top[0].orelse) != 1 or not isinstance(top[0].orelse[0], ast.If) \
            or ast.unparse(top[0].orelse[0].test) != "callable(delay)":
        raise Unsupported("%s.get_delay is not the generator / callable / constant chain" % cls)
    gen_b, call_b, const_b = top[0].body, top[0].orelse[0].body, top[0].orelse[0].orelse

    def count(stmts, what):
        k = 0
        for st in stmts:
            for n in ast.walk(st):
                if isinstance(n, ast.Call) and ast.unparse(n) == what:
                    k += 1
        return k
    rest = [st for st in fn.body if st is not top[0]]
    for what in ("next(delay)", "delay()"):
        if count(rest, what) or count(const_b, what):
            raise Unsupported("%s.get_delay advances the source outside its branch" % cls)
    if count(gen_b, "delay()") or count(call_b, "next(delay)"):
        raise Unsupported("%s.get_delay mixes the two kinds of source" % cls)
    return "match k with DGen => %d | DCall => %d | DConst => 0 end" % (count(gen_b, "next(delay)"), count(call_b, "delay()"))


for cls, f in (("Node", "nodes/node.py"), ("Edge", "edges/edge.py")):
    frag("%s_get_delay_draws" % cls, f, lambda t, c=cls: delay_draws(t, c), "match k with DGen => 1 | DCall => 1 | DConst => 0 end",
         kind="sig:(k : dsrc) : nat")


# ---------------------------------------------------------------- constructor wiring: which of its own parameters an edge / a
# store hands to the store it builds (or to its base class) for each of that constructor's parameters
SRCDIR = [None]
PYARGS = {"capacity": "A_capacity", "mode": "A_mode", "delay": "A_delay", "transit_delay": "A_transit_delay", "speed": "A_speed",
          "accumulating": "A_accumulating", "const 'FIFO'": "A_const_FIFO", "default": "A_default"}


def pyarg(v):
    """a constructor argument as a value of the generated type [pyarg]: one of the caller's own parameters by name, the literal
    'FIFO', nothing passed, or anything else (another parameter, another literal, a computed expression)"""
    return PYARGS.get(v, "A_other")

SIMPY_STORE = ["env", "capacity"]                  # simpy.Store.__init__(self, env, capacity=inf): the external base of all stores


def ctor_params(file, cls):
    fn = find(ast.parse(open(os.path.join(SRCDIR[0], file)).read()), cls, "__init__")
    if fn.args.vararg or fn.args.kwarg or fn.args.kwonlyargs or fn.args.posonlyargs:
        raise Unsupported("%s.__init__ has a signature this reader does not know" % cls)
    return [a.arg for a in fn.args.args][1:]


def wiring(tree, cls, callee, cparams, param):
    """What <cls>.__init__ hands over for parameter <param> of <callee> (a class it instantiates into an attribute, or
    'super'): the NAME of one of its own parameters -- directly, or through `self.X = <parameter>` assigned before, at the top
    level of __init__ --, 'const <literal>', 'default' (not passed), or 'expr <source>' for anything computed."""
    fn = find(tree, cls, "__init__")
    if fn.args.vararg or fn.args.kwarg or fn.args.kwonlyargs or fn.args.posonlyargs:
        raise Unsupported("%s.__init__ has a signature this reader does not know" % cls)
    own = [a.arg for a in fn.args.args][1:]
    if isinstance(cparams, tuple):
        cparams = ctor_params(*cparams)
    fields, locs = {}, {}

    def val(e):
        if isinstance(e, ast.Name):
            if e.id in locs:
                return locs[e.id]
            if e.id in own:
                return e.id
        if isinstance(e, ast.Attribute) and isinstance(e.value, ast.Name) and e.value.id == "self" and e.attr in fields:
            return fields[e.attr]
        if isinstance(e, ast.Constant):
            return "const " + repr(e.value)
        return "expr " + ast.unparse(e)

    def assign(t, v):
        if isinstance(t, ast.Attribute) and isinstance(t.value, ast.Name) and t.value.id == "self":
            fields[t.attr] = v
        elif isinstance(t, ast.Name):
            locs[t.id] = v
        elif isinstance(t, (ast.Tuple, ast.List)):
            for x in t.elts:
                assign(x, "expr <unpacked>")

    found = None
    for st in fn.body:
        call = None
        if callee == "super":
            if isinstance(st, ast.Expr) and isinstance(st.value, ast.Call) and ast.unparse(st.value.func) == "super().__init__":
                call = st.value
        elif isinstance(st, ast.Assign) and isinstance(st.value, ast.Call) and ast.unparse(st.value.func) == callee:
            call = st.value
        if call is not None:
            if found is not None:
                raise Unsupported("%s.__init__ calls %s twice" % (cls, callee))
            if any(isinstance(a, ast.Starred) for a in call.args) or any(k.arg is None for k in call.keywords):
                raise Unsupported("%s.__init__ calls %s with * / **" % (cls, callee))
            if len(call.args) > len(cparams):
                raise Unsupported("%s.__init__ passes %d positional arguments to %s%s" % (cls, len(call.args), callee, cparams))
            found = {}
            for i, a in enumerate(call.args):
                found[cparams[i]] = val(a)
            for k in call.keywords:
                if k.arg not in cparams or k.arg in found:
                    raise Unsupported("%s.__init__ passes %s= to %s%s" % (cls, k.arg, callee, cparams))
                found[k.arg] = val(k.value)
            continue
        if found is not None:
            continue                                  # what happens after the call does not change what was handed over
        if isinstance(st, ast.Assign):
            v = val(st.value)
            for t in st.targets:
                assign(t, v)
        elif isinstance(st, (ast.AugAssign, ast.AnnAssign)):
            assign(st.target, "expr <updated>")
        else:
            for n in ast.walk(st):                    # assignments under a condition / in a loop: the name is no longer a parameter
                if isinstance(n, ast.Assign):
                    for t in n.targets:
                        assign(t, "expr <conditional>")
                elif isinstance(n, (ast.AugAssign, ast.AnnAssign)):
                    assign(n.target, "expr <conditional>")
    if found is None:
        raise Unsupported("%s.__init__ does not call %s at its top level" % (cls, callee))
    return pyarg(found.get(param, "default"))


WIRING = [  # (fragment prefix, file, class, callee, callee's parameters or (file, class) to read them from, {parameter: expected})
    ("Buffer_store", "edges/buffer.py", "Buffer", "BufferStore", ("base/buffer_store.py", "BufferStore"), {"capacity": "capacity", "mode": "mode"}),
    ("BufferStore_base", "base/buffer_store.py", "BufferStore", "super", SIMPY_STORE, {"capacity": "capacity"}),
    ("Fleet_store", "edges/fleet.py", "Fleet", "FleetStore", ("base/fleet_store.py", "FleetStore"),
     {"capacity": "capacity", "delay": "delay", "transit_delay": "transit_delay"}),
    ("FleetStore_base", "base/fleet_store.py", "FleetStore", "super", SIMPY_STORE, {"capacity": "capacity"}),
    ("SlotConveyor_store", "edges/slotted_conveyor.py", "ConveyorBelt", "BeltStore", ("edges/slotted_conveyor.py", "BeltStore"),
     {"capacity": "capacity", "delay": "delay"}),
    ("SlotConveyorStore_base", "edges/slotted_conveyor.py", "BeltStore", "super", ("base/slotted_belt_store.py", "BeltStore"),
     {"capacity": "capacity", "delay": "delay", "mode": "const 'FIFO'"}),
    ("SlotBeltStore_base", "base/slotted_belt_store.py", "BeltStore", "super", SIMPY_STORE, {"capacity": "capacity"}),
    ("ContConveyor_store", "edges/continuous_conveyor.py", "ConveyorBelt", "BeltStore", ("base/belt_store.py", "BeltStore"),
     {"speed": "speed", "accumulation_mode_indicator": "accumulating"}),
    ("ContBeltStore_base", "base/belt_store.py", "BeltStore", "super", SIMPY_STORE, {"capacity": "capacity"}),
    ("ReservableReqStore_base", "base/reservable_req_store.py", "ReservableReqStore", "super", SIMPY_STORE, {"capacity": "capacity"}),
    ("ReservablePriorityReqStore_base", "base/reservable_priority_req_store.py", "ReservablePriorityReqStore", "super", SIMPY_STORE,
     {"capacity": "capacity"}),
]
for pre, f, cls, callee, cps, expect in WIRING:
    for prm, exp in expect.items():
        frag("%s_%s_wiring" % (pre, prm), f, lambda t, c=cls, ce=callee, cp=cps, pr=prm: wiring(t, c, ce, cp, pr),
             pyarg(exp), kind="sig:: pyarg")


def stores_field(tree, cls, field):
    """the parameter <cls>.__init__ keeps in self.<field> (assigned once, at the top level, straight from the parameter)"""
    fn = find(tree, cls, "__init__")
    own = [a.arg for a in fn.args.args][1:]
    hits = [n for n in ast.walk(fn) if isinstance(n, (ast.Assign, ast.AugAssign, ast.AnnAssign))
            for t in (n.targets if isinstance(n, ast.Assign) else [n.target])
            if isinstance(t, ast.Attribute) and isinstance(t.value, ast.Name) and t.value.id == "self" and t.attr == field]
    if len(hits) != 1 or hits[0] not in fn.body or not isinstance(hits[0], ast.Assign):
        raise Unsupported("%s.__init__ assigns self.%s %d times / not at its top level" % (cls, field, len(hits)))
    v = hits[0].value
    if isinstance(v, ast.Name) and v.id in own and not any(
            isinstance(n, ast.Name) and isinstance(n.ctx, ast.Store) and n.id == v.id for n in ast.walk(fn)):
        return pyarg(v.id)
    return pyarg("expr")


for pre, f, cls, field, exp in (("SlotBeltStore", "base/slotted_belt_store.py", "BeltStore", "delay", "delay"),
                                ("ContBeltStore", "base/belt_store.py", "BeltStore", "speed", "speed"),
                                ("FleetStore", "base/fleet_store.py", "FleetStore", "delay", "delay"),
                                ("FleetStore", "base/fleet_store.py", "FleetStore", "transit_delay", "transit_delay"),
                                ("BufferStore", "base/buffer_store.py", "BufferStore", "mode", "mode")):
    frag("%s_keeps_%s" % (pre, field), f, lambda t, c=cls, fd=field: stores_field(t, c, fd), pyarg(exp), kind="sig:: pyarg")


def belt_gate(tree):
    return GTr().grants(find(tree, "BeltStore", "_do_reserve_put").body)


def main():
    ap = argparse.ArgumentParser()
    ap.add_argument("--repo", default="/repo")
    ap.add_argument("--out", required=True)
    a = ap.parse_args()
    src = os.path.join(a.repo, "src", "factorysimpy")
    SRCDIR[0] = src
    out = ["(* GENERATED by translator/py_to_gallina.py from %s -- do not edit, never committed *)" % src,
           "From Coq Require Import ZArith Bool List.", "Open Scope Z_scope.",
           "Record lens := { " + "; ".join("n_%s : Z" % f for f in FIELDS) + "; capacity : Z }.",
           "Record glens := { g_n_reservations_put : Z; g_n_items : Z; g_n_ready_items : Z; g_cap : Z; g_acc : bool; g_noacc : bool; "
           "g_one : bool; g_tob_last : Z; g_tob_first : Z; g_u : Z; g_D : Z; g_now : Z; g_entry_last : Z }.",
           "(* abstract SimPy events for the commit protocol of the node processes: identity and the two flags *)",
           "Record pyev := { ev_id : nat; ev_triggered : bool; ev_processed : bool; ev_ok : bool }.",
           "Definition ev_is (a b : pyev) : bool := Nat.eqb (ev_id a) (ev_id b).",
           "Fixpoint pyremove (x : pyev) (l : list pyev) : list pyev := match l with nil => nil | cons y r => if ev_is y x then r else cons y (pyremove x r) end.",
           "Record pyedge := { ed_id : nat; ed_can_put : bool }.",
           "(* a constructor argument: one of the caller's own parameters (by name), the literal 'FIFO', not passed, anything else *)",
           "Inductive pyarg := A_capacity | A_mode | A_delay | A_transit_delay | A_speed | A_accumulating | A_const_FIFO | A_default | A_other.",
           "Inductive dsrc := DGen | DCall | DConst.   (* a delay parameter: generator instance, callable, constant *)",
           "Fixpoint pyindex (x : pyev) (l : list pyev) : nat := match l with nil => O | cons y r => if ev_is y x then O else S (pyindex x r) end.", ""]
    report = {}
    trees = {}
    for fr in FRAGS:
        path = os.path.join(src, fr["file"])
        status, text, why = "ok", None, ""
        try:
            if path not in trees:
                trees[path] = ast.parse(open(path).read())
            if fr["kind"] == "rr":
                tr = Tr(env={"i": "i", "n_edges": "n_edges"})
                text = tr.z(_rr(trees[path]))
            else:
                text = fr["how"](trees[path])
        except Exception as ex:  # fail closed
            status, why, text = "fallback", "%s: %s" % (type(ex).__name__, ex), fr["fallback"]
        if fr["kind"] == "rr":
            out.append("Definition %s (i n_edges : Z) : Z := %s." % (fr["name"], text))
        elif fr["kind"] == "constZ":
            out.append("Definition %s : Z := %s." % (fr["name"], text))
        elif fr["kind"] == "idx":
            out.append("Definition %s (edge_idx : Z) : Z := %s." % (fr["name"], text))
        elif fr["kind"] == "const":
            out.append("Definition %s : bool := %s." % (fr["name"], text))
        elif fr["kind"].startswith("sig:"):
            out.append("Definition %s %s := %s." % (fr["name"], fr["kind"][4:], text))
        elif fr["kind"] == "pb":
            out.append("Definition %s (p b : Z) : bool := %s." % (fr["name"], text))
        else:
            out.append("Definition %s (l : lens) : %s := %s." % (fr["name"], "Z" if fr["kind"] == "Z" else "bool", text))
        report[fr["name"]] = dict(status=status, source=fr["file"], gallina=text, why=why)
    for name, file in (("ContBeltStore_gate", "base/belt_store.py"), ("SlotBeltStore_gate", "base/slotted_belt_store.py")):
        path = os.path.join(src, file)
        status, why = "ok", ""
        try:
            text = belt_gate(ast.parse(open(path).read()))
        except Exception as ex:  # fail closed
            status, why, text = "fallback", "%s: %s" % (type(ex).__name__, ex), "false"
        out.append("Definition %s (g : glens) : bool := %s." % (name, text))
        report[name] = dict(status=status, source=file, gallina=text, why=why)
    text = "\n".join(out) + "\n"
    os.makedirs(a.out, exist_ok=True)
    target = os.path.join(a.out, "SrcFragments.v")
    if not os.path.exists(target) or open(target).read() != text:
        open(target, "w").write(text)
    json.dump(report, open(os.path.join(a.out, "report.json"), "w"), indent=1, sort_keys=True)
    return 0


if __name__ == "__main__":
    sys.exit(main())
