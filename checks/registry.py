"""Per-property exploration: which harness runs, what is compared, which oracle clauses count."""
import os, sys, json, random, glob, collections, multiprocessing, time
VERIF = os.path.dirname(os.path.dirname(os.path.abspath(__file__)))
from harness import common, l1, store_oracle, storep, tbuffer, tfleet, belt, convfactory, storeq, factory, factory_oracle

# fields of a row whose disagreement (model vs implementation) concerns each store-level property
L1_FIELDS = {
    "C01": {"items", "ready", "putres", "res"},
    "C02": {"items", "ready", "getres", "res"},
    "C04": {"trig", "putq", "getq", "putres", "getres"},
    "C05": {"trig", "putq", "getq"},
    "C06": {"items", "ready", "getres", "res"},
    "C07": {"res"},
}
L1_SIZES = {"quick": 400, "thorough": 40000}


def matches_finding(k, v):
    """a listed finding suppresses a violation only if it names the same class and the same clause
    (one of several clauses when the finding lists them)"""
    m = k.get("match", {})
    if m.get("kind") and m["kind"] != v.get("class"):
        return False
    cl = m.get("clause")
    if cl:
        cls = cl if isinstance(cl, list) else [cl]
        if not any(c in v.get("message", "") for c in cls):
            return False
    return bool(m)


def _l1_worker(args):
    pid, model, kind, n, seed, corpus = args
    rng = random.Random(seed)
    # one history in four contains malformed calls; for the protocol property (C07) three in four do
    cases = list(corpus) + [l1.gen(rng, model, kind, rng.randrange(8, 70), (i % 4 != 3) if pid == "C07" else (i % 4 == 0))
                            for i in range(n)]
    out = dict(evals=0, tags=collections.Counter(), sigs=set(), dis=[], viol=[], samples=[], ops=collections.Counter(),
               errs=collections.Counter())
    for lo in range(0, len(cases), 500):
        for r in l1.run_batch(cases[lo:lo + 500]):
            c = r["case"]
            out["evals"] += 1
            tags = store_oracle.nontrivial_tags(c, r["micro"], r["impl"])
            out["tags"].update(tags)
            if tags:
                out["sigs"].add((model, kind, c["cap"], c.get("mode"), tuple(sorted(tags)),
                                 tuple(o[0] for o in r["micro"])))
            for o, row in zip(r["micro"], r["impl"]):
                out["ops"][o[0]] += 1
                if row["res"].startswith("err:"):
                    out["errs"][row["res"]] += 1
            if r["dis"]:
                i, diff, da, db = r["dis"]
                rel = set(diff) & L1_FIELDS[pid]
                if pid == "C01":
                    # only sizes and the outcome of puts matter for the capacity property
                    n = lambda d, f: len([x for x in d.get(f, "").split(",") if x])
                    rel = {f for f in ("items", "ready", "putres") if n(da, f) != n(db, f)}
                    if "res" in diff and i < len(r["micro"]) and r["micro"][i][0] == "PUT":
                        rel.add("res")
                if pid == "C07" and (da.get("res", "").startswith("err") or db.get("res", "").startswith("err")):
                    rel = set(diff)
                if rel or "length" in diff:
                    out["dis"].append(dict(case=c, op_index=i, micro_op=list(r["micro"][i]) if i < len(r["micro"]) else None,
                                           fields=sorted(diff), impl=da, model=db))
            for prop, i, msg in store_oracle.check(c, r["micro"], r["impl"]):
                if prop == pid:
                    out["viol"].append(dict(**{"class": "%s/%s" % (model, kind)}, message=msg, op_index=i, case=c,
                                            micro=[list(o) for o in r["micro"][:i + 1]],
                                            impl_rows=r["impl"][max(0, i - 2):i + 1]))
                    break
            if len(out["samples"]) < 1 and tags:
                out["samples"].append(dict(store="%s/%s" % (model, kind), cap=c["cap"], mode=c.get("mode"),
                                           ops=[list(o) for o in r["micro"][:25]],
                                           last_impl_row=r["impl"][min(24, len(r["impl"]) - 1)] if r["impl"] else None))
    out["sigs"] = len(out["sigs"])
    out["dis"] = out["dis"][:3]
    out["viol"] = out["viol"][:3]
    return out


def _edge_worker(args):
    """Buffer / Fleet EDGE histories (with the edges' own queries in between) for the store-level properties
    C01 / C02: oracle on the implementation's rows + model disagreements on the fields of the property"""
    pid, which, n, seed = args
    from harness import edge_oracle
    mod = tbuffer if which == "tbuffer" else tfleet
    rng = random.Random(seed)
    cases = [mod.gen_case(rng, rng.randrange(10, 70)) for _ in range(n)]
    out = dict(evals=0, tags=collections.Counter(), sigs=set(), dis=[], viol=[], samples=[], ops=collections.Counter(), errs=collections.Counter())
    for lo in range(0, len(cases), 300):
        for r in mod.run_batch(cases[lo:lo + 300]):
            c = r["case"]
            out["evals"] += 1
            out["sigs"].add((which, c["cap"], tuple(o[0] for o in r["micro"])))
            for o in r["micro"]:
                out["ops"]["edge:" + o[0]] += 1
            if r["dis"] and r["dis"][-1] != "ILLEGAL" and isinstance(r["dis"][-1], dict) and isinstance(r["dis"][-2], dict):
                i, da, db = r["dis"][0], r["dis"][-2], r["dis"][-1]
                diff = {f for f in set(da) | set(db) if da.get(f) != db.get(f)}
                rel = diff & L1_FIELDS[pid]
                if pid == "C01":
                    cnt = lambda d, f: len([x for x in (d.get(f) or "").split(",") if x])
                    rel = {f for f in ("items", "ready", "putres") if f in diff and cnt(da, f) != cnt(db, f)}
                if rel:
                    out["dis"].append(dict(case=c, op_index=i, micro_op=list(r["micro"][i]) if i < len(r["micro"]) else None,
                                           fields=sorted(diff), impl=da, model=db))
            rows = [x if isinstance(x, dict) else mod.split(x) for x in r["impl"]]
            for prop, i, msg in edge_oracle.check(c, r["micro"], rows):
                if prop == pid:
                    out["viol"].append(dict(**{"class": which}, message=msg, op_index=i, case=c,
                                            micro=[list(o) for o in r["micro"][:i + 1]], impl_rows=rows[max(0, i - 2):i + 1]))
                    break
    out["sigs"] = len(out["sigs"])
    out["dis"], out["viol"] = out["dis"][:3], out["viol"][:3]
    return out


def _filter_real_worker(args):
    """C04 on the filter store under decimal times (implementation only, see storep.run_real)"""
    n, seed = args
    rng = random.Random(seed)
    out = dict(evals=0, tags=collections.Counter(), sigs=set(), dis=[], viol=[], samples=[], ops=collections.Counter(), errs=collections.Counter())
    for _ in range(n):
        case, msg = storep.run_real(rng, rng.randrange(10, 60))
        out["evals"] += 1
        out["tags"].update(["filter/decimal-times"])
        out["sigs"].add(("real", case["cap"], case["tdelay"], tuple(o[0] for o in case["ops"])))
        if msg:
            out["viol"].append(dict(**{"class": "storep-real"}, message="[filter/decimal-times] " + msg, case=case))
    out["sigs"] = len(out["sigs"])
    out["viol"] = sorted(out["viol"], key=lambda v: len(v["case"]["ops"]))[:3]
    return out


def _edge_c07_worker(args):
    """C07 through the EDGE wrappers (implementation only): a cancel presented to one Buffer / Fleet with a token another edge
    issued is a cancel of an unknown token -- RuntimeError, both edges untouched"""
    n, seed = args
    import simpy
    rng = random.Random(seed)
    out = dict(evals=0, viol=[])
    for _ in range(n):
        env = simpy.Environment()
        kind = rng.choice(["buffer", "fleet"])
        mk = (lambda nm: common.load("edges.buffer").Buffer(env, nm, capacity=rng.choice([1, 2, 3]), delay=0)) if kind == "buffer" else \
             (lambda nm: common.load("edges.fleet").Fleet(env, nm, capacity=rng.choice([2, 3]), delay=3, transit_delay=1))
        a, b = mk("A"), mk("B")
        side = rng.choice(["put", "get"])
        toks = [getattr(b, "reserve_" + side)() for _ in range(rng.choice([1, 2, 4]))]     # granted and waiting ones
        own = [getattr(a, "reserve_" + side)() for _ in range(rng.choice([0, 1, 2]))]
        t = rng.choice(toks)
        snap = lambda e: tuple(tuple(id(x) for x in getattr(e.inbuiltstore, f)) for f in
                               ("reserve_put_queue", "reservations_put", "reserve_get_queue", "reservations_get"))
        before = (snap(a), snap(b))
        try:
            getattr(a, "reserve_%s_cancel" % side)(t)
            res = "accepted"
        except RuntimeError:
            res = "RuntimeError"
        except Exception as ex:  # noqa
            res = type(ex).__name__
        out["evals"] += 1
        if res != "RuntimeError" or (snap(a), snap(b)) != before:
            out["viol"].append(dict(**{"class": "edge-foreign-cancel"}, message="[edge/%s] reserve_%s_cancel on edge A with a token issued by edge B: %s%s" %
                                    (kind, side, res, "" if (snap(a), snap(b)) == before else "; a reservation list changed"),
                                    case=dict(model="edge-foreign-cancel", kind=kind, side=side, n_b=len(toks), n_a=len(own))))
    out["viol"] = out["viol"][:2]
    return out


def load_corpus(model, kind):
    out = []
    anykind = kind is None
    for f in sorted(glob.glob(os.path.join(VERIF, "harness", "corpus", "*.json"))):
        try:
            c = json.load(open(f))
        except Exception:
            continue
        for case in (c if isinstance(c, list) else [c]):
            if case.get("model") == model and (anykind or case.get("kind") == kind):
                out.append(case)
    return out


def run_l1(pid, tier, seed):
    n = L1_SIZES[tier]
    jobs = []
    for ci, (model, kind) in enumerate(l1.CLASSES):
        corpus = load_corpus(model, kind)
        shards = 1 if tier == "quick" else 8
        for sh in range(shards):
            jobs.append((pid, model, kind, n // shards, seed * 1000 + ci * 50 + sh, corpus if sh == 0 else []))
    ejobs = []
    if pid in ("C01", "C02", "C04"):
        ne = 400 if tier == "quick" else 24000
        esh = 2 if tier == "quick" else 8
        ejobs = [(pid, which, ne // esh, seed * 811 + 13 * k + (0 if which == "tbuffer" else 7)) for which in ("tbuffer", "tfleet") for k in range(esh)]
    with multiprocessing.Pool(min(16, len(jobs) + len(ejobs))) as pool:
        a1 = pool.map_async(_l1_worker, jobs)
        a2 = pool.map_async(_edge_worker, ejobs)
        rjobs = [(150 if tier == "quick" else 4000, seed * 577 + k) for k in range(2 if tier == "quick" else 8)] if pid == "C04" else []
        a3 = pool.map_async(_filter_real_worker, rjobs)
        # C01 on conveyor edges inside factories (the edge class's own store): never more items on the belt than its capacity
        a4 = pool.map_async(_belt_factory_worker, [(pid, (160 if tier == "quick" else 4800) // 4, seed * 739 + k) for k in range(4)] if pid == "C01" else [])
        a5 = pool.map_async(_edge_c07_worker, [((200 if tier == "quick" else 8000) // 2, seed * 389 + k) for k in range(2)] if pid == "C07" else [])
        outs = a1.get() + a2.get() + a3.get()
        couts = a4.get() + a5.get()
    res = dict(evaluations=0, distinct_nontrivial=0, samples=[], traces=0, disagreements=[], violations=[], known=[],
               distribution={})
    tags, ops, errs = collections.Counter(), collections.Counter(), collections.Counter()
    for o in couts:
        res["evaluations"] += o["evals"]
        res["violations"] += o["viol"]
    for o in outs:
        res["evaluations"] += o["evals"]
        res["traces"] += o["evals"]
        res["distinct_nontrivial"] += o["sigs"]
        res["disagreements"] += o["dis"]
        res["violations"] += o["viol"]
        res["samples"] += o["samples"]
        tags.update(o["tags"]); ops.update(o["ops"]); errs.update(o["errs"])
    res["rule"] = ("online-generated op histories (8-70 ops, 1-4 callers, capacity 1-6, mixed priorities, FIFO/LIFO, "
                   "filters, one in four with a malformed-call stream) per store class %s, executed on the real class under a "
                   "real simpy.Environment with the harness as scheduler and on the extracted Coq model; a history is "
                   "non-trivial when it reaches one of: full+waiting-put, waiting-get, two-granted-gets, cancel-get, "
                   "cancel-put, rejected-call, timer-grant; distinct = distinct (class, capacity, mode, tags, op-kind "
                   "sequence)" % (["%s/%s" % c for c in l1.CLASSES],))
    res["distribution"] = dict(histories_reaching=dict(tags), micro_ops=dict(ops), error_kinds=dict(errs))
    res["domain"] = "store classes: ReservableReqStore, ReservablePriorityReqStore, ReservablePriorityReqFilterStore, BufferStore (FIFO/LIFO), FleetStore"
    if ejobs:
        res["rule"] += ("; plus histories on the real Buffer and Fleet EDGE objects (harness/tbuffer.py, harness/tfleet.py: reserve / put / get / "
                        "cancel with the edges' own queries can_put / can_get / occupancy in between), judged by harness/edge_oracle.py "
                        "(capacity bound, granted put / get honoured, contents = puts - gets) and compared with the timed edge models")
        res["domain"] += "; Buffer and Fleet edge objects over those stores"
    return res



def _q_worker(args):
    n, seed = args
    rng = random.Random(seed)
    cases = [storeq.gen_case(rng, rng.randrange(8, 70)) for _ in range(n)]
    out = dict(evals=0, sigs=set(), dis=[], viol=[], samples=[])
    for r in storeq.run_batch(cases):
        c = r["case"]
        out["evals"] += 1
        out["sigs"].add((c["cap"], tuple(o[0] for o in r["micro"])))
        if r["dis"]:
            j, a, b = r["dis"]
            out["dis"].append(dict(case=c, op_index=j, impl=a, model=b))
        v = storeq.oracle(c, r["micro"], r["impl"])
        if v:
            out["viol"].append(dict(**{"class": "storeq"}, message=v[0][1], op_index=v[0][0], case=c))
        if not out["samples"]:
            out["samples"].append(dict(store="PriorityReqStore", cap=c["cap"], ops=c["ops"][:25]))
    out["sigs"] = len(out["sigs"])
    return out


def run_c06(pid, tier, seed):
    """store-level histories + the factory corollary: random factories (fan-in, FIRST_AVAILABLE) compared with the
    factory model on the item movements, with the 'oldest available item leaves a FIFO edge first' clause"""
    res = run_l1(pid, tier, seed)
    nf = 640 if tier == "quick" else 24000
    with multiprocessing.Pool(16) as pool:
        fouts = pool.map(_f_worker, [("C06", nf // 16, seed * 173 + k, []) for k in range(16)])
    ftags = collections.Counter()
    for o in fouts:
        res["evaluations"] += o["evals"]; res["traces"] += o["evals"]; res["distinct_nontrivial"] += o["sigs"]
        res["disagreements"] += o["dis"]; res["violations"] += o["viol"]
        ftags.update(o["tags"])
    res["rule"] += "; plus random factories (see C03) compared on their timed item movements, with the FIFO-edge clause of the factory oracle"
    res["distribution"]["factories_reaching"] = dict(ftags)
    return res


def run_c05(pid, tier, seed):
    res = run_l1(pid, tier, seed)
    n = 600 if tier == "quick" else 60000
    shards = 2 if tier == "quick" else 16
    with multiprocessing.Pool(shards) as pool:
        outs = pool.map(_q_worker, [(n // shards, seed * 31 + k) for k in range(shards)])
    for o in outs:
        res["evaluations"] += o["evals"]; res["traces"] += o["evals"]; res["distinct_nontrivial"] += o["sigs"]
        res["disagreements"] += o["dis"][:2]; res["violations"] += o["viol"][:2]; res["samples"] += o["samples"][:1]
    res["rule"] += "; plus PriorityReqStore histories (put/get requests with priorities, kernel pops, cancels of waiting requests)"
    res["domain"] += ", PriorityReqStore"
    # the belt stores serve entry requests first come, first served although their gate opens by the passage of time
    nb = 480 if tier == "quick" else 32000
    with multiprocessing.Pool(16) as pool:
        bouts = pool.map(_belt_fcfs_worker, [(nb // 16, seed * 733 + k) for k in range(16)])
    for o in bouts:
        res["evaluations"] += o["evals"]; res["traces"] += o["evals"]; res["distinct_nontrivial"] += o["sigs"]
        res["violations"] += o["viol"][:1]; res["disagreements"] += o["dis"][:1]
    res["rule"] += ("; plus runs of both conveyor classes with 2-3 producer processes whose requests coincide with the opening of the "
                    "entrance (harness/belt.py, clause fcfs-entry: entry requests are granted in the order in which they were made)")
    res["domain"] += ", both belt stores (entry requests)"
    return res


def _belt_fcfs_worker(args):
    n, seed = args
    rng = random.Random(seed)
    cases = [belt.gen_case(rng, nprod=rng.choice([2, 2, 3])) for _ in range(n)]
    out = dict(evals=0, sigs=set(), dis=[], viol=[])
    for lo in range(0, len(cases), 300):
        for r in belt.run_batch(cases[lo:lo + 300]):
            c = r["case"]
            out["evals"] += 1
            out["sigs"].add((c["kind"], c["acc"], tuple(o[0] for o in r["ops"] if o[0] != "IDLE")))
            if r["dis"] and not c.get("odd_length"):
                j, op, a, b = r["dis"]
                if op and op[0] in ("RSV", "PUT"):
                    out["dis"].append(dict(case=c, op_index=j, op=op, impl=a, model=b))
            for prop, clause, msg in belt.oracle(c, r):
                if prop == "C05":
                    out["viol"].append(dict(**{"class": "belt"}, message="[%s/%s] %s" % (_belt_tag(c), clause, msg), case=c))
                    break
    out["sigs"] = len(out["sigs"])
    return out


# ------------------------------------------------------------------ C11 (timed Buffer edge)
def _c11_worker(args):
    n, seed, corpus = args
    rng = random.Random(seed)
    cases = list(corpus) + [tbuffer.gen_case(rng, rng.randrange(10, 80)) for _ in range(n)]
    out = dict(evals=0, tags=collections.Counter(), sigs=set(), dis=[], viol=[], samples=[], ops=collections.Counter())
    for lo in range(0, len(cases), 400):
        for r in tbuffer.run_batch(cases[lo:lo + 400]):
            c = r["case"]
            out["evals"] += 1
            tg = tbuffer.tags(c, r["micro"], r["impl"])
            out["tags"].update(tg)
            out["sigs"].add((c["cap"], c["mode"], c["delay_source"], tuple(sorted(tg)), tuple(o[0] for o in r["micro"])))
            for o in r["micro"]:
                out["ops"][o[0]] += 1
            if r["dis"]:
                i, diff, da, db = r["dis"]
                out["dis"].append(dict(case=c, op_index=i, micro_op=list(r["micro"][i]), fields=diff, impl=da, model=db))
            v = tbuffer.oracle(c, r["micro"], r["impl"], r["draws"])
            if v:
                i, msg = v[0]
                out["viol"].append(dict(**{"class": "tbuffer"}, message=msg, op_index=i, case=c,
                                        micro=[list(o) for o in r["micro"][:i + 1]], impl_rows=r["impl"][max(0, i - 2):i + 1]))
            if not out["samples"] and "timer-grant" in tg:
                out["samples"].append(dict(cap=c["cap"], mode=c["mode"], delay_source=c["delay_source"],
                                           ops=[list(o) for o in r["micro"][:25]]))
    out["sigs"] = len(out["sigs"])
    out["dis"], out["viol"] = out["dis"][:3], out["viol"][:3]
    return out


def _buffer_real_worker(args):
    """the Buffer edge under decimal delays (implementation only, see tbuffer.run_real)"""
    n, seed = args
    rng = random.Random(seed)
    out = dict(evals=0, viol=[])
    for _ in range(n):
        case, msg = tbuffer.run_real(rng)
        out["evals"] += 1
        if msg:
            out["viol"].append(dict(**{"class": "tbuffer-real"}, message="[buffer/decimal-delays] " + msg, case=case))
    out["viol"] = out["viol"][:2]
    return out


def run_c11(pid, tier, seed):
    n = 1500 if tier == "quick" else 120000
    shards = 4 if tier == "quick" else 16
    corpus = [c for c in load_corpus("tbuffer", None)]
    jobs = [(n // shards, seed * 977 + k, corpus if k == 0 else []) for k in range(shards)]
    nf = 600 if tier == "quick" else 48000
    fjobs = [(nf // shards, seed * 353 + k, [], "C11") for k in range(shards)]
    with multiprocessing.Pool(min(16, 2 * shards)) as pool:
        a1 = pool.map_async(_c11_worker, jobs)
        a2 = pool.map_async(_c14_worker, fjobs)
        a3 = pool.map_async(_buffer_real_worker, [((400 if tier == "quick" else 16000) // 4, seed * 641 + k) for k in range(4)])
        outs, fouts, routs = a1.get(), a2.get(), a3.get()
    res = dict(evaluations=0, distinct_nontrivial=0, samples=[], traces=0, disagreements=[], violations=[], known=[])
    for o in routs:
        res["evaluations"] += o["evals"]
        res["violations"] += o["viol"]
    tags, ops = collections.Counter(), collections.Counter()
    for o in outs + fouts:
        res["evaluations"] += o["evals"]; res["traces"] += o["evals"]; res["distinct_nontrivial"] += o["sigs"]
        res["disagreements"] += o["dis"]; res["violations"] += o["viol"]; res["samples"] += o["samples"]
    for o in outs:
        tags.update(o["tags"]); ops.update(o["ops"])
    ftags = collections.Counter()
    for o in fouts:
        ftags.update(o["tags"]); ops.update({"fleet:" + k: v for k, v in o["ops"].items()})
    res["fleet_tags"] = dict(ftags)
    res["rule"] = ("online-generated histories on the real Buffer edge (capacity 1-4, FIFO/LIFO, delay source constant / callable / "
                   "generator with delays 0-5 incl. zero, 1-3 callers, reserve/put/get/cancel, kernel pops, time advances, and "
                   "PROBE = can_put()/can_get()/occupancy() followed by probe reservations) replayed on the extracted timed model "
                   "TBuffer + regenerated query fragments; every history is non-trivial (contains a put or a probe); distinct = "
                   "distinct (capacity, mode, delay source, situations reached, op-kind sequence)")
    res["distribution"] = dict(histories_reaching=dict(tags), micro_ops=dict(ops))
    res["distribution"]["fleet_histories_reaching"] = res.pop("fleet_tags")
    res["rule"] += ("; plus histories on the real Fleet edge with the same probes (harness/tfleet.py); plus the Buffer edge under decimal "
                    "delays (0.125, 1/3, 1.005, ...; implementation only): not available before put time + delay, available from then on")
    res["domain"] = "Buffer edge over BufferStore and Fleet edge over FleetStore"
    return res


def _c14_worker(args):
    n, seed, corpus = args[:3]
    pid = args[3] if len(args) > 3 else "C14"
    rng = random.Random(seed)
    cases = list(corpus) + [tfleet.gen_case(rng, rng.randrange(10, 80)) for _ in range(n)]
    out = dict(evals=0, tags=collections.Counter(), sigs=set(), dis=[], viol=[], samples=[], ops=collections.Counter())
    for lo in range(0, len(cases), 300):
        for r in tfleet.run_batch(cases[lo:lo + 300]):
            c = r["case"]
            out["evals"] += 1
            tg = set()
            arrivals = [a for a, b in zip(r["impl"], [dict(ready="")] + r["impl"]) if a["ready"] != b["ready"] and len(a["ready"]) > len(b["ready"])]
            if arrivals:
                tg.add("trip-arrived")
            if len(arrivals) > 1:
                tg.add("several-trips")
            if any(a["intransit"] and o[0] == "LOAD" and a["res"] == "ok" for o, a in zip(r["micro"], r["impl"])):
                tg.add("load-during-trip")
            if c["transit"] == 0:
                tg.add("zero-transit")
            if any(o[0] == "GET" and a["res"].startswith("item") for o, a in zip(r["micro"], r["impl"])):
                tg.add("consumed")
            if any(o[0] in ("CPUT", "CGET") for o in r["micro"]):
                tg.add("cancel")
            out["tags"].update(tg)
            out["sigs"].add((c["cap"], c["fdelay"], c["transit"], tuple(sorted(tg)), tuple(o[0] for o in r["micro"])))
            for o in r["micro"]:
                out["ops"][o[0]] += 1
            if r["dis"]:
                i, da, db = r["dis"]
                if pid == "C14" or r["micro"][i][0] in ("PROBE", "RPUT", "RGET", "CPUT", "CGET"):
                    out["dis"].append(dict(case=c, op_index=i, micro_op=list(r["micro"][i]), impl=da, model=db))
            v = [x for x in tfleet.oracle(c, r["micro"], r["impl"]) if x[1].startswith("C11:") == (pid == "C11")]
            if v:
                i, msg = v[0]
                out["viol"].append(dict(**{"class": "tfleet"}, message=msg, op_index=i, case=c,
                                        micro=[list(o) for o in r["micro"][:i + 1]], impl_rows=r["impl"][max(0, i - 2):i + 1]))
            if not out["samples"] and "several-trips" in tg:
                out["samples"].append(dict(cap=c["cap"], delay=c["fdelay"], transit=c["transit"], ops=[list(o) for o in r["micro"][:25]]))
    out["sigs"] = len(out["sigs"])
    out["dis"], out["viol"] = out["dis"][:3], out["viol"][:3]
    return out


def run_c14(pid, tier, seed):
    """(1) the real Fleet edge driven op by op against the extracted timed model TFleet; (2) whole
    factories with Fleet edges against the factory model (movement lines of fleet edges)."""
    n = 1200 if tier == "quick" else 96000
    shards = 8 if tier == "quick" else 16
    corpus = [c for c in load_corpus("tfleet", None)]
    jobs = [(n // shards, seed * 613 + k, corpus if k == 0 else []) for k in range(shards)]
    nf = 640 if tier == "quick" else 32000
    fjobs = [("C14", nf // 16, seed * 257 + k, []) for k in range(16)]
    with multiprocessing.Pool(16) as pool:
        a1 = pool.map_async(_c14_worker, jobs)
        a2 = pool.map_async(_f_worker, fjobs)
        outs, fouts = a1.get(), a2.get()
    res = dict(evaluations=0, distinct_nontrivial=0, samples=[], traces=0, disagreements=[], violations=[], known=[])
    tags, ops, ftags = collections.Counter(), collections.Counter(), collections.Counter()
    for o in outs:
        res["evaluations"] += o["evals"]; res["traces"] += o["evals"]; res["distinct_nontrivial"] += o["sigs"]
        res["disagreements"] += o["dis"]; res["violations"] += o["viol"]; res["samples"] += o["samples"]
        tags.update(o["tags"]); ops.update(o["ops"])
    for o in fouts:
        res["evaluations"] += o["evals"]; res["traces"] += o["evals"]; res["distinct_nontrivial"] += o["sigs"]
        res["disagreements"] += o["dis"]; res["violations"] += o["viol"]
        ftags.update(o["tags"])
    res["rule"] = ("(1) online-generated histories on the real Fleet edge (capacity 1-4, delay 1-5, transit delay 0-3, 1-3 callers, "
                   "reserve / load / get / cancel, single kernel pops and time advances, so loads fall before, in the instant of and "
                   "during trips) replayed on the extracted timed model TFleet: every field of the store, the in-transit list and the "
                   "clock compared after every micro-step; (2) random factories, all with at least one Fleet edge, compared with "
                   "the factory model on the timed movements over Fleet edges; distinct = distinct (parameters, situations, op-kind "
                   "sequence) / factory signatures")
    res["distribution"] = dict(fleet_histories_reaching=dict(tags), micro_ops=dict(ops), factories_reaching=dict(ftags))
    res["domain"] = "Fleet edge over FleetStore, alone and inside factories"
    return res


def _belt_tag(c):
    return "%s/%s" % (c["kind"], "acc" if c["acc"] else "nonacc")


def _belt_on_grid(c, odd_ok=False):
    """one producer and every arrival gap, service time and the consumer's start a whole number of slot times:
    the known early release of a follower on the continuous accumulating belt needs off-grid times or two
    producers, so an overlap on such a case is NOT that finding"""
    if c["kind"] != "cont" or len(c["producers"]) != 1 or isinstance(c["producers"][0], dict) or c.get("real") or (c.get("odd_length") and not odd_ok):
        return False
    u = c["item_length"] / c["speed"]
    vals = list(c["producers"][0]) + list(c["services"]) + [c["first_get"]] + list(c.get("hold", []))
    return all(abs(v / u - round(v / u)) < 1e-9 for v in vals)


def _belt_worker(args):
    pid, n, seed, corpus, odd = args
    rng = random.Random(seed)
    cases = list(corpus) + [belt.gen_case(rng) for _ in range(n)]
    if odd:
        cases += [belt.gen_odd_length(rng) for _ in range(max(8, n // 20))]
        cases += [belt.gen_real_case(rng) for _ in range(max(16, n // 4))]
    if pid == "C13":
        # belts whose length is not a whole number of item lengths: the travel-time clauses are not meaningful there (listed C12
        # finding), but two items standing at the exit of an accumulating belt at once are -- on the slot grid with one producer and
        # no held claim the unchanged code never does that
        cases += [belt.gen_odd_length(rng) for _ in range(max(8, n // 5))]
    out = dict(evals=0, tags=collections.Counter(), sigs=set(), dis=[], viol=[], samples=[], ops=collections.Counter())
    real = [c for c in cases if c.get("real")]
    cases = [c for c in cases if not c.get("real")]
    for c in real:
        # irregular real-valued times: the implementation alone, C12 clauses with a tolerance
        r = belt.run_impl(c)
        out["evals"] += 1
        out["tags"].update(["real-valued/" + _belt_tag(c)])
        seen = set()
        for prop, clause, msg in belt.oracle_real(c, r):
            tagc = "[%s/real-valued/%s]" % (_belt_tag(c), clause)
            if prop == pid and tagc not in seen:
                seen.add(tagc)
                out["viol"].append(dict(**{"class": "belt"}, message=tagc + " " + msg, case=c))
    for lo in range(0, len(cases), 300):
        for r in belt.run_batch(cases[lo:lo + 300]):
            c = r["case"]
            out["evals"] += 1
            kinds = [o[0] for o in r["ops"]]
            tg = {_belt_tag(c)}
            if "INT" in kinds:
                tg.add("interrupted")
            if "RESUME" in kinds:
                tg.add("resumed")
            if any(st[1].startswith("STALLED") for st in r["states"]):
                tg.add("stalled")
            if len(c["producers"]) > 1:
                tg.add("two-producers")
            if any(o[0] == "RSV" and not o[3] for o in r["ops"]):
                tg.add("entry-refused")
            if c.get("odd_length"):
                tg.add("odd-length")
            out["tags"].update(tg)
            out["ops"].update(kinds)
            out["sigs"].add((c["kind"], c["acc"], tuple(sorted(tg)), tuple(k for k in kinds if k != "IDLE")))
            if r["dis"] and not c.get("odd_length"):
                j, op, a, b = r["dis"]
                out["dis"].append(dict(case=c, op_index=j, op=op, impl=a, model=b))
            seen = set()
            for prop, clause, msg in belt.oracle(c, r):
                if prop != pid or (c.get("odd_length") and clause not in ("capacity", "exact-travel", "min-travel", "acc-exit-shared")):
                    continue
                if c.get("odd_length") and clause == "acc-exit-shared" and not (c["acc"] and not c.get("hold") and _belt_on_grid(c, odd_ok=True)):
                    continue
                if clause == "stall-crash" and not _belt_on_grid(c):
                    continue        # off the slot grid / two producers: the failure is the listed C12 finding (accumulating-order)
                ongrid = clause in ("acc-overlap", "acc-exit-shared", "order", "crash", "stall-crash") and c["acc"] and _belt_on_grid(c, odd_ok=True)
                # on the slot grid with one producer: not the listed early-release finding; when the destination claims the head and
                # takes it later (hold) the tag says so
                tagc = "[%s/%s%s%s]" % (_belt_tag(c), "odd-length/" if c.get("odd_length") else "",
                                        ("held-grid/" if c.get("hold") else "grid/") if ongrid else "", clause)
                if tagc not in seen:
                    seen.add(tagc)
                    out["viol"].append(dict(**{"class": "belt"}, message=tagc + " " + msg, case=c))
            if not out["samples"] and "resumed" in tg:
                out["samples"].append(dict(case=c, first_ops=[list(o) for o in r["ops"][:25]]))
    out["sigs"] = len(out["sigs"])
    # keep one violation per clause (the shortest case)
    best = {}
    for v in out["viol"]:
        k = v["message"].split("]")[0]
        if k not in best or len(json.dumps(v["case"])) < len(json.dumps(best[k]["case"])):
            best[k] = v
    out["viol"], out["dis"] = list(best.values()), out["dis"][:3]
    return out


def _belt_factory_worker(args):
    """C12 inside factories: conveyor edges between real nodes, judged by the factory oracle's C12 clauses (entry spacing, travel
    time, capacity on unit-length belts)"""
    pid, n, seed = args
    rng = random.Random(seed)
    out = dict(evals=0, viol=[])
    for _ in range(n):
        c = factory.gen_config_conv_series(rng) if _ % 2 else factory.gen_config_conv(rng)
        lines = factory.run_impl(c)
        out["evals"] += 1
        for prop, msg in factory_oracle.check(c, lines):
            if prop == pid:
                out["viol"].append(dict(**{"class": "factory"}, message="[conveyor in a factory] " + msg, case=c))
                break
    out["viol"] = sorted(out["viol"], key=lambda v: len(json.dumps(v["case"])))[:2]
    return out


def run_belt(pid, tier, seed):
    """the real conveyors (continuous / slotted, accumulating or not) under the real kernel with
    producer and consumer processes; every recorded step replayed on the extracted timed belt model
    TBelt; C12 / C13 clauses evaluated on the implementation's own record of the run"""
    n = 1600 if tier == "quick" else 64000
    shards = 16
    corpus = load_corpus("tbelt", None)
    jobs = [(pid, n // shards, seed * 419 + k, corpus if k == 0 else [], pid == "C12") for k in range(shards)]
    with multiprocessing.Pool(16) as pool:
        fouts = pool.map_async(_belt_factory_worker, [(pid, (200 if tier == "quick" else 6000) // 8, seed * 733 + k) for k in range(8)] if pid == "C12" else [])
        outs = pool.map(_belt_worker, jobs)
        fouts = fouts.get()
    res = dict(evaluations=0, distinct_nontrivial=0, samples=[], traces=0, disagreements=[], violations=[], known=[])
    for o in fouts:
        res["evaluations"] += o["evals"]
    tags, ops = collections.Counter(), collections.Counter()
    best = {}
    for o in outs:
        res["evaluations"] += o["evals"]; res["traces"] += o["evals"]; res["distinct_nontrivial"] += o["sigs"]
        res["disagreements"] += o["dis"]; res["samples"] += o["samples"]
        tags.update(o["tags"]); ops.update(o["ops"])
        for v in o["viol"]:
            k = v["message"].split("]")[0]
            if k not in best or len(json.dumps(v["case"])) < len(json.dumps(best[k]["case"])):
                best[k] = v
    res["violations"] = [best[k] for k in sorted(best)] + [v for o in fouts for v in o["viol"]][:3]
    res["rule"] = ("random scenarios on the real ConveyorBelt classes: continuous (item length 0.5-2, speed 0.5-2, 1-5 item lengths long) "
                   "and slotted (capacity 1-5, slot delay 0.5-2), accumulating or not, 1-2 producer processes with regular / bursty / "
                   "irregular (quarter-unit) arrival gaps, one consumer with start time 0-7 and service times 0-5 (so short, long and "
                   "repeated stalls, stalls beginning while items enter, removals and arrivals in one instant); every admission test, "
                   "put, interrupt, resume, arrival at the exit and get recorded in kernel order and replayed on the extracted model "
                   "TBelt (legality of every step, admission outcomes, items on the belt and at the exit after every step); the C12 / "
                   "C13 clauses evaluated on the implementation's own times; distinct = distinct (kind, mode, situations, step-kind sequence)"
                   + ("; plus a stream of continuous belts whose length is not a whole number of item lengths (known finding) and a stream with "
                      "irregular real-valued (decimal) speeds, slot delays, arrival gaps and service times, run on the implementation "
                      "alone with the C12 clauses evaluated up to 1e-6; plus random factories with unit-length conveyor edges between real nodes (two "
                      "conveyors in series around a multi-worker machine among them), entry spacing / travel time / capacity judged on the movement trace" if pid == "C12" else ""))
    res["distribution"] = dict(runs_reaching=dict(tags), recorded_steps=dict(ops))
    res["domain"] = "ConveyorBelt (continuous, slotted) over both BeltStore classes, driven through reserve_put/put/reserve_get/get"
    return res


# ------------------------------------------------------------------ factory-level properties (L2)
# which kinds of canonical output lines concern which property (first differing line of a disagreement)
F_LINES = {
    "C03": {"G", "P", "T", "D", "R", "NODE", "EDGE"},
    "C06": {"P", "T"},
    "C08": {"P", "T", "W"},
    "C09": {"P", "D", "G", "T"},
    "C10": {"P", "T", "R"},
    "C14": {"P", "T"},
    "C15": {"S", "W", "P", "T", "CRASH"},
    "C16": {"K", "P", "T", "D"},
    "C17": {"NODE"},
    "C18": {"NODE", "EDGE", "R"},
    "C19": {"G", "P", "T", "D", "R", "S", "W", "NODE", "EDGE", "CRASH", "EXHAUSTED"},
    "C20": {"CRASH", "EXHAUSTED"},
}


def _f_worker(args):
    pid, n, seed, corpus = args
    rng = random.Random(seed)
    cfgs = list(corpus) + [factory.gen_config(rng, with_fleet=True) if i % 3 else factory.gen_config_sc(rng) for i in range(n)]
    if pid != "C14":
        # factories with conveyor edges: the model has no conveyors, so these are run on the implementation only and
        # judged by the oracle's clauses (conservation, timing, counters, accounting, crash freedom ...)
        cfgs += [factory.gen_config_conv(rng) for _ in range(max(2, n // 8))]
    if pid in ("C10", "C15"):
        cfgs += [factory.gen_config_lazy(rng) for _ in range(max(2, n // 8))]
    if pid == "C14":
        cfgs = [c for c in cfgs if any(e["kind"] == "fleet" for e in c["edges"])]
    if pid in ("C20", "C15"):
        cfgs += [factory.gen_invalid(rng) for _ in range(max(4, n // 3))]
    out = dict(evals=0, tags=collections.Counter(), sigs=set(), dis=[], viol=[], samples=[], lines=0)
    for lo in range(0, len(cfgs), 100):
        chunk = cfgs[lo:lo + 100]
        batch = factory.run_batch([c for c in chunk if not c.get("model_skip")])
        batch += [dict(case=c, impl=factory.run_impl(c), model=[], dis=None) for c in chunk if c.get("model_skip")]
        if pid == "C03":
            # the verified conservation monitor (coq/theories/Traces/Conserve.v) on the implementation's trace
            ok = [r for r in batch if not any(l.startswith(("CRASH", "EXHAUSTED")) for l in r["impl"])]
            for r, verdict in zip(ok, factory.run_monitor([r["case"] for r in ok], [r["impl"] for r in ok])):
                if not verdict.startswith("ACCEPT"):
                    out["viol"].append(dict(**{"class": "factory"}, message="conservation monitor: " + verdict, case=r["case"]))
        for r in batch:
            c = r["case"]
            out["evals"] += 1
            out["lines"] += len(r["impl"])
            tg = factory_oracle.tags(c, r["impl"])
            out["tags"].update(tg)
            out["sigs"].add((len(c["nodes"]), len(c["edges"]), tuple(sorted(tg)), tuple(n_["kind"] for n_ in c["nodes"]),
                             tuple((n_["blocking"], n_["outsel"][0], n_["wcap"]) for n_ in c["nodes"])))
            if r["dis"]:
                k, a, b = r["dis"]
                flat = [y for x in (a, b) if x for y in (x if isinstance(x, (list, tuple)) else [x])]
                kinds = {str(y).split()[0] for y in flat if y} | set(r.get("kinds", ()))
                if any(str(y).startswith(("CRASH", "EXHAUSTED")) for y in flat):
                    kinds |= {"CRASH", "EXHAUSTED"} & {str(y).split()[0] for y in flat}
                    kinds.add("CRASH")      # one side ends in an unhandled exception / never finishes, the other does not
                if pid == "C14":
                    # only movements over Fleet edges concern C14
                    kinds = {str(x).split()[0] for x in (a, b) if x and str(x).split()[0] in ("P", "T")
                             and c["edges"][int(str(x).split()[2])]["kind"] == "fleet"}
                if kinds & F_LINES[pid]:
                    out["dis"].append(dict(case=c, line_index=k, impl=a, model=b))
            for prop, msg in factory_oracle.check(c, r["impl"]):
                if prop == pid:
                    out["viol"].append(dict(**{"class": "factory"}, message=msg, case=c))
                    break
            if not out["samples"] and len(tg) >= 4:
                out["samples"].append(dict(config=dict(T=c["T"], nodes=c["nodes"], edges=c["edges"], order=c["order"]),
                                           first_lines=r["impl"][:12]))
    out["sigs"] = len(out["sigs"])
    out["dis"], out["viol"] = out["dis"][:3], out["viol"][:3]
    return out



def _f_search_worker(args):
    """implementation-only search for a configuration on which the oracle of [pid] fails"""
    pid, n, seed = args
    rng = random.Random(seed)
    found = []
    for i in range(n):
        c = factory.gen_config(rng, with_fleet=True) if i % 3 else factory.gen_config_sc(rng)
        try:
            out = factory.run_impl(c)
        except Exception:  # noqa
            continue
        for prop, msg in factory_oracle.check(c, out):
            if prop == pid:
                found.append(dict(**{"class": "factory"}, message=msg, case=c))
                break
        if pid == "C03" and not found and not any(l.startswith(("CRASH", "EXHAUSTED")) for l in out):
            verdict = factory.run_monitor([c], [out])[0]
            if not verdict.startswith("ACCEPT"):
                found.append(dict(**{"class": "factory"}, message="conservation monitor: " + verdict, case=c))
        if found:
            break
    return found


def _conv_worker(args):
    n, seed = args
    rng = random.Random(seed)
    out = dict(evals=0, viol=[], tags=collections.Counter())
    for _ in range(n):
        c = convfactory.gen_case(rng)
        o = convfactory.run_impl(c)
        out["evals"] += 1
        out["tags"].update(["conveyor-factory:" + c["shape"], "conveyor:" + c["convs"][0]["kind"]] +
                           (["non-blocking node before a conveyor"] if not (c["src_blocking"] and c["m_blocking"]) else []))
        for tag, msg in convfactory.oracle(c, o):
            if len(out["viol"]) < 3:
                out["viol"].append(dict(**{"class": "convfactory"}, message="[conveyor-factory/%s] %s" % (tag, msg), case=c))
    return out


def run_factory(pid, tier, seed):
    n = 3200 if tier == "quick" else 48000
    shards = 16
    corpus = load_corpus("factory", None)
    jobs = [(pid, n // shards, seed * 131 + k, corpus if k == 0 else []) for k in range(shards)]
    with multiprocessing.Pool(min(16, shards)) as pool:
        outs = pool.map(_f_worker, jobs)
    res = dict(evaluations=0, distinct_nontrivial=0, samples=[], traces=0, disagreements=[], violations=[], known=[])
    tags, lines = collections.Counter(), 0
    for o in outs:
        res["evaluations"] += o["evals"]; res["traces"] += o["evals"]; res["distinct_nontrivial"] += o["sigs"]
        res["disagreements"] += o["dis"]; res["violations"] += o["viol"]; res["samples"] += o["samples"]
        tags.update(o["tags"]); lines += o["lines"]
    if res["disagreements"] and not res["violations"]:
        # the tie is broken: search the implementation for a concrete failing configuration (4.3)
        per = 150 if tier == "quick" else 3000
        with multiprocessing.Pool(16) as pool:
            for f in pool.map(_f_search_worker, [(pid, per, seed * 7919 + k) for k in range(16)]):
                res["violations"] += f[:1]
        res["evaluations"] += 16 * per
    res["rule"] = ("random factories (two thirds: 1-2 sources, 0-2 layers of 1-2 machines, 1-2 sinks, fan-in/fan-out; one third: pallet "
                   "source + item sources -> combiner -> optional machine -> splitter -> sinks), Buffer (FIFO/LIFO, delay "
                   "stream constant/callable/generator) and Fleet edges, every blocking flag, work_capacity 1-3, policies "
                   "FIRST_AVAILABLE / ROUND_ROBIN / constant / callable / generator on both sides, shuffled construction and connect "
                   "order, integer delays incl. 0, horizon 10-40; built from the real classes, run under the real kernel, and "
                   "compared line by line (timed item movements, draws, recorded selections, final statistics) with the extracted "
                   "Gallina factory model; distinct = distinct (shape, node kinds, per-node (blocking, policy, work_capacity), "
                   "situations reached); every factory moves items, so all are non-trivial")
    res["distribution"] = dict(factories_reaching=dict(tags), canonical_lines_compared=lines)
    res["domain"] = "node types Source (items / pallets), Machine, Splitter, Combiner, Sink; edge types Buffer, Fleet (conveyor belts are not in the factory model)"
    if pid == "C20":
        # factories with conveyor edges: not in the Gallina factory model; crash freedom, progress of time and counts only
        nc = 320 if tier == "quick" else 9600
        with multiprocessing.Pool(16) as pool:
            couts = pool.map(_conv_worker, [(nc // 16, seed * 811 + k) for k in range(16)])
        ctags = collections.Counter()
        for o in couts:
            res["evaluations"] += o["evals"]; res["violations"] += o["viol"][:1]; ctags.update(o["tags"])
        res["rule"] += ("; plus small lines with continuous / slotted conveyors between Source, Machine and Sink (blocking and non-blocking, "
                        "FIRST_AVAILABLE / ROUND_ROBIN) built from the real classes and run to the horizon: no unhandled exception, time advances, "
                        "received + discarded <= generated (not compared with a model)")
        res["distribution"]["conveyor_factories"] = dict(ctags)
        res["domain"] += "; conveyors inside factories: crash freedom explored only"
    return res


def run_c19(pid, tier, seed):
    """factory correspondence + reproducibility: same configuration twice in one interpreter and in
    separate interpreters under different hash seeds / allocation histories"""
    import subprocess, tempfile, hashlib
    res = run_factory(pid, tier, seed)
    rng = random.Random(seed + 7)
    n = 24 if tier == "quick" else 400
    cfgs = [factory.gen_config(rng, with_fleet=True) for _ in range(n)]
    # lines with splitters / combiners and lines with conveyor edges are part of the reproducibility runs too
    cfgs += [factory.gen_config_sc(rng) for _ in range(n // 3)] + [factory.gen_config_conv(rng) for _ in range(n // 3)]
    # ... and factories re-wired with the documented reconnect=True (an edge of a node with three edges on one side moved away)
    cfgs += [factory.gen_config_moved(rng) for _ in range(n // 3)]
    # ... and multi-worker machines in front of a conveyor and a small buffer (several requests of one node waiting on one belt)
    cfgs += [factory.gen_config_conv_fanout(rng) for _ in range(n // 6)] + [factory.gen_config_conv_queue(rng) for _ in range(n // 3)]
    n = len(cfgs)
    from harness import repro
    a, b = repro.digests(cfgs), repro.digests(cfgs, churn=1000)
    runs = {"in-process-1": a, "in-process-2": b}
    # each configuration run twice back to back (state kept in the library between two runs of one model shows here)
    back = [repro.digests([c, c]) for c in cfgs]
    runs["back-to-back-1"] = [x[0] for x in back]
    runs["back-to-back-2"] = [x[1] for x in back]
    more = [(factory.gen_config(rng, with_fleet=True) if i % 3 else factory.gen_config_sc(rng)) if i % 5 else factory.gen_config_conv(rng)
            for i in range(200 if tier == "quick" else 3000)]
    for c in more:
        d1, d2 = repro.digests([c, c])
        if d1 != d2:
            res["violations"].append(dict(**{"class": "repro"}, message="the same configuration run twice back to back in one interpreter gave different outputs", case=c))
            break
    res["evaluations"] += 2 * len(more)
    with tempfile.NamedTemporaryFile("w", suffix=".json", delete=False) as f:
        json.dump(cfgs, f)
        path = f.name
    try:
        for hs in (["0", "1", "12345"] if tier == "quick" else ["0", "1", "2", "77", "12345", "999983"]):
            env = dict(os.environ, PYTHONHASHSEED=hs)
            p = subprocess.run(["/venv/bin/python", os.path.join(VERIF, "harness", "repro.py"), path, str(int(hs) % 5000)],
                               stdout=subprocess.PIPE, stderr=subprocess.DEVNULL, text=True, env=env, timeout=1800)
            runs["PYTHONHASHSEED=" + hs] = json.loads(p.stdout.strip().split("\n")[-1]) if p.returncode == 0 else None
    finally:
        os.unlink(path)
    for name, d in runs.items():
        if d is None:
            res["violations"].append(dict(**{"class": "repro"}, message="reproducibility run %s crashed" % name, case=None))
            continue
        for i, (x, y) in enumerate(zip(a, d)):
            if x != y:
                res["violations"].append(dict(**{"class": "repro"}, message="run %s differs from the first in-process run" % name, case=cfgs[i]))
                break
    res["evaluations"] += n * len(runs)
    res["distribution"]["reproducibility_runs"] = {k: (len(v) if v else None) for k, v in runs.items()}
    res["rule"] += "; plus %d configurations run twice in one interpreter and once in each of %d fresh interpreters with different PYTHONHASHSEED and allocation history, and twice back to back, full canonical output compared by digest" % (n, len(runs) - 4)
    return res


def replay(pid, path):
    obj = json.load(open(path))
    case = obj.get("case") or next((d.get("case") for d in obj.get("correspondence_disagreements", []) if d.get("case")), None)
    if not case:
        print("replay file carries no case (kind=%s): %s" % (obj.get("kind"), json.dumps(obj)[:1500]))
        return 1 if obj.get("kind") == "no-failing-input-found" else 0
    model = case.get("model")
    if model == "tbelt":
        r = belt.run_batch([case])[0]
        for o, ob, ml in zip(r["ops"], r["obs"], r["model"]):
            print(o, "impl", ob, "model", ml)
        v = [x for x in belt.oracle(case, r) if x[0] == pid]
        print("items:", r["items"], "crash:", r["crash"]); print("oracle:", v, "first disagreement:", r["dis"])
        return 1 if v or r["dis"] else 0
    if model == "tfleet":
        r = tfleet.run_batch([case])[0]
        for o, a, b in zip(r["micro"], r["impl"], r["model"]):
            print(o, "\n   impl ", a, "\n   model", b)
        v = tfleet.oracle(case, r["micro"], r["impl"])
        if pid in ("C01", "C02"):
            from harness import edge_oracle
            v = [x for x in edge_oracle.check(case, r["micro"], [x if isinstance(x, dict) else tfleet.split(x) for x in r["impl"]]) if x[0] == pid]
        print("oracle:", v, "first disagreement:", r["dis"])
        return 1 if v or r["dis"] else 0
    if model == "tbuffer":
        r = tbuffer.run_batch([case])[0]
        for o, a, b in zip(r["micro"], r["impl"], r["model"]):
            print(o, "\n   impl ", a, "\n   model", b)
        v = tbuffer.oracle(case, r["micro"], r["impl"], r["draws"])
        if pid in ("C01", "C02"):
            from harness import edge_oracle
            v = [x for x in edge_oracle.check(case, r["micro"], [x if isinstance(x, dict) else tbuffer.split(x) for x in r["impl"]]) if x[0] == pid]
        print("oracle:", v, "first disagreement:", r["dis"])
        return 1 if v or r["dis"] else 0
    if "nodes" in case:
        if case.get("model_skip"):
            r = dict(case=case, impl=factory.run_impl(case), model=[], dis=None)
        else:
            r = factory.run_batch([case])[0]
        for l in r["impl"]:
            print("impl ", l)
        v = [x for x in factory_oracle.check(case, r["impl"]) if x[0] == pid]
        print("oracle:", v, "first disagreement:", r["dis"])
        return 1 if v or r["dis"] else 0
    if model == "edge-foreign-cancel":
        print("directed scenario (two %s edges, reserve_%s_cancel on one with a token of the other): re-run the check to reproduce" % (case["kind"], case["side"]))
        return 1
    if model == "storep-real":
        msg = storep.replay_real(case)
        print("oracle:", msg)
        return 1 if msg else 0
    if model == "storeq":
        r = storeq.run_batch([case])[0]
        print(json.dumps({k: r[k] for k in r if k != "case"}, default=str)[:4000])
        return 1 if r.get("dis") or r.get("viol") else 0
    r = l1.run_batch([case])[0]
    v = [x for x in store_oracle.check(case, r["micro"], r["impl"]) if x[0] == pid]
    for i, (o, a, b) in enumerate(zip(r["micro"], r["impl"], r["model"])):
        print(i, o, "\n   impl ", a, "\n   model", b)
    print("oracle:", v, "first disagreement:", r["dis"])
    return 1 if v or r["dis"] else 0


L1_TRUST = ["modelled, not verified: the Python store classes themselves; SimPy's Event/succeed; CPython list semantics",
            "side condition of the bound-store theorems: callers put pairwise distinct objects (NoDup put_ids)"]

L2_TRUST = ["modelled, not verified: the node / edge classes and the SimPy kernel are re-expressed as the Gallina factory model "
            "(coq/theories/Kernel, coq/theories/Factory) and tied by trace-exact differential correspondence",
            "integer delays in the harness (exact in floating point); user callables / generators are cyclic streams"]

SPECS = {
    "C01": dict(run=run_l1, trusted=L1_TRUST),
    "C02": dict(run=run_l1, trusted=L1_TRUST),
    "C04": dict(run=run_l1, trusted=L1_TRUST),
    "C05": dict(run=run_c05, trusted=L1_TRUST),
    "C06": dict(run=run_c06, trusted=L1_TRUST + ["factory corollary (FIRST_AVAILABLE nodes reserving on all in-edges and cancelling all but one): compared on random factories, not proved"]),
    "C07": dict(run=run_l1, trusted=L1_TRUST),
    "C03": dict(run=run_factory, trusted=L2_TRUST + ["the monitor's acceptance of the sampled traces is a run-time check; whole-factory conservation for every configuration is not a theorem"]),
    "C08": dict(run=run_factory, trusted=L2_TRUST),
    "C15": dict(run=run_factory, trusted=L2_TRUST),
    "C17": dict(run=run_factory, trusted=L2_TRUST + ["exact arithmetic in the theorems; the implementation uses binary floats (integer delays in the harness keep it exact)"]),
    "C18": dict(run=run_factory, trusted=L2_TRUST + ["integer time ticks in the integral theorem"]),
    "C09": dict(run=run_factory, trusted=L2_TRUST),
    "C10": dict(run=run_factory, trusted=L2_TRUST + ["the end-of-instant statement is checked at the end of every explored run, not proved"]),
    "C16": dict(run=run_factory, trusted=L2_TRUST),
    "C20": dict(run=run_factory, trusted=L2_TRUST + ["crash freedom and finiteness per instant are explored (valid + invalid configuration streams), not proved"]),
    "C19": dict(run=run_c19, trusted=L2_TRUST + ["hash / identity dependence is a property of the CPython run, not of the model: it is tested (several hash seeds, allocation histories), not proved"]),
    "C12": dict(run=run_belt, trusted=["modelled, not verified: both BeltStore classes and ConveyorBelt.put/get (travel timer with interrupt / "
                                       "resume, admission test) re-expressed as TBelt; the SimPy kernel's contract is the legality of BReady / BIdle",
                                       "interrupts and resumes are inputs of the model (decided by ConveyorBelt.behaviour and the pattern heuristics)",
                                       "order under interrupts is compared run by run, proved only for uninterrupted histories",
                                       "times are multiples of 1/4 and speeds / lengths powers of two in the harness (exact floats)"]),
    "C13": dict(run=run_belt, trusted=["modelled, not verified: as for C12; which items are interrupted at a stall (ConveyorBelt.behaviour, "
                                       "selective_interrupt, the accumulating pattern heuristics) is not modelled: it is compared with the "
                                       "kinematic statement of C13 on every explored run, not proved"]),
    "C14": dict(run=run_c14, trusted=["modelled, not verified: Fleet / FleetStore classes and the SimPy kernel (its contract is the legality "
                                      "condition of FActivate / FArrive / FIdle in the timed model, checked against the real kernel by the correspondence)",
                                      "the waiting bound is proved for every legal history: legality (the kernel processes due events and never lets the clock pass one) is what the correspondence checks against the real kernel",
                                      "integer delays in the harness"]),
    "C11": dict(run=run_c11, trusted=["modelled, not verified: Buffer / BufferStore classes, SimPy kernel (its contract 'an event scheduled "
                                      "for t is processed at now = t, the clock never passes a pending event' is the legality condition "
                                      "of TFire / TIdle in the timed model and is checked against the real kernel by the correspondence)",
                                      "integer delays in the harness (exact in floating point)"]),
}
