"""Per-property exploration: which harness runs, what is compared, which oracle clauses count."""
import os, sys, json, random, glob, collections, multiprocessing, time
VERIF = os.path.dirname(os.path.dirname(os.path.abspath(__file__)))
from harness import common, l1, store_oracle, tbuffer, storeq

# fields of a row whose disagreement (model vs implementation) concerns each store-level property
L1_FIELDS = {
    "C01": {"items", "ready", "putres", "res"},
    "C02": {"items", "ready", "getres", "res"},
    "C04": {"trig", "putq", "getq", "putres", "getres"},
    "C05": {"trig", "putq", "getq"},
    "C06": {"items", "ready", "getres", "res"},
    "C07": {"res"},
}
L1_SIZES = {"quick": 400, "thorough": 40000}


def matches_finding(k, v):
    """a listed finding suppresses a violation only if it names the same class and the same clause"""
    m = k.get("match", {})
    if m.get("kind") and m["kind"] != v.get("class"):
        return False
    if m.get("clause") and m["clause"] not in v.get("message", ""):
        return False
    return bool(m)


def _l1_worker(args):
    pid, model, kind, n, seed, corpus = args
    rng = random.Random(seed)
    cases = list(corpus) + [l1.gen(rng, model, kind, rng.randrange(8, 70), i % 4 == 0) for i in range(n)]
    out = dict(evals=0, tags=collections.Counter(), sigs=set(), dis=[], viol=[], samples=[], ops=collections.Counter(),
               errs=collections.Counter())
    for lo in range(0, len(cases), 500):
        for r in l1.run_batch(cases[lo:lo + 500]):
            c = r["case"]
            out["evals"] += 1
            tags = store_oracle.nontrivial_tags(c, r["micro"], r["impl"])
            out["tags"].update(tags)
            if tags:
                out["sigs"].add((model, kind, c["cap"], c.get("mode"), tuple(sorted(tags)),
                                 tuple(o[0] for o in r["micro"])))
            for o, row in zip(r["micro"], r["impl"]):
                out["ops"][o[0]] += 1
                if row["res"].startswith("err:"):
                    out["errs"][row["res"]] += 1
            if r["dis"]:
                i, diff, da, db = r["dis"]
                rel = set(diff) & L1_FIELDS[pid]
                if pid == "C01":
                    # only sizes and the outcome of puts matter for the capacity property
                    n = lambda d, f: len([x for x in d.get(f, "").split(",") if x])
                    rel = {f for f in ("items", "ready", "putres") if n(da, f) != n(db, f)}
                    if "res" in diff and i < len(r["micro"]) and r["micro"][i][0] == "PUT":
                        rel.add("res")
                if pid == "C07" and (da.get("res", "").startswith("err") or db.get("res", "").startswith("err")):
                    rel = set(diff)
                if rel or "length" in diff:
                    out["dis"].append(dict(case=c, op_index=i, micro_op=list(r["micro"][i]) if i < len(r["micro"]) else None,
                                           fields=sorted(diff), impl=da, model=db))
            for prop, i, msg in store_oracle.check(c, r["micro"], r["impl"]):
                if prop == pid:
                    out["viol"].append(dict(**{"class": "%s/%s" % (model, kind)}, message=msg, op_index=i, case=c,
                                            micro=[list(o) for o in r["micro"][:i + 1]],
                                            impl_rows=r["impl"][max(0, i - 2):i + 1]))
                    break
            if len(out["samples"]) < 1 and tags:
                out["samples"].append(dict(store="%s/%s" % (model, kind), cap=c["cap"], mode=c.get("mode"),
                                           ops=[list(o) for o in r["micro"][:25]],
                                           last_impl_row=r["impl"][min(24, len(r["impl"]) - 1)] if r["impl"] else None))
    out["sigs"] = len(out["sigs"])
    out["dis"] = out["dis"][:3]
    out["viol"] = out["viol"][:3]
    return out


def load_corpus(model, kind):
    out = []
    anykind = kind is None
    for f in sorted(glob.glob(os.path.join(VERIF, "harness", "corpus", "*.json"))):
        try:
            c = json.load(open(f))
        except Exception:
            continue
        for case in (c if isinstance(c, list) else [c]):
            if case.get("model") == model and (anykind or case.get("kind") == kind):
                out.append(case)
    return out


def run_l1(pid, tier, seed):
    n = L1_SIZES[tier]
    jobs = []
    for ci, (model, kind) in enumerate(l1.CLASSES):
        corpus = load_corpus(model, kind)
        shards = 1 if tier == "quick" else 8
        for sh in range(shards):
            jobs.append((pid, model, kind, n // shards, seed * 1000 + ci * 50 + sh, corpus if sh == 0 else []))
    with multiprocessing.Pool(min(16, len(jobs))) as pool:
        outs = pool.map(_l1_worker, jobs)
    res = dict(evaluations=0, distinct_nontrivial=0, samples=[], traces=0, disagreements=[], violations=[], known=[],
               distribution={})
    tags, ops, errs = collections.Counter(), collections.Counter(), collections.Counter()
    for o in outs:
        res["evaluations"] += o["evals"]
        res["traces"] += o["evals"]
        res["distinct_nontrivial"] += o["sigs"]
        res["disagreements"] += o["dis"]
        res["violations"] += o["viol"]
        res["samples"] += o["samples"]
        tags.update(o["tags"]); ops.update(o["ops"]); errs.update(o["errs"])
    res["rule"] = ("online-generated op histories (8-70 ops, 1-4 callers, capacity 1-6, mixed priorities, FIFO/LIFO, "
                   "filters, one in four with a malformed-call stream) per store class %s, executed on the real class under a "
                   "real simpy.Environment with the harness as scheduler and on the extracted Coq model; a history is "
                   "non-trivial when it reaches one of: full+waiting-put, waiting-get, two-granted-gets, cancel-get, "
                   "cancel-put, rejected-call, timer-grant; distinct = distinct (class, capacity, mode, tags, op-kind "
                   "sequence)" % (["%s/%s" % c for c in l1.CLASSES],))
    res["distribution"] = dict(histories_reaching=dict(tags), micro_ops=dict(ops), error_kinds=dict(errs))
    res["domain"] = "store classes: ReservableReqStore, ReservablePriorityReqStore, ReservablePriorityReqFilterStore, BufferStore (FIFO/LIFO), FleetStore"
    return res



def _q_worker(args):
    n, seed = args
    rng = random.Random(seed)
    cases = [storeq.gen_case(rng, rng.randrange(8, 70)) for _ in range(n)]
    out = dict(evals=0, sigs=set(), dis=[], viol=[], samples=[])
    for r in storeq.run_batch(cases):
        c = r["case"]
        out["evals"] += 1
        out["sigs"].add((c["cap"], tuple(o[0] for o in r["micro"])))
        if r["dis"]:
            j, a, b = r["dis"]
            out["dis"].append(dict(case=c, op_index=j, impl=a, model=b))
        v = storeq.oracle(c, r["micro"], r["impl"])
        if v:
            out["viol"].append(dict(**{"class": "storeq"}, message=v[0][1], op_index=v[0][0], case=c))
        if not out["samples"]:
            out["samples"].append(dict(store="PriorityReqStore", cap=c["cap"], ops=c["ops"][:25]))
    out["sigs"] = len(out["sigs"])
    return out


def run_c05(pid, tier, seed):
    res = run_l1(pid, tier, seed)
    n = 600 if tier == "quick" else 60000
    shards = 2 if tier == "quick" else 16
    with multiprocessing.Pool(shards) as pool:
        outs = pool.map(_q_worker, [(n // shards, seed * 31 + k) for k in range(shards)])
    for o in outs:
        res["evaluations"] += o["evals"]; res["traces"] += o["evals"]; res["distinct_nontrivial"] += o["sigs"]
        res["disagreements"] += o["dis"][:2]; res["violations"] += o["viol"][:2]; res["samples"] += o["samples"][:1]
    res["rule"] += "; plus PriorityReqStore histories (put/get requests with priorities, kernel pops, cancels of waiting requests)"
    res["domain"] += ", PriorityReqStore"
    return res


# ------------------------------------------------------------------ C11 (timed Buffer edge)
def _c11_worker(args):
    n, seed, corpus = args
    rng = random.Random(seed)
    cases = list(corpus) + [tbuffer.gen_case(rng, rng.randrange(10, 80)) for _ in range(n)]
    out = dict(evals=0, tags=collections.Counter(), sigs=set(), dis=[], viol=[], samples=[], ops=collections.Counter())
    for lo in range(0, len(cases), 400):
        for r in tbuffer.run_batch(cases[lo:lo + 400]):
            c = r["case"]
            out["evals"] += 1
            tg = tbuffer.tags(c, r["micro"], r["impl"])
            out["tags"].update(tg)
            out["sigs"].add((c["cap"], c["mode"], c["delay_source"], tuple(sorted(tg)), tuple(o[0] for o in r["micro"])))
            for o in r["micro"]:
                out["ops"][o[0]] += 1
            if r["dis"]:
                i, diff, da, db = r["dis"]
                out["dis"].append(dict(case=c, op_index=i, micro_op=list(r["micro"][i]), fields=diff, impl=da, model=db))
            v = tbuffer.oracle(c, r["micro"], r["impl"], r["draws"])
            if v:
                i, msg = v[0]
                out["viol"].append(dict(**{"class": "tbuffer"}, message=msg, op_index=i, case=c,
                                        micro=[list(o) for o in r["micro"][:i + 1]], impl_rows=r["impl"][max(0, i - 2):i + 1]))
            if not out["samples"] and "timer-grant" in tg:
                out["samples"].append(dict(cap=c["cap"], mode=c["mode"], delay_source=c["delay_source"],
                                           ops=[list(o) for o in r["micro"][:25]]))
    out["sigs"] = len(out["sigs"])
    out["dis"], out["viol"] = out["dis"][:3], out["viol"][:3]
    return out


def run_c11(pid, tier, seed):
    n = 1500 if tier == "quick" else 120000
    shards = 4 if tier == "quick" else 16
    corpus = [c for c in load_corpus("tbuffer", None)]
    jobs = [(n // shards, seed * 977 + k, corpus if k == 0 else []) for k in range(shards)]
    with multiprocessing.Pool(min(16, shards)) as pool:
        outs = pool.map(_c11_worker, jobs)
    res = dict(evaluations=0, distinct_nontrivial=0, samples=[], traces=0, disagreements=[], violations=[], known=[])
    tags, ops = collections.Counter(), collections.Counter()
    for o in outs:
        res["evaluations"] += o["evals"]; res["traces"] += o["evals"]; res["distinct_nontrivial"] += o["sigs"]
        res["disagreements"] += o["dis"]; res["violations"] += o["viol"]; res["samples"] += o["samples"]
        tags.update(o["tags"]); ops.update(o["ops"])
    res["rule"] = ("online-generated histories on the real Buffer edge (capacity 1-4, FIFO/LIFO, delay source constant / callable / "
                   "generator with delays 0-5 incl. zero, 1-3 callers, reserve/put/get/cancel, kernel pops, time advances, and "
                   "PROBE = can_put()/can_get()/occupancy() followed by probe reservations) replayed on the extracted timed model "
                   "TBuffer + regenerated query fragments; every history is non-trivial (contains a put or a probe); distinct = "
                   "distinct (capacity, mode, delay source, situations reached, op-kind sequence)")
    res["distribution"] = dict(histories_reaching=dict(tags), micro_ops=dict(ops))
    res["domain"] = "Buffer edge over BufferStore; Fleet.can_put/can_get are covered by the regenerated-fragment theorems and by C14's harness"
    return res


def replay(pid, path):
    obj = json.load(open(path))
    case = obj.get("case")
    if not case:
        print("replay file carries no case (kind=%s): %s" % (obj.get("kind"), json.dumps(obj)[:600]))
        return 0
    r = l1.run_batch([case])[0]
    v = [x for x in store_oracle.check(case, r["micro"], r["impl"]) if x[0] == pid]
    for i, (o, a, b) in enumerate(zip(r["micro"], r["impl"], r["model"])):
        print(i, o, "\n   impl ", a, "\n   model", b)
    print("oracle:", v, "first disagreement:", r["dis"])
    return 1 if v or r["dis"] else 0


L1_TRUST = ["modelled, not verified: the Python store classes themselves; SimPy's Event/succeed; CPython list semantics",
            "side condition of the bound-store theorems: callers put pairwise distinct objects (NoDup put_ids)"]

SPECS = {
    "C01": dict(run=run_l1, trusted=L1_TRUST),
    "C02": dict(run=run_l1, trusted=L1_TRUST),
    "C04": dict(run=run_l1, trusted=L1_TRUST),
    "C05": dict(run=run_c05, trusted=L1_TRUST),
    "C06": dict(run=run_l1, trusted=L1_TRUST),
    "C07": dict(run=run_l1, trusted=L1_TRUST),
    "C11": dict(run=run_c11, trusted=["modelled, not verified: Buffer / BufferStore classes, SimPy kernel (its contract 'an event scheduled "
                                      "for t is processed at now = t, the clock never passes a pending event' is the legality condition "
                                      "of TFire / TIdle in the timed model and is checked against the real kernel by the correspondence)",
                                      "integer delays in the harness (exact in floating point)"]),
}
