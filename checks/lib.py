"""Build + evidence plumbing shared by every check (see DESIGN.md section 4.4)."""
import shutil, os, sys, re, json, time, glob, hashlib, subprocess, shutil

VERIF = os.path.dirname(os.path.dirname(os.path.abspath(__file__)))
sys.path.insert(0, VERIF)
from harness import common  # noqa: E402

COQ = os.path.join(VERIF, "coq")
BUILD = os.path.join(VERIF, "build")
EVID = os.path.join(VERIF, "evidence")
REPLAYS = os.path.join(VERIF, "replays")
NCPU = min(16, os.cpu_count() or 4)

FORBIDDEN = re.compile(r"\b(Admitted|admit|Axiom|Axioms|Parameter|Parameters|Conjecture|Conjectures|"
                       r"Unset\s+Guard|bypass_check|Admit\s+Obligations|type-in-type|impredicative-set)\b")
SECTION_ONLY = re.compile(r"^\s*(Variable|Variables|Hypothesis|Hypotheses|Context)\b")


def sh(cmd, cwd=None, timeout=1800, env=None):
    p = subprocess.run(cmd, shell=True, cwd=cwd, stdout=subprocess.PIPE, stderr=subprocess.STDOUT,
                       timeout=timeout, env=env, text=True)
    return p.returncode, p.stdout


def coq_sources():
    out = []
    for root, _, files in os.walk(COQ):
        for f in files:
            if f.endswith(".v"):
                out.append(os.path.join(root, f))
    return sorted(out)


def strip_comments(text):
    out, depth, i = [], 0, 0
    while i < len(text):
        if text.startswith("(*", i):
            depth += 1
            i += 2
        elif text.startswith("*)", i) and depth:
            depth -= 1
            i += 2
        else:
            if depth == 0:
                out.append(text[i])
            elif text[i] == "\n":
                out.append("\n")
            i += 1
    return "".join(out)


def hygiene():
    """No Admitted/admit/Axiom/Parameter/..., no Variable/Hypothesis outside a Section."""
    bad = []
    for f in coq_sources():
        txt = strip_comments(open(f).read())
        depth = 0
        for n, line in enumerate(txt.split("\n"), 1):
            if re.match(r"^\s*Section\b", line):
                depth += 1
            elif re.match(r"^\s*End\b", line) and depth:
                depth -= 1
            m = FORBIDDEN.search(line)
            if m:
                bad.append("%s:%d: %s" % (os.path.relpath(f, VERIF), n, m.group(0)))
            if depth == 0 and SECTION_ONLY.match(line):
                bad.append("%s:%d: %s outside a Section" % (os.path.relpath(f, VERIF), n, line.strip()[:40]))
    return bad


def coqproject_files():
    files = []
    for l in open(os.path.join(COQ, "_CoqProject")):
        l = l.strip()
        if l.endswith(".v"):
            files.append(l)
    return files


def qflags():
    fl = []
    for l in open(os.path.join(COQ, "_CoqProject")):
        w = l.split()
        if len(w) == 3 and w[0] == "-Q":
            fl += ["-Q", os.path.join(COQ, w[1]), w[2]]
    return fl


def run_translator():
    """tie B: regenerate coq/generated/*.v from /repo's current sources (fail-closed per fragment)."""
    tr = os.path.join(VERIF, "translator", "py_to_gallina.py")
    os.makedirs(os.path.join(COQ, "generated"), exist_ok=True)
    if not os.path.exists(tr):
        return {"ok": True, "fragments": {}, "log": "no translator"}
    # translate into a private directory, then install atomically and only what changed (so that a
    # concurrent build never reads a half-written file and an unchanged source triggers no rebuild)
    import tempfile
    tmp = tempfile.mkdtemp(prefix="gen_", dir=common.BUILD if os.path.isdir(common.BUILD) else None)
    try:
        rc, out = sh("/venv/bin/python %s --repo %s --out %s" % (tr, common.REPO, tmp), timeout=120)
        with common.Lock("coq"):
            for f in os.listdir(tmp):
                src, dst = os.path.join(tmp, f), os.path.join(COQ, "generated", f)
                if not os.path.exists(dst) or open(src, "rb").read() != open(dst, "rb").read():
                    os.replace(src, dst)
    finally:
        shutil.rmtree(tmp, ignore_errors=True)
    rep_path = os.path.join(COQ, "generated", "report.json")
    rep = json.load(open(rep_path)) if os.path.exists(rep_path) else {}
    return {"ok": rc == 0, "fragments": rep, "log": out[-3000:]}


class TreeLock:
    """Checks against the same source tree may run side by side; a check against another tree (VERIF_REPO, used
    for seeded changes) waits until they are done and keeps the others out: the regenerated fragments and the
    compiled development describe one tree at a time."""
    def __enter__(self):
        import fcntl
        os.makedirs(common.BUILD, exist_ok=True)
        self.f = open(os.path.join(common.BUILD, "tree.lock"), "a+")
        idp = os.path.join(common.BUILD, "tree.id")
        me = os.path.realpath(common.REPO)
        while True:
            fcntl.flock(self.f, fcntl.LOCK_SH)
            cur = open(idp).read() if os.path.exists(idp) else ""
            if cur == me:
                return self
            fcntl.flock(self.f, fcntl.LOCK_UN)
            fcntl.flock(self.f, fcntl.LOCK_EX)          # nobody else is checking: switch trees
            open(idp, "w").write(me)
            fcntl.flock(self.f, fcntl.LOCK_UN)

    def __exit__(self, *a):
        import fcntl
        fcntl.flock(self.f, fcntl.LOCK_UN)
        self.f.close()


def build_coq():
    """Full .vo build (never -vos/-vok).  Returns (ok, log)."""
    with common.Lock("coq"):
        t0 = time.time()
        mk = os.path.join(COQ, "Makefile")
        cp = os.path.join(COQ, "_CoqProject")
        if not os.path.exists(mk) or os.path.getmtime(mk) < os.path.getmtime(cp):
            rc, out = sh("coq_makefile -f _CoqProject -o Makefile", cwd=COQ, timeout=120)
            if rc:
                return False, out
        rc, out = sh("timeout 1500 make -j%d 2>&1" % NCPU, cwd=COQ, timeout=1600)
        return rc == 0, out[-6000:] + "\n[make %.1fs]" % (time.time() - t0)


def print_assumptions(pid):
    """Compile properties/<pid>.v on its own and collect theorem names + Print Assumptions output."""
    src = os.path.join(COQ, "properties", pid + ".v")
    if not os.path.exists(src):
        return None
    with common.Lock("coq"):
        rc, out = sh("timeout 600 coqc %s %s" % (" ".join(qflags()), src), cwd=COQ, timeout=700)
    txt = strip_comments(open(src).read())
    theorems = re.findall(r"^\s*Theorem\s+([A-Za-z0-9_']+)", txt, re.M)
    printed = re.findall(r"^\s*Print\s+Assumptions\s+([A-Za-z0-9_'.]+)\s*\.", txt, re.M)
    # split the output into one block per Print Assumptions
    blocks, cur = [], None
    for line in out.split("\n"):
        if line.startswith("Closed under the global context"):
            blocks.append(["closed"])
            cur = None
        elif line.startswith("Axioms:"):
            cur = []
            blocks.append(cur)
        elif cur is not None and line.strip():
            cur.append(line.rstrip())
    assum = {}
    for name, b in zip(printed, blocks):
        assum[name] = b
    ok = rc == 0 and len(blocks) == len(printed) and set(theorems) <= set(printed)
    return {"ok": ok, "rc": rc, "theorems": theorems, "assumptions": assum, "log": out[-3000:]}


def coqchk(pid):
    """independent re-check of the compiled property module and everything it depends on; returns
    (ok, axioms listed by coqchk -o, log tail)"""
    with common.Lock("coq"):
        rc, out = sh("timeout 1500 coqchk -silent -o %s FV.%s 2>&1" % (" ".join(qflags()), pid), cwd=COQ, timeout=1600)
    m = re.search(r"\* Axioms:\s*(.*?)\n\s*\n", out, re.S)
    axioms = (m.group(1).strip() if m else "?")
    unsafe = [l for l in ("type-in-type", "unsafe (co)fixpoints", "positivity is assumed")
              if not re.search(re.escape(l) + r":\s*<none>", out)]
    return rc == 0 and m is not None and not unsafe, axioms, out[-1500:]


# axioms of the standard library that a theorem may depend on (each is named in the evidence)
STDLIB_AXIOMS = ("functional_extensionality_dep", "proof_irrelevance", "classic", "JMeq_eq", "eq_rect_eq")


def assumptions_acceptable(assum):
    bad = []
    for thm, block in assum.items():
        if block == ["closed"]:
            continue
        for line in block:
            m = re.match(r"^([A-Za-z0-9_'.]+)\s*:", line)
            if m and not any(m.group(1).endswith(a) for a in STDLIB_AXIOMS):
                bad.append("%s depends on %s" % (thm, m.group(1)))
    return bad


def build_driver():
    """Extract the executable model (ExtrOcamlBasic only) and build the OCaml driver."""
    with common.Lock("ocaml"):
        gen = os.path.join(BUILD, "ocaml", "gen")
        drv = os.path.join(BUILD, "ocaml", "driver")
        ext = os.path.join(COQ, "extract", "Extract.v")
        h = hashlib.sha256()
        for f in sorted(glob.glob(os.path.join(COQ, "theories", "*", "*.v")) +
                        glob.glob(os.path.join(COQ, "generated", "*.v")) +
                        [ext, os.path.join(VERIF, "ocaml", "driver.ml")]):
            h.update(f.encode())
            h.update(open(f, "rb").read())
        stamp = os.path.join(BUILD, "ocaml", "stamp")
        if os.path.exists(drv) and os.path.exists(stamp) and open(stamp).read() == h.hexdigest():
            return True, "driver up to date"
        shutil.rmtree(gen, ignore_errors=True)
        os.makedirs(gen)
        # extraction needs every model file compiled (a check may have built only what its own property file needs)
        # (only the files the extraction requires: a tie-B lemma that no longer compiles must not stop the exploration)
        need = set(re.findall(r"[A-Za-z0-9_]+", " ".join(re.findall(r"From FV Require ([^.]*)\.", open(ext).read()))))
        okm, logm = build_coq_target(" ".join(f[:-2] + ".vo" for f in coqproject_files()
                                              if os.path.basename(f)[:-2] in need))
        if not okm:
            return False, "model files do not compile:\n" + first_error(logm)
        rc, out = sh("timeout 600 coqc %s -o %s/Extract.vo %s" % (" ".join(qflags()), gen, ext), cwd=gen, timeout=700)
        if rc:
            return False, "extraction failed:\n" + out[-3000:]
        shutil.copy(os.path.join(VERIF, "ocaml", "driver.ml"), gen)
        rc, out = sh("ocamlfind ocamlopt -w -a -O2 $(ocamlfind ocamldep -sort *.ml *.mli) -o %s 2>&1 || "
                     "ocamlfind ocamlopt -w -a $(ocamlfind ocamldep -sort *.ml *.mli) -o %s" % (drv, drv), cwd=gen, timeout=600)
        if rc:
            return False, "driver build failed:\n" + out[-3000:]
        open(stamp, "w").write(h.hexdigest())
        return True, "driver rebuilt"


def write_evidence(pid, ev):
    # evidence/ only ever describes runs against /repo itself; a run against another tree (VERIF_REPO,
    # used for seeded changes) is recorded under build/
    d = EVID if os.path.realpath(common.REPO) == "/repo" else os.path.join(common.BUILD, "evidence_other_tree")
    os.makedirs(d, exist_ok=True)
    ev["repo"] = os.path.realpath(common.REPO)
    with open(os.path.join(d, pid + ".json"), "w") as f:
        json.dump(ev, f, indent=1, sort_keys=True, default=str)


def write_replay(pid, obj):
    os.makedirs(REPLAYS, exist_ok=True)
    blob = json.dumps(obj, sort_keys=True, default=str)
    name = "%s-%s.json" % (pid, hashlib.sha256(blob.encode()).hexdigest()[:12])
    path = os.path.join(REPLAYS, name)
    with open(path, "w") as f:
        json.dump(obj, f, indent=1, sort_keys=True, default=str)
    return path


def known_findings():
    path = os.path.join(VERIF, "known_findings.jsonl")
    out = []
    if os.path.exists(path):
        for l in open(path):
            l = l.strip()
            if l and not l.startswith("#") and not l.startswith("fixed:"):
                out.append(json.loads(l))
    return out


def build_coq_target(target):
    """`make <target>` builds exactly that file and what it depends on (full .vo, no -vos)."""
    with common.Lock("coq"):
        t0 = time.time()
        mk = os.path.join(COQ, "Makefile")
        cp = os.path.join(COQ, "_CoqProject")
        if not os.path.exists(mk) or os.path.getmtime(mk) < os.path.getmtime(cp):
            rc, out = sh("coq_makefile -f _CoqProject -o Makefile", cwd=COQ, timeout=120)
            if rc:
                return False, out
        rc, out = sh("timeout 1500 make -j%d %s 2>&1" % (NCPU, target), cwd=COQ, timeout=1600)
        return rc == 0, out[-6000:] + "\n[make %.1fs]" % (time.time() - t0)


def first_error(log):
    lines = log.split("\n")
    for i, l in enumerate(lines):
        if l.startswith("File ") and i + 1 < len(lines) and "Error" in "\n".join(lines[i:i + 3]):
            return " ".join(x.strip() for x in lines[i:i + 6])[:600]
    return log[-400:]


def theorem_names(pid):
    src = os.path.join(COQ, "properties", pid + ".v")
    if not os.path.exists(src):
        return []
    return re.findall(r"^\s*Theorem\s+([A-Za-z0-9_']+)", strip_comments(open(src).read()), re.M)
