#!/venv/bin/python
"""Entry point registered in MANIFEST.json:  check.py <ID> --tier quick|thorough [--replay FILE]

One run = (1) regenerate source fragments, (2) hygiene + `make properties/<ID>.vo` + Print Assumptions,
(3) extraction + driver, (4) corpus / known-finding replays, (5) correspondence model-vs-implementation
and the search oracle on implementation traces, (6) verdict, (7) evidence/<ID>.json."""
import sys, os, json, time, argparse, random, traceback, multiprocessing

VERIF = os.path.dirname(os.path.dirname(os.path.abspath(__file__)))
sys.path.insert(0, VERIF)
sys.path.insert(0, os.path.join(VERIF, "checks"))
os.environ.setdefault("PYTHONHASHSEED", "0")
import lib  # noqa: E402
from harness import common  # noqa: E402


def load_props():
    props = {}
    for l in open(os.path.join(VERIF, "properties.jsonl")):
        p = json.loads(l)
        props[p["id"]] = p
    return props


def main():
    ap = argparse.ArgumentParser()
    ap.add_argument("pid")
    ap.add_argument("--tier", default=os.environ.get("VERIF_TIER", "quick"), choices=["quick", "thorough"])
    ap.add_argument("--replay")
    args = ap.parse_args()
    pid, tier = args.pid, args.tier
    seed = int(os.environ.get("VERIF_SEED", "20260928"))
    t0 = time.time()
    from checks import registry
    spec = registry.SPECS[pid]
    if args.replay:
        return registry.replay(pid, args.replay)

    broken = []          # proof obligations / ties that do not check (strings)
    notes = []
    # ---- 1. tie B
    tr = lib.run_translator()
    if not tr["ok"]:
        notes.append("translator failed: " + tr["log"][-500:])
    frag_status = {k: v.get("status") for k, v in tr.get("fragments", {}).items()}
    # tie B is an obligation of the properties that rest on a fragment: a fragment that can no longer be
    # regenerated from the source (the translator fell back to the expected text), or whose lemmas
    # (TieB.v, Accounting.v) no longer compile, breaks it
    def frag_props(name):
        if name.endswith(("_allow_put", "_put_room")):
            return ("C01", "C04")
        if name.endswith("_allow_get"):
            return ("C02", "C04")
        if name.endswith("_can_put"):
            return ("C09", "C11", "C15")       # FIRST_AVAILABLE on the output side chooses by this probe
        if name.endswith(("_can_get", "_occupancy")):
            return ("C11",)
        if name == "round_robin_next":
            return ("C15",)
        if name.startswith("Machine_cond_"):
            return ("C17",)
        if name.endswith("BeltStore_gate"):
            return ("C12", "C13")
        if name.endswith("_get_delay_draws"):
            return ("C08", "C11") if name.startswith("Edge") else ("C08",)
        if name.endswith("_push_item_shape"):
            return ("C03", "C16")
        if name.endswith("_delegates"):
            base = ("C14",) if name.startswith("Fleet") else ("C11",)
            return base + (("C07",) if name.endswith("_cancel_delegates") else ())      # a cancel checked by the edge's own store
        if name.endswith("_wiring") or "_keeps_" in name:
            # constructor wiring: the configured parameter reaches the store that enforces / uses it
            if name.endswith("_capacity_wiring"):
                return ("C01",)
            if "mode" in name and name.startswith("Buffer"):
                return ("C06",)
            if name.startswith("Fleet"):
                return ("C14",)
            if "accumulation" in name:
                return ("C12", "C13")
            return ("C12",)
        if name.endswith("_observes"):
            # queries and statistics refreshes of the Buffer / Fleet edges leave the store's lists alone
            base = ("C11", "C14") if name.startswith("Fleet") else ("C11",)
            return base + (("C03",) if ("update_final" in name or "stats_collector" in name) else ())
        if name == "ContBelt_is_stalled":
            return ("C13",)
        if name == "Machine_slot_before_index_draw":
            return ("C08", "C10", "C15")        # the in-edge policy is consulted when it is acted upon, not before the wait for the slot
        if "_slot_before_" in name:
            return ("C08",)
        if name in ("Combiner_first_ingredient_edge", "Combiner_recipe_index"):
            return ("C16",)
        if name in ("FleetStore_capacity_trigger", "FleetStore_activation_guard", "FleetStore_transit_legs"):
            return ("C14",)
        if name in ("Node_elapsed", "Node_state_charge"):
            return ("C17",)
        if name.endswith(("_pick", "_index")) and name.split("_")[1] in ("worker", "behaviour", "gather"):
            return ("C15",)                     # which granted request a node commits to, and the index it records
        if name.endswith(("_probe", "_probe_pushes", "_index_probe")):
            return ("C09",)                     # the non-blocking paths: which edge is probed, push or drop
        if name.endswith("_withdraw"):
            return ("C10",)                     # ... and the requests it withdraws
        if name == "Sink_cycle_increment" or name.endswith(("_level_increment", "_level_count")):
            return ("C18",)
        return ()
    for k, v in tr.get("fragments", {}).items():
        if v.get("status") != "ok" and pid in frag_props(k):
            broken.append("tie B: %s could not be regenerated from %s (%s)" % (k, v.get("source"), v.get("why", "")[:160]))
    for target, props in (("theories/Edges/TieB.vo", ("C01", "C02", "C04", "C09", "C11", "C15")),
                          ("theories/Nodes/TieAcc.vo", ("C15", "C17")),
                          ("theories/Edges/TieBelt.vo", ("C12", "C13")),
                          ("theories/Nodes/TieNodes.vo", ("C03", "C07", "C08", "C10", "C11", "C14", "C15", "C16")),
                          ("theories/Factory/TieStats.vo", ("C14", "C17", "C18")),
                          ("theories/Edges/TieWiring.vo", ("C01", "C06", "C12", "C13", "C14")),
                          ("theories/Factory/TieCommit.vo", ("C09", "C10", "C15"))):
        if pid in props:
            okt, logt = lib.build_coq_target(target)
            if not okt:
                broken.append("tie B: the lemmas about the regenerated fragments do not compile: " + lib.first_error(logt))
    # ---- 2. proofs
    hyg = lib.hygiene()
    if hyg:
        broken.append("hygiene: " + "; ".join(hyg[:5]))
    ok, log = lib.build_coq_target("properties/%s.vo" % pid)
    pa = None
    if not ok:
        broken.append("proof obligations of %s do not compile: %s" % (pid, lib.first_error(log)))
    else:
        pa = lib.print_assumptions(pid)
        if pa is None or not pa["ok"]:
            broken.append("Print Assumptions for %s failed" % pid)
        else:
            bad = lib.assumptions_acceptable(pa["assumptions"])
            if bad:
                broken.append("unacceptable assumptions: " + "; ".join(bad))
    chk_note = "coqchk: thorough tier only"
    if ok and tier == "thorough":
        cok, cax, clog = lib.coqchk(pid)
        chk_note = "coqchk -o FV.%s: %s; axioms: %s" % (pid, "modules checked" if cok else "FAILED", cax)
        if not cok:
            broken.append("coqchk rejects the compiled development: " + clog[-400:])
        elif cax != "<none>":
            badax = [a.strip() for a in cax.split("\n") if a.strip() and not any(x in a for x in lib.STDLIB_AXIOMS)]
            if badax:
                broken.append("coqchk lists unacceptable axioms: " + "; ".join(badax)[:300])
    obligations = len(pa["theorems"]) if pa else len(lib.theorem_names(pid))
    discharged = obligations if (pa and pa["ok"] and not broken) else 0
    # ---- 3. executable model
    okd, logd = lib.build_driver()
    if not okd:
        broken.append("extracted model does not build: " + logd[-800:])
    # ---- 4/5. exploration
    res = dict(evaluations=0, distinct_nontrivial=0, rule="", samples=[], traces=0, disagreements=[], violations=[],
               distribution={}, known=[], domain="")
    if okd:
        try:
            res = spec["run"](pid, tier, seed)
        except Exception:
            broken.append("harness crashed: " + traceback.format_exc()[-1500:])
    # ---- 6. verdict
    kf = [k for k in lib.known_findings() if k.get("property") == pid and k.get("status", "open") == "open"]
    lines, nviol = [], 0
    unlisted = []
    for v in res["violations"]:
        hit = next((k for k in kf if registry.matches_finding(k, v)), None)
        if hit:
            res["known"].append((hit, v))
        else:
            unlisted.append(v)
    seen_k = set()
    for hit, v in res["known"]:
        if hit["id"] not in seen_k:
            seen_k.add(hit["id"])
            lines.append("KNOWN-FINDING: property=%s %s" % (pid, hit["what"]))
    for v in unlisted[:3]:
        path = lib.write_replay(pid, dict(property=pid, kind="failing-input", **v))
        lines.append("VIOLATION property=%s replay=%s" % (pid, path))
        nviol += 1
    if not unlisted:
        stale = [d for d in res["disagreements"]]
        if broken or stale:
            what = dict(property=pid, kind="no-failing-input-found", broken_obligations=broken,
                        correspondence_disagreements=stale[:3],
                        theorems=(pa or {}).get("theorems", lib.theorem_names(pid)))
            path = lib.write_replay(pid, what)
            lines.append("VIOLATION property=%s replay=%s no-failing-input-found" % (pid, path))
            nviol += 1
    # ---- 7. evidence
    assum = (pa or {}).get("assumptions", {})
    tb = ["Coq 8.16.1 kernel (coqc; vm_compute used in Examples only; native_compute not used)", chk_note,
          "axioms per theorem (Print Assumptions): " +
          ("; ".join("%s: %s" % (k, "closed under the global context" if v == ["closed"] else " ".join(v))
                     for k, v in assum.items()) or "n/a"),
          "extraction: ExtrOcamlBasic only (no Extract Constant of ours), OCaml 4.13 driver ocaml/driver.ml",
          "hand-written Gallina model tied to /repo by differential correspondence (harness/), "
          "source fragments regenerated by translator/py_to_gallina.py: " + (json.dumps(frag_status) or "none"),
          "search oracle harness/*_oracle.py (Python) is used only to look for failing inputs"]
    tb += spec.get("trusted", [])
    ev = dict(property_id=pid, tier=tier, seed=seed, level="proof",
              coverage=dict(obligations=max(obligations, 1), discharged=discharged,
                            checker_cmd="make -C coq properties/%s.vo && coqc properties/%s.v (Print Assumptions)" % (pid, pid),
                            trusted_base=tb,
                            theorems=(pa or {}).get("theorems", []),
                            evaluations=res["evaluations"], distinct_nontrivial=res["distinct_nontrivial"],
                            rule=res["rule"], samples=res["samples"][:4] or ["(no exploration ran)"],
                            traces_validated_against_impl=res["traces"],
                            correspondence_disagreements=len(res["disagreements"]),
                            input_distribution=res["distribution"], domain=res.get("domain", ""),
                            known_findings_reproduced=sorted(seen_k),
                            broken_obligations=broken, notes=notes,
                            explanation=spec.get("explanation", "")),
              assumptions=spec.get("assumptions", []), wall_s=round(time.time() - t0, 2), violations=nviol)
    lib.write_evidence(pid, ev)
    for l in lines:
        print(l)
    print("%s tier=%s obligations=%d discharged=%d evaluations=%d disagreements=%d violations=%d wall=%.1fs" %
          (pid, tier, obligations, discharged, res["evaluations"], len(res["disagreements"]), nviol, time.time() - t0))
    return 1 if nviol else 0


if __name__ == "__main__":
    with lib.TreeLock():
        rc = main()
    sys.exit(rc)
