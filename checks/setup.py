#!/venv/bin/python
"""MANIFEST.setup_cmd: build everything from files on disk (Coq development, extracted model, driver)."""
import os, sys
VERIF = os.path.dirname(os.path.dirname(os.path.abspath(__file__)))
sys.path.insert(0, VERIF)
sys.path.insert(0, os.path.join(VERIF, "checks"))
import lib
tr = lib.run_translator()
print("translator:", tr["ok"])
ok, log = lib.build_coq()
print("coq build:", ok)
if not ok:
    print(log[-3000:])
okd, logd = lib.build_driver()
print("driver:", okd, logd[-300:])
sys.exit(0 if ok and okd else 1)
