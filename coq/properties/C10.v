(* C10 -- work is never stranded.
   Proved (store layer, every history): no request stays pending while the request next in line
   could be served (C04's invariant), a binding is never disturbed by other requests, and every
   cancellation re-runs the trigger loop of its side.  The node-level statements (a free worker
   takes an available item at that instant, a finished item is pushed at that instant, all
   non-chosen tokens are withdrawn) are carried by the executable factory model, compared
   trace-exactly, plus an end-of-run check that no granted reservation is left unused and no item
   is left available to a sink / free machine; not yet theorems for every configuration. *)
From Coq Require Import List ZArith Bool Arith.
From FV Require StoreB StoreBInv StoreBProps StoreBWeak World Factory FactoryInv FactoryQueue.
Import ListNotations.

Theorem C10_no_pending_while_servable :
  forall k m c ops, StoreB.is_belt k = false -> NoDup (StoreBInv.put_ids ops) ->
    StoreBProps.NoLost (StoreB.run (StoreB.init k m c) ops).
Proof. exact StoreBProps.nolost_reachable. Qed.
Print Assumptions C10_no_pending_while_servable.

Theorem C10_step_keeps_no_lost_wakeup :
  forall s o, StoreB.is_belt (StoreB.s_kind s) = false -> StoreBInv.Inv s -> StoreBInv.fresh_op s o ->
    StoreBProps.NoLost s -> StoreBProps.NoLost (StoreB.step_st s o).
Proof. exact StoreBProps.step_nolost. Qed.
Print Assumptions C10_step_keeps_no_lost_wakeup.

Theorem C10_other_bindings_untouched :
  forall s o x, StoreBInv.Inv s -> StoreBInv.fresh_op s o -> In x (StoreB.getres s) ->
    StoreBInv.consumes o x = false -> In x (StoreB.getres (StoreB.step_st s o)).
Proof. exact StoreBInv.binding_stable. Qed.
Print Assumptions C10_other_bindings_untouched.

(* without any side condition on the items (unlike the theorems above, which assume pairwise distinct
   objects): one operation of a buffer / fleet store keeps "no request waits while the store could serve
   the one next in line", together with the two counting bounds it needs, in EVERY state ... *)
Theorem C10_no_lost_wakeup_step_unconditional :
  forall s o, StoreBWeak.WN s -> StoreBWeak.WN (StoreB.step_st s o).
Proof. exact StoreBWeak.wn_step. Qed.
Print Assumptions C10_no_lost_wakeup_step_unconditional.

(* ... hence on every Buffer / Fleet edge of every factory configuration after every number of kernel
   steps: no space request is waiting while the edge could grant it, no retrieval request is waiting
   while an unreserved item is ready (theories/Factory/FactoryQueue.v, lifted through every process block) *)
Theorem C10_no_lost_wakeup_in_every_factory :
  forall nodes edges order n, Forall (fun ed => StoreBWeak.WN (World.est ed)) edges ->
    forall i ed, nth_error (World.wedges (FactoryInv.iter_fstep n (Factory.mk_world nodes edges order))) i = Some ed ->
      StoreBProps.NoLost (World.est ed) /\ StoreBWeak.W (World.est ed).
Proof. exact FactoryQueue.no_lost_wakeup_everywhere. Qed.
Print Assumptions C10_no_lost_wakeup_in_every_factory.

(* "A node that commits to one edge withdraws its requests on all the others, so no reservation is left
   behind that would permanently occupy space": every node process of the model commits through the one
   helper [Factory.cancel_others]; at every reachable world of every configuration whose edges start
   with distinct tokens (e.g. empty), after its call on the space side none of the other tokens is waiting
   or granted on its edge any more, and the call has not planted a token anywhere
   (theories/Factory/FactoryWithdraw.v over the unconditional token invariant of theories/Stores/StoreBTok.v).
   The retrieval side follows below (C10_commit_withdraws_other_retrieval_requests). *)
From FV Require StoreBTok FactoryWithdraw.
Theorem C10_commit_withdraws_other_space_requests :
  forall nodes edges order n, Forall (fun ed => StoreBTok.TokB (World.est ed)) edges ->
  let w := FactoryInv.iter_fstep n (Factory.mk_world nodes edges order) in
  forall es ts keep, (forall e, In e es -> (e < length (World.wedges w))%nat) ->
    let w' := Factory.cancel_others w es ts keep true in
    (forall e t, In (e, t) (combine es ts) -> t <> keep -> ~ FactoryWithdraw.PTw w' e t) /\
    (forall e t, ~ FactoryWithdraw.PTw w e t -> ~ FactoryWithdraw.PTw w' e t).
Proof. exact FactoryWithdraw.commit_withdraws_other_space_requests. Qed.
Print Assumptions C10_commit_withdraws_other_space_requests.

Theorem C10_cancelled_space_request_is_gone :
  forall s t, StoreBTok.TokB s -> ~ StoreBTok.PT (StoreB.step_st s (StoreB.CPut t)) t.
Proof. exact StoreBTok.cput_absent. Qed.
Print Assumptions C10_cancelled_space_request_is_gone.

Theorem C10_token_invariant_unconditional : forall s o, StoreBTok.TokB s -> StoreBTok.TokB (StoreB.step_st s o).
Proof. exact StoreBTok.tokb_step. Qed.
Print Assumptions C10_token_invariant_unconditional.

Example C10_fresh_edge_tokens_ok : forall k m c, StoreBTok.TokB (StoreB.init k m c).
Proof. exact StoreBTok.init_tokb. Qed.

(* The retrieval side of the same statement: a node that takes its item from one in-edge withdraws the retrieval
   requests it issued on the others.  The store refuses to cancel a granted retrieval whose item is no longer there (an
   unhandled exception in the real classes, a crash of the model), so the statement is: at every reachable world of every
   configuration, after the helper's call on the retrieval side -- unless the run has crashed -- none of the other
   tokens is waiting or granted on its edge, and the call has planted no token anywhere
   (theories/Factory/FactoryWithdraw.v over the unconditional token invariant of theories/Stores/StoreBTokG.v). *)
From FV Require StoreBTokG.
Theorem C10_commit_withdraws_other_retrieval_requests :
  forall nodes edges order n, Forall (fun ed => StoreBTokG.TokG (World.est ed)) edges ->
  let w := FactoryInv.iter_fstep n (Factory.mk_world nodes edges order) in
  forall es ts keep, (forall e, In e es -> (e < length (World.wedges w))%nat) ->
    let w' := Factory.cancel_others w es ts keep false in
    (World.wcrash w' = None -> forall e t, In (e, t) (combine es ts) -> t <> keep -> ~ FactoryWithdraw.GTw w' e t) /\
    (forall e t, ~ FactoryWithdraw.GTw w e t -> ~ FactoryWithdraw.GTw w' e t).
Proof. exact FactoryWithdraw.commit_withdraws_other_retrieval_requests. Qed.
Print Assumptions C10_commit_withdraws_other_retrieval_requests.

Theorem C10_cancelled_retrieval_request_is_gone :
  forall s t s' ts, StoreBTokG.TokG s -> StoreB.step s (StoreB.CGet t) = (s', StoreB.OOk, ts) -> ~ StoreBTokG.GT s' t.
Proof. exact StoreBTokG.cget_absent. Qed.
Print Assumptions C10_cancelled_retrieval_request_is_gone.

Theorem C10_retrieval_token_invariant_unconditional : forall s o, StoreBTokG.TokG s -> StoreBTokG.TokG (StoreB.step_st s o).
Proof. exact StoreBTokG.tokg_step. Qed.
Print Assumptions C10_retrieval_token_invariant_unconditional.

Example C10_fresh_edge_retrieval_tokens_ok : forall k m c, StoreBTokG.TokG (StoreB.init k m c).
Proof. exact StoreBTokG.init_tokg. Qed.

(* Tie B: the withdrawal loops of the node processes, re-read from nodes/*.py on every run (theories/Factory/TieCommit.v): each of
   them cancels exactly the requests other than the chosen one, in edge order -- which is what the model's [cancel_others] does
   (C10_model_withdrawal_is_all_others), so the two theorems above speak about what the source does.  A loop that also changes
   the list it walks is refused by the translator and breaks this obligation. *)
From FV Require SrcFragments TieCommit.
Theorem C10_withdrawal_loops_regenerated :
  forall l x, NoDup (map SrcFragments.ev_id l) ->
  let spec := filter (fun t => negb (Nat.eqb t (SrcFragments.ev_id x))) (map SrcFragments.ev_id l) in
  map SrcFragments.ev_id (SrcFragments.Machine_worker_withdraw l x) = spec /\
  map SrcFragments.ev_id (SrcFragments.Splitter_worker_withdraw l x) = spec /\
  map SrcFragments.ev_id (SrcFragments.Combiner_worker_withdraw l x) = spec /\
  map SrcFragments.ev_id (SrcFragments.Source_behaviour_withdraw l x) = spec /\
  map SrcFragments.ev_id (SrcFragments.Machine_behaviour_withdraw l x) = spec /\
  map SrcFragments.ev_id (SrcFragments.Splitter_behaviour_withdraw l x) = spec /\
  map SrcFragments.ev_id (SrcFragments.Sink_behaviour_withdraw l x) = spec.
Proof.
  intros l x H spec. repeat split.
  - exact (TieCommit.Machine_worker_withdraw_src l x H).
  - exact (TieCommit.Splitter_worker_withdraw_src l x H).
  - exact (TieCommit.Combiner_worker_withdraw_src l x H).
  - exact (TieCommit.Source_behaviour_withdraw_src l x H).
  - exact (TieCommit.Machine_behaviour_withdraw_src l x H).
  - exact (TieCommit.Splitter_behaviour_withdraw_src l x H).
  - exact (TieCommit.Sink_behaviour_withdraw_src l x H).
Qed.
Print Assumptions C10_withdrawal_loops_regenerated.

Theorem C10_model_withdrawal_is_all_others :
  forall w es ts keep put,
  Factory.cancel_others w es ts keep put =
  fold_left (fun w et => if put then World.e_cancel_put w (fst et) (snd et) else World.e_cancel_get w (fst et) (snd et))
            (filter (fun et => negb (Nat.eqb (snd et) keep)) (combine es ts)) w.
Proof. exact TieCommit.model_withdrawal_is_all_others. Qed.
Print Assumptions C10_model_withdrawal_is_all_others.
