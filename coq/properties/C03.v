(* C03 -- flow items are conserved across the whole factory.
   (1) per edge: the store-level conservation theorems of C02 apply to every edge's store, which
       the factory model changes only through StoreB.step;
   (2) a verified monitor: acceptance of a movement trace implies that every generated item is in
       exactly one place and generated = at sources + in edges + in nodes + packed + discarded +
       received, after every prefix.  The check runs the extracted monitor on the trace of the
       real classes and on the trace of the model for every explored factory (the two traces are
       also compared line by line).
   (3) conservation inside the edges for every configuration: in every reachable, un-crashed world of
       every factory the items inside an edge are exactly the items the trace says were put on it
       and not yet taken (C03_edge_conservation_everywhere, theories/Factory/FactoryCons.v, lifted
       through every process block).
   Not proved: that the model's trace is accepted by the monitor for EVERY configuration, i.e. that the
   items held by the NODES are accounted for too (whole-factory conservation as a theorem); the
   claim is partial in that respect. *)
From Coq Require Import List ZArith Bool Arith Permutation Lia.
Local Open Scope nat_scope.
From FV Require Import World Conserve.
From FV Require StoreB StoreBInv StoreBProps.
From FV Require Factory FactoryInv FactoryCons.
Import ListNotations.
Local Open Scope nat_scope.

(* every configuration whose edges start empty, every number of kernel steps, unless the run crashed:
   the items inside edge e = (items put on e according to the trace) minus (items taken from e), as
   multisets -- nothing appears in or vanishes from an edge *)
Theorem C03_edge_conservation_everywhere :
  forall nodes edges order n,
    (forall ed, In ed edges -> FactoryCons.cont (est ed) = []) ->
    let w := FactoryInv.iter_fstep n (Factory.mk_world nodes edges order) in
    wcrash w = None ->
    forall e, e < length (wedges w) ->
      Permutation (FactoryCons.inside e (wlog w))
                  (StoreB.transit (est (get_edge w e)) ++ StoreB.ready (est (get_edge w e))).
Proof. exact FactoryCons.edge_conservation. Qed.
Print Assumptions C03_edge_conservation_everywhere.

Theorem C03_monitor_sound :
  forall esrc l m m', accept esrc m l = Some m' -> NoDup (map fst m) ->
    NoDup (map fst m') /\ length m' = length m + gens l /\
    length m' = cnt is_src m' + cnt is_edge m' + cnt is_node m' + cnt is_pal m' + cnt is_disc m' + cnt is_recv m'.
Proof. exact accept_conservation. Qed.
Print Assumptions C03_monitor_sound.

Theorem C03_monitor_prefix_closed :
  forall esrc l1 l2 m m', accept esrc m (l1 ++ l2) = Some m' -> exists m1, accept esrc m l1 = Some m1.
Proof. exact accept_prefix. Qed.
Print Assumptions C03_monitor_prefix_closed.

(* every edge: inside afterwards + returned = inside before + put, for every store operation *)
Theorem C03_edge_step_conserves :
  forall s o, StoreBInv.Inv s -> StoreBInv.fresh_op s o ->
    let '(s', r, _) := StoreB.step s o in
    Permutation (StoreBInv.contents s' ++ StoreBProps.got_of r) (StoreBInv.contents s ++ StoreBProps.put_of o r).
Proof. exact StoreBProps.step_conserve. Qed.
Print Assumptions C03_edge_step_conserves.

(* non-vacuity: generate, put, get, discard is accepted; taking an item from an edge it is not on is not *)
Example C03_witness :
  accept (fun _ => 0) [] [LGen 0 0 7; LPut 0 3 7; LGet 2 3 7 1; LDiscard 2 1 7] <> None /\
  accept (fun _ => 0) [] [LGen 0 0 7; LPut 0 3 7; LGet 2 4 7 1] = None.
Proof. vm_compute. split; congruence. Qed.

(* tie B: the push helpers of the node classes, re-read from nodes/*.py on every run: each reserves a place on the edge it was
   given, waits for the grant and puts exactly the item it was given -- no second look at the edge, no withdrawal, no other
   object (theories/Nodes/TieNodes.v); the model's push process does the same (Factory.push_block) *)
From FV Require SrcFragments TieNodes.
Theorem C03_push_helpers_put_the_item_they_were_given :
  SrcFragments.Source_push_item_shape = true /\
  SrcFragments.Machine_push_item_shape = true /\
  SrcFragments.Splitter_push_item_shape = true /\
  SrcFragments.Combiner_push_item_shape = true.
Proof. repeat split. Qed.
Print Assumptions C03_push_helpers_put_the_item_they_were_given.
