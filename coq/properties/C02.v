(* C02 -- stores conserve items; every granted retrieval reservation owns a distinct item. *)
From Coq Require Import List ZArith Bool Arith Permutation.
From FV Require ListLemmas StoreP StorePInv StoreB StoreBInv StoreBProps.
Import ListNotations.

(* positional stores: multiset put = multiset got + multiset inside, after every history *)
Theorem C02_conservation_positional :
  forall s ops, Permutation (StoreP.items (StoreP.run s ops) ++ StorePInv.gots_of s ops)
                            (StoreP.items s ++ StorePInv.puts_of s ops).
Proof. exact StorePInv.conservation. Qed.
Print Assumptions C02_conservation_positional.

Theorem C02_granted_get_ok_positional :
  forall s p t, StorePInv.CapInv s -> existsb (StoreP.owns p t) (StoreP.getres s) = true ->
    exists i it, ListLemmas.index_where (StoreP.tokb t) (StoreP.getres s) = Some i /\
                 nth_error (StoreP.items s) i = Some it /\
                 snd (fst (StoreP.step s (StoreP.Get p t))) = StoreP.OItem it.
Proof. exact StorePInv.granted_get_ok. Qed.
Print Assumptions C02_granted_get_ok_positional.

(* bound-item stores *)
Theorem C02_conservation_bound :
  forall k m c ops, NoDup (StoreBInv.put_ids ops) ->
    Permutation (StoreBInv.contents (StoreB.run (StoreB.init k m c) ops) ++
                 StoreBProps.gots_of (StoreB.init k m c) ops)
                (StoreBProps.puts_of (StoreB.init k m c) ops).
Proof. exact StoreBProps.conservation. Qed.
Print Assumptions C02_conservation_bound.

(* the bound items of the granted reservations are pairwise distinct ready items *)
Theorem C02_binding_injective :
  forall k m c ops, NoDup (StoreBInv.put_ids ops) ->
    let s := StoreB.run (StoreB.init k m c) ops in
    NoDup (StoreB.reserved s) /\ incl (StoreB.reserved s) (StoreB.ready s) /\
    NoDup (StoreBInv.contents s).
Proof.
  intros k m c ops H. destruct (StoreBInv.inv_reachable k m c ops H) as (_ & A & B & C). auto.
Qed.
Print Assumptions C02_binding_injective.

(* a get with a granted, un-cancelled reservation returns exactly its bound item, which then is
   no longer inside *)
Theorem C02_granted_get_ok_bound :
  forall s p t, StoreBInv.Inv s -> existsb (StoreB.owns2 p t) (StoreB.getres s) = true ->
    exists i r it, ListLemmas.index_where (StoreB.tokb2 t) (StoreB.getres s) = Some i /\
                   nth_error (StoreB.getres s) i = Some (r, it) /\ In it (StoreB.ready s) /\
                   snd (fst (StoreB.step s (StoreB.Get p t))) = StoreB.OItem it /\
                   ~ In it (StoreBInv.contents (StoreB.step_st s (StoreB.Get p t))).
Proof. exact StoreBInv.granted_get_ok. Qed.
Print Assumptions C02_granted_get_ok_bound.

(* ... no matter which other reservations are used or cancelled in between *)
Theorem C02_binding_stable :
  forall s o x, StoreBInv.Inv s -> StoreBInv.fresh_op s o -> In x (StoreB.getres s) ->
    StoreBInv.consumes o x = false -> In x (StoreB.getres (StoreB.step_st s o)).
Proof. exact StoreBInv.binding_stable. Qed.
Print Assumptions C02_binding_stable.

Example C02_witness :
  let s := StoreB.run (StoreB.init StoreB.KBuffer StoreB.LIFO 3)
             [StoreB.RPut 0 0; StoreB.Put 0 0 5; StoreB.RPut 0 0; StoreB.Put 0 1 6; StoreB.Ready 5; StoreB.RGet 1 0;
              StoreB.Ready 6; StoreB.RGet 2 0] in
  StoreB.reserved s = [5; 6] /\ StoreB.ready s = [5; 6].
Proof. vm_compute. auto. Qed.
