(* C11 -- buffer delay and the can_put / can_get queries are exact.
   The query expressions are REGENERATED from /repo (generated/SrcFragments.v); the timed model
   is theories/Edges/TBuffer.v. *)
From Coq Require Import List ZArith Bool Arith.
From FV Require Import SrcFragments.
From FV Require StoreB StoreBInv StoreBProps TieB TBuffer.
Import ListNotations.
Open Scope Z_scope.

(* can_put() of a Buffer / Fleet is true exactly when a space reservation issued now is granted
   immediately -- in every state satisfying the reachable-state invariants Inv and NoLost *)
Theorem C11_can_put_iff_immediate_grant :
  forall s p pr, StoreB.is_belt (StoreB.s_kind s) = false -> StoreBInv.Inv s -> StoreBProps.NoLost s ->
    (Buffer_can_put (TieB.lensB s) = true <-> snd (StoreB.step s (StoreB.RPut p pr)) = [StoreB.next s]) /\
    (Fleet_can_put (TieB.lensB s) = true <-> snd (StoreB.step s (StoreB.RPut p pr)) = [StoreB.next s]).
Proof. exact TieB.can_put_iff_immediate_grant. Qed.
Print Assumptions C11_can_put_iff_immediate_grant.

Theorem C11_can_get_iff_immediate_grant :
  forall s p pr, StoreBInv.Inv s -> StoreBProps.NoLost s ->
    (Buffer_can_get (TieB.lensB s) = true <-> snd (StoreB.step s (StoreB.RGet p pr)) = [StoreB.next s]) /\
    (Fleet_can_get (TieB.lensB s) = true <-> snd (StoreB.step s (StoreB.RGet p pr)) = [StoreB.next s]).
Proof. exact TieB.can_get_iff_immediate_grant. Qed.
Print Assumptions C11_can_get_iff_immediate_grant.

(* both invariants hold in every reachable state of a buffer / fleet store *)
Theorem C11_invariants_reachable :
  forall k m c ops, StoreB.is_belt k = false -> NoDup (StoreBInv.put_ids ops) ->
    StoreBInv.Inv (StoreB.run (StoreB.init k m c) ops) /\ StoreBProps.NoLost (StoreB.run (StoreB.init k m c) ops).
Proof.
  intros k m c ops NB ND. split.
  - exact (StoreBInv.inv_reachable k m c ops ND).
  - exact (StoreBProps.nolost_reachable k m c ops NB ND).
Qed.
Print Assumptions C11_invariants_reachable.

(* the reported occupancy counts in-transit and ready items *)
Theorem C11_occupancy_counts_both :
  forall s, Buffer_occupancy (TieB.lensB s) = TieB.zl (StoreBInv.contents s) /\
            Fleet_occupancy (TieB.lensB s) = TieB.zl (StoreBInv.contents s).
Proof. exact TieB.occupancy_counts_both. Qed.
Print Assumptions C11_occupancy_counts_both.

(* delay: in every legal timed history an item that is ready was put at least its delay ago ... *)
Theorem C11_not_ready_before_due :
  forall m c ops b i, TBuffer.trun (TBuffer.tinit m c) ops = Some b -> In i (StoreB.ready (TBuffer.st b)) ->
    exists due, In (i, due) (TBuffer.dues b) /\ due <= TBuffer.clock b.
Proof. exact TBuffer.ready_not_before_due. Qed.
Print Assumptions C11_not_ready_before_due.

(* ... a get returns only such an item ... *)
Theorem C11_get_returns_due_item :
  forall m c ops b p t, TBuffer.trun (TBuffer.tinit m c) ops = Some b ->
    existsb (StoreB.owns2 p t) (StoreB.getres (TBuffer.st b)) = true ->
    exists it due, snd (fst (StoreB.step (TBuffer.st b) (StoreB.Get p t))) = StoreB.OItem it /\
                   In (it, due) (TBuffer.dues b) /\ due <= TBuffer.clock b.
Proof. exact TBuffer.get_returns_due_item. Qed.
Print Assumptions C11_get_returns_due_item.

(* ... and from put time + delay onwards the item is available: it has left transit before the
   clock moves past that instant, and stays out afterwards *)
Theorem C11_available_from_due :
  forall m c ops b i due d b' r ts, TBuffer.trun (TBuffer.tinit m c) ops = Some b ->
    In (i, due) (TBuffer.dues b) -> due <= TBuffer.clock b ->
    TBuffer.tstep b (TBuffer.TIdle d) = Some (b', r, ts) -> ~ In i (StoreB.transit (TBuffer.st b)).
Proof. exact TBuffer.due_now_fires_before_time_passes. Qed.
Print Assumptions C11_available_from_due.

Theorem C11_available_after_due :
  forall m c ops b i due, TBuffer.trun (TBuffer.tinit m c) ops = Some b ->
    In (i, due) (TBuffer.dues b) -> due < TBuffer.clock b -> ~ In i (StoreB.transit (TBuffer.st b)).
Proof. exact TBuffer.due_passed_not_in_transit. Qed.
Print Assumptions C11_available_after_due.

(* non-vacuity: put with delay 2 at time 0; not ready at time 1; the timer may fire only at 2 *)
Example C11_witness :
  let ops := [TBuffer.TApi (StoreB.RPut 0 0); TBuffer.TPut 0 0 7 2; TBuffer.TIdle 1] in
  match TBuffer.trun (TBuffer.tinit StoreB.FIFO 2) ops with
  | Some b => StoreB.transit (TBuffer.st b) = [7%nat] /\ TBuffer.tstep b (TBuffer.TFire 7) = None /\
              TBuffer.tstep b (TBuffer.TIdle 2) = None /\
              match TBuffer.trun b [TBuffer.TIdle 1; TBuffer.TFire 7] with
              | Some b2 => StoreB.ready (TBuffer.st b2) = [7%nat]
              | None => False
              end
  | None => False
  end.
Proof. vm_compute. auto. Qed.

From FV Require World Factory FactoryInv FactoryProbe StoreBWeak.
Import ListNotations.
(* can_put is truthful at every reachable world of every factory, not only in every store state
   satisfying Inv: yes <-> a reservation issued now is granted in that call (theories/Factory/FactoryProbe.v) *)
Theorem C11_probe_truthful_in_every_factory :
  forall nodes edges order n, Forall (fun ed => StoreBWeak.WN (World.est ed)) edges ->
  let w := FactoryInv.iter_fstep n (Factory.mk_world nodes edges order) in
  forall e ev p, (e < length (World.wedges w))%nat ->
    (World.e_can_put w e = true ->
       snd (StoreB.step (FactoryProbe.synced w e ev) (StoreB.RPut p 0)) = [StoreB.next (FactoryProbe.synced w e ev)]) /\
    (World.e_can_put w e = false -> snd (StoreB.step (FactoryProbe.synced w e ev) (StoreB.RPut p 0)) = []).
Proof. exact FactoryProbe.probe_decides_grant_everywhere. Qed.
Print Assumptions C11_probe_truthful_in_every_factory.

(* The kernel contract behind the delay theorems above (their legality condition "a timer event is processed exactly when due"),
   proved of the kernel model L0 itself (theories/Kernel/KernelTimer.v): an event created by timeout(d) is processed at exactly
   creation time + d along EVERY sequence of kernel operations (event creation, timeouts, succeed, callbacks, any_of conditions,
   Resource requests / releases, pops) -- nothing can schedule it a second time --, and while its queue entry is there the clock
   has not passed that time.  (The factory model makes one more kind of kernel transition: a finishing process schedules its own
   completion event without asking whether it is untriggered; when it is -- SimPy raises otherwise --, that transition is the
   [succeed] covered here.) *)
From FV Require Kernel KernelTimer.
Theorem C11_timer_processed_exactly_when_due :
  forall k d k1 e, KernelTimer.QRefs k -> Kernel.timeout k d = (k1, e) ->
  forall k2 k3 cbs, KernelTimer.ksteps k1 k2 -> Kernel.pop k2 = Some (k3, e, cbs) -> Kernel.now k3 = (Kernel.now k + d)%Z.
Proof. exact KernelTimer.timeout_processed_exactly_when_due. Qed.
Print Assumptions C11_timer_processed_exactly_when_due.

Theorem C11_timer_not_overtaken :
  forall k d k1 e, KernelTimer.QRefs k -> Kernel.timeout k d = (k1, e) ->
  forall k2, KernelTimer.ksteps k1 k2 -> Kernel.QInv k2 -> KernelTimer.Queued k2 e -> (Kernel.now k2 <= Kernel.now k + d)%Z.
Proof. exact KernelTimer.timeout_not_overtaken. Qed.
Print Assumptions C11_timer_not_overtaken.

(* ... and the timer is not lost: until the event has been processed its entry is in the queue *)
Theorem C11_timer_not_lost :
  forall k d k1 e, KernelTimer.QRefs k -> Kernel.timeout k d = (k1, e) ->
  forall k2, KernelTimer.ksteps k1 k2 -> KernelTimer.Queued k2 e \/ Kernel.e_proc (Kernel.get_ev k2 e) = true.
Proof. exact KernelTimer.timeout_not_lost. Qed.
Print Assumptions C11_timer_not_lost.

(* tie B: the Buffer EDGE adds nothing to its store besides drawing the delay: every wrapper delegates with one call and assigns
   nothing on the store (re-translated from edges/buffer.py on every run) *)
From FV Require TieNodes.
Theorem C11_buffer_edge_only_delegates :
  SrcFragments.Buffer_reserve_put_delegates = true /\
  SrcFragments.Buffer_reserve_get_delegates = true /\
  SrcFragments.Buffer_put_delegates = true /\
  SrcFragments.Buffer_get_delegates = true /\
  SrcFragments.Buffer_reserve_put_cancel_delegates = true /\
  SrcFragments.Buffer_reserve_get_cancel_delegates = true.
Proof. repeat split. Qed.
Print Assumptions C11_buffer_edge_only_delegates.

(* tie B: "queries": can_put / can_get / occupancy / the list accessors and the statistics refreshes of both edge classes only
   observe the store -- nothing but the level statistics is assigned, no list of the store (or a local name bound to one) is
   updated in place (re-translated from edges/buffer.py and edges/fleet.py on every run) *)
Theorem C11_queries_only_observe :
  (SrcFragments.Buffer_can_put_observes = true /\ SrcFragments.Buffer_can_get_observes = true /\
   SrcFragments.Buffer_occupancy_observes = true /\ SrcFragments.Buffer_ready_items_observes = true /\
   SrcFragments.Buffer_items_observes = true /\ SrcFragments.Buffer_update_final_buffer_avg_content_observes = true /\
   SrcFragments.Buffer_buffer_stats_collector_observes = true) /\
  (SrcFragments.Fleet_can_put_observes = true /\ SrcFragments.Fleet_can_get_observes = true /\
   SrcFragments.Fleet_get_occupancy_observes = true /\ SrcFragments.Fleet_get_ready_items_observes = true /\
   SrcFragments.Fleet_get_items_observes = true /\ SrcFragments.Fleet_update_final_fleet_avg_content_observes = true /\
   SrcFragments.Fleet_fleet_stats_collector_observes = true).
Proof. exact (conj TieNodes.buffer_observers_src TieNodes.fleet_observers_src). Qed.
Print Assumptions C11_queries_only_observe.
