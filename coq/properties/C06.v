(* C06 -- FIFO / LIFO / filter retrieval discipline, also after cancellation. *)
From Coq Require Import List ZArith Bool Arith.
From FV Require ListLemmas StoreP StorePInv StorePOrder StoreB StoreBInv StoreBOrder.
Import ListNotations.

(* bound-item stores: ready_items is the availability order -- it only changes by appending the
   item that just became available or deleting the item that was retrieved *)
Theorem C06_availability_order_bound :
  forall s o, let '(s', r, _) := StoreB.step s o in
    StoreB.ready s' = StoreB.ready s
    \/ (exists i, o = StoreB.Ready i /\ StoreB.ready s' = StoreB.ready s ++ [i])
    \/ (exists it, r = StoreB.OItem it /\ StoreB.ready s' = ListLemmas.remove_first (Nat.eqb it) (StoreB.ready s)).
Proof. exact StoreBOrder.ready_shape. Qed.
Print Assumptions C06_availability_order_bound.

(* a grant binds the oldest (FIFO) / newest (LIFO) available item not held by another reservation *)
Theorem C06_grant_discipline_bound :
  forall s s' t, StoreB.trig_get s = Some (s', [t]) ->
    exists r it, StoreB.getres s' = StoreB.getres s ++ [(r, it)] /\ StoreB.r_tok r = t /\
      match StoreB.s_mode s with
      | StoreB.FIFO => hd_error (StoreB.unreserved s) = Some it
      | StoreB.LIFO => hd_error (rev (StoreB.unreserved s)) = Some it
      end.
Proof. exact StoreBOrder.grant_discipline. Qed.
Print Assumptions C06_grant_discipline_bound.

(* cancelling a granted retrieval only unbinds: the item is back among the unreserved ones at its
   place in the availability order; no other binding and no item moves *)
Theorem C06_cancel_unbinds_bound :
  forall s t i r it, StoreBInv.Inv s -> existsb (StoreB.tokb t) (StoreB.getq s) = false ->
    ListLemmas.index_where (StoreB.tokb2 t) (StoreB.getres s) = Some i ->
    nth_error (StoreB.getres s) i = Some (r, it) ->
    exists s1 ts, StoreB.step s (StoreB.CGet t) = (s1, StoreB.OOk, ts) /\
      StoreB.ready s1 = StoreB.ready s /\ StoreB.transit s1 = StoreB.transit s /\
      (StoreB.getq s = [] -> StoreB.getres s1 = ListLemmas.remove_nth i (StoreB.getres s) /\
                             In it (StoreB.unreserved s1)).
Proof. exact StoreBOrder.cancel_granted_unbinds. Qed.
Print Assumptions C06_cancel_unbinds_bound.

(* positional stores: a grant binds the first unreserved item satisfying the request's filter and
   keeps the order of every other item *)
Theorem C06_grant_discipline_positional :
  forall s s' t, StoreP.trig_get1 s = (s', [t]) ->
    exists r q a x b, StoreP.getq s = r :: q /\ StoreP.r_tok r = t /\ StorePOrder.unres s = a ++ x :: b /\
      StoreP.fmatch (StoreP.now s) (StoreP.tdelay s) (StoreP.eff_flt s r) x = true /\
      forallb (fun y => negb (StoreP.fmatch (StoreP.now s) (StoreP.tdelay s) (StoreP.eff_flt s r) y)) a = true /\
      StoreP.items s' = firstn (length (StoreP.getres s)) (StoreP.items s) ++ x :: a ++ b /\
      StoreP.getres s' = StoreP.getres s ++ [r].
Proof. exact StorePOrder.grant_discipline. Qed.
Print Assumptions C06_grant_discipline_positional.

(* cancelling the i-th granted retrieval re-inserts its item ahead of all never-reserved items *)
Theorem C06_cancel_reinserts_positional :
  forall s t i it, StorePInv.CapInv s -> existsb (StoreP.tokb t) (StoreP.getq s) = false -> StoreP.getq s = [] ->
    ListLemmas.index_where (StoreP.tokb t) (StoreP.getres s) = Some i -> nth_error (StoreP.items s) i = Some it ->
    let s1 := StoreP.step_st s (StoreP.CGet t) in
    StoreP.getres s1 = ListLemmas.remove_nth i (StoreP.getres s) /\
    firstn (length (StoreP.getres s1)) (StoreP.items s1) =
      ListLemmas.remove_nth i (firstn (length (StoreP.getres s)) (StoreP.items s)) /\
    StorePOrder.unres s1 = it :: StorePOrder.unres s.
Proof. exact StorePOrder.cancel_granted_reinserts. Qed.
Print Assumptions C06_cancel_reinserts_positional.

Example C06_witness :
  let s := StoreB.run (StoreB.init StoreB.KBuffer StoreB.FIFO 3)
             [StoreB.RPut 0 0; StoreB.Put 0 0 1; StoreB.RPut 0 0; StoreB.Put 0 1 2; StoreB.RPut 0 0; StoreB.Put 0 2 3;
              StoreB.Ready 1; StoreB.Ready 2; StoreB.Ready 3; StoreB.RGet 1 0; StoreB.RGet 1 0; StoreB.CGet 3] in
  StoreB.ready s = [1; 2; 3] /\ StoreB.reserved s = [2] /\ StoreB.unreserved s = [1; 3].
Proof. vm_compute. auto. Qed.

(* tie B, constructor wiring: the retrieval mode configured on a Buffer is the mode its store orders availability by *)
From FV Require SrcFragments TieWiring.
Theorem C06_configured_mode_reaches_the_store :
  (SrcFragments.Buffer_store_mode_wiring = SrcFragments.A_mode /\ SrcFragments.BufferStore_keeps_mode = SrcFragments.A_mode).
Proof. exact TieWiring.mode_reaches_the_store. Qed.
Print Assumptions C06_configured_mode_reaches_the_store.
