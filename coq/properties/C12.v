(* C12 -- Conveyors preserve order, spacing, capacity and minimum travel time.
   Timed model of both belt stores: theories/Edges/TBelt.v (travel timer with interrupt / resume,
   admission test computed from the model's own state); proofs in TBeltProofs.v.  Interrupts and
   resumes are inputs, so every theorem below holds for every pattern of stalls, accumulating or
   not.  Tie: harness/belt.py replays every run of the real conveyors on the extracted model. *)
From Coq Require Import List ZArith Bool Arith.
From FV Require TBelt TBeltProofs TBeltOrder SrcFragments TieBelt.
Import ListNotations.
Open Scope Z_scope.

(* no item is offered earlier than the full belt travel time D after it entered: it is offered at
   exactly entry + D + (time it spent interrupted); slotted and continuous belt, every history *)
Theorem C12_travel_time :
  forall sl c u D acc ops b i e a t, 0 < u <= D ->
    TBelt.brun (TBelt.binit sl c u D acc) ops = Some b -> In (i, e, a, t) (TBelt.arrived b) ->
    a = e + D + t /\ 0 <= t /\ In (i, e) (TBelt.entered b).
Proof. exact TBeltProofs.travel_time. Qed.
Print Assumptions C12_travel_time.

Theorem C12_min_travel_time :
  forall sl c u D acc ops b i e a t, 0 < u <= D ->
    TBelt.brun (TBelt.binit sl c u D acc) ops = Some b -> In (i, e, a, t) (TBelt.arrived b) -> e + D <= a.
Proof. exact TBeltProofs.min_travel_time. Qed.
Print Assumptions C12_min_travel_time.

(* if the belt is never interrupted (the destination takes every item as soon as it is offered, so
   the conveyor never stalls) the travel time is exactly D *)
Theorem C12_exact_travel_uninterrupted :
  forall sl c u D acc ops b i e a t, 0 < u <= D -> forallb TBeltProofs.not_int ops = true ->
    TBelt.brun (TBelt.binit sl c u D acc) ops = Some b -> In (i, e, a, t) (TBelt.arrived b) -> a = e + D.
Proof. exact TBeltProofs.exact_travel_uninterrupted. Qed.
Print Assumptions C12_exact_travel_uninterrupted.

(* never more than capacity items on the belt (granted entries included) *)
Theorem C12_capacity :
  forall sl c u D acc ops b, 0 < u <= D -> TBelt.brun (TBelt.binit sl c u D acc) ops = Some b ->
    (TBelt.nres b + length (TBelt.moving b) + length (TBelt.bready b) <= c)%nat.
Proof. exact TBeltProofs.belt_capacity. Qed.
Print Assumptions C12_capacity.

(* successive items enter at least one slot time apart (entered is newest first), one entry at a time *)
Theorem C12_entry_spacing :
  forall sl c u D acc ops b, 0 < u <= D -> TBelt.brun (TBelt.binit sl c u D acc) ops = Some b ->
    TBeltProofs.spaced u (TBelt.entered b) /\ (TBelt.nres b <= 1)%nat.
Proof. exact TBeltProofs.entry_spacing. Qed.
Print Assumptions C12_entry_spacing.

(* order: without interrupts the item reaching the exit is the oldest one on the belt.  (With
   interrupts the order depends on which items the conveyor stops; that part is compared, not proved.) *)
Theorem C12_fifo_uninterrupted :
  forall sl c u D acc ops b i b' g, 0 < u <= D -> forallb TBeltProofs.not_int ops = true ->
    TBelt.brun (TBelt.binit sl c u D acc) ops = Some b -> TBelt.bstep b (TBelt.BReady i) = Some (b', g) ->
    exists x m, TBelt.moving b = x :: m /\ TBelt.mid x = i.
Proof. exact TBeltProofs.fifo_uninterrupted. Qed.
Print Assumptions C12_fifo_uninterrupted.

(* non-vacuity: capacity 3, slot time 4 ticks, D = 12: two items enter 4 apart, the belt is
   interrupted for 5 ticks while the first waits, both arrive; the second 5 ticks late *)
Definition C12_ops : list TBelt.bop :=
  [TBelt.BRsv false false; TBelt.BPut 0; TBelt.BIdle 4; TBelt.BRsv false false; TBelt.BPut 1; TBelt.BIdle 8; TBelt.BReady 0;
   TBelt.BInt 1; TBelt.BIdle 5; TBelt.BGet 0; TBelt.BResume; TBelt.BIdle 4; TBelt.BReady 1]%nat.
Example C12_witness :
  option_map (fun b => (TBelt.arrived b, TBelt.entered b)) (TBelt.brun (TBelt.binit false 3 4 12 false) C12_ops) =
  Some ([(1%nat, 4, 21, 5); (0%nat, 0, 12, 0)], [(1%nat, 4); (0%nat, 0)]).
Proof. vm_compute. reflexivity. Qed.

(* order under stalls of the whole belt (non-accumulating conveyor): on the continuous belt the item
   that reaches the exit is the oldest item on the belt, in every history of admission tests, puts,
   stalls (every running item interrupted at once), releases, arrivals, gets, and idles during which
   the belt is wholly stopped or wholly moving (the check's clause nonacc-partial-stall tests that the
   real non-accumulating conveyor produces histories of this shape).  (Accumulating belts stop items one after the other; their order is compared, not proved.) *)
Theorem C12_fifo_under_uniform_stalls :
  forall c u D acc ops b i b' g, 0 < u <= D ->
    TBeltOrder.urun (TBelt.binit false c u D acc) ops = Some b ->
    TBeltOrder.ustep b (TBeltOrder.UReady i) = Some (b', g) ->
    exists x m, TBelt.moving b = x :: m /\ TBelt.mid x = i.
Proof. exact TBeltOrder.fifo_under_uniform_stalls. Qed.
Print Assumptions C12_fifo_under_uniform_stalls.

(* non-vacuity: two items 4 apart, a stall of the whole belt for 5 ticks, both arrive in entry order *)
Definition C12_uops : list TBeltOrder.uop :=
  [TBeltOrder.URsv false false; TBeltOrder.UPut 0; TBeltOrder.UIdle 4; TBeltOrder.URsv false false; TBeltOrder.UPut 1;
   TBeltOrder.UIdle 3; TBeltOrder.UStall; TBeltOrder.UIdle 5; TBeltOrder.UResume; TBeltOrder.UIdle 5; TBeltOrder.UReady 0;
   TBeltOrder.UIdle 4; TBeltOrder.UReady 1]%nat.
Example C12_uniform_witness :
  option_map (fun b => TBelt.arrived b) (TBeltOrder.urun (TBelt.binit false 3 4 12 false) C12_uops) =
  Some [(1%nat, 4, 21, 5); (0%nat, 0, 17, 5)].
Proof. vm_compute. reflexivity. Qed.

(* Order from spacing, for EVERY history of either belt store (slotted or continuous), whatever items are interrupted one by one (the shape of
   history an accumulating conveyor produces): if, at the instant an item is offered, no live item on the belt is closer than one
   slot to an item that entered before it -- C13's "never overlapping", which the check's acc-overlap / acc-exit-shared clauses test
   on every explored run --, then the item offered is the oldest one on the belt.  So on accumulating belts a violation of the
   order needs a violation of the spacing. *)
Theorem C12_fifo_when_spaced :
  forall sl c u D acc ops b i b' g, 0 < u <= D ->
    TBelt.brun (TBelt.binit sl c u D acc) ops = Some b ->
    (forall x, In x (TBelt.moving b) -> TBelt.dead x = false) ->
    Sorted.StronglySorted (TBeltOrder.ahead (TBelt.bu b) (TBelt.bclock b)) (TBelt.moving b) ->
    TBelt.bstep b (TBelt.BReady i) = Some (b', g) ->
    exists x m, TBelt.moving b = x :: m /\ TBelt.mid x = i.
Proof. exact TBeltOrder.fifo_when_spaced. Qed.
Print Assumptions C12_fifo_when_spaced.

(* tie B: the admission test of both belt stores, REGENERATED from /repo's sources on every run, is the
   test the model (and every theorem above) uses *)
Theorem C12_admission_test_regenerated :
  forall b noacc one, TBelt.gate b noacc one =
    if TBelt.slotted b then SrcFragments.SlotBeltStore_gate (TieBelt.glens_of b noacc one)
    else SrcFragments.ContBeltStore_gate (TieBelt.glens_of b noacc one).
Proof. exact TieBelt.gate_regenerated. Qed.
Print Assumptions C12_admission_test_regenerated.

(* tie B, constructor wiring (theories/Edges/TieWiring.v): the slot delay configured on a slotted conveyor is the delay its
   store's entrance test and move process use (three links); a continuous conveyor's speed is its belt store's speed *)
From FV Require TieWiring.
Theorem C12_configured_slot_delay_reaches_the_gate :
  (SrcFragments.SlotConveyor_store_delay_wiring = SrcFragments.A_delay /\ SrcFragments.SlotConveyorStore_base_delay_wiring = SrcFragments.A_delay /\
  SrcFragments.SlotBeltStore_keeps_delay = SrcFragments.A_delay /\ SrcFragments.SlotConveyorStore_base_mode_wiring = SrcFragments.A_const_FIFO).
Proof. exact TieWiring.slot_delay_reaches_the_gate. Qed.
Print Assumptions C12_configured_slot_delay_reaches_the_gate.

Theorem C12_configured_speed_reaches_the_belt :
  (SrcFragments.ContConveyor_store_speed_wiring = SrcFragments.A_speed /\ SrcFragments.ContBeltStore_keeps_speed = SrcFragments.A_speed /\
  SrcFragments.ContConveyor_store_accumulation_mode_indicator_wiring = SrcFragments.A_accumulating).
Proof. exact TieWiring.speed_reaches_the_belt. Qed.
Print Assumptions C12_configured_speed_reaches_the_belt.
