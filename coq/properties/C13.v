(* C13 -- Conveyor stalls: non-accumulating belts stop, accumulating belts close up.  PARTIAL.
   What is proved concerns the belt store (theories/Edges/TBelt.v): what an interrupt and a resume
   do to an item, and the admission test.  WHICH items the conveyor interrupts when its head waits
   (all of them at once on a non-accumulating belt; the followers one after the other as they close
   up on an accumulating belt) is decided by ConveyorBelt.behaviour and the belt store's pattern
   heuristics; the model takes those decisions as inputs, and the check compares the
   implementation's stall behaviour with the kinematic statement of C13 run by run
   (harness/belt.py, oracle clauses nonacc-... and acc-...).  Known findings: known_findings.jsonl. *)
From Coq Require Import List ZArith Bool Arith.
From FV Require TBelt TBeltProofs SrcFragments TieBelt.
Import ListNotations.
Open Scope Z_scope.

(* distance travelled + distance to go = the whole belt for every live item, in every reachable
   state under every pattern of interrupts *)
Theorem C13_travel_accounting :
  forall sl c u D acc ops b x, 0 < u <= D -> TBelt.brun (TBelt.binit sl c u D acc) ops = Some b ->
    In x (TBelt.moving b) -> TBelt.dead x = false ->
    TBelt.tob (TBelt.bclock b) x + TBeltProofs.to_go (TBelt.bclock b) x = D /\ 0 <= TBeltProofs.to_go (TBelt.bclock b) x.
Proof. exact TBeltProofs.travel_accounting. Qed.
Print Assumptions C13_travel_accounting.

(* a stopped item does not advance while time passes ... *)
Theorem C13_interrupted_item_frozen :
  forall b d b' g x s, TBelt.bstep b (TBelt.BIdle d) = Some (b', g) -> In x (TBelt.moving b) -> TBelt.intr x = Some s ->
    In x (TBelt.moving b') /\ TBelt.tob (TBelt.bclock b') x = TBelt.tob (TBelt.bclock b) x /\
    TBeltProofs.to_go (TBelt.bclock b') x = TBeltProofs.to_go (TBelt.bclock b) x.
Proof. exact TBeltProofs.interrupted_item_frozen. Qed.
Print Assumptions C13_interrupted_item_frozen.

(* ... and on release it resumes from where it stopped: it is due after exactly its remaining travel *)
Theorem C13_resume_is_exact :
  forall b b' g x s, TBelt.bstep b TBelt.BResume = Some (b', g) -> In x (TBelt.moving b) -> TBelt.intr x = Some s ->
    TBelt.dead x = false ->
    let y := TBelt.resume (TBelt.bclock b) x in
    In y (TBelt.moving b') /\ TBelt.intr y = None /\ TBelt.due y = TBelt.bclock b + TBelt.rem x /\
    TBelt.total y = TBelt.total x + (TBelt.bclock b - s) /\ TBelt.bclock b' = TBelt.bclock b.
Proof. exact TBeltProofs.resume_is_exact. Qed.
Print Assumptions C13_resume_is_exact.

(* a non-accumulating continuous belt lets nothing in while an item waits at its exit *)
Theorem C13_nonacc_closed_while_head_waits :
  forall b n o, TBelt.slotted b = false -> TBelt.bacc b = false -> TBelt.bready b <> [] -> TBelt.gate b n o = false.
Proof. exact TBeltProofs.nonacc_closed_while_head_waits. Qed.
Print Assumptions C13_nonacc_closed_while_head_waits.

(* an accumulating belt with nothing moving takes new items until it holds capacity items *)
Theorem C13_acc_open_until_full :
  forall b n o, TBelt.bacc b = true -> TBelt.moving b = [] -> TBelt.nres b = 0%nat ->
    TBelt.gate b n o = (length (TBelt.bready b) <? TBelt.bcap b)%nat.
Proof. exact TBeltProofs.acc_open_until_full. Qed.
Print Assumptions C13_acc_open_until_full.

(* the slotted store has no such test: with an item waiting at the exit of a non-accumulating slotted
   belt the next entry is granted (the known finding, here as a witness on the model) *)
Example C13_slotted_open_while_head_waits_refuted :
  exists b, TBelt.slotted b = true /\ TBelt.bacc b = false /\ TBelt.bready b <> [] /\ TBelt.gate b false false = true.
Proof.
  exists {| TBelt.slotted := true; TBelt.bcap := 3; TBelt.bu := 4; TBelt.bD := 12; TBelt.bacc := false; TBelt.bclock := 20;
            TBelt.nres := 0; TBelt.moving := []; TBelt.bready := [0%nat]; TBelt.arrived := []; TBelt.entered := [] |}.
  simpl. split; [reflexivity|]. split; [reflexivity|]. split; [discriminate|reflexivity].
Qed.

(* tie B: the admission test the two theorems above speak about is the one regenerated from the sources *)
Theorem C13_admission_test_regenerated :
  forall b noacc one, TBelt.gate b noacc one =
    if TBelt.slotted b then SrcFragments.SlotBeltStore_gate (TieBelt.glens_of b noacc one)
    else SrcFragments.ContBeltStore_gate (TieBelt.glens_of b noacc one).
Proof. exact TieBelt.gate_regenerated. Qed.
Print Assumptions C13_admission_test_regenerated.

(* tie B: the stall test of the continuous conveyor, regenerated from ConveyorBelt.is_stalled on every run: the belt counts as
   stalled exactly when an item waits at the exit, claimed or not (the statement of C13 does not care whether the destination has
   already reserved the waiting head; fix a6eee90) *)
Theorem C13_stall_test_regenerated :
  forall l, SrcFragments.ContBelt_is_stalled l = negb (Z.eqb (SrcFragments.n_ready_items l) 0).
Proof. exact TieBelt.cont_is_stalled_src. Qed.
Print Assumptions C13_stall_test_regenerated.
