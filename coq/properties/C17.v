(* C17 -- state-time accounting partitions elapsed time.
   The five classification conditions of Machine.update_state_rep are REGENERATED from source and
   proved to partition the thread-count pairs within each documented group; hence after ANY
   sequence of updates at non-decreasing times every total is non-negative and each group adds up
   to the time elapsed since the end of the set-up period (which is charged to SETUP).  For
   Node.update_state (Source, Sink, Splitter, Combiner) the totals add up to the time elapsed
   since the first update.  Exact (integer / rational) arithmetic; float rounding is outside. *)
From Coq Require Import List ZArith Bool Arith.
From RecordUpdate Require Import RecordUpdate.
From FV Require Import Kernel SrcFragments Accounting TieAcc World Factory.
From FV Require FactoryInv FactoryAcct TieStats.
From FV Require StoreB.
Import ListNotations.
Open Scope Z_scope.

Theorem C17_conditions_regenerated :
  forall p b, Machine_cond_IDLE_STATE p b = c_idle p b /\
              Machine_cond_ALL_ACTIVE_BLOCKED_STATE p b = c_allblk p b /\
              Machine_cond_ATLEAST_ONE_PROCESSING_STATE p b = c_oneproc p b /\
              Machine_cond_ALL_ACTIVE_PROCESSING_STATE p b = c_allproc p b /\
              Machine_cond_ATLEAST_ONE_BLOCKED_STATE p b = c_oneblk p b.
Proof. exact machine_conditions_regenerated. Qed.
Print Assumptions C17_conditions_regenerated.

Theorem C17_groupA_partition : forall p b, 0 <= p -> 0 <= b ->
  b2z (c_idle p b) + b2z (c_allblk p b) + b2z (c_oneproc p b) = 1.
Proof. exact groupA_partition. Qed.
Print Assumptions C17_groupA_partition.

Theorem C17_groupB_partition : forall p b, 0 <= p -> 0 <= b ->
  b2z (c_idle p b) + b2z (c_allproc p b) + b2z (c_oneblk p b) = 1.
Proof. exact groupB_partition. Qed.
Print Assumptions C17_groupB_partition.

Theorem C17_machine_groups_sum : forall t0 l, wf_updates t0 l -> AccInv t0 (fold_left acc_step l (acc_init t0)).
Proof. exact machine_groups_sum. Qed.
Print Assumptions C17_machine_groups_sum.

Theorem C17_node_states_sum : forall k t0 s0 l, (s0 < k)%nat -> wf_nupd k t0 l ->
  let a := fold_left nacc_step l {| na_state := s0; na_last := t0; na_tot := repeat 0 k |} in
  sumz (na_tot a) = na_last a - t0 /\ Forall (fun x => 0 <= x) (na_tot a).
Proof. exact node_states_sum. Qed.
Print Assumptions C17_node_states_sum.

Example C17_witness :
  let a := fold_left acc_step [(2, 1, 0); (5, 1, 1); (6, 0, 1); (9, 0, 0)] (acc_init 0) in
  a_idle a = 2 /\ a_oneproc a = 4 /\ a_allblk a = 3 /\ a_allproc a = 3 /\ a_oneblk a = 4.
Proof. vm_compute. auto. Qed.

(* ---- at every reachable world of every factory (theories/Factory/FactoryAcct.v) ----
   PW T n0 k0 cA cB w: the clock shows T; node n0, of kind k0, has been stamped (last stamp l <= T), all its totals are
   non-negative, and   sum of its totals = l + cA   (for a machine: each of the two documented state groups,
   = l + cA and = l + cB); the processes owned by n0 are of a kind that fits k0, and its behaviour process is past
   the program points that initialise the accounts.
   Once this holds it holds for the rest of the run with the SAME constants: every advance of the stamp is charged to
   exactly one state (one state of each group of a machine), nothing else ever touches the totals. *)
Theorem C17_accounts_keep_pace_in_every_factory :
  forall n0 k0 cA cB nodes edges order j m,
    let wj := FactoryInv.iter_fstep j (mk_world nodes edges order) in
    FactoryAcct.PW (wnow wj) n0 k0 cA cB wj ->
    let w := FactoryInv.iter_fstep m wj in FactoryAcct.PW (wnow w) n0 k0 cA cB w.
Proof. exact FactoryAcct.accounts_keep_pace_in_every_factory. Qed.
Print Assumptions C17_accounts_keep_pace_in_every_factory.

(* finalisation at T' charges T' - l once more: the totals add up to T' + cA (cA = minus the time of the first stamp) *)
Theorem C17_finalised_node_sums :
  forall T k0 cA cB nd nd' T',
    FactoryAcct.AN T k0 cA cB nd -> k0 <> NMachine -> finalize_node T' nd = Some nd' -> sumz (ntstate nd') = T' + cA.
Proof. exact FactoryAcct.finalize_node_sum. Qed.
Print Assumptions C17_finalised_node_sums.

Theorem C17_finalised_machine_groups :
  forall T cA cB nd nd' T',
    FactoryAcct.AN T NMachine cA cB nd -> finalize_node T' nd = Some nd' ->
    FactoryAcct.gA (ntstate nd') = T' + cA /\ FactoryAcct.gB (ntstate nd') = T' + cB.
Proof. exact FactoryAcct.finalize_machine_groups. Qed.
Print Assumptions C17_finalised_machine_groups.

(* the predicate is decidable on a concrete world, and a small line (source -> buffer -> 2-worker machine -> buffer ->
   sink) satisfies it after 40 kernel steps with constants 0 for all three nodes: from then on, for EVERY further
   number of steps, the totals of each node add up to its last stamp *)
Theorem C17_check_sound :
  forall T n0 k0 cA cB w, FactoryAcct.pw_check T n0 k0 cA cB w = true -> FactoryAcct.PW T n0 k0 cA cB w.
Proof. exact FactoryAcct.pw_check_sound. Qed.
Print Assumptions C17_check_sound.

Definition wit_z6 : list Z := [0; 0; 0; 0; 0; 0].
Definition wit_src : node := node0 <| nk := NSource |> <| nouts := [0%nat] |> <| nsetup := 1 |> <| ndelays := [2] |> <| ntstate := wit_z6 |>.
Definition wit_mach : node :=
  node0 <| nk := NMachine |> <| nins := [0%nat] |> <| nouts := [1%nat] |> <| nsetup := 1 |> <| ndelays := [3] |>
        <| nwcap := 2%nat |> <| nres := res_init 2 |> <| ntstate := wit_z6 |> <| nocchist := [0; 0; 0] |>.
Definition wit_snk : node := node0 <| nk := NSink |> <| nins := [1%nat] |> <| ntstate := wit_z6 |>.
Definition wit_buf (s d : nat) : edge :=
  edge0 <| est := StoreB.init StoreB.KBuffer StoreB.FIFO 2 |> <| esrc := s |> <| edst := d |> <| edelays := [1] |>.
Definition wit_line : world :=
  mk_world [wit_src; wit_mach; wit_snk] [wit_buf 0 1; wit_buf 1 2] [(true, 0%nat); (true, 1%nat); (true, 2%nat)].

Example C17_pace_witness :
  let wj := FactoryInv.iter_fstep 40 wit_line in
  wcrash wj = None /\ wnow wj = 8 /\
  FactoryAcct.pw_check 8 0 NSource 0 0 wj = true /\ FactoryAcct.pw_check 8 1 NMachine 0 0 wj = true /\
  FactoryAcct.pw_check 8 2 NSink 0 0 wj = true /\
  map ntstate (wnodes wj) = [[1; 6; 0; 0; 0; 0]; [1; 3; 3; 0; 3; 0]; [0; 0; 0; 0; 0; 0]].
Proof. vm_compute. repeat split; reflexivity. Qed.

(* tie B: the amount Node.update_state charges, re-translated from nodes/node.py on every run, is what the
   accounting function of the theorems above adds to the state that is being left *)
Theorem C17_charge_regenerated :
  forall a t s', (na_state a < length (na_tot a))%nat ->
    nth (na_state a) (na_tot (nacc_step a (t, s'))) 0 = Node_state_charge (nth (na_state a) (na_tot a) 0) t (na_last a).
Proof. exact TieStats.node_state_charge_src. Qed.
Print Assumptions C17_charge_regenerated.
