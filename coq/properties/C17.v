(* C17 -- state-time accounting partitions elapsed time.
   The five classification conditions of Machine.update_state_rep are REGENERATED from source and
   proved to partition the thread-count pairs within each documented group; hence after ANY
   sequence of updates at non-decreasing times every total is non-negative and each group adds up
   to the time elapsed since the end of the set-up period (which is charged to SETUP).  For
   Node.update_state (Source, Sink, Splitter, Combiner) the totals add up to the time elapsed
   since the first update.  Exact (integer / rational) arithmetic; float rounding is outside. *)
From Coq Require Import List ZArith Bool Arith.
From FV Require Import SrcFragments Accounting TieAcc.
Import ListNotations.
Open Scope Z_scope.

Theorem C17_conditions_regenerated :
  forall p b, Machine_cond_IDLE_STATE p b = c_idle p b /\
              Machine_cond_ALL_ACTIVE_BLOCKED_STATE p b = c_allblk p b /\
              Machine_cond_ATLEAST_ONE_PROCESSING_STATE p b = c_oneproc p b /\
              Machine_cond_ALL_ACTIVE_PROCESSING_STATE p b = c_allproc p b /\
              Machine_cond_ATLEAST_ONE_BLOCKED_STATE p b = c_oneblk p b.
Proof. exact machine_conditions_regenerated. Qed.
Print Assumptions C17_conditions_regenerated.

Theorem C17_groupA_partition : forall p b, 0 <= p -> 0 <= b ->
  b2z (c_idle p b) + b2z (c_allblk p b) + b2z (c_oneproc p b) = 1.
Proof. exact groupA_partition. Qed.
Print Assumptions C17_groupA_partition.

Theorem C17_groupB_partition : forall p b, 0 <= p -> 0 <= b ->
  b2z (c_idle p b) + b2z (c_allproc p b) + b2z (c_oneblk p b) = 1.
Proof. exact groupB_partition. Qed.
Print Assumptions C17_groupB_partition.

Theorem C17_machine_groups_sum : forall t0 l, wf_updates t0 l -> AccInv t0 (fold_left acc_step l (acc_init t0)).
Proof. exact machine_groups_sum. Qed.
Print Assumptions C17_machine_groups_sum.

Theorem C17_node_states_sum : forall k t0 s0 l, (s0 < k)%nat -> wf_nupd k t0 l ->
  let a := fold_left nacc_step l {| na_state := s0; na_last := t0; na_tot := repeat 0 k |} in
  sumz (na_tot a) = na_last a - t0 /\ Forall (fun x => 0 <= x) (na_tot a).
Proof. exact node_states_sum. Qed.
Print Assumptions C17_node_states_sum.

Example C17_witness :
  let a := fold_left acc_step [(2, 1, 0); (5, 1, 1); (6, 0, 1); (9, 0, 0)] (acc_init 0) in
  a_idle a = 2 /\ a_oneproc a = 4 /\ a_allblk a = 3 /\ a_allproc a = 3 /\ a_oneblk a = 4.
Proof. vm_compute. auto. Qed.
