(* C16 -- the combiner packs exactly its recipe; the splitter emits each item once, then the pallet.
   Proved about the model of Combiner.behaviour: for every ingredient edge i >= 1 it reserves
   exactly target_quantity[i] retrieval tokens tagged i (and raises IndexError if the recipe is too
   short); every round of the gathering loop consumes exactly one outstanding token and adds the
   item it yields to the pallet.  The unpacking order of the splitter and the per-pallet contents
   are compared on every explored factory (K / P lines) -- not proved for every configuration. *)
From Coq Require Import List ZArith Bool Arith.
From FV Require Import ListLemmas World Factory FactoryLemmas.
Import ListNotations.

Theorem C16_combiner_reserves_recipe :
  forall w p n,
    match combiner_reserve w p n, recipe_tags 1 (length (tl (nins (get_node w n)))) (nrecipe (get_node w n)) with
    | Some (_, toks, idxs), Some tags => idxs = tags /\ length toks = length tags
    | None, None => True
    | Some _, None => False
    | None, Some _ => False
    end.
Proof. exact combiner_reserves_recipe. Qed.
Print Assumptions C16_combiner_reserves_recipe.

Theorem C16_one_token_per_round : forall (l : list nat) ti, (ti < length l)%nat -> S (length (remove_nth ti l)) = length l.
Proof. exact remove_nth_count. Qed.
Print Assumptions C16_one_token_per_round.

(* non-vacuity: recipe [_, 2, 0, 1] on three ingredient edges gives the tags 1,1,3 *)
Example C16_witness : recipe_tags 1 3 [9; 2; 0; 1]%nat = Some [1; 1; 3]%nat /\ recipe_tags 1 3 [9; 2]%nat = None.
Proof. vm_compute. auto. Qed.

(* the loop that issues those reservations, regenerated from Combiner.behaviour on every run (tie B,
   theories/Nodes/TieNodes.v): it starts at in-edge 1 and reads the recipe at the in-edge's own index *)
From FV Require SrcFragments TieNodes.
Theorem C16_recipe_loop_regenerated :
  SrcFragments.Combiner_first_ingredient_edge = 1%Z /\ (forall k : Z, SrcFragments.Combiner_recipe_index k = k).
Proof. exact (conj TieNodes.combiner_first_ingredient_edge_src TieNodes.combiner_recipe_index_src). Qed.
Print Assumptions C16_recipe_loop_regenerated.
