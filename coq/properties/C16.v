(* C16 -- the combiner packs exactly its recipe; the splitter emits each item once, then the pallet.
   Proved about the model of Combiner.behaviour: for every ingredient edge i >= 1 it reserves
   exactly target_quantity[i] retrieval tokens tagged i (and raises IndexError if the recipe is too
   short); every round of the gathering loop consumes exactly one outstanding token and adds the
   item it yields to the pallet.  The unpacking order of the splitter and the per-pallet contents
   are compared on every explored factory (K / P lines) -- not proved for every configuration. *)
From Coq Require Import List ZArith Bool Arith.
From FV Require Import ListLemmas World Factory FactoryLemmas.
Import ListNotations.

Theorem C16_combiner_reserves_recipe :
  forall w p n,
    match combiner_reserve w p n, recipe_tags 1 (length (tl (nins (get_node w n)))) (nrecipe (get_node w n)) with
    | Some (_, toks, idxs), Some tags => idxs = tags /\ length toks = length tags
    | None, None => True
    | Some _, None => False
    | None, Some _ => False
    end.
Proof. exact combiner_reserves_recipe. Qed.
Print Assumptions C16_combiner_reserves_recipe.

Theorem C16_one_token_per_round : forall (l : list nat) ti, (ti < length l)%nat -> S (length (remove_nth ti l)) = length l.
Proof. exact remove_nth_count. Qed.
Print Assumptions C16_one_token_per_round.

(* non-vacuity: recipe [_, 2, 0, 1] on three ingredient edges gives the tags 1,1,3 *)
Example C16_witness : recipe_tags 1 3 [9; 2; 0; 1]%nat = Some [1; 1; 3]%nat /\ recipe_tags 1 3 [9; 2]%nat = None.
Proof. vm_compute. auto. Qed.

(* the loop that issues those reservations, regenerated from Combiner.behaviour on every run (tie B,
   theories/Nodes/TieNodes.v): it starts at in-edge 1 and reads the recipe at the in-edge's own index *)
From FV Require SrcFragments TieNodes.
Theorem C16_recipe_loop_regenerated :
  SrcFragments.Combiner_first_ingredient_edge = 1%Z /\ (forall k : Z, SrcFragments.Combiner_recipe_index k = k).
Proof. exact (conj TieNodes.combiner_first_ingredient_edge_src TieNodes.combiner_recipe_index_src). Qed.
Print Assumptions C16_recipe_loop_regenerated.

(* the splitter's worker hands out the head of what is left on the pallet, the emptied pallet only when nothing is left,
   and nothing after the pallet (theories/Factory/FactoryBlocks.v, every world) *)
From FV Require FactoryBlocks.
From RecordUpdate Require Import RecordUpdate.
Theorem C16_splitter_emits_the_head_next :
  forall w p n x rest,
  pkd (me w p) = KSplitWorker -> sc_phase (me w p) = 0%nat ->
  i_contents (get_item w (pit (me w p))) = x :: rest ->
  sc_next w p n = sc_dispatch (upd_item w (pit (me w p)) (fun y => y <| i_contents := rest |>)) p n x 0.
Proof. exact FactoryBlocks.splitter_next_is_head. Qed.
Print Assumptions C16_splitter_emits_the_head_next.

Theorem C16_splitter_pallet_comes_last :
  forall w p n,
  pkd (me w p) = KSplitWorker -> sc_phase (me w p) = 0%nat ->
  i_contents (get_item w (pit (me w p))) = [] ->
  sc_next w p n = sc_dispatch w p n (pit (me w p)) 1.
Proof. exact FactoryBlocks.splitter_pallet_comes_last. Qed.
Print Assumptions C16_splitter_pallet_comes_last.

Theorem C16_splitter_nothing_after_the_pallet :
  forall w p n ph, sc_phase (me w p) = S ph -> sc_next w p n = sc_release w p n.
Proof. exact FactoryBlocks.splitter_nothing_after_the_pallet. Qed.
Print Assumptions C16_splitter_nothing_after_the_pallet.

(* the combiner's pack step (every world): when one of the outstanding ingredient reservations has been granted, the item
   retrieved with the first granted token -- from the in-edge that token was issued on -- goes into THE pallet this combiner is
   filling, at the end of its contents, and into no other item; exactly that token leaves the outstanding list together with
   its in-edge index; the pack is recorded right after the retrieval *)
Theorem C16_combiner_packs_the_retrieved_item :
  forall w p ti tok w1 i,
  let pr := me w p in let n := pown pr in let nd := get_node w n in
  ppc pr = 4%nat -> (p < length (wprocs w))%nat -> (pit pr < length (witems w))%nat ->
  first_triggered w (ptks pr) = Some (ti, tok) ->
  e_get w (nth (nth ti (plst pr) 0%nat) (nins nd) 0%nat) p tok n = (w1, Some i) ->
  i_pallet (get_item w i) = false ->
  let w' := fst (combiner_block w p) in
  i_contents (get_item w' (pit pr)) = i_contents (get_item w (pit pr)) ++ [i] /\
  (forall j, j <> pit pr -> get_item w' j = get_item w j) /\
  ptks (me w' p) = ListLemmas.remove_nth ti (ptks pr) /\ plst (me w' p) = ListLemmas.remove_nth ti (plst pr) /\
  pit (me w' p) = pit pr /\ pix (me w' p) = S (pix pr) /\
  exists l, wlog w' = wlog w1 ++ LPack (wnow w1) n (pit pr) i :: l.
Proof. exact FactoryBlocks.combiner_packs_the_retrieved_item. Qed.
Print Assumptions C16_combiner_packs_the_retrieved_item.

(* tie B: the push helpers of the node classes, re-read from nodes/*.py on every run: each reserves a place on the edge it was
   given, waits for the grant and puts exactly the item it was given -- no second look at the edge, no withdrawal, no other
   object (theories/Nodes/TieNodes.v); the model's push process does the same (Factory.push_block) *)
From FV Require SrcFragments TieNodes.
Theorem C16_push_helpers_put_the_item_they_were_given :
  SrcFragments.Source_push_item_shape = true /\
  SrcFragments.Machine_push_item_shape = true /\
  SrcFragments.Splitter_push_item_shape = true /\
  SrcFragments.Combiner_push_item_shape = true.
Proof. repeat split. Qed.
Print Assumptions C16_push_helpers_put_the_item_they_were_given.
