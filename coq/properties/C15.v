(* C15 -- edge-selection policies are obeyed exactly and recorded truthfully.
   ROUND_ROBIN: the generator's update expression is REGENERATED from utils/utils.py; its k-th
   value is k mod n and always a valid index.  The factory model's selector draws are these
   values; constant policies return the constant; an index outside [0, n) is rejected.  That the
   recorded selection lists equal the routing that happened is compared on every explored
   factory (S lines vs. put/get lines) -- not proved for every configuration (partial). *)
From Coq Require Import List ZArith Bool Arith Lia.
From FV Require Import SrcFragments Accounting TieAcc World Factory.
Import ListNotations.
Open Scope Z_scope.

Theorem C15_round_robin_kth : forall n k, 0 < n -> rr_state n k = Z.of_nat k mod n.
Proof. exact round_robin_kth. Qed.
Print Assumptions C15_round_robin_kth.

Theorem C15_round_robin_in_range : forall n k, 0 < n -> 0 <= rr_state n k < n.
Proof. exact round_robin_in_range. Qed.
Print Assumptions C15_round_robin_in_range.

(* the model's ROUND_ROBIN draw is the k-th generator value, k = number of earlier draws *)
Theorem C15_model_round_robin :
  forall w n, noutsel (get_node w n) = PRoundRobin -> (0 < length (nouts (get_node w n)))%nat ->
    snd (draw_sel w n true) = Some (rr_state (Z.of_nat (length (nouts (get_node w n)))) (noutptr (get_node w n))).
Proof.
  intros w n H L. unfold draw_sel. rewrite H. simpl. rewrite round_robin_kth by lia. reflexivity.
Qed.
Print Assumptions C15_model_round_robin.

Theorem C15_model_constant :
  forall w n i, noutsel (get_node w n) = PConst i -> draw_sel w n true = (w, Some i).
Proof. intros w n i H. unfold draw_sel. rewrite H. reflexivity. Qed.
Print Assumptions C15_model_constant.

(* the range test used before every use of a drawn index *)
Theorem C15_range_test : forall v n, in_range v n = true <-> 0 <= v < Z.of_nat n.
Proof.
  intros v n. unfold in_range. rewrite andb_true_iff, Z.leb_le, Z.ltb_lt. tauto.
Qed.
Print Assumptions C15_range_test.

(* FIRST_AVAILABLE = the lowest index that is available: the two selection functions all node processes
   of the model use return the first position whose test succeeds (every earlier one fails), and nothing
   exactly when every test fails (theories/Factory/FactoryFirst.v) *)
From FV Require Kernel FactoryFirst.
Theorem C15_first_available_output_is_lowest :
  forall w es,
  match first_can_put w es with
  | Some e => exists a b, es = a ++ e :: b /\ e_can_put w e = true /\ (forall x, In x a -> e_can_put w x = false)
  | None => forall x, In x es -> e_can_put w x = false
  end.
Proof. exact FactoryFirst.first_can_put_spec. Qed.
Print Assumptions C15_first_available_output_is_lowest.

Theorem C15_first_available_granted_is_lowest :
  forall w toks,
  match first_triggered w toks with
  | Some (j, t) => exists a b, toks = a ++ t :: b /\ j = length a /\ Kernel.e_trig (Kernel.get_ev (wk w) t) = true /\
                               (forall x, In x a -> Kernel.e_trig (Kernel.get_ev (wk w) x) = false)
  | None => forall x, In x toks -> Kernel.e_trig (Kernel.get_ev (wk w) x) = false
  end.
Proof. exact FactoryFirst.first_triggered_spec. Qed.
Print Assumptions C15_first_available_granted_is_lowest.

(* ROUND_ROBIN, one step per item, recorded truthfully, at the level of the process block (every world): when a
   blocking machine worker's item is ready, the block draws exactly one index -- the number of draws so far modulo
   the number of out-edges --, records exactly that index in the node's selection history, and issues its space
   request on exactly that out-edge (theories/Factory/FactoryBlocks.v) *)
From FV Require FactoryBlocks.
Theorem C15_round_robin_one_step_per_item_recorded :
  forall w p,
  let n := pown (me w p) in let nd := get_node w n in
  ppc (me w p) = 1%nat -> noutsel nd = PRoundRobin -> nblocking nd = true -> nouts nd <> [] ->
  (n < length (wnodes w))%nat -> (p < length (wprocs w))%nat ->
  let k := noutptr nd in let m := length (nouts nd) in
  let w' := fst (worker_block w p) in
  noutptr (get_node w' n) = S k /\
  wlog w' = wlog w ++ [LSel n true (k mod m)] /\
  pix (me w' p) = nth (k mod m) (nouts nd) 0%nat /\
  ppc (me w' p) = 5%nat.
Proof. exact FactoryBlocks.worker_round_robin_step. Qed.
Print Assumptions C15_round_robin_one_step_per_item_recorded.

(* the input side (every world): when the worker slot of a machine with ROUND_ROBIN in-edge policy has been granted, the block
   draws exactly one index -- the number of earlier draws modulo the number of in-edges --, records exactly that index, issues
   one retrieval request (the fresh token it keeps) and remembers the index it will pull from; no edge other than the chosen
   in-edge is touched.  A constant in-edge index: the same with that index and no generator step. *)
Theorem C15_round_robin_pull_one_step_per_item_recorded :
  forall w p,
  let n := pown (me w p) in let nd := get_node w n in
  ppc (me w p) = 2%nat -> ninsel nd = PRoundRobin -> nins nd <> [] ->
  (n < length (wnodes w))%nat -> (p < length (wprocs w))%nat ->
  let k := ninptr nd in let m := length (nins nd) in
  let w' := fst (machine_block w p) in
  ninptr (get_node w' n) = S k /\
  wlog w' = wlog w ++ [LSel n false (k mod m)] /\
  pix (me w' p) = (k mod m)%nat /\
  ptks (me w' p) = [length (Kernel.evs (wk w))] /\
  ppc (me w' p) = 4%nat.
Proof. exact FactoryBlocks.machine_round_robin_pull. Qed.
Print Assumptions C15_round_robin_pull_one_step_per_item_recorded.

Theorem C15_round_robin_pull_touches_only_the_chosen_edge :
  forall w p,
  let n := pown (me w p) in let nd := get_node w n in
  ppc (me w p) = 2%nat -> ninsel nd = PRoundRobin -> nins nd <> [] ->
  FactoryBlocks.only_edge (nth (ninptr nd mod length (nins nd)) (nins nd) 0%nat) w (fst (machine_block w p)).
Proof. exact FactoryBlocks.machine_round_robin_pull_touches_one_edge. Qed.
Print Assumptions C15_round_robin_pull_touches_only_the_chosen_edge.

Theorem C15_constant_pull_recorded :
  forall w p i,
  let n := pown (me w p) in let nd := get_node w n in
  ppc (me w p) = 2%nat -> ninsel nd = PConst i -> in_range i (length (nins nd)) = true ->
  (n < length (wnodes w))%nat -> (p < length (wprocs w))%nat ->
  let w' := fst (machine_block w p) in
  ninptr (get_node w' n) = ninptr nd /\
  wlog w' = wlog w ++ [LSel n false (Z.to_nat i)] /\
  pix (me w' p) = Z.to_nat i /\
  ptks (me w' p) = [length (Kernel.evs (wk w))] /\
  ppc (me w' p) = 4%nat.
Proof. exact FactoryBlocks.machine_constant_pull. Qed.
Print Assumptions C15_constant_pull_recorded.

(* Tie B: FIRST_AVAILABLE under blocking -- which of its requests a node commits to, and the index it records -- re-read from
   nodes/*.py on every run (theories/Factory/TieCommit.v): in every node process the chosen request is the first GRANTED one
   (event.triggered) in edge order and the recorded index is its position; the model's [first_triggered] computes exactly that. *)
From FV Require TieCommit.
Theorem C15_first_granted_choice_regenerated :
  forall l,
  SrcFragments.Machine_worker_pick l = find SrcFragments.ev_triggered l /\
  SrcFragments.Splitter_worker_pick l = find SrcFragments.ev_triggered l /\
  SrcFragments.Combiner_worker_pick l = find SrcFragments.ev_triggered l /\
  SrcFragments.Source_behaviour_pick l = find SrcFragments.ev_triggered l /\
  SrcFragments.Machine_behaviour_pick l = find SrcFragments.ev_triggered l /\
  SrcFragments.Splitter_behaviour_pick l = find SrcFragments.ev_triggered l /\
  SrcFragments.Sink_behaviour_pick l = find SrcFragments.ev_triggered l /\
  SrcFragments.Combiner_gather_pick l = find SrcFragments.ev_triggered l.
Proof. intros l. repeat split. Qed.
Print Assumptions C15_first_granted_choice_regenerated.

Theorem C15_recorded_index_regenerated :
  forall l x,
  SrcFragments.Machine_worker_index l x = TieCommit.idx_of (SrcFragments.ev_id x) (map SrcFragments.ev_id l) /\
  SrcFragments.Splitter_worker_index l x = TieCommit.idx_of (SrcFragments.ev_id x) (map SrcFragments.ev_id l) /\
  SrcFragments.Combiner_worker_index l x = TieCommit.idx_of (SrcFragments.ev_id x) (map SrcFragments.ev_id l) /\
  SrcFragments.Source_behaviour_index l x = TieCommit.idx_of (SrcFragments.ev_id x) (map SrcFragments.ev_id l) /\
  SrcFragments.Machine_behaviour_index l x = TieCommit.idx_of (SrcFragments.ev_id x) (map SrcFragments.ev_id l) /\
  SrcFragments.Splitter_behaviour_index l x = TieCommit.idx_of (SrcFragments.ev_id x) (map SrcFragments.ev_id l) /\
  SrcFragments.Sink_behaviour_index l x = TieCommit.idx_of (SrcFragments.ev_id x) (map SrcFragments.ev_id l).
Proof.
  intros l x. repeat split.
  - apply TieCommit.Machine_worker_index_src.
  - apply TieCommit.Splitter_worker_index_src.
  - apply TieCommit.Combiner_worker_index_src.
  - apply TieCommit.Source_behaviour_index_src.
  - apply TieCommit.Machine_behaviour_index_src.
  - apply TieCommit.Splitter_behaviour_index_src.
  - apply TieCommit.Sink_behaviour_index_src.
Qed.
Print Assumptions C15_recorded_index_regenerated.

Theorem C15_model_choice_is_first_granted :
  forall w toks,
  first_triggered w toks =
  match find SrcFragments.ev_triggered (map (TieCommit.abs_ev w) toks) with
  | Some e => Some (TieCommit.idx_of (SrcFragments.ev_id e) toks, SrcFragments.ev_id e)
  | None => None
  end.
Proof. exact TieCommit.model_choice_is_first_granted. Qed.
Print Assumptions C15_model_choice_is_first_granted.

(* tie B: "a user callable is consulted exactly once per item": in Machine.behaviour the in-edge policy is consulted after the
   worker-slot request, i.e. in the block that acts on its answer (regenerated statement order, theories/Nodes/TieNodes.v; the
   model draws at pc 2, C15_round_robin_pull_one_step_per_item_recorded) -- a policy evaluated before the wait for the slot
   would be acted upon in a later state of the model *)
From FV Require TieNodes.
Theorem C15_policy_consulted_when_acted_upon : SrcFragments.Machine_slot_before_index_draw = true.
Proof. exact TieNodes.machine_slot_before_index_draw_src. Qed.
Print Assumptions C15_policy_consulted_when_acted_upon.

Theorem C15_round_robin_push_touches_only_the_chosen_edge :
  forall w p,
  let n := pown (me w p) in let nd := get_node w n in
  ppc (me w p) = 1%nat -> noutsel nd = PRoundRobin -> nblocking nd = true -> nouts nd <> [] ->
  (n < length (wnodes w))%nat ->
  FactoryBlocks.only_edge (nth (noutptr nd mod length (nouts nd)) (nouts nd) 0%nat) w (fst (worker_block w p)).
Proof. exact FactoryBlocks.worker_round_robin_touches_one_edge. Qed.
Print Assumptions C15_round_robin_push_touches_only_the_chosen_edge.
