(* C18 -- counters, time-averaged occupancy and cycle times are truthful.
   Proved: the accumulator of _update_time_averaged_level, after any sequence of level updates at
   non-decreasing integer times and the final update at T, equals the sum over every unit tick
   of [t0, T) of the true occupancy at that tick (the integral of the step function), so the
   reported average is that integral divided by T.  The factory model applies exactly this
   accumulator at every put / get (e_update_level).  Counters and cycle times are compared on
   every explored factory against an independent count from the movement trace. *)
From Coq Require Import List ZArith Bool Arith Lia.
From RecordUpdate Require Import RecordUpdate.
From FV Require Import Kernel Accounting World.
From FV Require Factory FactoryInv FactoryLevel FactoryCount FactoryStamp TieStats StoreB.
From FV Require Import SrcFragments Lens.
From Coq Require Import Sorting.Sorted.
Import ListNotations.
Open Scope Z_scope.

Theorem C18_weighted_sum_is_integral :
  forall t0 n0 l T, wf_levels t0 l -> (forall t n, In (t, n) l -> t <= T) -> t0 <= T ->
    let a := fold_left lacc_step l {| l_sum := 0; l_t := t0; l_n := n0 |} in
    l_sum a + l_n a * (T - l_t a) = tick_sum (level_at n0 l) t0 (Z.to_nat (T - t0)).
Proof. exact weighted_sum_is_integral. Qed.
Print Assumptions C18_weighted_sum_is_integral.

(* the model's edge-level update is this accumulator step *)
Theorem C18_model_level_update :
  forall w e, (e < length (wedges w))%nat ->
    let ed := get_edge w e in
    let ed' := get_edge (e_update_level w e) e in
    let n := Z.of_nat (length (StoreB.transit (est ed)) + length (StoreB.ready (est ed))) in
    {| l_sum := ewsum ed'; l_t := elastt ed'; l_n := elastn ed' |} =
    lacc_step {| l_sum := ewsum ed; l_t := elastt ed; l_n := elastn ed |} (wnow w, n).
Proof.
  intros w e L. unfold e_update_level, get_edge, upd_edge. simpl.
  revert e L. generalize (wedges w). induction l as [|x l IH]; intros [|e] L; simpl in *; try lia.
  - reflexivity.
  - apply IH. lia.
Qed.
Print Assumptions C18_model_level_update.

Example C18_witness :
  let l := [(2, 1); (3, 2); (7, 1)] in
  let a := fold_left lacc_step l {| l_sum := 0; l_t := 0; l_n := 0 |} in
  l_sum a + l_n a * (10 - l_t a) = 12 /\ tick_sum (level_at 0 l) 0 10 = 12.
Proof. vm_compute. auto. Qed.

(* every factory configuration whose edges start empty with a recorded level of 0, every number of
   kernel steps: unless the run has crashed, the level each edge's accumulator is integrating is the
   true number of items in the edge -- the level is re-recorded at every change of occupancy
   (theories/Factory/FactoryLevel.v, lifted through every process block) *)
Theorem C18_recorded_level_is_true_level :
  forall nodes edges order n, Forall FactoryLevel.EOK edges ->
    let w := FactoryInv.iter_fstep n (Factory.mk_world nodes edges order) in
    wcrash w = None ->
    forall i ed, nth_error (wedges w) i = Some ed ->
      elastn ed = Z.of_nat (length (StoreB.transit (est ed)) + length (StoreB.ready (est ed))).
Proof. exact FactoryLevel.recorded_level_is_true_level. Qed.
Print Assumptions C18_recorded_level_is_true_level.

Theorem C18_fresh_edge_ok :
  forall ed, StoreB.transit (est ed) = [] -> StoreB.ready (est ed) = [] -> elastn ed = 0 -> FactoryLevel.EOK ed.
Proof. exact FactoryLevel.fresh_edge_ok. Qed.
Print Assumptions C18_fresh_edge_ok.

(* every factory configuration whose nodes start with zero counters, every number of kernel steps:
   num_item_generated / num_item_discarded / num_item_received of every node are the numbers of
   generation / discard / reception events of that node in the trace (theories/Factory/FactoryCount.v) *)
Theorem C18_counters_are_event_counts :
  forall nodes edges order n,
    (forall nd, In nd nodes -> ngen nd = 0%nat /\ ndisc nd = 0%nat /\ nrecv nd = 0%nat) ->
    let w := FactoryInv.iter_fstep n (Factory.mk_world nodes edges order) in
    forall i, (i < length (wnodes w))%nat ->
      ngen (get_node w i) = FactoryCount.cnt (FactoryCount.is_gen i) (wlog w) /\
      ndisc (get_node w i) = FactoryCount.cnt (FactoryCount.is_disc i) (wlog w) /\
      nrecv (get_node w i) = FactoryCount.cnt (FactoryCount.is_recv i) (wlog w).
Proof. exact FactoryCount.counters_are_event_counts. Qed.
Print Assumptions C18_counters_are_event_counts.

(* every factory configuration whose sinks start with a zero cycle total, every number of kernel steps:
   a sink's total_cycle_time is the sum over the receptions in the trace of reception time minus the creation
   stamp the sink read from the item (an LRecv entry records both) -- theories/Factory/FactoryStamp.v *)
Theorem C18_cycle_time_is_sum :
  forall nodes edges order n,
    (forall nd, In nd nodes -> ncycle nd = 0) ->
    let w := FactoryInv.iter_fstep n (Factory.mk_world nodes edges order) in
    forall i, (i < length (wnodes w))%nat -> ncycle (get_node w i) = FactoryStamp.cyc i (wlog w).
Proof. exact FactoryStamp.cycle_time_is_sum. Qed.
Print Assumptions C18_cycle_time_is_sum.

(* ... every reception recorded in the trace is at or after the creation stamp it reads, and no item carries a
   creation stamp that lies in the future *)
Theorem C18_reception_not_before_creation :
  forall nodes edges order n,
    (forall nd, In nd nodes -> ncycle nd = 0) ->
    let w := FactoryInv.iter_fstep n (Factory.mk_world nodes edges order) in
    Forall FactoryStamp.recv_ok (wlog w) /\ Forall (FactoryStamp.cre_ok (wnow w)) (witems w).
Proof. exact FactoryStamp.reception_not_before_creation. Qed.
Print Assumptions C18_reception_not_before_creation.

(* ... the time stamps of the movement trace (creation, put, get, pack, discard, reception) are non-decreasing
   in trace order and never ahead of the clock: in particular the stamps along one item's route never decrease *)
Theorem C18_trace_times_nondecreasing :
  forall nodes edges order n,
    (forall nd, In nd nodes -> ncycle nd = 0) ->
    let w := FactoryInv.iter_fstep n (Factory.mk_world nodes edges order) in
    StronglySorted Z.le (FactoryStamp.times (wlog w)) /\ Forall (fun t => t <= wnow w) (FactoryStamp.times (wlog w)).
Proof. exact FactoryStamp.trace_times_nondecreasing. Qed.
Print Assumptions C18_trace_times_nondecreasing.

Example C18_cycle_witness :
  FactoryStamp.cyc 3 [LGen 0 0 0; LRecv 5 3 0 1; LRecv 7 2 1 0; LRecv 9 3 2 4] = 9 /\
  FactoryStamp.times [LGen 0 0 0; LSel 1 true 0; LRecv 5 3 0 1] = [0; 5].
Proof. vm_compute. auto. Qed.

(* tie B: the arithmetic of the statistics code, re-translated from the sources on every run: the increment of the
   weighted occupancy sum and the level recorded by _update_time_averaged_level of both stores are the accumulator
   step of C18_weighted_sum_is_integral on the true occupancy, and what Sink.behaviour adds to its cycle total is the
   contribution of a reception to the sum of C18_cycle_time_is_sum *)
Theorem C18_statistics_arithmetic_regenerated :
  (forall a t n, l_sum (lacc_step a (t, n)) = l_sum a + BufferStore_level_increment t (l_t a) (l_n a) /\
                 l_sum (lacc_step a (t, n)) = l_sum a + FleetStore_level_increment t (l_t a) (l_n a)) /\
  (forall s, BufferStore_level_count (lensB s) = Z.of_nat (length (StoreB.transit s) + length (StoreB.ready s)) /\
             FleetStore_level_count (lensB s) = Z.of_nat (length (StoreB.transit s) + length (StoreB.ready s))) /\
  (forall n t i c, FactoryStamp.contrib n (LRecv t n i c) = Sink_cycle_increment t c).
Proof. exact (conj TieStats.level_increment_src (conj TieStats.level_count_src TieStats.sink_cycle_increment_src)). Qed.
Print Assumptions C18_statistics_arithmetic_regenerated.
