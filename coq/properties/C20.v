(* C20 -- every valid model runs to completion; invalid ones are rejected.
   Proved for every configuration: the kernel invariant holds in every reachable world (nothing is
   ever scheduled in the past, the clock never goes back -- the same theorem as C19), negative
   delays are rejected, out-of-range constant indices and unknown policy names are rejected in the
   node's first block before any reservation is made.  "No unhandled exception" and "finitely many
   events per instant" for every valid configuration are NOT proved: crashes are explicit outcomes
   of the model and are compared with the real classes (same exception class) on every explored
   factory and on a stream of invalid configurations; runs that do not advance the clock within the
   step budget are reported.  Partial. *)
From Coq Require Import List ZArith Bool Arith.
From FV Require Import Kernel World Factory FactoryInv FactoryLemmas.
Import ListNotations.
Open Scope Z_scope.

Theorem C20_kernel_invariant_everywhere :
  forall nodes edges order n, KInv (wk (iter_fstep n (mk_world nodes edges order))).
Proof. intros. apply time_monotone. Qed.
Print Assumptions C20_kernel_invariant_everywhere.

Theorem C20_negative_delay_rejected : forall w d, d < 0 -> wcrash w = None -> wcrash (fst (w_timeout w d)) <> None.
Proof. exact negative_timeout_rejected. Qed.
Print Assumptions C20_negative_delay_rejected.

Theorem C20_bad_constant_index_rejected :
  forall pol n, (exists i, pol = PConst i /\ in_range i n = false) -> policy_ok pol n <> None.
Proof. exact invalid_constant_index_rejected. Qed.
Print Assumptions C20_bad_constant_index_rejected.

Theorem C20_unknown_policy_rejected : forall n, policy_ok PBad n <> None.
Proof. exact unknown_policy_rejected. Qed.
Print Assumptions C20_unknown_policy_rejected.

Theorem C20_machine_bad_index_crashes_at_once :
  forall w p i, pkd (me w p) = KMachineB -> ppc (me w p) = 0%nat -> wcrash w = None ->
    ninsel (get_node w (pown (me w p))) = PConst i -> in_range i (length (nins (get_node w (pown (me w p))))) = false ->
    wcrash (fst (block w p)) <> None /\ wk (fst (block w p)) = wk w /\ wedges (fst (block w p)) = wedges w.
Proof. exact machine_bad_index_crashes. Qed.
Print Assumptions C20_machine_bad_index_crashes_at_once.

(* every resume callback registered with the kernel names an existing process, in every reachable world of every
   configuration, and so does every callback a kernel pop hands out: the model's refusal to resume an index beyond the
   process table (run_cb) is dead code, and no run ever executes the table's default record
   (theories/Factory/FactoryRef.v, lifted through every process block) *)
From FV Require FactoryRef.
Theorem C20_resume_callbacks_name_existing_processes :
  forall nodes edges order n,
  let w := FactoryInv.iter_fstep n (Factory.mk_world nodes edges order) in
  (forall e p, In (Kernel.CbResume p) (Kernel.e_cbs (Kernel.get_ev (World.wk w) e)) -> (p < length (World.wprocs w))%nat) /\
  (forall k e cbs, Kernel.pop (World.wk w) = Some (k, e, cbs) ->
     forall p, In (Kernel.CbResume p) cbs -> (p < length (World.wprocs w))%nat).
Proof. exact FactoryRef.callbacks_name_existing_processes. Qed.
Print Assumptions C20_resume_callbacks_name_existing_processes.
