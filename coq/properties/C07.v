(* C07 -- protocol enforced: no put/get without a valid reservation of one's own. *)
From Coq Require Import List ZArith Bool Arith.
From FV Require StoreP StorePInv StorePOrder StoreB StoreBInv StoreBOrder.
Import ListNotations.

(* every ill-formed call (no reservation, someone else's token, used or cancelled token, cancel
   of an unknown token) raises RuntimeError, changes nothing and triggers nothing *)
Theorem C07_rejected_is_noop_positional :
  forall s o, StorePOrder.illformed s o = true -> StoreP.step s o = (s, StoreP.OErr StoreP.ERuntime, []).
Proof. exact StorePOrder.rejected_is_noop. Qed.
Print Assumptions C07_rejected_is_noop_positional.

Theorem C07_rejected_is_noop_bound :
  forall s o, StoreBOrder.illformed s o = true -> StoreB.step s o = (s, StoreB.OErr StoreB.ERuntime, []).
Proof. exact StoreBOrder.rejected_is_noop. Qed.
Print Assumptions C07_rejected_is_noop_bound.

(* conversely every call that is not ill-formed is accepted (never raises) *)
Theorem C07_wellformed_accepted_positional :
  forall s o, StorePInv.CapInv s -> StorePOrder.illformed s o = false ->
    match snd (fst (StoreP.step s o)) with
    | StoreP.OErr _ => match o with StoreP.Tick _ => True | _ => False end
    | _ => True
    end.
Proof. exact StorePOrder.wellformed_accepted. Qed.
Print Assumptions C07_wellformed_accepted_positional.

Theorem C07_wellformed_accepted_bound :
  forall s o, StoreBInv.Inv s -> StoreBInv.fresh_op s o -> StoreBOrder.illformed s o = false ->
    match snd (fst (StoreB.step s o)) with
    | StoreB.OErr _ => match o with StoreB.Ready _ => True | _ => False end
    | _ => True
    end.
Proof. exact StoreBOrder.wellformed_accepted. Qed.
Print Assumptions C07_wellformed_accepted_bound.

Example C07_witness :
  let s := StoreB.run (StoreB.init StoreB.KBuffer StoreB.FIFO 2) [StoreB.RPut 0 0; StoreB.RPut 1 0] in
  StoreBOrder.illformed s (StoreB.Put 1 0 5) = true /\ StoreBOrder.illformed s (StoreB.Put 0 0 5) = false /\
  StoreBOrder.illformed s (StoreB.CGet 7) = true.
Proof. vm_compute. auto. Qed.

(* ---- the edge wrappers of the factory model (theories/Factory/FactoryReject.v), every world ----
   a put / get / cancel offered to an edge with a token its store does not hold for the caller is refused with the documented
   error (the run ends with an unhandled RuntimeError); every store of the factory, the kernel, the movement log, the nodes,
   the processes and the items are as they were *)
From RecordUpdate Require Import RecordUpdate.
From FV Require Kernel World Factory FactoryReject.
Import World.

Theorem C07_edge_cancel_put_refused_is_noop :
  forall w e t, StoreBOrder.illformed (est (get_edge w e)) (StoreB.CPut t) = true ->
  let w' := e_cancel_put w e t in
  FactoryReject.untouched w w' /\ (wcrash w = None -> wcrash w' = Some (CRuntime 10)).
Proof. exact FactoryReject.cancel_put_refused. Qed.
Print Assumptions C07_edge_cancel_put_refused_is_noop.

Theorem C07_edge_cancel_get_refused_is_noop :
  forall w e t, StoreBOrder.illformed (est (get_edge w e)) (StoreB.CGet t) = true ->
  let w' := e_cancel_get w e t in
  FactoryReject.untouched w w' /\ (wcrash w = None -> wcrash w' = Some (CRuntime 11)).
Proof. exact FactoryReject.cancel_get_refused. Qed.
Print Assumptions C07_edge_cancel_get_refused_is_noop.

Theorem C07_edge_get_refused_is_noop :
  forall w e p t n, StoreBOrder.illformed (est (get_edge w e)) (StoreB.Get p t) = true ->
  let r := Factory.e_get w e p t n in
  FactoryReject.untouched w (fst r) /\ snd r = None /\ (wcrash w = None -> wcrash (fst r) = Some (CRuntime 33)).
Proof. exact FactoryReject.get_refused. Qed.
Print Assumptions C07_edge_get_refused_is_noop.

(* the hand-over: a Fleet refuses at once; a Buffer has drawn its delay by then (its delay stream has moved on, and a negative
   delay is the Buffer's own assertion) -- stores, kernel, log, nodes, processes and items are as before *)
Theorem C07_edge_put_refused_is_noop :
  forall w e p t i, StoreBOrder.illformed (est (get_edge w e)) (StoreB.Put p t i) = true ->
  let w' := Factory.e_put w e p t i in
  (forall e', est (get_edge w' e') = est (get_edge w e')) /\ wk w' = wk w /\ wlog w' = wlog w /\
  wnodes w' = wnodes w /\ wprocs w' = wprocs w /\ witems w' = witems w /\
  (wcrash w = None -> exists c, wcrash w' = Some c /\ (c = CRuntime 31 \/ c = CRuntime 32 \/ c = CAssert 30)).
Proof. exact FactoryReject.put_refused. Qed.
Print Assumptions C07_edge_put_refused_is_noop.

(* a token that ANOTHER edge issued (held there, unknown here): cancelling it here is refused, and it is still held there *)
Theorem C07_foreign_cancel_put_refused :
  forall w e e' t, FactoryReject.holds_put w e t = false -> FactoryReject.holds_put w e' t = true ->
  let w' := e_cancel_put w e t in
  FactoryReject.holds_put w' e' t = true /\ FactoryReject.holds_put w' e t = false /\
  (wcrash w = None -> wcrash w' = Some (CRuntime 10)).
Proof. exact FactoryReject.foreign_cancel_put_refused. Qed.
Print Assumptions C07_foreign_cancel_put_refused.

Theorem C07_foreign_cancel_get_refused :
  forall w e e' t, FactoryReject.holds_get w e t = false -> FactoryReject.holds_get w e' t = true ->
  let w' := e_cancel_get w e t in
  FactoryReject.holds_get w' e' t = true /\ FactoryReject.holds_get w' e t = false /\
  (wcrash w = None -> wcrash w' = Some (CRuntime 11)).
Proof. exact FactoryReject.foreign_cancel_get_refused. Qed.
Print Assumptions C07_foreign_cancel_get_refused.

(* the premises are met: two buffers, a space request placed on the second; offered to the first it is refused *)
Example C07_foreign_witness :
  let ed := edge0 <| est := StoreB.init StoreB.KBuffer StoreB.FIFO 2 |> in
  let w0 := {| wk := Kernel.kinit; wedges := [ed; ed]; wnodes := []; wprocs := []; witems := []; wlog := [];
               wcrash := None; wactive := 0 |} in
  let '(w1, t) := e_reserve_put w0 1 0 in
  FactoryReject.holds_put w1 0 t = false /\ FactoryReject.holds_put w1 1 t = true /\
  wcrash (e_cancel_put w1 0 t) = Some (CRuntime 10) /\ wcrash (e_cancel_put w1 1 t) = None /\
  FactoryReject.holds_put (e_cancel_put w1 1 t) 1 t = false.
Proof. vm_compute. repeat split; reflexivity. Qed.
