(* C07 -- protocol enforced: no put/get without a valid reservation of one's own. *)
From Coq Require Import List ZArith Bool Arith.
From FV Require StoreP StorePInv StorePOrder StoreB StoreBInv StoreBOrder.
Import ListNotations.

(* every ill-formed call (no reservation, someone else's token, used or cancelled token, cancel
   of an unknown token) raises RuntimeError, changes nothing and triggers nothing *)
Theorem C07_rejected_is_noop_positional :
  forall s o, StorePOrder.illformed s o = true -> StoreP.step s o = (s, StoreP.OErr StoreP.ERuntime, []).
Proof. exact StorePOrder.rejected_is_noop. Qed.
Print Assumptions C07_rejected_is_noop_positional.

Theorem C07_rejected_is_noop_bound :
  forall s o, StoreBOrder.illformed s o = true -> StoreB.step s o = (s, StoreB.OErr StoreB.ERuntime, []).
Proof. exact StoreBOrder.rejected_is_noop. Qed.
Print Assumptions C07_rejected_is_noop_bound.

(* conversely every call that is not ill-formed is accepted (never raises) *)
Theorem C07_wellformed_accepted_positional :
  forall s o, StorePInv.CapInv s -> StorePOrder.illformed s o = false ->
    match snd (fst (StoreP.step s o)) with
    | StoreP.OErr _ => match o with StoreP.Tick _ => True | _ => False end
    | _ => True
    end.
Proof. exact StorePOrder.wellformed_accepted. Qed.
Print Assumptions C07_wellformed_accepted_positional.

Theorem C07_wellformed_accepted_bound :
  forall s o, StoreBInv.Inv s -> StoreBInv.fresh_op s o -> StoreBOrder.illformed s o = false ->
    match snd (fst (StoreB.step s o)) with
    | StoreB.OErr _ => match o with StoreB.Ready _ => True | _ => False end
    | _ => True
    end.
Proof. exact StoreBOrder.wellformed_accepted. Qed.
Print Assumptions C07_wellformed_accepted_bound.

Example C07_witness :
  let s := StoreB.run (StoreB.init StoreB.KBuffer StoreB.FIFO 2) [StoreB.RPut 0 0; StoreB.RPut 1 0] in
  StoreBOrder.illformed s (StoreB.Put 1 0 5) = true /\ StoreBOrder.illformed s (StoreB.Put 0 0 5) = false /\
  StoreBOrder.illformed s (StoreB.CGet 7) = true.
Proof. vm_compute. auto. Qed.
