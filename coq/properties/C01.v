(* C01 -- store capacity is never exceeded; a granted space reservation is always honoured.
   Final statements only; proofs live in theories/Stores. *)
From Coq Require Import List ZArith Bool Arith.
From FV Require StoreP StorePInv StoreB StoreBInv StoreBCap World Factory FactoryInv FactoryQueue.
Import ListNotations.

(* ReservableReqStore / ReservablePriorityReqStore / ReservablePriorityReqFilterStore:
   after every history, items + granted put reservations <= capacity (and granted get
   reservations <= items) *)
Theorem C01_capacity_positional :
  forall k c td ops, StorePInv.CapInv (StoreP.run (StoreP.init k c td) ops).
Proof. exact StorePInv.cap_inv_reachable. Qed.
Print Assumptions C01_capacity_positional.

Theorem C01_granted_put_ok_positional :
  forall s p t i, StorePInv.CapInv s -> existsb (StoreP.owns p t) (StoreP.putres s) = true ->
    snd (fst (StoreP.step s (StoreP.Put p t i))) = StoreP.OOk /\
    In (StoreP.stamp s i) (StoreP.items (StoreP.step_st s (StoreP.Put p t i))) /\
    StorePInv.CapInv (StoreP.step_st s (StoreP.Put p t i)).
Proof. exact StorePInv.granted_put_ok. Qed.
Print Assumptions C01_granted_put_ok_positional.

(* BufferStore / FleetStore / belt stores (API layer): after every history in which callers put
   pairwise distinct objects, in-transit + ready + granted put reservations <= capacity *)
Theorem C01_capacity_bound :
  forall k m c ops, NoDup (StoreBInv.put_ids ops) ->
    StoreB.used (StoreB.run (StoreB.init k m c) ops) <= StoreB.cap (StoreB.run (StoreB.init k m c) ops).
Proof. intros k m c ops H. exact (proj1 (StoreBInv.inv_reachable k m c ops H)). Qed.
Print Assumptions C01_capacity_bound.

Theorem C01_granted_put_ok_bound :
  forall s p t i, StoreBInv.Inv s -> ~ In i (StoreBInv.contents s) ->
    existsb (StoreB.owns p t) (StoreB.putres s) = true ->
    snd (fst (StoreB.step s (StoreB.Put p t i))) = StoreB.OOk /\
    In i (StoreB.transit (StoreB.step_st s (StoreB.Put p t i))) /\
    StoreBInv.Inv (StoreB.step_st s (StoreB.Put p t i)).
Proof. exact StoreBInv.granted_put_ok. Qed.
Print Assumptions C01_granted_put_ok_bound.

(* one store operation keeps the bound in EVERY state and for EVERY argument (no side condition on the
   items that are put), so it holds on every edge of every factory: *)
Theorem C01_capacity_step_unconditional :
  forall s o, StoreBCap.CapOK s -> StoreBCap.CapOK (StoreB.step_st s o).
Proof. exact StoreBCap.cap_step. Qed.
Print Assumptions C01_capacity_step_unconditional.

(* every configuration whose edges start within their capacity (e.g. empty), every number of kernel
   steps: on every Buffer / Fleet edge of the factory, granted space reservations + items never exceed
   the capacity (theories/Factory/FactoryQueue.v, lifted through every process block) *)
Theorem C01_capacity_in_every_factory :
  forall nodes edges order n, Forall (fun ed => StoreBCap.CapOK (World.est ed)) edges ->
    forall i ed, nth_error (World.wedges (FactoryInv.iter_fstep n (Factory.mk_world nodes edges order))) i = Some ed ->
      (length (StoreB.putres (World.est ed)) + length (StoreB.transit (World.est ed)) + length (StoreB.ready (World.est ed))
       <= StoreB.cap (World.est ed))%nat.
Proof. exact FactoryQueue.capacity_respected_everywhere. Qed.
Print Assumptions C01_capacity_in_every_factory.

(* non-vacuity: a full buffer with a granted reservation outstanding and a request waiting *)
Example C01_witness :
  let s := StoreB.run (StoreB.init StoreB.KBuffer StoreB.FIFO 2)
             [StoreB.RPut 0 0; StoreB.RPut 1 0; StoreB.RPut 2 0; StoreB.Put 0 0 7] in
  StoreB.used s = 2 /\ length (StoreB.putres s) = 1 /\ length (StoreB.putq s) = 1 /\
  existsb (StoreB.owns 1 1) (StoreB.putres s) = true.
Proof. vm_compute. auto. Qed.

(* tie B, constructor wiring (theories/Edges/TieWiring.v): the capacity a user configures on a Buffer, a Fleet or a slotted
   conveyor is the capacity parameter of the store that enforces the bound above, through every link down to simpy.Store --
   re-read from the constructors on every run *)
From FV Require SrcFragments TieWiring.
Theorem C01_configured_capacity_reaches_the_store :
  (SrcFragments.Buffer_store_capacity_wiring = SrcFragments.A_capacity /\ SrcFragments.BufferStore_base_capacity_wiring = SrcFragments.A_capacity /\
  SrcFragments.Fleet_store_capacity_wiring = SrcFragments.A_capacity /\ SrcFragments.FleetStore_base_capacity_wiring = SrcFragments.A_capacity /\
  SrcFragments.SlotConveyor_store_capacity_wiring = SrcFragments.A_capacity /\ SrcFragments.SlotConveyorStore_base_capacity_wiring = SrcFragments.A_capacity /\
  SrcFragments.SlotBeltStore_base_capacity_wiring = SrcFragments.A_capacity /\ SrcFragments.ContBeltStore_base_capacity_wiring = SrcFragments.A_capacity /\
  SrcFragments.ReservableReqStore_base_capacity_wiring = SrcFragments.A_capacity /\
  SrcFragments.ReservablePriorityReqStore_base_capacity_wiring = SrcFragments.A_capacity).
Proof. exact TieWiring.capacity_reaches_the_store. Qed.
Print Assumptions C01_configured_capacity_reaches_the_store.
