(* C19 -- simulations are reproducible and time is monotone.
   Time: in every reachable world of every factory configuration the kernel invariant holds and
   the clock never goes back.  Reproducibility: the model's run is a function of the configuration
   (construction order, connect order, parameters, delay / selector streams) -- there is no other
   input; that the *code* has no other input (hash seed, object identity, memory layout) is what
   the correspondence checks by running the implementation repeatedly, in separate interpreters
   under different hash seeds, against this one function. *)
From Coq Require Import List ZArith Bool Arith.
From FV Require Import Kernel World Factory FactoryInv.
Import ListNotations.
Open Scope Z_scope.

Theorem C19_time_monotone :
  forall nodes edges order n,
    let w0 := mk_world nodes edges order in
    KInv (wk (iter_fstep n w0)) /\
    forall m, (m <= n)%nat -> wnow (iter_fstep m w0) <= wnow (iter_fstep n w0).
Proof. exact time_monotone. Qed.
Print Assumptions C19_time_monotone.

(* one kernel step: invariant preserved, clock not moved back *)
Theorem C19_step_monotone :
  forall w w', KInv (wk w) -> fstep w = Some w' -> KInv (wk w') /\ wnow w <= wnow w'.
Proof. exact fstep_k. Qed.
Print Assumptions C19_step_monotone.

(* nothing is ever scheduled in the past: every queued event is due now or later, in queue order *)
Theorem C19_pop_monotone :
  forall k k' e cbs, KInv k -> pop k = Some (k', e, cbs) -> KInv k' /\ now k <= now k'.
Proof. exact pop_kinv. Qed.
Print Assumptions C19_pop_monotone.

(* the run is a function of the configuration alone *)
Theorem C19_model_deterministic :
  forall nodes edges order n T, exists! w, w = fst (run_until n T (mk_world nodes edges order)).
Proof. intros. eexists. split; [reflexivity|]. intros w' ->. reflexivity. Qed.
Print Assumptions C19_model_deterministic.
