(* C08 -- a machine holds <= work_capacity items, each for exactly its processing delay.
   Proved here: in every reachable world of every factory configuration no node has more busy
   worker slots than its work_capacity (C08_worker_slots_bounded_everywhere, lifted through every
   process block in theories/Factory/FactoryRes.v); the worker-slot resource (simpy.Resource model)
   never has more users than its capacity, whatever sequence of requests / releases / kernel
   callbacks occurs; the loop heads of Machine.behaviour and Combiner.behaviour touch no edge, no item
   and no trace entry and suspend the process on the slot request they issue -- nothing is reserved
   or pulled before the slot is granted (C08_*_asks_for_slot_first); a delay draw advances the node's delay stream by exactly one.  The timing statements (offer = pull + delay,
   late only if blocked) are carried by the executable factory model, which is compared
   trace-exactly with the real classes; they are not proved for every configuration -- partial. *)
From Coq Require Import List ZArith Bool Arith Lia.
From FV Require Import Kernel World Factory.
From FV Require FactoryInv FactoryRes FactorySlotFirst.
From FV Require SrcFragments TieNodes.
Import ListNotations.

(* every configuration (nodes, edges, construction order) whose nodes start with the resource the
   library creates -- simpy.Resource(capacity = work_capacity), no user -- and every number of
   kernel steps: the resource keeps that capacity and never has more users than work_capacity *)
Theorem C08_worker_slots_bounded_everywhere :
  forall nodes edges order n, Forall FactoryRes.NRok nodes ->
  forall i nd, nth_error (wnodes (FactoryInv.iter_fstep n (mk_world nodes edges order))) i = Some nd ->
    r_cap (nres nd) = nwcap nd /\ (length (r_users (nres nd)) <= nwcap nd)%nat.
Proof. exact FactoryRes.worker_slots_bounded_everywhere. Qed.
Print Assumptions C08_worker_slots_bounded_everywhere.

Theorem C08_fresh_node_ok : forall nd, nres nd = res_init (nwcap nd) -> FactoryRes.NRok nd.
Proof. exact FactoryRes.fresh_node_ok. Qed.
Print Assumptions C08_fresh_node_ok.

Theorem C08_slots_request : forall k rid r k' r' q, res_request k rid r = Some (k', r', q) -> RInv r -> RInv r'.
Proof. exact res_request_inv. Qed.
Print Assumptions C08_slots_request.
Theorem C08_slots_release : forall k rid r q k' r' g, res_release k rid r q = Some (k', r', g) -> RInv r -> RInv r'.
Proof. exact res_release_inv. Qed.
Print Assumptions C08_slots_release.
Theorem C08_slots_trig_put : forall k r k' r', res_trig_put k r = Some (k', r') -> RInv r -> RInv r'.
Proof. exact res_trig_put_inv. Qed.
Print Assumptions C08_slots_trig_put.
Theorem C08_slots_trig_get : forall k r k' r', res_trig_get k r = Some (k', r') -> RInv r -> RInv r'.
Proof. exact res_trig_get_inv. Qed.
Print Assumptions C08_slots_trig_get.

(* exactly one draw per call of get_delay *)
Theorem C08_one_draw :
  forall w n, ndptr (get_node (fst (draw_delay w n)) n) = S (ndptr (get_node w n)) \/ (length (wnodes w) <= n)%nat.
Proof.
  intros w n. unfold draw_delay. simpl. unfold get_node, logw, upd_node. simpl.
  destruct (Nat.ltb_spec n (length (wnodes w))); [left|right; auto].
  revert n H. generalize (wnodes w). induction l as [|x l IH]; intros [|n] H; simpl in *; try lia; auto.
  apply IH. lia.
Qed.
Print Assumptions C08_one_draw.

(* slot before pull: the loop head of Machine.behaviour ... *)
Theorem C08_machine_asks_for_slot_first :
  forall w p n, FactorySlotFirst.quiet w (fst (machine_request w p n)) /\ FactorySlotFirst.waits_for_slot (machine_request w p n) p.
Proof. exact FactorySlotFirst.machine_request_slot_first. Qed.
Print Assumptions C08_machine_asks_for_slot_first.

(* ... and of Combiner.behaviour (the order repaired by f4032e8), entered at the end of the set-up period *)
Theorem C08_combiner_asks_for_slot_first :
  forall w p, ppc (me w p) = 1%nat ->
    FactorySlotFirst.quiet w (fst (combiner_block w p)) /\ FactorySlotFirst.waits_for_slot (combiner_block w p) p.
Proof. exact FactorySlotFirst.combiner_after_setup_slot_first. Qed.
Print Assumptions C08_combiner_asks_for_slot_first.

(* ... and again after each finished pallet has been handed to its worker process *)
Theorem C08_combiner_asks_for_slot_first_again :
  forall w p, (6 <= ppc (me w p))%nat ->
    FactorySlotFirst.quiet w (fst (combiner_block w p)) /\ FactorySlotFirst.waits_for_slot (combiner_block w p) p.
Proof. exact FactorySlotFirst.combiner_after_handover_slot_first. Qed.
Print Assumptions C08_combiner_asks_for_slot_first_again.

(* the same order in the source, regenerated on every run (tie B, theories/Nodes/TieNodes.v) *)
Theorem C08_slot_order_regenerated :
  SrcFragments.Machine_slot_before_reserve = true /\ SrcFragments.Combiner_slot_before_reserve = true /\
  SrcFragments.Splitter_slot_before_get = true.
Proof.
  exact (conj TieNodes.machine_slot_before_reserve_src
              (conj TieNodes.combiner_slot_before_reserve_src TieNodes.splitter_slot_before_get_src)).
Qed.
Print Assumptions C08_slot_order_regenerated.

(* the machine worker's first block (it runs in the instant in which the item was pulled; theories/Factory/FactoryBlocks.v,
   every world): it stamps the start of processing with the clock, arms exactly one timer -- due exactly the drawn
   processing delay later --, waits on it, and touches no edge, item or trace entry *)
From FV Require FactoryBlocks.
Theorem C08_worker_arms_the_drawn_delay :
  forall w p,
  ppc (me w p) = 0%nat -> (0 <= pdl (me w p))%Z -> (p < length (wprocs w))%nat ->
  let r := worker_block w p in let w' := fst r in
  wedges w' = wedges w /\ witems w' = witems w /\ wlog w' = wlog w /\
  pt0 (me w' p) = wnow w /\ ppc (me w' p) = 1%nat /\
  exists t, snd r = YEvent t /\ t = length (evs (wk w)) /\
    e_trig (get_ev (wk w') t) = true /\
    In {| q_time := (wnow w + pdl (me w p))%Z; q_prio := NORMAL; q_seq := seq (wk w); q_ev := t |} (queue (wk w')) /\
    length (queue (wk w')) = S (length (queue (wk w))).
Proof. exact FactoryBlocks.worker_arms_the_drawn_delay. Qed.
Print Assumptions C08_worker_arms_the_drawn_delay.

(* tie B: "the delay being drawn exactly once per item": Node.get_delay (and Edge.get_delay, for the buffer delay), re-read from the
   source on every run, advance a generator by one next() and a callable by one call per invocation (theories/Nodes/TieNodes.v);
   the model draws one value per invocation (C08_one_draw) *)
From FV Require TieNodes.
Theorem C08_get_delay_draws_once :
  forall k, SrcFragments.Node_get_delay_draws k = (match k with SrcFragments.DConst => 0 | _ => 1 end)%nat /\
            SrcFragments.Edge_get_delay_draws k = (match k with SrcFragments.DConst => 0 | _ => 1 end)%nat.
Proof. intros k. split; [apply TieNodes.node_get_delay_draws_src|apply TieNodes.edge_get_delay_draws_src]. Qed.
Print Assumptions C08_get_delay_draws_once.
