(* C09 -- blocking nodes never discard; non-blocking nodes never wait.
   Proved: in every reachable world of every factory configuration a blocking node has discarded
   nothing (C09_blocking_never_discards, lifted through every process block of Source, Machine,
   Splitter, Combiner in theories/Factory/FactoryDisc.v); the probe a non-blocking node uses (can_put of Buffer / Fleet, REGENERATED from source)
   is true exactly when a reservation issued at that instant is granted at once -- so "push if
   there is room, otherwise drop" is decided on the truth; and a sub-process started by
   env.process runs its first block (the reservation) before any other event of the instant
   (URGENT priority, kernel model).  That non-blocking nodes push / drop at the ready instant
   (never wait) is carried by the executable factory model and compared on every explored
   factory; not a theorem for every configuration. *)
From Coq Require Import List ZArith Bool Arith.
From FV Require Import SrcFragments Kernel.
From FV Require StoreB StoreBInv StoreBProps TieB.
From FV Require World Factory FactoryInv FactoryDisc.
Import ListNotations.
Open Scope Z_scope.

(* every configuration (nodes, edges, construction order) whose blocking nodes start with a zero
   discard counter, every number of kernel steps: a blocking node has discarded nothing, and every
   node still has its configured blocking flag *)
Theorem C09_blocking_never_discards :
  forall nodes edges order n,
    (forall nd, In nd nodes -> World.nblocking nd = true -> World.ndisc nd = 0%nat) ->
    forall i, (i < length nodes)%nat ->
      let nd := World.get_node (FactoryInv.iter_fstep n (Factory.mk_world nodes edges order)) i in
      World.nblocking nd = World.nblocking (nth i nodes World.node0) /\
      (World.nblocking nd = true -> World.ndisc nd = 0%nat).
Proof. exact FactoryDisc.blocking_never_discards. Qed.
Print Assumptions C09_blocking_never_discards.

Theorem C09_probe_is_exact :
  forall s p pr, StoreB.is_belt (StoreB.s_kind s) = false -> StoreBInv.Inv s -> StoreBProps.NoLost s ->
    (Buffer_can_put (TieB.lensB s) = true <-> snd (StoreB.step s (StoreB.RPut p pr)) = [StoreB.next s]) /\
    (Fleet_can_put (TieB.lensB s) = true <-> snd (StoreB.step s (StoreB.RPut p pr)) = [StoreB.next s]).
Proof. exact TieB.can_put_iff_immediate_grant. Qed.
Print Assumptions C09_probe_is_exact.

(* an URGENT entry scheduled now is ahead of every NORMAL entry of the same instant *)
Theorem C09_urgent_first :
  forall t s1 s2 e1 e2,
    qlt {| q_time := t; q_prio := URGENT; q_seq := s1; q_ev := e1 |} {| q_time := t; q_prio := NORMAL; q_seq := s2; q_ev := e2 |} = true.
Proof. intros. unfold qlt. simpl. rewrite Z.ltb_irrefl, Z.eqb_refl. reflexivity. Qed.
Print Assumptions C09_urgent_first.

From FV Require FactoryProbe StoreBWeak.
(* non-blocking never waits, at the factory level: in every reachable world of every configuration whose
   Buffer / Fleet edges start empty (WN), a yes of the probe means the space reservation then issued
   (the Sync + RPut pair of e_reserve_put) is granted by the store in that very call, a no means nothing
   is granted (theories/Factory/FactoryProbe.v) *)
Theorem C09_probe_decides_grant_in_every_factory :
  forall nodes edges order n, Forall (fun ed => StoreBWeak.WN (World.est ed)) edges ->
  let w := FactoryInv.iter_fstep n (Factory.mk_world nodes edges order) in
  forall e ev p, (e < length (World.wedges w))%nat ->
    (World.e_can_put w e = true ->
       snd (StoreB.step (FactoryProbe.synced w e ev) (StoreB.RPut p 0)) = [StoreB.next (FactoryProbe.synced w e ev)]) /\
    (World.e_can_put w e = false -> snd (StoreB.step (FactoryProbe.synced w e ev) (StoreB.RPut p 0)) = []).
Proof. exact FactoryProbe.probe_decides_grant_everywhere. Qed.
Print Assumptions C09_probe_decides_grant_in_every_factory.

(* ... and the kernel event the node then waits on is already triggered: the wait is over within the
   same instant.  Uses the token-alignment invariant (theories/Factory/FactoryTok.v: on every edge of every
   reachable world the store's token counter is at most the kernel's event count, so the Sync step of
   e_reserve_put makes the granted token and the returned event coincide). *)
From FV Require FactoryTok.
Theorem C09_probe_yes_then_no_wait_in_every_factory :
  forall nodes edges order n,
    Forall (fun ed => StoreBWeak.WN (World.est ed)) edges ->
    Forall (fun ed => StoreB.next (World.est ed) = 0%nat) edges ->
    let w := FactoryInv.iter_fstep n (Factory.mk_world nodes edges order) in
    forall e p, (e < length (World.wedges w))%nat -> World.e_can_put w e = true ->
      e_trig (get_ev (World.wk (fst (World.e_reserve_put w e p))) (snd (World.e_reserve_put w e p))) = true.
Proof. exact FactoryProbe.probe_yes_reservation_triggered. Qed.
Print Assumptions C09_probe_yes_then_no_wait_in_every_factory.

Theorem C09_tokens_aligned_in_every_factory :
  forall nodes edges order n,
    Forall (fun ed => StoreB.next (World.est ed) = 0%nat) edges ->
    let w := FactoryInv.iter_fstep n (Factory.mk_world nodes edges order) in
    forall i ed, nth_error (World.wedges w) i = Some ed -> (StoreB.next (World.est ed) <= length (evs (World.wk w)))%nat.
Proof. exact FactoryTok.tokens_aligned_everywhere. Qed.
Print Assumptions C09_tokens_aligned_in_every_factory.

(* the premises are those of a freshly built edge: StoreB.init satisfies both *)
Example C09_fresh_edge_ok : forall k m c, StoreB.is_belt k = false ->
  StoreBWeak.WN (StoreB.init k m c) /\ StoreB.next (StoreB.init k m c) = 0%nat.
Proof. intros k m c NB. split; [apply StoreBWeak.init_wn; exact NB|reflexivity]. Qed.

(* ---- the non-blocking half at the level of the process blocks (theories/Factory/FactoryBlocks.v; every world, no
   reachability assumption): the block that runs when an item is ready -- the machine worker whose processing timer
   has fired, the source that has just created the item -- under FIRST_AVAILABLE output in non-blocking mode.
   No out-edge has room: the item is dropped in that very block, exactly one discard is counted and one discard entry
   written for exactly that item, and no edge is touched (nothing reserved, nothing put). *)
From FV Require FactoryBlocks.
From RecordUpdate Require Import RecordUpdate.
Import World.
Open Scope Z_scope.
Theorem C09_nonblocking_worker_drops_at_once :
  forall w p,
  let n := pown (Factory.me w p) in let nd := get_node w n in
  ppc (Factory.me w p) = 1%nat -> noutsel nd = PFirst -> nblocking nd = false ->
  Factory.first_can_put w (nouts nd) = None -> (n < length (wnodes w))%nat ->
  let w' := fst (Factory.worker_block w p) in
  FactoryBlocks.edges_untouched w w' /\
  wlog w' = wlog w ++ [LDiscard (wnow w) n (pit (Factory.me w p))] /\
  ndisc (get_node w' n) = S (ndisc nd).
Proof. exact FactoryBlocks.worker_nonblocking_drops. Qed.
Print Assumptions C09_nonblocking_worker_drops_at_once.

(* Some out-edge has room: nothing is dropped or counted, no edge is touched by this block, and one push process is
   started, for exactly this item and the FIRST out-edge whose probe says yes (C09_probe_yes_then_no_wait: its
   reservation is granted in the call and its event is already triggered) *)
Theorem C09_nonblocking_worker_pushes_to_first_with_room :
  forall w p e,
  let n := pown (Factory.me w p) in let nd := get_node w n in
  ppc (Factory.me w p) = 1%nat -> noutsel nd = PFirst -> nblocking nd = false ->
  Factory.first_can_put w (nouts nd) = Some e -> (p < length (wprocs w))%nat ->
  let w' := fst (Factory.worker_block w p) in
  FactoryBlocks.edges_untouched w w' /\ wlog w' = wlog w /\ ndisc (get_node w' n) = ndisc nd /\
  length (wprocs w') = S (length (wprocs w)) /\
  let q := nth (length (wprocs w)) (wprocs w') proc0 in
  pkd q = KPush /\ pown q = n /\ pit q = pit (Factory.me w p) /\ pix q = e /\ ppc q = 0%nat /\ palive q = true.
Proof. exact FactoryBlocks.worker_nonblocking_pushes. Qed.
Print Assumptions C09_nonblocking_worker_pushes_to_first_with_room.

Theorem C09_nonblocking_source_drops_at_once :
  forall w p,
  let n := pown (Factory.me w p) in let nd := get_node w n in
  ppc (Factory.me w p) = 2%nat -> noutsel nd = PFirst -> nblocking nd = false ->
  Factory.first_can_put w (nouts nd) = None -> (n < length (wnodes w))%nat ->
  let item := length (witems w) in
  let w' := fst (Factory.source_block w p) in
  wedges w' = wedges w /\
  witems w' = witems w ++ [item0 <| i_src := n |> <| i_pallet := npallet nd |>] /\
  wlog w' = wlog w ++ [LGen (wnow w) n item; LDiscard (wnow w) n item;
                       LDraw n 0 (stream_at (ndelays nd) (ndptr nd))] /\
  ndisc (get_node w' n) = S (ndisc nd).
Proof. exact FactoryBlocks.source_nonblocking_drops. Qed.
Print Assumptions C09_nonblocking_source_drops_at_once.

Theorem C09_nonblocking_source_pushes_to_first_with_room :
  forall w p e,
  let n := pown (Factory.me w p) in let nd := get_node w n in
  ppc (Factory.me w p) = 2%nat -> noutsel nd = PFirst -> nblocking nd = false ->
  Factory.first_can_put w (nouts nd) = Some e -> (p < length (wprocs w))%nat ->
  let item := length (witems w) in
  let w' := fst (Factory.source_block w p) in
  wedges w' = wedges w /\
  wlog w' = wlog w ++ [LGen (wnow w) n item] /\
  ndisc (get_node w' n) = ndisc nd /\
  length (wprocs w') = S (length (wprocs w)) /\
  let q := nth (length (wprocs w)) (wprocs w') proc0 in
  pkd q = KPush /\ pown q = n /\ pit q = item /\ pix q = e /\ ppc q = 0%nat /\ palive q = true.
Proof. exact FactoryBlocks.source_nonblocking_pushes. Qed.
Print Assumptions C09_nonblocking_source_pushes_to_first_with_room.

(* the same for an index policy (ROUND_ROBIN), every world: one draw, recorded; no room on the drawn out-edge => the item is
   dropped in that very block (one discard counted and logged for exactly this item, no edge touched); room => nothing is
   dropped and a push process for exactly this item and exactly the drawn out-edge is started *)
Theorem C09_nonblocking_round_robin_worker_drops_at_once :
  forall w p,
  let n := pown (Factory.me w p) in let nd := get_node w n in
  ppc (Factory.me w p) = 1%nat -> noutsel nd = PRoundRobin -> nblocking nd = false -> nouts nd <> [] ->
  (n < length (wnodes w))%nat ->
  let k := noutptr nd in let m := length (nouts nd) in
  e_can_put w (nth (k mod m) (nouts nd) 0%nat) = false ->
  let w' := fst (Factory.worker_block w p) in
  FactoryBlocks.edges_untouched w w' /\
  wlog w' = wlog w ++ [LSel n true (k mod m); LDiscard (wnow w) n (pit (Factory.me w p))] /\
  ndisc (get_node w' n) = S (ndisc nd).
Proof. exact FactoryBlocks.worker_nonblocking_round_robin_drops. Qed.
Print Assumptions C09_nonblocking_round_robin_worker_drops_at_once.

Theorem C09_nonblocking_round_robin_worker_pushes_to_the_drawn_edge :
  forall w p,
  let n := pown (Factory.me w p) in let nd := get_node w n in
  ppc (Factory.me w p) = 1%nat -> noutsel nd = PRoundRobin -> nblocking nd = false -> nouts nd <> [] ->
  (n < length (wnodes w))%nat -> (p < length (wprocs w))%nat ->
  let k := noutptr nd in let m := length (nouts nd) in
  e_can_put w (nth (k mod m) (nouts nd) 0%nat) = true ->
  let w' := fst (Factory.worker_block w p) in
  FactoryBlocks.edges_untouched w w' /\ wlog w' = wlog w ++ [LSel n true (k mod m)] /\ ndisc (get_node w' n) = ndisc nd /\
  length (wprocs w') = S (length (wprocs w)) /\
  let q := nth (length (wprocs w)) (wprocs w') proc0 in
  pkd q = KPush /\ pown q = n /\ pit q = pit (Factory.me w p) /\ pix q = nth (k mod m) (nouts nd) 0%nat /\ ppc q = 0%nat /\ palive q = true.
Proof. exact FactoryBlocks.worker_nonblocking_round_robin_pushes. Qed.
Print Assumptions C09_nonblocking_round_robin_worker_pushes_to_the_drawn_edge.

(* Splitter and Combiner workers hand over every flow item -- each content item, then the pallet itself (splitter); the packed
   pallet (combiner) -- through one shared dispatch.  Non-blocking, FIRST_AVAILABLE, every world: no out-edge has room => the item
   is dropped in that very step, one discard counted and logged for exactly this item, no edge, item or kernel event touched and no
   process started; some out-edge has room (a Buffer, the only out-edge class these nodes support) => nothing dropped or counted,
   no edge touched, one push process started for exactly this item and the FIRST out-edge with room. *)
Theorem C09_nonblocking_splitter_combiner_drops_at_once :
  forall w p n cur ph,
  let nd := get_node w n in
  noutsel nd = PFirst -> nblocking nd = false -> Factory.first_can_put w (nouts nd) = None -> (n < length (wnodes w))%nat ->
  let w' := fst (Factory.sc_dispatch w p n cur ph) in
  wedges w' = wedges w /\ witems w' = witems w /\
  wlog w' = wlog w ++ [LDiscard (wnow w) n cur] /\
  ndisc (get_node w' n) = S (ndisc nd) /\
  length (wprocs w') = length (wprocs w) /\ wk w' = wk w.
Proof. exact FactoryBlocks.dispatch_nonblocking_drops. Qed.
Print Assumptions C09_nonblocking_splitter_combiner_drops_at_once.

Theorem C09_nonblocking_splitter_combiner_pushes_to_first_with_room :
  forall w p n cur ph e,
  let nd := get_node w n in
  noutsel nd = PFirst -> nblocking nd = false -> Factory.first_can_put w (nouts nd) = Some e -> Factory.is_buffer w e = true ->
  (p < length (wprocs w))%nat ->
  let w' := fst (Factory.sc_dispatch w p n cur ph) in
  wedges w' = wedges w /\ witems w' = witems w /\ wlog w' = wlog w /\ ndisc (get_node w' n) = ndisc nd /\
  length (wprocs w') = S (length (wprocs w)) /\
  let q := nth (length (wprocs w)) (wprocs w') proc0 in
  pkd q = KPush /\ pown q = n /\ pit q = cur /\ pix q = e /\ ppc q = 0%nat /\ palive q = true.
Proof. exact FactoryBlocks.dispatch_nonblocking_pushes. Qed.
Print Assumptions C09_nonblocking_splitter_combiner_pushes_to_first_with_room.

(* where the dispatch is entered: a combiner worker starts with the pallet it was given; a splitter worker goes through the
   contents head first and hands the pallet over last (C16_*: theories/Factory/FactoryBlocks.v) *)
Theorem C09_combiner_worker_dispatches_its_pallet :
  forall w p, ppc (Factory.me w p) = 0%nat ->
  Factory.combworker_block w p =
  Factory.sc_run 64 w p (pown (Factory.me w p)) (Factory.sc_dispatch w p (pown (Factory.me w p)) (pit (Factory.me w p)) 1).
Proof. intros w p H. unfold Factory.combworker_block. rewrite H. reflexivity. Qed.
Print Assumptions C09_combiner_worker_dispatches_its_pallet.

(* Tie B: the non-blocking paths of the node processes, re-read from nodes/*.py on every run (theories/Factory/TieCommit.v): under
   FIRST_AVAILABLE the edge chosen is the first out-edge whose can_put() says yes, the item is pushed exactly when there is one
   and dropped (discard counted) otherwise; under an index policy the drawn edge's can_put() is CALLED.  The model's
   [first_can_put] is that search (C09_model_probe_is_first_with_room), so the block-level theorems above speak about what the
   source does. *)
From FV Require SrcFragments TieCommit.
Theorem C09_probe_loops_regenerated :
  forall l r e,
  SrcFragments.Source_behaviour_probe l = find SrcFragments.ed_can_put l /\
  SrcFragments.Source_behaviour_probe_pushes r = (match r with Some _ => true | None => false end) /\
  SrcFragments.Source_behaviour_index_probe e = SrcFragments.ed_can_put e /\
  SrcFragments.Machine_worker_probe l = find SrcFragments.ed_can_put l /\
  SrcFragments.Machine_worker_probe_pushes r = (match r with Some _ => true | None => false end) /\
  SrcFragments.Machine_worker_index_probe e = SrcFragments.ed_can_put e /\
  SrcFragments.Splitter_worker_probe l = find SrcFragments.ed_can_put l /\
  SrcFragments.Splitter_worker_probe_pushes r = (match r with Some _ => true | None => false end) /\
  SrcFragments.Splitter_worker_index_probe e = SrcFragments.ed_can_put e /\
  SrcFragments.Combiner_worker_probe l = find SrcFragments.ed_can_put l /\
  SrcFragments.Combiner_worker_probe_pushes r = (match r with Some _ => true | None => false end) /\
  SrcFragments.Combiner_worker_index_probe e = SrcFragments.ed_can_put e.
Proof. intros l r e. repeat split. Qed.
Print Assumptions C09_probe_loops_regenerated.

Theorem C09_model_probe_is_first_with_room :
  forall w es, Factory.first_can_put w es =
               option_map SrcFragments.ed_id (find SrcFragments.ed_can_put (map (TieCommit.abs_edge w) es)).
Proof. exact TieCommit.model_probe_is_first_with_room. Qed.
Print Assumptions C09_model_probe_is_first_with_room.
