(* C09 -- blocking nodes never discard; non-blocking nodes never wait.
   Proved: the probe a non-blocking node uses (can_put of Buffer / Fleet, REGENERATED from source)
   is true exactly when a reservation issued at that instant is granted at once -- so "push if
   there is room, otherwise drop" is decided on the truth; and a sub-process started by
   env.process runs its first block (the reservation) before any other event of the instant
   (URGENT priority, kernel model).  That blocking branches never reach a discard and that
   non-blocking nodes push / drop at the ready instant is carried by the executable factory
   model and compared on every explored factory; not yet a theorem for every configuration. *)
From Coq Require Import List ZArith Bool Arith.
From FV Require Import SrcFragments Kernel.
From FV Require StoreB StoreBInv StoreBProps TieB.
Import ListNotations.
Open Scope Z_scope.

Theorem C09_probe_is_exact :
  forall s p pr, StoreB.is_belt (StoreB.s_kind s) = false -> StoreBInv.Inv s -> StoreBProps.NoLost s ->
    (Buffer_can_put (TieB.lensB s) = true <-> snd (StoreB.step s (StoreB.RPut p pr)) = [StoreB.next s]) /\
    (Fleet_can_put (TieB.lensB s) = true <-> snd (StoreB.step s (StoreB.RPut p pr)) = [StoreB.next s]).
Proof. exact TieB.can_put_iff_immediate_grant. Qed.
Print Assumptions C09_probe_is_exact.

(* an URGENT entry scheduled now is ahead of every NORMAL entry of the same instant *)
Theorem C09_urgent_first :
  forall t s1 s2 e1 e2,
    qlt {| q_time := t; q_prio := URGENT; q_seq := s1; q_ev := e1 |} {| q_time := t; q_prio := NORMAL; q_seq := s2; q_ev := e2 |} = true.
Proof. intros. unfold qlt. simpl. rewrite Z.ltb_irrefl, Z.eqb_refl. reflexivity. Qed.
Print Assumptions C09_urgent_first.
