(* C04 -- no lost wake-up: after every operation (timer expiries included) no request is pending
   while the store could serve the one that is next in line. *)
From Coq Require Import List ZArith Bool Arith.
From FV Require StoreP StorePInv StorePOrder StoreB StoreBInv StoreBProps StoreBWeak World Factory FactoryInv FactoryQueue.
Import ListNotations.

(* ReservableReqStore / ReservablePriorityReqStore *)
Theorem C04_no_pending_while_servable_positional :
  forall k c td ops, k <> StoreP.KFilter ->
    let s := StoreP.run (StoreP.init k c td) ops in
    (StoreP.putq s <> [] -> StoreP.allow_put s = false) /\
    (StoreP.getq s <> [] -> StoreP.allow_get s = false).
Proof. exact StorePOrder.nolost_reachable. Qed.
Print Assumptions C04_no_pending_while_servable_positional.


(* ReservablePriorityReqFilterStore: after every operation the request that is next in line
   cannot be served (one attempt on the head grants nothing).  Time passing alone ([Tick]) can
   turn the default age filter true; the store's own timer then runs the trigger loop ([Retrig]),
   which restores the invariant. *)
Theorem C04_no_pending_while_servable_filter :
  forall c td ops, StorePOrder.no_tick ops ->
    StorePOrder.NoLostF (StoreP.run (StoreP.init StoreP.KFilter c td) ops).
Proof. exact StorePOrder.nolostF_reachable. Qed.
Print Assumptions C04_no_pending_while_servable_filter.

Theorem C04_filter_step :
  forall s o, StoreP.s_kind s = StoreP.KFilter -> StorePInv.CapInv s -> StorePOrder.NoLostF s ->
    (forall d, o <> StoreP.Tick d) -> StorePOrder.NoLostF (StoreP.step_st s o).
Proof. exact StorePOrder.step_nolostF. Qed.
Print Assumptions C04_filter_step.

Theorem C04_filter_timer_restores :
  forall s, StoreP.s_kind s = StoreP.KFilter -> StorePOrder.NoLostF (StoreP.step_st s StoreP.Retrig).
Proof. exact StorePOrder.retrig_restores. Qed.
Print Assumptions C04_filter_timer_restores.

(* non-vacuity for the filter store: item 2 inside, heads want "id mod 3 = 0" then "id mod 2 = 0";
   putting item 3 serves both waiting requests in one call *)
Example C04_filter_witness :
  let s0 := StoreP.run (StoreP.init StoreP.KFilter 4 0)
              [StoreP.RPut 0 0; StoreP.Put 0 0 2; StoreP.RGet 1 0 (StoreP.FMod 3 0); StoreP.RGet 2 0 (StoreP.FMod 2 0);
               StoreP.RPut 0 0] in
  length (StoreP.getq s0) = 2 /\ snd (StoreP.step s0 (StoreP.Put 0 3 3)) = [1; 2].
Proof. vm_compute. auto. Qed.

(* BufferStore / FleetStore, including the internal events that make items available *)
Theorem C04_no_pending_while_servable_bound :
  forall k m c ops, StoreB.is_belt k = false -> NoDup (StoreBInv.put_ids ops) ->
    let s := StoreB.run (StoreB.init k m c) ops in
    (StoreB.putq s <> [] -> StoreB.allow_put s = false) /\
    (StoreB.getq s <> [] -> StoreB.allow_get s = false).
Proof. exact StoreBProps.nolost_reachable. Qed.
Print Assumptions C04_no_pending_while_servable_bound.

(* non-vacuity: two getters wait on an empty buffer; the timer expiry serves exactly the head *)
Example C04_witness :
  let s0 := StoreB.run (StoreB.init StoreB.KBuffer StoreB.FIFO 2)
              [StoreB.RGet 1 0; StoreB.RGet 2 0; StoreB.RPut 0 0; StoreB.Put 0 2 9] in
  length (StoreB.getq s0) = 2 /\
  snd (StoreB.step s0 (StoreB.Ready 9)) = [0] /\
  length (StoreB.getq (StoreB.step_st s0 (StoreB.Ready 9))) = 1.
Proof. vm_compute. auto. Qed.

(* without any side condition on the items (unlike the theorems above, which assume pairwise distinct
   objects): one operation of a buffer / fleet store keeps "no request waits while the store could serve
   the one next in line", together with the two counting bounds it needs, in EVERY state ... *)
Theorem C04_no_lost_wakeup_step_unconditional :
  forall s o, StoreBWeak.WN s -> StoreBWeak.WN (StoreB.step_st s o).
Proof. exact StoreBWeak.wn_step. Qed.
Print Assumptions C04_no_lost_wakeup_step_unconditional.

(* ... hence on every Buffer / Fleet edge of every factory configuration after every number of kernel
   steps: no space request is waiting while the edge could grant it, no retrieval request is waiting
   while an unreserved item is ready (theories/Factory/FactoryQueue.v, lifted through every process block) *)
Theorem C04_no_lost_wakeup_in_every_factory :
  forall nodes edges order n, Forall (fun ed => StoreBWeak.WN (World.est ed)) edges ->
    forall i ed, nth_error (World.wedges (FactoryInv.iter_fstep n (Factory.mk_world nodes edges order))) i = Some ed ->
      StoreBProps.NoLost (World.est ed) /\ StoreBWeak.W (World.est ed).
Proof. exact FactoryQueue.no_lost_wakeup_everywhere. Qed.
Print Assumptions C04_no_lost_wakeup_in_every_factory.
