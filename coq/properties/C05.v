(* C05 -- requests are served by priority, first-come-first-served among equals. *)
From Coq Require Import List ZArith Bool Arith.
From FV Require Queue StoreP StorePInv StorePOrder StoreB StoreBInv StoreBOrder StoreQ.
From FV Require World Factory FactoryInv FactoryQueue.
Import ListNotations.

(* in every reachable state both waiting queues are strictly sorted by (priority, arrival) *)
Theorem C05_queues_sorted_positional :
  forall k c td ops, StorePOrder.QInv (StoreP.run (StoreP.init k c td) ops).
Proof. exact StorePOrder.qinv_reachable. Qed.
Print Assumptions C05_queues_sorted_positional.

Theorem C05_queues_sorted_bound :
  forall k m c ops, StoreBOrder.QInv (StoreB.run (StoreB.init k m c) ops).
Proof. exact StoreBOrder.qinv_reachable. Qed.
Print Assumptions C05_queues_sorted_bound.

(* the same inside factories: every configuration whose edges start with sorted (e.g. empty) waiting
   queues, every number of kernel steps: on every edge of the factory both waiting queues are sorted
   by (priority, arrival number) -- the node code reaches the stores only through their operations
   (theories/Factory/FactoryQueue.v, lifted through every process block) *)
Theorem C05_queues_sorted_in_every_factory :
  forall nodes edges order n, Forall (fun ed => StoreBOrder.QInv (World.est ed)) edges ->
    forall i ed, nth_error (World.wedges (FactoryInv.iter_fstep n (Factory.mk_world nodes edges order))) i = Some ed ->
      StoreBOrder.QInv (World.est ed).
Proof. exact FactoryQueue.queues_sorted_everywhere. Qed.
Print Assumptions C05_queues_sorted_in_every_factory.

(* every grant (one attempt of the trigger loop: trig_put / trig_get1; the filter store's trig_get
   iterates trig_get1 while it grants) serves the head, which precedes every other waiting request in the service order;
   the others keep their order *)
Theorem C05_put_grant_is_min_positional :
  forall s s' t, StorePOrder.QInv s -> StoreP.trig_put s = (s', [t]) ->
    exists r q, StoreP.putq s = r :: q /\ t = StoreP.r_tok r /\ StoreP.putq s' = q /\
                StoreP.putres s' = StoreP.putres s ++ [r] /\
                forall y, In y q -> Queue.klt StoreP.r_prio StoreP.r_tok r y.
Proof. exact StorePOrder.trig_put_serves_min. Qed.
Print Assumptions C05_put_grant_is_min_positional.

Theorem C05_get_grant_is_min_positional :
  forall s s' t, StorePOrder.QInv s -> StoreP.trig_get1 s = (s', [t]) ->
    exists r q, StoreP.getq s = r :: q /\ t = StoreP.r_tok r /\ StoreP.getq s' = q /\
                StoreP.getres s' = StoreP.getres s ++ [r] /\
                forall y, In y q -> Queue.klt StoreP.r_prio StoreP.r_tok r y.
Proof. exact StorePOrder.trig_get_serves_min. Qed.
Print Assumptions C05_get_grant_is_min_positional.

Theorem C05_put_grant_is_min_bound :
  forall s s' t, StoreBOrder.QInv s -> StoreB.trig_put s = (s', [t]) ->
    exists r q, StoreB.putq s = r :: q /\ t = StoreB.r_tok r /\ StoreB.putq s' = q /\
                StoreB.putres s' = StoreB.putres s ++ [r] /\
                forall y, In y q -> Queue.klt StoreB.r_prio StoreB.r_tok r y.
Proof. exact StoreBOrder.trig_put_serves_min. Qed.
Print Assumptions C05_put_grant_is_min_bound.

Theorem C05_get_grant_is_min_bound :
  forall s s' t, StoreBOrder.QInv s -> StoreB.trig_get s = Some (s', [t]) ->
    exists r q it, StoreB.getq s = r :: q /\ t = StoreB.r_tok r /\ StoreB.getq s' = q /\
                   StoreB.getres s' = StoreB.getres s ++ [(r, it)] /\ StoreB.pick s = Some it /\
                   forall y, In y q -> Queue.klt StoreB.r_prio StoreB.r_tok r y.
Proof. exact StoreBOrder.trig_get_serves_min. Qed.
Print Assumptions C05_get_grant_is_min_bound.

(* PriorityReqStore (plain SimPy put / get requests with priorities): queues sorted by
   (priority, arrival) in every reachable state; every grant serves the head *)
Theorem C05_queues_sorted_priority_req_store :
  forall c ops, StoreQ.QQInv (StoreQ.qrun (StoreQ.qinit c) ops).
Proof. exact StoreQ.qinv_reachable. Qed.
Print Assumptions C05_queues_sorted_priority_req_store.

Theorem C05_grant_is_min_priority_req_store :
  forall s o s' g, StoreQ.QQInv s -> StoreQ.qstep s o = (s', g) ->
    match g with
    | [] => True
    | [StoreQ.GPut t] => exists r, StoreQ.q_tok r = t /\ forall y, In y (StoreQ.qputq s') -> Queue.klt StoreQ.q_prio StoreQ.q_tok r y
    | [StoreQ.GGet t i] => exists r, StoreQ.q_tok r = t /\ forall y, In y (StoreQ.qgetq s') -> Queue.klt StoreQ.q_prio StoreQ.q_tok r y
    | _ => False
    end.
Proof. exact StoreQ.qgrant_is_min. Qed.
Print Assumptions C05_grant_is_min_priority_req_store.

(* non-vacuity: priorities 3, -1, 3, -1 arrive in that order on a full store; service order is
   tokens 2 (prio -1), 4 (prio -1), 1 (prio 3), 3 (prio 3) *)
Example C05_witness :
  let s := StoreP.run (StoreP.init StoreP.KPrio 1 0)
             [StoreP.RPut 0 0; StoreP.RPut 1 3; StoreP.RPut 2 (-1); StoreP.RPut 3 3; StoreP.RPut 4 (-1)] in
  map StoreP.r_tok (StoreP.putq s) = [2; 4; 1; 3].
Proof. vm_compute. auto. Qed.
