(* C14 -- Fleet delivers whole batches after a full round trip.
   Timed model: theories/Edges/TFleet.v (Fleet over FleetStore: StoreB with kind KFleet, the
   activation process and the trips); tied to edges/fleet.py + base/fleet_store.py by the
   correspondence harness harness/tfleet.py on every run. *)
From Coq Require Import List ZArith Bool Arith.
From FV Require StoreB TFleet.
From FV Require Import SrcFragments Lens.
From FV Require TieStats.
Import ListNotations.
Open Scope Z_scope.

(* departure only when the waiting delay expires or the capacity trigger has fired ... *)
Theorem C14_departure_condition :
  forall b b' r ts, TFleet.fstep b TFleet.FActivate = Some (b', r, ts) ->
    TFleet.deadline b = TFleet.fclock b \/ TFleet.act b = true.
Proof. exact TFleet.fleet_departure_condition. Qed.
Print Assumptions C14_departure_condition.

(* ... and the trigger is set exactly by the load that makes the held items reach the capacity *)
Theorem C14_capacity_trigger :
  forall b p t i b' ts, TFleet.fstep b (TFleet.FLoad p t i) = Some (b', StoreB.OOk, ts) ->
    TFleet.act b' = TFleet.act b ||
      (length (StoreB.transit (TFleet.fs b')) + length (StoreB.ready (TFleet.fs b')) =? StoreB.cap (TFleet.fs b'))%nat.
Proof. exact TFleet.fleet_capacity_trigger. Qed.
Print Assumptions C14_capacity_trigger.

(* exactly the items waiting at departure (held and not already travelling) leave, in loading
   order, on one trip that is due one full round trip later; the delay timer is re-armed *)
Theorem C14_batch_is_waiting_items :
  forall b b' r ts, TFleet.fstep b TFleet.FActivate = Some (b', r, ts) -> StoreB.transit (TFleet.fs b) <> [] ->
    let batch := filter (fun it => negb (existsb (Nat.eqb it) (TFleet.intransit b))) (StoreB.transit (TFleet.fs b)) in
    TFleet.intransit b' = TFleet.intransit b ++ batch /\
    (batch <> [] -> TFleet.trips b' = TFleet.trips b ++ [(batch, TFleet.fclock b + 2 * TFleet.ftransit b)]) /\
    (batch = [] -> TFleet.trips b' = TFleet.trips b) /\ TFleet.act b' = false /\
    TFleet.deadline b' = TFleet.fclock b + TFleet.fdelay b.
Proof. exact TFleet.fleet_batch_is_waiting_items. Qed.
Print Assumptions C14_batch_is_waiting_items.

(* the batch becomes available together, exactly when due, appended in loading order *)
Theorem C14_batch_arrives_together :
  forall b b' r ts, TFleet.fstep b TFleet.FArrive = Some (b', r, ts) ->
    exists batch rest, TFleet.trips b = (batch, TFleet.fclock b) :: rest /\ TFleet.trips b' = rest /\
      StoreB.ready (TFleet.fs b') = StoreB.ready (TFleet.fs b) ++ batch /\ TFleet.fclock b' = TFleet.fclock b.
Proof. exact TFleet.fleet_batch_arrives_together. Qed.
Print Assumptions C14_batch_arrives_together.

(* every legal timed history, every capacity, delay and transit delay (zero included): an item
   becomes available no earlier than one round trip and no later than one delay period plus one
   round trip after it was loaded *)
Theorem C14_waiting_bound :
  forall c d tr ops b i a, 0 <= d -> 0 <= tr -> TFleet.frun (TFleet.finit c d tr) ops = Some b ->
    In (i, a) (TFleet.avail b) ->
    exists t, In (i, t) (TFleet.loads b) /\ t + 2 * tr <= a /\ a <= t + d + 2 * tr.
Proof. exact TFleet.fleet_waiting_bound. Qed.
Print Assumptions C14_waiting_bound.

(* ... at full strength: once more than one delay period plus one round trip has passed since an
   item was loaded, the item IS available (no loaded item is left behind, whatever was loaded
   before, during or after the trips) -- in every legal timed history, i.e. under the kernel's
   contract that due events are processed and the clock never passes one *)
Theorem C14_no_item_left_behind :
  forall c d tr ops b i t, 0 <= d -> 0 <= tr -> TFleet.frun (TFleet.finit c d tr) ops = Some b ->
    In (i, t) (TFleet.loads b) -> t + d + 2 * tr < TFleet.fclock b ->
    exists a, In (i, a) (TFleet.avail b) /\ t + 2 * tr <= a <= t + d + 2 * tr.
Proof. exact TFleet.fleet_no_item_left_behind. Qed.
Print Assumptions C14_no_item_left_behind.

(* an item on a trip was loaded at least a round trip before the trip is due: an item loaded after
   a departure is not on that trip *)
Theorem C14_later_load_waits :
  forall c d tr ops b batch due i t, 0 <= d -> 0 <= tr -> TFleet.frun (TFleet.finit c d tr) ops = Some b ->
    In (batch, due) (TFleet.trips b) -> In i batch -> In (i, t) (TFleet.loads b) ->
    NoDup (map fst (TFleet.loads b)) -> t + 2 * tr <= due.
Proof. exact TFleet.fleet_later_load_waits. Qed.
Print Assumptions C14_later_load_waits.

(* non-vacuity: a legal history with two trips; item 9, loaded in the instant of the first departure
   but after it, travels on the second trip *)
Definition C14_ops : list TFleet.fop :=
  [TFleet.FApi (StoreB.RPut 1 0); TFleet.FApi (StoreB.RPut 1 0); TFleet.FLoad 1 0 7; TFleet.FIdle 1; TFleet.FLoad 1 1 8;
   TFleet.FIdle 2; TFleet.FActivate; TFleet.FApi (StoreB.RPut 2 0); TFleet.FLoad 2 2 9; TFleet.FIdle 2; TFleet.FArrive;
   TFleet.FIdle 1; TFleet.FActivate; TFleet.FIdle 2; TFleet.FArrive]%nat.
Example C14_witness :
  option_map (fun b => (TFleet.avail b, TFleet.loads b)) (TFleet.frun (TFleet.finit 4 3 1) C14_ops) =
  Some ([(9%nat, 8); (7%nat, 5); (8%nat, 5)], [(9%nat, 3); (8%nat, 1); (7%nat, 0)]).
Proof. vm_compute. reflexivity. Qed.

(* tie B: the two tests that decide a departure and the number of transit legs of a trip, re-translated from
   base/fleet_store.py on every run (FleetStore._do_put, fleet_activation_process, move_to_ready_items), are the
   ones the model uses: the capacity trigger fires exactly when the held items reach the capacity, a batch leaves
   exactly when something is waiting, and a trip is two transit legs *)
Theorem C14_departure_tests_regenerated :
  forall s,
    FleetStore_capacity_trigger (lensB s) = (length (StoreB.transit s) + length (StoreB.ready s) =? StoreB.cap s)%nat /\
    FleetStore_activation_guard (lensB s) = match StoreB.transit s with [] => false | _ => true end /\
    FleetStore_transit_legs = 2.
Proof.
  exact (fun s => conj (TieStats.fleet_capacity_trigger_src s) (conj (TieStats.fleet_activation_guard_src s) TieStats.fleet_transit_legs_src)).
Qed.
Print Assumptions C14_departure_tests_regenerated.

(* tie B: the Fleet EDGE adds nothing to its store: every wrapper delegates with one call and assigns nothing on the store
   (re-translated from edges/fleet.py on every run; the timed model TFleet is the store plus its processes) *)
From FV Require TieNodes.
Theorem C14_fleet_edge_only_delegates :
  SrcFragments.Fleet_reserve_put_delegates = true /\
  SrcFragments.Fleet_reserve_get_delegates = true /\
  SrcFragments.Fleet_put_delegates = true /\
  SrcFragments.Fleet_get_delegates = true /\
  SrcFragments.Fleet_reserve_put_cancel_delegates = true /\
  SrcFragments.Fleet_reserve_get_cancel_delegates = true.
Proof. repeat split. Qed.
Print Assumptions C14_fleet_edge_only_delegates.

(* tie B, constructor wiring: a fleet's waiting delay and transit delay are those of its store *)
From FV Require TieWiring.
Theorem C14_configured_delays_reach_the_store :
  (SrcFragments.Fleet_store_delay_wiring = SrcFragments.A_delay /\ SrcFragments.FleetStore_keeps_delay = SrcFragments.A_delay /\
  SrcFragments.Fleet_store_transit_delay_wiring = SrcFragments.A_transit_delay /\ SrcFragments.FleetStore_keeps_transit_delay = SrcFragments.A_transit_delay).
Proof. exact TieWiring.fleet_delays_reach_the_store. Qed.
Print Assumptions C14_configured_delays_reach_the_store.

(* tie B: the Fleet's queries and statistics refresh only observe its store: the items waiting for a trip and the delivered ones
   are changed by put / get / the trips alone *)
From FV Require TieNodes.
Theorem C14_fleet_observers_leave_the_load_alone :
  SrcFragments.Fleet_can_put_observes = true /\ SrcFragments.Fleet_can_get_observes = true /\
  SrcFragments.Fleet_get_occupancy_observes = true /\ SrcFragments.Fleet_get_ready_items_observes = true /\
  SrcFragments.Fleet_get_items_observes = true /\ SrcFragments.Fleet_update_final_fleet_avg_content_observes = true /\
  SrcFragments.Fleet_fleet_stats_collector_observes = true.
Proof. exact TieNodes.fleet_observers_src. Qed.
Print Assumptions C14_fleet_observers_leave_the_load_alone.
