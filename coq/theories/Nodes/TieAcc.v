(* Tie B for the node accounting: the round-robin update and the classification conditions of
   Machine.update_state_rep, REGENERATED from /repo (generated/SrcFragments.v), against the model's. *)
From Coq Require Import List ZArith Lia Bool Arith.
From FV Require Import SrcFragments Accounting.
Import ListNotations.
Open Scope Z_scope.

(* the generator yields its state and then advances it with the REGENERATED update expression *)
Fixpoint rr_state (n : Z) (k : nat) : Z :=
  match k with O => 0 | S k' => round_robin_next (rr_state n k') n end.

Theorem round_robin_kth n k : 0 < n -> rr_state n k = Z.of_nat k mod n.
Proof.
  intros Hn. induction k as [|k IH].
  - simpl. rewrite Z.mod_0_l; lia.
  - simpl rr_state. rewrite IH. unfold round_robin_next.
    rewrite Zplus_mod_idemp_l. f_equal. lia.
Qed.

Theorem round_robin_in_range n k : 0 < n -> 0 <= rr_state n k < n.
Proof. intros Hn. rewrite round_robin_kth by auto. apply Z.mod_pos_bound. auto. Qed.

(* ------------------------------------------------------------------ tie B for the conditions *)
(* the five conditions REGENERATED from Machine.update_state_rep are the ones the model uses *)
Theorem machine_conditions_regenerated p b :
  Machine_cond_IDLE_STATE p b = c_idle p b /\
  Machine_cond_ALL_ACTIVE_BLOCKED_STATE p b = c_allblk p b /\
  Machine_cond_ATLEAST_ONE_PROCESSING_STATE p b = c_oneproc p b /\
  Machine_cond_ALL_ACTIVE_PROCESSING_STATE p b = c_allproc p b /\
  Machine_cond_ATLEAST_ONE_BLOCKED_STATE p b = c_oneblk p b.
Proof. repeat split; reflexivity. Qed.
