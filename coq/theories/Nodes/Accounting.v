(* Arithmetic cores of the statistics code, as pure functions with theorems for ALL inputs:
   - Machine.update_state_rep: the five classification conditions partition the thread-count
     pairs within each documented group, so each group's totals add up to the elapsed time (C17);
   - Node.update_state: the per-state totals add up to the elapsed time (C17);
   - _update_time_averaged_level: the weighted sum is the integral of the occupancy step function,
     here: the sum over unit ticks of the level at that tick (C18);
   - RoundRobin_edge_selector: the k-th value is k mod n (C15). *)
From Coq Require Import List ZArith Lia Bool Arith.
From FV Require Import Kernel.
Import ListNotations.
Open Scope Z_scope.

(* ------------------------------------------------------------------ Machine state groups *)
Definition c_idle (p b : Z) : bool := (p =? 0) && (b =? 0).
Definition c_allblk (p b : Z) : bool := (b >? 0) && (p =? 0).
Definition c_oneproc (p b : Z) : bool := p >? 0.
Definition c_allproc (p b : Z) : bool := (p >? 0) && (b =? 0).
Definition c_oneblk (p b : Z) : bool := b >? 0.

Definition b2z (x : bool) : Z := if x then 1 else 0.

(* group A = IDLE / ALL_ACTIVE_BLOCKED / ATLEAST_ONE_PROCESSING, group B = IDLE / ALL_ACTIVE_PROCESSING /
   ATLEAST_ONE_BLOCKED: for non-negative thread counts exactly one condition of each group holds *)
Theorem groupA_partition p b : 0 <= p -> 0 <= b -> b2z (c_idle p b) + b2z (c_allblk p b) + b2z (c_oneproc p b) = 1.
Proof.
  intros Hp Hb. unfold c_idle, c_allblk, c_oneproc, b2z.
  destruct (Z.eqb_spec p 0); destruct (Z.eqb_spec b 0); destruct (Z.gtb_spec b 0); destruct (Z.gtb_spec p 0); simpl; lia.
Qed.

Theorem groupB_partition p b : 0 <= p -> 0 <= b -> b2z (c_idle p b) + b2z (c_allproc p b) + b2z (c_oneblk p b) = 1.
Proof.
  intros Hp Hb. unfold c_idle, c_allproc, c_oneblk, b2z.
  destruct (Z.eqb_spec p 0); destruct (Z.eqb_spec b 0); destruct (Z.gtb_spec b 0); destruct (Z.gtb_spec p 0); simpl; lia.
Qed.

(* the accounting state of a machine: thread counts since the last update, time of that update,
   the five totals *)
Record acc := { a_p : Z; a_b : Z; a_last : Z; a_idle : Z; a_allblk : Z; a_oneproc : Z; a_allproc : Z; a_oneblk : Z }.

(* update_state_rep(t) when the thread list now shows (np, nb) *)
Definition acc_step (a : acc) (x : Z * Z * Z) : acc :=
  let '(t, np, nb) := x in
  let el := t - a_last a in
  let add (c : bool) (v : Z) := if c then v + el else v in
  {| a_p := np; a_b := nb; a_last := t;
     a_idle := add (c_idle (a_p a) (a_b a)) (a_idle a);
     a_allblk := add (c_allblk (a_p a) (a_b a)) (a_allblk a);
     a_oneproc := add (c_oneproc (a_p a) (a_b a)) (a_oneproc a);
     a_allproc := add (c_allproc (a_p a) (a_b a)) (a_allproc a);
     a_oneblk := add (c_oneblk (a_p a) (a_b a)) (a_oneblk a) |}.

Definition acc_init (t0 : Z) : acc :=
  {| a_p := 0; a_b := 0; a_last := t0; a_idle := 0; a_allblk := 0; a_oneproc := 0; a_allproc := 0; a_oneblk := 0 |}.

Definition wf_updates (t0 : Z) (l : list (Z * Z * Z)) : Prop :=
  (fix go (last : Z) (l : list (Z * Z * Z)) : Prop :=
     match l with
     | [] => True
     | (t, p, b) :: r => last <= t /\ 0 <= p /\ 0 <= b /\ go t r
     end) t0 l.

Definition AccInv (t0 : Z) (a : acc) : Prop :=
  0 <= a_p a /\ 0 <= a_b a /\ t0 <= a_last a /\
  0 <= a_idle a /\ 0 <= a_allblk a /\ 0 <= a_oneproc a /\ 0 <= a_allproc a /\ 0 <= a_oneblk a /\
  a_idle a + a_allblk a + a_oneproc a = a_last a - t0 /\
  a_idle a + a_allproc a + a_oneblk a = a_last a - t0.

Lemma acc_step_inv t0 a t p b :
  AccInv t0 a -> a_last a <= t -> 0 <= p -> 0 <= b -> AccInv t0 (acc_step a (t, p, b)).
Proof.
  intros (Hp & Hb & Hl & H1 & H2 & H3 & H4 & H5 & SA & SB) Ht Hp' Hb'.
  pose proof (groupA_partition _ _ Hp Hb) as GA. pose proof (groupB_partition _ _ Hp Hb) as GB.
  unfold AccInv, acc_step; simpl. unfold b2z in *.
  destruct (c_idle (a_p a) (a_b a)); destruct (c_allblk (a_p a) (a_b a)); destruct (c_oneproc (a_p a) (a_b a));
    destruct (c_allproc (a_p a) (a_b a)); destruct (c_oneblk (a_p a) (a_b a)); repeat split; lia.
Qed.

(* C17 for a machine: after any sequence of updates at non-decreasing times with non-negative
   thread counts, every total is non-negative and each group adds up to the time elapsed since
   the first update (= the end of the set-up period, which is charged to SETUP) *)
Theorem machine_groups_sum t0 l :
  wf_updates t0 l ->
  let a := fold_left acc_step l (acc_init t0) in
  AccInv t0 a.
Proof.
  intros W. cbv zeta.
  assert (forall l a, AccInv t0 a ->
            (fix go (last : Z) (l : list (Z * Z * Z)) : Prop :=
               match l with [] => True | (t, p, b) :: r => last <= t /\ 0 <= p /\ 0 <= b /\ go t r end) (a_last a) l ->
            AccInv t0 (fold_left acc_step l a)) as G.
  { induction l0 as [|[[t p] b] r IH]; simpl; intros a HA HW; auto.
    destruct HW as (A & B & C & D). apply IH; [apply acc_step_inv; auto|]. simpl. exact D. }
  apply G; [|exact W]. unfold AccInv, acc_init; simpl. repeat split; lia.
Qed.

(* ------------------------------------------------------------------ Node.update_state *)
(* totals per state as a list; update_state adds the elapsed time to the current state's slot *)
Definition sumz (l : list Z) : Z := fold_right Z.add 0 l.

Lemma sumz_upd k v l : (k < length l)%nat -> sumz (upd k (fun x => x + v) l) = sumz l + v.
Proof.
  revert k; induction l as [|y l IH]; intros [|k]; simpl; intros L; try lia.
  rewrite IH by lia. lia.
Qed.

Lemma length_upd {A} k (f : A -> A) l : length (upd k f l) = length l.
Proof. revert k; induction l as [|y l IH]; intros [|k]; simpl; auto. Qed.

Lemma upd_nonneg k v l : 0 <= v -> Forall (fun x => 0 <= x) l -> Forall (fun x => 0 <= x) (upd k (fun x => x + v) l).
Proof.
  intros Hv. revert k; induction l as [|y l IH]; intros [|k] H; simpl; auto; inversion H; subst; constructor; auto. lia.
Qed.

Lemma sumz_repeat0 k : sumz (repeat 0 k) = 0.
Proof. induction k; simpl; lia. Qed.

Record nacc := { na_state : nat; na_last : Z; na_tot : list Z }.
Definition nacc_step (a : nacc) (x : Z * nat) : nacc :=
  let '(t, s) := x in
  {| na_state := s; na_last := t; na_tot := upd (na_state a) (fun v => v + (t - na_last a)) (na_tot a) |}.

Fixpoint wf_nupd (k : nat) (last : Z) (l : list (Z * nat)) : Prop :=
  match l with [] => True | (t, s) :: r => last <= t /\ (s < k)%nat /\ wf_nupd k t r end.

Theorem node_states_sum k t0 s0 l :
  (s0 < k)%nat -> wf_nupd k t0 l ->
  let a := fold_left nacc_step l {| na_state := s0; na_last := t0; na_tot := repeat 0 k |} in
  sumz (na_tot a) = na_last a - t0 /\ Forall (fun x => 0 <= x) (na_tot a).
Proof.
  intros Hs W. cbv zeta.
  assert (forall l a, (na_state a < k)%nat -> length (na_tot a) = k -> wf_nupd k (na_last a) l ->
                      sumz (na_tot a) = na_last a - t0 -> Forall (fun x => 0 <= x) (na_tot a) ->
                      let a' := fold_left nacc_step l a in
                      sumz (na_tot a') = na_last a' - t0 /\ Forall (fun x => 0 <= x) (na_tot a')) as G.
  { induction l0 as [|[t s] r IH]; simpl; intros a HS HL HW HSum HP; auto.
    destruct HW as (A & B & C). apply IH; simpl.
    - exact B.
    - rewrite length_upd; exact HL.
    - exact C.
    - rewrite sumz_upd; lia.
    - apply upd_nonneg; auto; lia. }
  apply G; simpl; auto.
  - apply repeat_length.
  - rewrite sumz_repeat0. lia.
  - clear. induction k; simpl; constructor; auto; lia.
Qed.

(* ------------------------------------------------------------------ time-averaged level (C18) *)
(* the accumulator of _update_time_averaged_level *)
Record lacc := { l_sum : Z; l_t : Z; l_n : Z }.
Definition lacc_step (a : lacc) (x : Z * Z) : lacc :=
  let '(t, n) := x in {| l_sum := l_sum a + l_n a * (t - l_t a); l_t := t; l_n := n |}.

(* the true occupancy as a function of time: the level set by the last update at or before tau *)
Fixpoint level_at (n0 : Z) (l : list (Z * Z)) (tau : Z) : Z :=
  match l with
  | [] => n0
  | (t, n) :: r => if t <=? tau then level_at n r tau else n0
  end.

(* sum of f over the unit ticks t0, t0+1, ..., t0+k-1 *)
Fixpoint tick_sum (f : Z -> Z) (t0 : Z) (k : nat) : Z :=
  match k with O => 0 | S k' => f t0 + tick_sum f (t0 + 1) k' end.

Fixpoint wf_levels (last : Z) (l : list (Z * Z)) : Prop :=
  match l with [] => True | (t, n) :: r => last <= t /\ wf_levels t r end.

Lemma tick_sum_ext f g t0 k : (forall tau, t0 <= tau < t0 + Z.of_nat k -> f tau = g tau) -> tick_sum f t0 k = tick_sum g t0 k.
Proof.
  revert t0; induction k as [|k IH]; simpl; intros t0 H; auto.
  rewrite H by lia. f_equal. apply IH. intros tau Ht. apply H. lia.
Qed.

Lemma tick_sum_const c t0 k : tick_sum (fun _ => c) t0 k = c * Z.of_nat k.
Proof. revert t0; induction k as [|k IH]; simpl; intros t0; [lia|]. rewrite IH. lia. Qed.

Lemma tick_sum_split f t0 a b : tick_sum f t0 (a + b) = tick_sum f t0 a + tick_sum f (t0 + Z.of_nat a) b.
Proof.
  revert t0; induction a as [|a IH]; simpl; intros t0.
  - f_equal. lia.
  - rewrite IH. replace (t0 + 1 + Z.of_nat a) with (t0 + Z.pos (Pos.of_succ_nat a)) by lia. lia.
Qed.

Lemma level_at_before n0 l tau last : wf_levels last l -> tau < last -> level_at n0 l tau = n0.
Proof.
  destruct l as [|[t n] r]; simpl; auto. intros (A & _) H. destruct (Z.leb_spec t tau); auto. lia.
Qed.

Lemma weighted_sum_gen l : forall a T,
  wf_levels (l_t a) l -> (forall t n, In (t, n) l -> t <= T) -> l_t a <= T ->
  let a' := fold_left lacc_step l a in
  l_sum a' + l_n a' * (T - l_t a') = l_sum a + tick_sum (level_at (l_n a) l) (l_t a) (Z.to_nat (T - l_t a)).
Proof.
  induction l as [|[t n] r IH]; intros a T W B HT; cbv zeta.
  - simpl. rewrite tick_sum_const. rewrite Z2Nat.id by lia. ring.
  - simpl in W. destruct W as (W1 & W2).
    assert (t <= T) as Ht by (apply (B t n); left; auto).
    simpl fold_left.
    specialize (IH (lacc_step a (t, n)) T). simpl in IH.
    rewrite IH; auto.
    2:{ intros t' n' H. apply (B t' n'). right; auto. }
    replace (Z.to_nat (T - l_t a)) with (Z.to_nat (t - l_t a) + Z.to_nat (T - t))%nat by lia.
    rewrite tick_sum_split.
    replace (l_t a + Z.of_nat (Z.to_nat (t - l_t a))) with t by lia.
    rewrite (tick_sum_ext (level_at (l_n a) ((t, n) :: r)) (fun _ => l_n a) (l_t a)).
    2:{ intros tau Htau. simpl. destruct (Z.leb_spec t tau); auto. lia. }
    rewrite tick_sum_const.
    rewrite (tick_sum_ext (level_at (l_n a) ((t, n) :: r)) (level_at n r) t).
    2:{ intros tau Htau. simpl. destruct (Z.leb_spec t tau); auto. lia. }
    rewrite Z2Nat.id by lia. ring.
Qed.

(* C18: after any sequence of level updates at non-decreasing integer times, and the final update
   at T, the weighted sum equals the sum over every unit tick in [t0, T) of the true level *)
Theorem weighted_sum_is_integral t0 n0 l T :
  wf_levels t0 l -> (forall t n, In (t, n) l -> t <= T) -> t0 <= T ->
  let a := fold_left lacc_step l {| l_sum := 0; l_t := t0; l_n := n0 |} in
  l_sum a + l_n a * (T - l_t a) = tick_sum (level_at n0 l) t0 (Z.to_nat (T - t0)).
Proof.
  intros W B HT. cbv zeta.
  pose proof (weighted_sum_gen l {| l_sum := 0; l_t := t0; l_n := n0 |} T W B HT) as G. simpl in G.
  rewrite G. lia.
Qed.

(* ------------------------------------------------------------------ round robin (C15) *)
