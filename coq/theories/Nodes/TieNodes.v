(* Tie B for the node processes: the ORDER of two statements in the source, regenerated as booleans by
   translator/py_to_gallina.py (slot_order): in Machine.behaviour and Combiner.behaviour the worker slot
   is requested before the first reservation on an in-edge, in Splitter.behaviour before the first
   retrieval.  The model has the same order (theories/Factory/FactorySlotFirst.v proves it for the model's
   Machine and Combiner loop heads); a source in which the order is reversed makes these lemmas fail. *)
From Coq Require Import Bool.
From FV Require Import SrcFragments.

Lemma machine_slot_before_reserve_src : Machine_slot_before_reserve = true.
Proof. reflexivity. Qed.
Lemma combiner_slot_before_reserve_src : Combiner_slot_before_reserve = true.
Proof. reflexivity. Qed.
Lemma splitter_slot_before_get_src : Splitter_slot_before_get = true.
Proof. reflexivity. Qed.
(* ... and Machine.behaviour consults its in-edge policy (self._get_in_edge_index()) only after the slot request: the policy is
   evaluated when it is acted upon (the model's machine_block draws at pc 2, the block that runs once the slot is granted) *)
Lemma machine_slot_before_index_draw_src : Machine_slot_before_index_draw = true.
Proof. reflexivity. Qed.

(* Combiner.behaviour's reservation loop: `for edge_idx in range(1, len(self.in_edges))` reads
   `self.target_quantity_of_each_item[edge_idx]` -- the model's [combiner_reserve] walks the in-edges from
   index 1 (tl (nins nd), counter starting at 1) and reads [nth_error recipe k] for in-edge k. *)
From Coq Require Import ZArith.
Lemma combiner_first_ingredient_edge_src : Combiner_first_ingredient_edge = 1%Z.
Proof. reflexivity. Qed.
Lemma combiner_recipe_index_src : forall k : Z, Combiner_recipe_index k = k.
Proof. intros k. reflexivity. Qed.

(* The Buffer and Fleet edge classes only delegate: each of reserve_put / reserve_get / put / get / reserve_put_cancel /
   reserve_get_cancel touches the store through exactly one call of the store's method of the same name and assigns nothing on it
   (regenerated from edges/buffer.py and edges/fleet.py) -- the edge objects of the model ARE their stores. *)
Lemma buffer_reserve_put_delegates_src : Buffer_reserve_put_delegates = true.
Proof. reflexivity. Qed.
Lemma buffer_reserve_get_delegates_src : Buffer_reserve_get_delegates = true.
Proof. reflexivity. Qed.
Lemma buffer_put_delegates_src : Buffer_put_delegates = true.
Proof. reflexivity. Qed.
Lemma buffer_get_delegates_src : Buffer_get_delegates = true.
Proof. reflexivity. Qed.
Lemma buffer_reserve_put_cancel_delegates_src : Buffer_reserve_put_cancel_delegates = true.
Proof. reflexivity. Qed.
Lemma buffer_reserve_get_cancel_delegates_src : Buffer_reserve_get_cancel_delegates = true.
Proof. reflexivity. Qed.
Lemma fleet_reserve_put_delegates_src : Fleet_reserve_put_delegates = true.
Proof. reflexivity. Qed.
Lemma fleet_reserve_get_delegates_src : Fleet_reserve_get_delegates = true.
Proof. reflexivity. Qed.
Lemma fleet_put_delegates_src : Fleet_put_delegates = true.
Proof. reflexivity. Qed.
Lemma fleet_get_delegates_src : Fleet_get_delegates = true.
Proof. reflexivity. Qed.
Lemma fleet_reserve_put_cancel_delegates_src : Fleet_reserve_put_cancel_delegates = true.
Proof. reflexivity. Qed.
Lemma fleet_reserve_get_cancel_delegates_src : Fleet_reserve_get_cancel_delegates = true.
Proof. reflexivity. Qed.

(* The push helpers (_push_item of Source, Machine, Splitter, Combiner), regenerated shape: in every branch exactly
   `token = edge.reserve_put(); yield token; edge.put(token, <the item passed in>)` -- no probe, no cancellation, no other item, no
   early return.  The model's push process (Factory.push_block) is reserve / wait / put of the item it was started with. *)
Lemma source_push_item_shape_src : Source_push_item_shape = true.
Proof. reflexivity. Qed.
Lemma machine_push_item_shape_src : Machine_push_item_shape = true.
Proof. reflexivity. Qed.
Lemma splitter_push_item_shape_src : Splitter_push_item_shape = true.
Proof. reflexivity. Qed.
Lemma combiner_push_item_shape_src : Combiner_push_item_shape = true.
Proof. reflexivity. Qed.

(* Node.get_delay and Edge.get_delay advance the delay source exactly once per call (a generator by one next(), a callable by one
   call, a constant not at all): the model's [draw_delay] moves the node's delay stream by one position per draw *)
Lemma node_get_delay_draws_src : forall k, Node_get_delay_draws k = (match k with DConst => 0 | _ => 1 end)%nat.
Proof. intros [| |]; reflexivity. Qed.
Lemma edge_get_delay_draws_src : forall k, Edge_get_delay_draws k = (match k with DConst => 0 | _ => 1 end)%nat.
Proof. intros [| |]; reflexivity. Qed.

(* the queries (can_put / can_get / occupancy / the two list accessors) and the statistics refreshes of the Buffer and Fleet
   edges only OBSERVE the store: no attribute of the store other than the four level-statistics fields is assigned, no method of the
   store other than its level-statistics update is called, and neither a list of the store nor a local name bound to one is
   updated in place.  The model's queries are functions of the store state; a refresh at any point of a history changes nothing
   the model keeps (op FINAL of the fleet harness). *)
Lemma buffer_observers_src :
  Buffer_can_put_observes = true /\ Buffer_can_get_observes = true /\ Buffer_occupancy_observes = true /\
  Buffer_ready_items_observes = true /\ Buffer_items_observes = true /\
  Buffer_update_final_buffer_avg_content_observes = true /\ Buffer_buffer_stats_collector_observes = true.
Proof. repeat split; reflexivity. Qed.
Lemma fleet_observers_src :
  Fleet_can_put_observes = true /\ Fleet_can_get_observes = true /\ Fleet_get_occupancy_observes = true /\
  Fleet_get_ready_items_observes = true /\ Fleet_get_items_observes = true /\
  Fleet_update_final_fleet_avg_content_observes = true /\ Fleet_fleet_stats_collector_observes = true.
Proof. repeat split; reflexivity. Qed.
