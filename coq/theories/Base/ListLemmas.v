(* Generic list helpers shared by all store models. Stdlib only. *)
From Coq Require Import List Arith Lia Bool Permutation.
Import ListNotations.

Fixpoint remove_first {A} (f : A -> bool) (l : list A) : list A :=
  match l with [] => [] | x :: l' => if f x then l' else x :: remove_first f l' end.

Fixpoint index_where {A} (f : A -> bool) (l : list A) : option nat :=
  match l with
  | [] => None
  | x :: l' => if f x then Some 0 else option_map S (index_where f l')
  end.

Fixpoint remove_nth {A} (n : nat) (l : list A) : list A :=
  match l, n with [], _ => [] | _ :: l', 0 => l' | x :: l', S n' => x :: remove_nth n' l' end.

(* Python list.insert: an index past the end appends *)
Fixpoint insert_at {A} (n : nat) (a : A) (l : list A) : list A :=
  match n, l with 0, _ => a :: l | S n', [] => [a] | S n', x :: l' => x :: insert_at n' a l' end.

(* split a list at the first element satisfying f *)
Fixpoint split_first {A} (f : A -> bool) (l : list A) : option (list A * A * list A) :=
  match l with
  | [] => None
  | x :: l' => if f x then Some ([], x, l')
               else match split_first f l' with
                    | Some (a, y, b) => Some (x :: a, y, b)
                    | None => None
                    end
  end.

Lemma remove_first_len {A} (f : A -> bool) l : length (remove_first f l) <= length l.
Proof. induction l as [|x l IH]; simpl; [lia|]. destruct (f x); simpl; lia. Qed.

Lemma remove_first_len_ex {A} (f : A -> bool) l :
  existsb f l = true -> S (length (remove_first f l)) = length l.
Proof.
  induction l as [|x l IH]; simpl; [discriminate|].
  destruct (f x); simpl; intros H; [reflexivity|]. rewrite IH; auto.
Qed.

Lemma remove_first_none {A} (f : A -> bool) l : existsb f l = false -> remove_first f l = l.
Proof.
  induction l as [|x l IH]; simpl; auto. destruct (f x); simpl; [discriminate|].
  intros H. rewrite IH; auto.
Qed.

Lemma remove_first_incl {A} (f : A -> bool) l x : In x (remove_first f l) -> In x l.
Proof.
  induction l as [|y l IH]; simpl; auto. destruct (f y); simpl; intuition.
Qed.

Lemma remove_nth_len {A} n (l : list A) : length (remove_nth n l) <= length l.
Proof. revert n; induction l as [|x l IH]; intros [|n]; simpl; try lia. specialize (IH n); lia. Qed.

Lemma remove_nth_len_lt {A} n (l : list A) : n < length l -> S (length (remove_nth n l)) = length l.
Proof. revert n; induction l as [|x l IH]; intros [|n]; simpl; try lia. intros H. rewrite IH; lia. Qed.

Lemma remove_nth_incl {A} n (l : list A) x : In x (remove_nth n l) -> In x l.
Proof.
  revert n; induction l as [|y l IH]; intros [|n]; simpl; auto. intros [H|H]; auto. right; eauto.
Qed.

Lemma insert_at_len {A} n (a : A) l : length (insert_at n a l) = S (length l).
Proof. revert l; induction n as [|n IH]; intros [|x l]; simpl; auto. Qed.

Lemma insert_at_perm {A} n (a : A) l : Permutation (insert_at n a l) (a :: l).
Proof.
  revert l; induction n as [|n IH]; intros [|x l]; simpl; auto.
  rewrite IH. apply perm_swap.
Qed.

Lemma remove_nth_perm {A} n (l : list A) d :
  n < length l -> Permutation l (nth n l d :: remove_nth n l).
Proof.
  revert n; induction l as [|x l IH]; intros [|n]; simpl; try lia; auto.
  intros H. rewrite (IH n) at 1 by lia. apply perm_swap.
Qed.

Lemma index_where_lt {A} (f : A -> bool) l i : index_where f l = Some i -> i < length l.
Proof.
  revert i; induction l as [|x l IH]; simpl; intros i; [discriminate|].
  destruct (f x); [intros [= <-]; lia|]. destruct (index_where f l); simpl; [|discriminate].
  intros [= <-]. specialize (IH _ eq_refl). lia.
Qed.

Lemma index_where_some {A} (f : A -> bool) l :
  existsb f l = true -> exists i, index_where f l = Some i.
Proof.
  induction l as [|x l IH]; simpl; [discriminate|]. destruct (f x); simpl; eauto.
  intros H. destruct (IH H) as [i ->]. simpl; eauto.
Qed.

Lemma index_where_none {A} (f : A -> bool) l :
  existsb f l = false -> index_where f l = None.
Proof.
  induction l as [|x l IH]; simpl; auto. destruct (f x); simpl; [discriminate|].
  intros H. rewrite IH; auto.
Qed.

Lemma index_where_nth {A} (f : A -> bool) l i d :
  index_where f l = Some i -> f (nth i l d) = true.
Proof.
  revert i; induction l as [|x l IH]; simpl; intros i; [discriminate|].
  destruct (f x) eqn:E; [intros [= <-]; auto|].
  destruct (index_where f l); simpl; [|discriminate]. intros [= <-]. auto.
Qed.

Lemma index_where_first {A} (f : A -> bool) l i d j :
  index_where f l = Some i -> j < i -> f (nth j l d) = false.
Proof.
  revert i j; induction l as [|x l IH]; simpl; intros i j; [discriminate|].
  destruct (f x) eqn:E; [intros [= <-]; lia|].
  destruct (index_where f l); simpl; [|discriminate]. intros [= <-] Hj.
  destruct j; auto. apply IH with (i := n); auto. lia.
Qed.

Lemma remove_first_is_remove_nth {A} (f : A -> bool) l i :
  index_where f l = Some i -> remove_first f l = remove_nth i l.
Proof.
  revert i; induction l as [|x l IH]; simpl; intros i; [discriminate|].
  destruct (f x); [intros [= <-]; auto|].
  destruct (index_where f l) as [n|]; simpl; [|discriminate]. intros [= <-].
  simpl. f_equal. apply IH. reflexivity.
Qed.

Lemma split_first_spec {A} (f : A -> bool) l a x b :
  split_first f l = Some (a, x, b) ->
  l = a ++ x :: b /\ f x = true /\ forallb (fun y => negb (f y)) a = true.
Proof.
  revert a x b; induction l as [|y l IH]; simpl; intros a x b; [discriminate|].
  destruct (f y) eqn:E.
  - intros [= <- <- <-]. auto.
  - destruct (split_first f l) as [[[a' x'] b']|]; [|discriminate].
    intros [= <- <- <-]. destruct (IH _ _ _ eq_refl) as (-> & ? & ?).
    simpl. rewrite E. auto.
Qed.

Lemma split_first_none {A} (f : A -> bool) l :
  split_first f l = None -> existsb f l = false.
Proof.
  induction l as [|y l IH]; simpl; auto. destruct (f y); [discriminate|].
  destruct (split_first f l) as [[[a x] b]|]; [discriminate|]. auto.
Qed.

Lemma split_first_some {A} (f : A -> bool) l :
  existsb f l = true -> exists a x b, split_first f l = Some (a, x, b).
Proof.
  induction l as [|y l IH]; simpl; [discriminate|]. destruct (f y); simpl; eauto.
  intros H. destruct (IH H) as (a & x & b & ->). eauto.
Qed.

Lemma firstn_skipn_len {A} n (l : list A) : n <= length l -> length (firstn n l) = n.
Proof. intros. rewrite firstn_length. lia. Qed.
