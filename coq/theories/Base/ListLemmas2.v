(* More list helpers: decompositions, NoDup / incl facts, sortedness of keyed queues. Stdlib only. *)
From Coq Require Import List Arith Lia Bool Permutation ZArith.
From FV Require Import ListLemmas.
Import ListNotations.

Lemma nth_error_decomp {A} (l : list A) i x :
  nth_error l i = Some x ->
  exists a b, l = a ++ x :: b /\ length a = i /\ remove_nth i l = a ++ b.
Proof.
  revert i; induction l as [|y l IH]; intros [|i]; simpl; try discriminate.
  - intros [= ->]. exists [], l. auto.
  - intros H. destruct (IH _ H) as (a & b & -> & <- & E).
    exists (y :: a), b. simpl. rewrite E. auto.
Qed.

Lemma remove_first_decomp {A} (f : A -> bool) l :
  existsb f l = true ->
  exists a x b, l = a ++ x :: b /\ f x = true /\ remove_first f l = a ++ b /\
                forallb (fun y => negb (f y)) a = true.
Proof.
  induction l as [|y l IH]; simpl; [discriminate|].
  destruct (f y) eqn:E; simpl.
  - intros _. exists [], y, l. auto.
  - intros H. destruct (IH H) as (a & x & b & -> & ? & -> & ?).
    exists (y :: a), x, b. simpl. rewrite E. auto.
Qed.

Lemma map_remove_nth {A B} (g : A -> B) i l : map g (remove_nth i l) = remove_nth i (map g l).
Proof. revert i; induction l as [|x l IH]; intros [|i]; simpl; auto. f_equal; auto. Qed.

Lemma nth_error_lt' {A} (l : list A) i x : nth_error l i = Some x -> i < length l.
Proof. intros H. apply nth_error_Some. congruence. Qed.

Lemma existsb_eqb_In l x : existsb (Nat.eqb x) l = true <-> In x l.
Proof.
  rewrite existsb_exists. split.
  - intros (y & Hy & E). apply Nat.eqb_eq in E. subst; auto.
  - intros H. exists x. split; auto. apply Nat.eqb_refl.
Qed.

Lemma existsb_eqb_nIn l x : existsb (Nat.eqb x) l = false <-> ~ In x l.
Proof.
  rewrite <- existsb_eqb_In. destruct (existsb (Nat.eqb x) l); intuition congruence.
Qed.

Lemma filter_nil_all {A} (f : A -> bool) l : filter f l = [] -> forall x, In x l -> f x = false.
Proof.
  induction l as [|y l IH]; simpl; [tauto|]. destruct (f y) eqn:E; [discriminate|].
  intros H x [<-|Hx]; auto.
Qed.

Lemma hd_error_In {A} (l : list A) x : hd_error l = Some x -> In x l.
Proof. destruct l; simpl; [discriminate|]. intros [= ->]. auto. Qed.

Lemma hd_error_none {A} (l : list A) : hd_error l = None -> l = [].
Proof. destruct l; simpl; auto; discriminate. Qed.

(* pigeonhole: a duplicate-free list strictly longer than a list it does not fit into *)
Lemma NoDup_incl_lt_ex (l r : list nat) :
  NoDup l -> length r < length l -> exists x, In x l /\ ~ In x r.
Proof.
  intros ND L.
  destruct (filter (fun x => negb (existsb (Nat.eqb x) r)) l) as [|x f] eqn:E.
  - exfalso. assert (incl l r).
    { intros x Hx. pose proof (filter_nil_all _ _ E x Hx) as H. apply negb_false_iff in H.
      apply existsb_eqb_In in H. exact H. }
    pose proof (NoDup_incl_length ND H). lia.
  - assert (In x (filter (fun x => negb (existsb (Nat.eqb x) r)) l)) as H by (rewrite E; left; auto).
    apply filter_In in H as (H1 & H2). apply negb_true_iff, existsb_eqb_nIn in H2. eauto.
Qed.

Lemma NoDup_app_l {A} (a b : list A) : NoDup (a ++ b) -> NoDup a.
Proof. induction a as [|x a IH]; simpl; intros H; [constructor|]. inversion H; subst. constructor; auto. intro; apply H2, in_or_app; auto. Qed.

Lemma NoDup_app_r {A} (a b : list A) : NoDup (a ++ b) -> NoDup b.
Proof. induction a as [|x a IH]; simpl; auto. intros H. inversion H; auto. Qed.

Lemma NoDup_app_disj {A} (a b : list A) x : NoDup (a ++ b) -> In x a -> In x b -> False.
Proof.
  induction a as [|y a IH]; simpl; [tauto|]. intros H [->|Ha] Hb.
  - inversion H; subst. apply H2, in_or_app; auto.
  - inversion H; subst. eauto.
Qed.

Lemma NoDup_app_intro {A} (a b : list A) :
  NoDup a -> NoDup b -> (forall x, In x a -> In x b -> False) -> NoDup (a ++ b).
Proof.
  induction a as [|y a IH]; simpl; auto. intros Ha Hb D. inversion Ha; subst.
  constructor.
  - intros H. apply in_app_or in H as [H|H]; eauto.
  - apply IH; eauto.
Qed.

Lemma NoDup_snoc {A} (l : list A) x : NoDup l -> ~ In x l -> NoDup (l ++ [x]).
Proof.
  intros. apply NoDup_app_intro; auto. repeat constructor; simpl; tauto.
  intros y Hy [<-|[]]. tauto.
Qed.

Lemma NoDup_remove_nth {A} i (l : list A) : NoDup l -> NoDup (remove_nth i l).
Proof.
  revert i; induction l as [|x l IH]; intros [|i] H; simpl; auto; inversion H; subst; auto.
  constructor; auto. intros Hx. apply remove_nth_incl in Hx. tauto.
Qed.

Lemma NoDup_remove_first {A} (f : A -> bool) l : NoDup l -> NoDup (remove_first f l).
Proof.
  induction l as [|x l IH]; simpl; auto. intros H. inversion H; subst.
  destruct (f x); auto. constructor; auto. intros Hx. apply remove_first_incl in Hx. tauto.
Qed.

Lemma remove_nth_not_in {A} i (l : list A) x :
  NoDup l -> nth_error l i = Some x -> ~ In x (remove_nth i l).
Proof.
  intros ND H. destruct (nth_error_decomp _ _ _ H) as (a & b & -> & _ & ->).
  apply NoDup_remove_2 in ND. exact ND.
Qed.

Lemma in_remove_first_neq l x y : In y l -> y <> x -> In y (remove_first (Nat.eqb x) l).
Proof.
  induction l as [|z l IH]; simpl; auto. intros [->|H] N.
  - destruct (Nat.eqb_spec x y); [congruence|]. left; auto.
  - destruct (Nat.eqb x z); auto. right; auto.
Qed.

Lemma remove_first_eqb_not_in l x : NoDup l -> ~ In x (remove_first (Nat.eqb x) l).
Proof.
  induction l as [|z l IH]; simpl; auto. intros H. inversion H; subst.
  destruct (Nat.eqb_spec x z); [subst; auto|]. simpl. intros [E|E]; [congruence|]. tauto.
Qed.

Lemma remove_first_perm {A} (f : A -> bool) l :
  existsb f l = true -> exists x, f x = true /\ Permutation l (x :: remove_first f l).
Proof.
  intros H. destruct (remove_first_decomp f l H) as (a & x & b & -> & Fx & -> & _).
  exists x. split; auto. symmetry. apply Permutation_middle.
Qed.

Lemma remove_first_eqb_perm l x : In x l -> Permutation l (x :: remove_first (Nat.eqb x) l).
Proof.
  intros H. apply existsb_eqb_In in H. destruct (remove_first_perm _ _ H) as (y & E & P).
  apply Nat.eqb_eq in E. subst. exact P.
Qed.

Lemma incl_app_l {A} (a b c : list A) : incl a c -> incl b c -> incl (a ++ b) c.
Proof. intros; apply incl_app; auto. Qed.

Lemma In_hd_error_some {A} (l : list A) x : In x l -> exists y, hd_error l = Some y.
Proof. destruct l; simpl; [tauto|eauto]. Qed.
