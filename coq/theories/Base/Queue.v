(* Priority request queues shared by all store models: `q.append(r); q.sort(key=prio)` with a
   stable sort is insertion behind every request whose priority is <= the new one.  The service
   key is (priority, arrival number); tokens are allocated in arrival order, so the token number
   is the arrival number. *)
From Coq Require Import List ZArith Lia Bool Arith Sorted.
From FV Require Import ListLemmas.
Import ListNotations.

Section Q.
  Context {A : Type} (prio : A -> Z) (tk : A -> nat).

  Fixpoint gins (r : A) (q : list A) : list A :=
    match q with
    | [] => [r]
    | x :: q' => if (prio r <? prio x)%Z then r :: q else x :: gins r q'
    end.

  (* strict service order: lower priority value first, then earlier arrival *)
  Definition klt (a b : A) : Prop :=
    (prio a < prio b)%Z \/ (prio a = prio b /\ tk a < tk b).

  Definition qsorted (q : list A) : Prop := StronglySorted klt q.
  Definition below (n : nat) (q : list A) : Prop := Forall (fun x => tk x < n) q.

  Lemma klt_trans a b c : klt a b -> klt b c -> klt a c.
  Proof. unfold klt. intros [H|[H1 H2]] [K|[K1 K2]]; [left|left|left|right]; lia. Qed.

  Lemma gins_in r q x : In x (gins r q) <-> x = r \/ In x q.
  Proof.
    induction q as [|y q IH]; simpl; [intuition|].
    destruct (prio r <? prio y)%Z; simpl; rewrite ?IH; intuition.
  Qed.

  Lemma gins_length r q : length (gins r q) = S (length q).
  Proof. induction q as [|y q IH]; simpl; auto. destruct (prio r <? prio y)%Z; simpl; auto. Qed.

  Lemma gins_sorted r q n :
    qsorted q -> below n q -> n <= tk r -> qsorted (gins r q).
  Proof.
    unfold qsorted, below. induction q as [|y q IH]; simpl; intros S B L.
    - repeat constructor.
    - inversion S as [|? ? S' F]; subst. inversion B as [|? ? By B']; subst.
      destruct (Z.ltb_spec (prio r) (prio y)).
      + constructor; auto. constructor.
        * left; auto.
        * rewrite Forall_forall in *. intros x Hx. eapply klt_trans; [left; eassumption|]. auto.
      + constructor; auto. rewrite Forall_forall in *. intros x Hx.
        apply gins_in in Hx as [->|Hx]; auto.
        unfold klt. destruct (Z.eq_dec (prio y) (prio r)); [right; split; auto; lia | left; lia].
  Qed.

  Lemma gins_below r q n : below n q -> tk r < n -> below n (gins r q).
  Proof.
    unfold below. rewrite !Forall_forall. intros B L x Hx. apply gins_in in Hx as [->|Hx]; auto.
  Qed.

  Lemma below_mono n m q : n <= m -> below n q -> below m q.
  Proof. unfold below. rewrite !Forall_forall. intros L B x Hx. specialize (B x Hx). lia. Qed.

  Lemma remove_first_sorted f q : qsorted q -> qsorted (remove_first f q).
  Proof.
    unfold qsorted. induction q as [|y q IH]; simpl; auto. intros S.
    inversion S as [|? ? S' F]; subst. destruct (f y); auto.
    constructor; auto. rewrite Forall_forall in *. intros x Hx. apply F. eapply remove_first_incl; eauto.
  Qed.

  Lemma remove_first_below f q n : below n q -> below n (remove_first f q).
  Proof.
    unfold below. rewrite !Forall_forall. intros B x Hx. apply B. eapply remove_first_incl; eauto.
  Qed.

  Lemma sorted_tail x q : qsorted (x :: q) -> qsorted q.
  Proof. intros S. inversion S; auto. Qed.

  (* the head of a sorted queue is the strict minimum of the service order *)
  Lemma sorted_head_min x q y : qsorted (x :: q) -> In y q -> klt x y.
  Proof. intros S H. inversion S as [|? ? _ F]; subst. rewrite Forall_forall in F. auto. Qed.

  Lemma below_tail n x q : below n (x :: q) -> below n q.
  Proof. intros B. inversion B; auto. Qed.

  (* the service order is a strict total order on requests with distinct arrival numbers *)
  Lemma klt_irrefl a : ~ klt a a.
  Proof. unfold klt. lia. Qed.

  Lemma klt_total a b : tk a <> tk b -> klt a b \/ klt b a.
  Proof. unfold klt. intros. destruct (Z.lt_trichotomy (prio a) (prio b)) as [|[|]]; lia. Qed.
End Q.
