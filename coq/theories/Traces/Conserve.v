(* A verified monitor for C03 (flow items are conserved across the factory).
   [accept] replays a trace of item movements and fails as soon as an item is moved from a place
   where it is not; acceptance of a trace implies, for every prefix, that each generated item is
   in exactly one place and the counting equation of C03 holds.  The check runs the extracted
   monitor on the implementation's trace and on the model's trace of every explored factory. *)
From Coq Require Import List ZArith Lia Bool Arith.
From FV Require Import ListLemmas Kernel World.
Import ListNotations.
Local Open Scope nat_scope.

Inductive place := PSrc (n : nat) | PEdge (e : nat) | PNode (n : nat) | PPal (p : nat) | PDisc (n : nat) | PRecv (n : nat).

Definition place_eqb (a b : place) : bool :=
  match a, b with
  | PSrc x, PSrc y | PEdge x, PEdge y | PNode x, PNode y | PPal x, PPal y | PDisc x, PDisc y | PRecv x, PRecv y => Nat.eqb x y
  | _, _ => false
  end.

(* the place map: one entry per generated item, newest first *)
Definition pmap := list (nat * place).

Fixpoint lookup (m : pmap) (i : nat) : option place :=
  match m with [] => None | (j, p) :: r => if Nat.eqb j i then Some p else lookup r i end.
Fixpoint setp (m : pmap) (i : nat) (p : place) : pmap :=
  match m with [] => [] | (j, q) :: r => if Nat.eqb j i then (j, p) :: r else (j, q) :: setp r i p end.

Section Monitor.
  Variable esrc : nat -> nat.      (* source node of an edge *)
  Variable is_sink : nat -> bool.

  (* where may the item be when it is put on edge e: held by the edge's source node, still at a
     source, or inside a pallet held by that node (splitter unpacking) *)
  Definition may_put (m : pmap) (e i : nat) : bool :=
    match lookup m i with
    | Some (PSrc n) | Some (PNode n) => Nat.eqb n (esrc e)
    | Some (PPal p) => match lookup m p with Some (PNode n) => Nat.eqb n (esrc e) | _ => false end
    | _ => false
    end.

  Definition mstep (m : pmap) (ev : tev) : option pmap :=
    match ev with
    | LGen _ n i => match lookup m i with None => Some ((i, PSrc n) :: m) | Some _ => None end
    | LPut _ e i => if may_put m e i then Some (setp m i (PEdge e)) else None
    | LGet _ e i n => match lookup m i with
                      | Some (PEdge e') => if Nat.eqb e e' then Some (setp m i (PNode n)) else None
                      | _ => None
                      end
    | LPack _ n pal i => match lookup m i, lookup m pal with
                         | Some (PNode a), Some (PNode b) => if Nat.eqb a n && Nat.eqb b n then Some (setp m i (PPal pal)) else None
                         | _, _ => None
                         end
    | LDiscard _ n i => match lookup m i with
                        | Some (PSrc a) | Some (PNode a) => if Nat.eqb a n then Some (setp m i (PDisc n)) else None
                        | Some (PPal p) => match lookup m p with
                                           | Some (PNode a) => if Nat.eqb a n then Some (setp m i (PDisc n)) else None
                                           | _ => None
                                           end
                        | _ => None
                        end
    | LRecv _ n i _ => match lookup m i with
                     | Some (PNode a) => if Nat.eqb a n then Some (setp m i (PRecv n)) else None
                     | _ => None
                     end
    | LSel _ _ _ | LDraw _ _ _ => Some m
    end.

  Fixpoint accept (m : pmap) (l : list tev) : option pmap :=
    match l with [] => Some m | ev :: r => match mstep m ev with Some m' => accept m' r | None => None end end.

  (* ---------------------------------------------------------------- what acceptance means *)
  Definition is_src p := match p with PSrc _ => true | _ => false end.
  Definition is_edge p := match p with PEdge _ => true | _ => false end.
  Definition is_node p := match p with PNode _ => true | _ => false end.
  Definition is_pal p := match p with PPal _ => true | _ => false end.
  Definition is_disc p := match p with PDisc _ => true | _ => false end.
  Definition is_recv p := match p with PRecv _ => true | _ => false end.
  Definition cnt (f : place -> bool) (m : pmap) : nat := length (filter (fun x => f (snd x)) m).

  Lemma setp_keys m i p : map fst (setp m i p) = map fst m.
  Proof. induction m as [|[j q] r IH]; simpl; auto. destruct (Nat.eqb j i); simpl; congruence. Qed.

  Lemma lookup_none_notin m i : lookup m i = None -> ~ In i (map fst m).
  Proof.
    induction m as [|[j q] r IH]; simpl; auto. destruct (Nat.eqb_spec j i); [discriminate|].
    intros H [E|E]; [congruence|]. apply IH; auto.
  Qed.

  Lemma mstep_keys m ev m' : mstep m ev = Some m' -> NoDup (map fst m) -> NoDup (map fst m').
  Proof.
    destruct ev; simpl; intros E ND;
      repeat match type of E with
             | context [match ?x with _ => _ end] => destruct x eqn:?; try discriminate
             end; inversion E; subst; rewrite ?setp_keys; auto.
    simpl. constructor; auto. apply lookup_none_notin; auto.
  Qed.

  (* every entry has exactly one place (the map is a function) and the six categories partition it *)
  Lemma partition_count m :
    length m = cnt is_src m + cnt is_edge m + cnt is_node m + cnt is_pal m + cnt is_disc m + cnt is_recv m.
  Proof.
    unfold cnt. induction m as [|[j p] r IH]; simpl; auto. destruct p; simpl; lia.
  Qed.

  (* number of LGen events of a trace *)
  Definition gens (l : list tev) : nat := length (filter (fun e => match e with LGen _ _ _ => true | _ => false end) l).

  Lemma mstep_len m ev m' : mstep m ev = Some m' ->
    length m' = length m + match ev with LGen _ _ _ => 1 | _ => 0 end.
  Proof.
    assert (forall m i p, length (setp m i p) = length m) as SL.
    { induction m0 as [|[j q] r IH]; simpl; auto. intros i p. destruct (Nat.eqb j i); simpl; auto. }
    destruct ev; simpl; intros E;
      repeat match type of E with
             | context [match ?x with _ => _ end] => destruct x eqn:?; try discriminate
             end; inversion E; subst; rewrite ?SL; simpl; lia.
  Qed.

  (* C03: if the monitor accepts a trace then after it -- and, the monitor being prefix-closed,
     after every prefix -- every generated item has exactly one place and
     generated = at sources + in edges + in nodes + packed + discarded + received *)
  Theorem accept_conservation l : forall m m',
    accept m l = Some m' -> NoDup (map fst m) ->
    NoDup (map fst m') /\ length m' = length m + gens l /\
    length m' = cnt is_src m' + cnt is_edge m' + cnt is_node m' + cnt is_pal m' + cnt is_disc m' + cnt is_recv m'.
  Proof.
    induction l as [|ev r IH]; simpl; intros m m' E ND.
    - inversion E; subst. split; auto. split; [unfold gens; simpl; lia|apply partition_count].
    - destruct (mstep m ev) as [m1|] eqn:E1; [|discriminate].
      destruct (IH _ _ E (mstep_keys _ _ _ E1 ND)) as (A & B & C). split; auto. split; auto.
      rewrite B, (mstep_len _ _ _ E1). unfold gens. simpl. destruct ev; simpl; lia.
  Qed.

  Theorem accept_prefix l1 l2 m m' : accept m (l1 ++ l2) = Some m' -> exists m1, accept m l1 = Some m1.
  Proof.
    revert m. induction l1 as [|ev r IH]; simpl; intros m E; eauto.
    destruct (mstep m ev); [eauto|discriminate].
  Qed.
End Monitor.
