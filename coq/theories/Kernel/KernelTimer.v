(* The timer contract of the kernel model (L0): an event created by [timeout k d] is processed exactly d after its creation,
   whatever kernel operations happen in between -- nothing can schedule it a second time (it is born triggered, and every
   scheduling primitive other than [timeout] itself acts on an untriggered or on a fresh event), its one queue entry carries the
   time now + d, the clock never passes that time while the entry is queued (queue invariant), and popping the entry sets the
   clock to exactly that time.  This is the "an event is processed at its scheduled time" condition the timed edge models
   (TBuffer, TFleet, TBelt) take as the legality condition of their timer steps. *)
From Coq Require Import List ZArith Lia Bool Arith.
From FV Require Import Kernel.
Import ListNotations.
Open Scope Z_scope.

(* e is an existing, triggered event all of whose queue entries are due at T *)
Definition Armed (k : kern) (e : nat) (T : Z) : Prop :=
  (e < length (evs k))%nat /\ e_trig (get_ev k e) = true /\
  (forall x, In x (queue k) -> q_ev x = e -> q_time x = T).
Definition Queued (k : kern) (e : nat) : Prop := exists x, In x (queue k) /\ q_ev x = e.

Lemma upd_length {A} n (f : A -> A) l : length (upd n f l) = length l.
Proof. revert n; induction l as [|x l IH]; intros [|n]; simpl; auto. Qed.
Lemma nth_upd_neq {A} n m (f : A -> A) l d : n <> m -> nth m (upd n f l) d = nth m l d.
Proof. revert n m; induction l as [|x l IH]; intros [|n] [|m] H; simpl; auto; try congruence. Qed.
Lemma nth_upd_same {A} n (f : A -> A) l d : (n < length l)%nat -> nth n (upd n f l) d = f (nth n l d).
Proof. revert n; induction l as [|x l IH]; intros [|n] H; simpl in *; try lia; auto. apply IH. lia. Qed.

Lemma armed_new_event k e T : Armed k e T -> Armed (fst (new_event k)) e T.
Proof.
  intros (L & Tr & Q). unfold new_event, Armed, get_ev. cbn. rewrite app_length. repeat split; [lia| |exact Q].
  rewrite app_nth1 by exact L. exact Tr.
Qed.
Lemma armed_mark_trig k e T e' : Armed k e T -> Armed (mark_trig k e') e T.
Proof.
  intros (L & Tr & Q). unfold mark_trig, Armed, get_ev in *. cbn. rewrite upd_length. repeat split; auto.
  destruct (Nat.eq_dec e' e) as [->|N]; [rewrite nth_upd_same by exact L; reflexivity|rewrite nth_upd_neq by exact N; exact Tr].
Qed.
Lemma armed_add_cb k e T e' c : Armed k e T -> Armed (add_cb k e' c) e T.
Proof.
  intros (L & Tr & Q). unfold add_cb, Armed, get_ev in *. cbn. rewrite upd_length. repeat split; auto.
  destruct (Nat.eq_dec e' e) as [->|N]; [rewrite nth_upd_same by exact L; exact Tr|rewrite nth_upd_neq by exact N; exact Tr].
Qed.
Lemma armed_schedule k e T e' p d : e' <> e -> Armed k e T -> Armed (schedule k e' p d) e T.
Proof.
  intros N (L & Tr & Q). unfold schedule, Armed, get_ev in *. cbn. repeat split; auto.
  intros x Hx Ex. apply qins_in in Hx. destruct Hx as [->|Hx]; [cbn in Ex; congruence|auto].
Qed.
Lemma armed_succeed k e T e' k' : succeed k e' = Some k' -> Armed k e T -> Armed k' e T.
Proof.
  unfold succeed. intros S A. destruct (e_trig (get_ev k e')) eqn:E; [discriminate|]. injection S as <-.
  assert (e' <> e) by (intros ->; destruct A as (_ & Tr & _); congruence).
  apply armed_schedule; [assumption|]. apply armed_mark_trig. exact A.
Qed.
Lemma armed_timeout k e T d : Armed k e T -> Armed (fst (timeout k d)) e T.
Proof.
  intros A. unfold timeout. cbn. apply armed_schedule; [destruct A as (L & _); lia|].
  apply armed_mark_trig. apply (armed_new_event k e T A).
Qed.
Lemma armed_check k e T c : Armed k e T -> Armed (check k c) e T.
Proof.
  intros A. unfold check. destruct (e_trig (get_ev k c)) eqn:E; [exact A|].
  assert (c <> e) by (intros ->; destruct A as (_ & Tr & _); congruence).
  apply armed_schedule; [assumption|]. apply armed_mark_trig. exact A.
Qed.
Lemma armed_any_of k e T es : Armed k e T -> Armed (fst (any_of k es)) e T.
Proof.
  intros A. unfold any_of. cbn. set (c := length (evs k)).
  assert (A1 : Armed (fst (new_event k)) e T) by (apply armed_new_event; exact A).
  destruct es as [|e0 es]; cbn [fst].
  - apply armed_schedule; [destruct A as (L & _); unfold c; lia|]. apply armed_mark_trig. exact A1.
  - set (k1 := set_evs k (evs k ++ [ev0])) in *. change (fst (new_event k)) with k1 in A1.
    generalize (e0 :: es). intros l. revert A1. generalize k1. clear.
    induction l as [|x l IH]; intros k1 A1; simpl; [exact A1|]. apply IH.
    destruct (e_proc (get_ev k1 x)); [apply armed_check|apply armed_add_cb]; exact A1.
Qed.
Lemma armed_res_trig_put k e T r k' r' : res_trig_put k r = Some (k', r') -> Armed k e T -> Armed k' e T.
Proof.
  unfold res_trig_put. destruct (r_putq r) as [|q rest]; [intros [= <- _]; auto|].
  destruct (_ <? _)%nat; [|intros [= <- _]; auto]. destruct (succeed k q) as [k2|] eqn:S; [|discriminate].
  intros [= <- _] A. eapply armed_succeed; eauto.
Qed.
Lemma armed_res_trig_get k e T r k' r' : res_trig_get k r = Some (k', r') -> Armed k e T -> Armed k' e T.
Proof.
  unfold res_trig_get. destruct (r_getq r) as [|[g q] rest]; [intros [= <- _]; auto|].
  destruct (succeed k g) as [k2|] eqn:S; [|discriminate]. intros [= <- _] A. eapply armed_succeed; eauto.
Qed.
Lemma armed_res_request k e T rid r k' r' q : res_request k rid r = Some (k', r', q) -> Armed k e T -> Armed k' e T.
Proof.
  unfold res_request. cbn. intros H A.
  match type of H with match res_trig_put ?a ?b with _ => _ end = _ => destruct (res_trig_put a b) as [[k3 r3]|] eqn:E; [|discriminate] end.
  injection H as <- _ _. eapply armed_res_trig_put; [exact E|]. apply armed_add_cb. apply (armed_new_event k e T A).
Qed.
Lemma armed_res_release k e T rid r q k' r' g : res_release k rid r q = Some (k', r', g) -> Armed k e T -> Armed k' e T.
Proof.
  unfold res_release. cbn. intros H A.
  match type of H with match res_trig_get ?a ?b with _ => _ end = _ => destruct (res_trig_get a b) as [[k3 r3]|] eqn:E; [|discriminate] end.
  injection H as <- _ _. eapply armed_res_trig_get; [exact E|]. apply armed_add_cb. apply (armed_new_event k e T A).
Qed.

(* popping: the armed event, if it is the one popped, is processed at exactly T; otherwise it stays armed *)
Lemma armed_pop k e T k' e' cbs :
  pop k = Some (k', e', cbs) -> Armed k e T -> (e' = e -> now k' = T) /\ Armed k' e T.
Proof.
  unfold pop. destruct (queue k) as [|x q] eqn:EQ; [discriminate|]. intros [= <- <- _] (L & Tr & Q). split.
  - intros E. cbn. apply Q; [rewrite EQ; left; reflexivity|exact E].
  - unfold Armed, get_ev. cbn. rewrite upd_length. repeat split; auto.
    + destruct (Nat.eq_dec (q_ev x) e) as [->|N]; [rewrite nth_upd_same by exact L; exact Tr|rewrite nth_upd_neq by exact N; exact Tr].
    + intros y Hy. apply Q. rewrite EQ. right. exact Hy.
Qed.

(* arming: the event a timeout creates is armed for now + d, provided the queue refers to existing events only *)
Definition QRefs (k : kern) : Prop := forall x, In x (queue k) -> (q_ev x < length (evs k))%nat.
Lemma timeout_arms k d : QRefs k -> let '(k1, e) := timeout k d in Armed k1 e (now k + d) /\ Queued k1 e.
Proof.
  intros R. unfold timeout, new_event. cbn. set (e := length (evs k)). split.
  - unfold Armed, get_ev, schedule, mark_trig. cbn. rewrite upd_length, app_length. cbn. repeat split; [lia| |].
    + rewrite nth_upd_same by (rewrite app_length; cbn; lia). reflexivity.
    + intros x Hx Ex. apply qins_in in Hx. destruct Hx as [->|Hx]; [reflexivity|]. apply R in Hx. unfold e in *. lia.
  - exists {| q_time := now k + d; q_prio := NORMAL; q_seq := seq k; q_ev := e |}. split; [|reflexivity].
    unfold schedule. cbn. apply qins_in. left. reflexivity.
Qed.

(* while the entry is queued the clock has not passed T (queue invariant) *)
Lemma armed_not_late k e T : QInv k -> Armed k e T -> Queued k e -> now k <= T.
Proof.
  intros QI (_ & _ & Q) (x & Hx & Ex). unfold QInv in QI. rewrite Forall_forall in QI. rewrite <- (Q x Hx Ex). apply QI. exact Hx.
Qed.

(* ------------------------------------------------------------------ every sequence of kernel operations *)
Inductive kstep : kern -> kern -> Prop :=
| KS_new k : kstep k (fst (new_event k))
| KS_timeout k d : kstep k (fst (timeout k d))
| KS_succeed k e k' : succeed k e = Some k' -> kstep k k'
| KS_add_cb k e c : kstep k (add_cb k e c)
| KS_check k c : kstep k (check k c)
| KS_any_of k es : kstep k (fst (any_of k es))
| KS_request k rid r k' r' q : res_request k rid r = Some (k', r', q) -> kstep k k'
| KS_release k rid r q k' r' g : res_release k rid r q = Some (k', r', g) -> kstep k k'
| KS_trig_put k r k' r' : res_trig_put k r = Some (k', r') -> kstep k k'
| KS_trig_get k r k' r' : res_trig_get k r = Some (k', r') -> kstep k k'
| KS_pop k k' e cbs : pop k = Some (k', e, cbs) -> kstep k k'.
Inductive ksteps : kern -> kern -> Prop :=
| KS_refl k : ksteps k k
| KS_step k k' k'' : ksteps k k' -> kstep k' k'' -> ksteps k k''.

Lemma armed_kstep k k' e T : kstep k k' -> Armed k e T -> Armed k' e T.
Proof.
  intros S A. destruct S.
  - apply armed_new_event; exact A.
  - apply armed_timeout; exact A.
  - eapply armed_succeed; eauto.
  - apply armed_add_cb; exact A.
  - apply armed_check; exact A.
  - apply armed_any_of; exact A.
  - eapply armed_res_request; eauto.
  - eapply armed_res_release; eauto.
  - eapply armed_res_trig_put; eauto.
  - eapply armed_res_trig_get; eauto.
  - eapply armed_pop; eauto.
Qed.
Lemma armed_ksteps k k' e T : ksteps k k' -> Armed k e T -> Armed k' e T.
Proof. induction 1; intros A; auto. eapply armed_kstep; eauto. Qed.

(* THE CONTRACT: after [timeout k d], along every sequence of kernel operations, whenever the event is popped the clock then
   shows exactly now k + d *)
Theorem timeout_processed_exactly_when_due k d k1 e :
  QRefs k -> timeout k d = (k1, e) ->
  forall k2 k3 cbs, ksteps k1 k2 -> pop k2 = Some (k3, e, cbs) -> now k3 = now k + d.
Proof.
  intros R E k2 k3 cbs S P. pose proof (timeout_arms k d R) as A. rewrite E in A. destruct A as (A & _).
  pose proof (armed_ksteps _ _ _ _ S A) as A2. destruct (armed_pop _ _ _ _ _ _ P A2) as (H & _). apply H. reflexivity.
Qed.

(* ... and as long as its queue entry is there, the clock has not passed that time *)
Theorem timeout_not_overtaken k d k1 e :
  QRefs k -> timeout k d = (k1, e) ->
  forall k2, ksteps k1 k2 -> QInv k2 -> Queued k2 e -> now k2 <= now k + d.
Proof.
  intros R E k2 S QI Q. pose proof (timeout_arms k d R) as A. rewrite E in A. destruct A as (A & _).
  exact (armed_not_late _ _ _ QI (armed_ksteps _ _ _ _ S A) Q).
Qed.

(* non-vacuity: a timeout of 5 armed at time 0 next to one of 3; the second pop is the first timer, at time 5 *)
Example timer_witness :
  let '(k1, e) := timeout kinit 5 in let '(k2, _) := timeout k1 3 in
  match pop k2 with
  | Some (k3, _, _) => match pop k3 with Some (k4, e', _) => (Nat.eqb e' e, now k4) | None => (false, 0) end
  | None => (false, 0)
  end = (true, 5).
Proof. vm_compute. reflexivity. Qed.

(* ------------------------------------------------------------------ the timer is not lost: until it has been processed its
   entry stays in the queue (no operation removes a queue entry except the pop that processes it) *)
Definition Pending (k : kern) (e : nat) : Prop := (e < length (evs k))%nat /\ (Queued k e \/ e_proc (get_ev k e) = true).

Lemma get_ev_upd_proc k e' (f : ev -> ev) e :
  (forall y, e_proc (f y) = e_proc y) -> (e < length (evs k))%nat ->
  e_proc (nth e (upd e' f (evs k)) ev0) = e_proc (get_ev k e).
Proof.
  intros F L. unfold get_ev. destruct (Nat.eq_dec e' e) as [->|N]; [rewrite nth_upd_same by exact L; apply F|rewrite nth_upd_neq by exact N; reflexivity].
Qed.

Lemma pending_evs_only k k' e :
  queue k' = queue k -> (length (evs k) <= length (evs k'))%nat ->
  (forall e0, (e0 < length (evs k))%nat -> e_proc (get_ev k' e0) = e_proc (get_ev k e0)) -> Pending k e -> Pending k' e.
Proof.
  intros Q L P (Le & H). split; [lia|]. destruct H as [(x & Hx & Ex)|H]; [left; exists x; rewrite Q; auto|right; rewrite P; auto].
Qed.
Lemma pending_new_event k e : Pending k e -> Pending (fst (new_event k)) e.
Proof.
  apply pending_evs_only; cbn; [reflexivity|rewrite app_length; lia|]. intros e0 L. unfold get_ev. cbn. rewrite app_nth1 by exact L. reflexivity.
Qed.
Lemma pending_mark_trig k e e' : Pending k e -> Pending (mark_trig k e') e.
Proof.
  apply pending_evs_only; cbn; [reflexivity|rewrite upd_length; lia|]. intros e0 L. unfold get_ev at 1. cbn.
  apply get_ev_upd_proc; [reflexivity|exact L].
Qed.
Lemma pending_add_cb k e e' c : Pending k e -> Pending (add_cb k e' c) e.
Proof.
  apply pending_evs_only; cbn; [reflexivity|rewrite upd_length; lia|]. intros e0 L. unfold get_ev at 1. cbn.
  apply get_ev_upd_proc; [reflexivity|exact L].
Qed.
Lemma pending_schedule k e e' p d : Pending k e -> Pending (schedule k e' p d) e.
Proof.
  intros (L & H). split; [exact L|]. destruct H as [(x & Hx & Ex)|H]; [left; exists x; split; [|exact Ex]; cbn; apply qins_in; right; exact Hx|right; exact H].
Qed.
Lemma pending_succeed k e e' k' : succeed k e' = Some k' -> Pending k e -> Pending k' e.
Proof. unfold succeed. destruct (e_trig _); [discriminate|]. intros [= <-] P. apply pending_schedule. apply pending_mark_trig. exact P. Qed.
Lemma pending_timeout k e d : Pending k e -> Pending (fst (timeout k d)) e.
Proof. intros P. unfold timeout. cbn. apply pending_schedule. apply pending_mark_trig. apply (pending_new_event k e P). Qed.
Lemma pending_check k e c : Pending k e -> Pending (check k c) e.
Proof. intros P. unfold check. destruct (e_trig _); [exact P|]. apply pending_schedule. apply pending_mark_trig. exact P. Qed.
Lemma pending_any_of k e es : Pending k e -> Pending (fst (any_of k es)) e.
Proof.
  intros P. unfold any_of. cbn. pose proof (pending_new_event k e P) as P1. destruct es as [|e0 es]; cbn [fst].
  - apply pending_schedule. apply pending_mark_trig. exact P1.
  - set (k1 := set_evs k (evs k ++ [ev0])) in *. change (fst (new_event k)) with k1 in P1. set (c := length (evs k)).
    generalize (e0 :: es). intros l. revert P1. generalize k1. clear.
    induction l as [|x l IH]; intros k1 P1; simpl; [exact P1|]. apply IH.
    destruct (e_proc (get_ev k1 x)); [apply pending_check|apply pending_add_cb]; exact P1.
Qed.
Lemma pending_res_trig_put k e r k' r' : res_trig_put k r = Some (k', r') -> Pending k e -> Pending k' e.
Proof.
  unfold res_trig_put. destruct (r_putq r) as [|q rest]; [intros [= <- _]; auto|].
  destruct (_ <? _)%nat; [|intros [= <- _]; auto]. destruct (succeed k q) as [k2|] eqn:S; [|discriminate].
  intros [= <- _] A. eapply pending_succeed; eauto.
Qed.
Lemma pending_res_trig_get k e r k' r' : res_trig_get k r = Some (k', r') -> Pending k e -> Pending k' e.
Proof.
  unfold res_trig_get. destruct (r_getq r) as [|[g q] rest]; [intros [= <- _]; auto|].
  destruct (succeed k g) as [k2|] eqn:S; [|discriminate]. intros [= <- _] A. eapply pending_succeed; eauto.
Qed.
Lemma pending_res_request k e rid r k' r' q : res_request k rid r = Some (k', r', q) -> Pending k e -> Pending k' e.
Proof.
  unfold res_request. cbn. intros H A.
  match type of H with match res_trig_put ?a ?b with _ => _ end = _ => destruct (res_trig_put a b) as [[k3 r3]|] eqn:E; [|discriminate] end.
  injection H as <- _ _. eapply pending_res_trig_put; [exact E|]. apply pending_add_cb. apply (pending_new_event k e A).
Qed.
Lemma pending_res_release k e rid r q k' r' g : res_release k rid r q = Some (k', r', g) -> Pending k e -> Pending k' e.
Proof.
  unfold res_release. cbn. intros H A.
  match type of H with match res_trig_get ?a ?b with _ => _ end = _ => destruct (res_trig_get a b) as [[k3 r3]|] eqn:E; [|discriminate] end.
  injection H as <- _ _. eapply pending_res_trig_get; [exact E|]. apply pending_add_cb. apply (pending_new_event k e A).
Qed.
Lemma pending_pop k e k' e' cbs : pop k = Some (k', e', cbs) -> Pending k e -> Pending k' e.
Proof.
  unfold pop. destruct (queue k) as [|x q] eqn:EQ; [discriminate|]. intros [= <- <- _] (L & H). split; [cbn; rewrite upd_length; exact L|].
  destruct (Nat.eq_dec (q_ev x) e) as [E|N].
  - right. unfold get_ev. cbn. rewrite E. rewrite nth_upd_same by exact L. reflexivity.
  - destruct H as [(y & Hy & Ey)|H].
    + left. exists y. cbn. split; [|exact Ey]. rewrite EQ in Hy. destruct Hy as [<-|Hy]; [congruence|exact Hy].
    + right. unfold get_ev. cbn. rewrite nth_upd_neq by exact N. exact H.
Qed.
Lemma pending_kstep k k' e : kstep k k' -> Pending k e -> Pending k' e.
Proof.
  intros S A. destruct S.
  - apply pending_new_event; exact A.
  - apply pending_timeout; exact A.
  - eapply pending_succeed; eauto.
  - apply pending_add_cb; exact A.
  - apply pending_check; exact A.
  - apply pending_any_of; exact A.
  - eapply pending_res_request; eauto.
  - eapply pending_res_release; eauto.
  - eapply pending_res_trig_put; eauto.
  - eapply pending_res_trig_get; eauto.
  - eapply pending_pop; eauto.
Qed.

Theorem timeout_not_lost k d k1 e :
  QRefs k -> timeout k d = (k1, e) -> forall k2, ksteps k1 k2 -> Queued k2 e \/ e_proc (get_ev k2 e) = true.
Proof.
  intros R E k2 S. pose proof (timeout_arms k d R) as A. rewrite E in A. destruct A as ((L & _) & Q).
  assert (P : Pending k1 e) by (split; [exact L|left; exact Q]).
  assert (P2 : Pending k2 e).
  { clear - S P. induction S; [exact P|]. eapply pending_kstep; [eassumption|]. apply IHS. exact P. }
  destruct P2 as (_ & H). exact H.
Qed.
