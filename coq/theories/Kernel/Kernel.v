(* L0: model of the SimPy 4.1 kernel (Environment.step, Event.succeed, Timeout, Condition/AnyOf,
   Resource).  Rules as in DESIGN.md Appendix B.  Model first, lemmas below. *)
From Coq Require Import List ZArith Lia Bool Arith.
From FV Require Import ListLemmas.
Import ListNotations.
Open Scope Z_scope.

(* callbacks are a closed type: what SimPy attaches to an event in this library *)
Inductive cb :=
| CbResume (p : nat)         (* Process._resume *)
| CbCheck (c : nat)          (* Condition._check of the any_of event c *)
| CbResTrigGet (r : nat)     (* Resource._trigger_get (attached to a Request) *)
| CbResTrigPut (r : nat)     (* Resource._trigger_put (attached to a Release) *)
| CbStoreTrigPut (e : nat).  (* belt store: _trigger_reserve_put attached to the phase-1 event *)

Record ev := { e_trig : bool; e_proc : bool; e_cbs : list cb }.
Record qent := { q_time : Z; q_prio : nat; q_seq : nat; q_ev : nat }.
Record kern := { now : Z; seq : nat; queue : list qent; evs : list ev }.

Definition URGENT := 0%nat.
Definition NORMAL := 1%nat.

Definition kinit : kern := {| now := 0; seq := 0; queue := []; evs := [] |}.

Definition qlt (a b : qent) : bool :=
  (q_time a <? q_time b) ||
  ((q_time a =? q_time b) && ((q_prio a <? q_prio b)%nat || ((q_prio a =? q_prio b)%nat && (q_seq a <? q_seq b)%nat))).

(* the heap, as a sorted list: insert behind everything that is not later *)
Fixpoint qins (x : qent) (q : list qent) : list qent :=
  match q with
  | [] => [x]
  | y :: q' => if qlt x y then x :: q else y :: qins x q'
  end.

Fixpoint upd {A} (n : nat) (f : A -> A) (l : list A) : list A :=
  match l, n with
  | [], _ => []
  | x :: l', O => f x :: l'
  | x :: l', S n' => x :: upd n' f l'
  end.

Definition ev0 : ev := {| e_trig := false; e_proc := false; e_cbs := [] |}.
Definition get_ev (k : kern) (e : nat) : ev := nth e (evs k) ev0.

Definition set_evs k x := {| now := now k; seq := seq k; queue := queue k; evs := x |}.

(* env.event() *)
Definition new_event (k : kern) : kern * nat := (set_evs k (evs k ++ [ev0]), length (evs k)).

(* env.schedule(event, priority, delay) *)
Definition schedule (k : kern) (e : nat) (prio : nat) (d : Z) : kern :=
  {| now := now k; seq := S (seq k);
     queue := qins {| q_time := now k + d; q_prio := prio; q_seq := seq k; q_ev := e |} (queue k);
     evs := evs k |}.

Definition mark_trig (k : kern) (e : nat) : kern :=
  set_evs k (upd e (fun x => {| e_trig := true; e_proc := e_proc x; e_cbs := e_cbs x |}) (evs k)).

(* event.succeed(): None = RuntimeError (already triggered) *)
Definition succeed (k : kern) (e : nat) : option kern :=
  if e_trig (get_ev k e) then None else Some (schedule (mark_trig k e) e NORMAL 0).

(* env.timeout(d) *)
Definition timeout (k : kern) (d : Z) : kern * nat :=
  let '(k1, e) := new_event k in
  (schedule (mark_trig k1 e) e NORMAL d, e).

Definition add_cb (k : kern) (e : nat) (c : cb) : kern :=
  set_evs k (upd e (fun x => {| e_trig := e_trig x; e_proc := e_proc x; e_cbs := e_cbs x ++ [c] |}) (evs k)).

(* Condition._check *)
Definition check (k : kern) (c : nat) : kern :=
  if e_trig (get_ev k c) then k else schedule (mark_trig k c) c NORMAL 0.

(* env.any_of(events) *)
Definition any_of (k : kern) (es : list nat) : kern * nat :=
  let '(k1, c) := new_event k in
  match es with
  | [] => (schedule (mark_trig k1 c) c NORMAL 0, c)
  | _ =>
      (fold_left (fun k e => if e_proc (get_ev k e) then check k c else add_cb k e (CbCheck c)) es k1, c)
  end.

(* heappop: the head of the sorted queue; the clock jumps to its time; the event is marked
   processed and its callbacks are handed out *)
Definition pop (k : kern) : option (kern * nat * list cb) :=
  match queue k with
  | [] => None
  | x :: q =>
      let e := q_ev x in
      let cbs := e_cbs (get_ev k e) in
      Some ({| now := q_time x; seq := seq k; queue := q;
               evs := upd e (fun y => {| e_trig := e_trig y; e_proc := true; e_cbs := [] |}) (evs k) |}, e, cbs)
  end.

(* ------------------------------------------------------------------ simpy.Resource *)
Record res := { r_cap : nat; r_users : list nat; r_putq : list nat; r_getq : list (nat * nat) }.

Definition res_init (c : nat) : res := {| r_cap := c; r_users := []; r_putq := []; r_getq := [] |}.

(* _trigger_put: the head request only (_do_put returns None) *)
Definition res_trig_put (k : kern) (r : res) : option (kern * res) :=
  match r_putq r with
  | [] => Some (k, r)
  | q :: rest =>
      if (length (r_users r) <? r_cap r)%nat then
        match succeed k q with
        | Some k' => Some (k', {| r_cap := r_cap r; r_users := r_users r ++ [q]; r_putq := rest; r_getq := r_getq r |})
        | None => None
        end
      else Some (k, r)
  end.

Definition res_trig_get (k : kern) (r : res) : option (kern * res) :=
  match r_getq r with
  | [] => Some (k, r)
  | (g, q) :: rest =>
      match succeed k g with
      | Some k' => Some (k', {| r_cap := r_cap r; r_users := remove_first (Nat.eqb q) (r_users r);
                                r_putq := r_putq r; r_getq := rest |})
      | None => None
      end
  end.

(* resource.request(): new event, queued, callback _trigger_get attached, _trigger_put run *)
Definition res_request (k : kern) (rid : nat) (r : res) : option (kern * res * nat) :=
  let '(k1, q) := new_event k in
  let k2 := add_cb k1 q (CbResTrigGet rid) in
  match res_trig_put k2 {| r_cap := r_cap r; r_users := r_users r; r_putq := r_putq r ++ [q]; r_getq := r_getq r |} with
  | Some (k3, r') => Some (k3, r', q)
  | None => None
  end.

(* resource.release(request) *)
Definition res_release (k : kern) (rid : nat) (r : res) (q : nat) : option (kern * res * nat) :=
  let '(k1, g) := new_event k in
  let k2 := add_cb k1 g (CbResTrigPut rid) in
  match res_trig_get k2 {| r_cap := r_cap r; r_users := r_users r; r_putq := r_putq r; r_getq := r_getq r ++ [(g, q)] |} with
  | Some (k3, r') => Some (k3, r', g)
  | None => None
  end.

(* ------------------------------------------------------------------ lemmas *)

(* every queued event is due now or later *)
Definition QInv (k : kern) : Prop := Forall (fun x => now k <= q_time x) (queue k).

Lemma qins_in x q y : In y (qins x q) <-> y = x \/ In y q.
Proof.
  induction q as [|z q IH]; simpl; [intuition|]. destruct (qlt x z); simpl; rewrite ?IH; intuition.
Qed.

Lemma qins_forall (P : qent -> Prop) x q : P x -> Forall P q -> Forall P (qins x q).
Proof.
  intros Hx Hq. rewrite Forall_forall in *. intros y Hy. apply qins_in in Hy as [->|Hy]; auto.
Qed.

Lemma schedule_qinv k e p d : 0 <= d -> QInv k -> QInv (schedule k e p d).
Proof. intros Hd H. unfold QInv, schedule in *; simpl. apply qins_forall; simpl; auto. lia. Qed.

Lemma mark_trig_qinv k e : QInv k -> QInv (mark_trig k e).
Proof. auto. Qed.
Lemma add_cb_qinv k e c : QInv k -> QInv (add_cb k e c).
Proof. auto. Qed.
Lemma new_event_qinv k : QInv k -> QInv (fst (new_event k)).
Proof. auto. Qed.

Lemma succeed_qinv k e k' : succeed k e = Some k' -> QInv k -> QInv k'.
Proof.
  unfold succeed. destruct (e_trig (get_ev k e)); [discriminate|]. intros [= <-] H.
  apply schedule_qinv; [lia|]. apply mark_trig_qinv, H.
Qed.

Lemma timeout_qinv k d : 0 <= d -> QInv k -> QInv (fst (timeout k d)).
Proof. intros Hd H. unfold timeout. simpl. apply schedule_qinv; auto. Qed.

Lemma check_qinv k c : QInv k -> QInv (check k c).
Proof. unfold check. intros H. destruct (e_trig (get_ev k c)); auto. apply schedule_qinv; [lia|]. auto. Qed.

Lemma any_of_fold_qinv c l : forall k0, QInv k0 ->
  QInv (fold_left (fun k1 e1 => if e_proc (get_ev k1 e1) then check k1 c else add_cb k1 e1 (CbCheck c)) l k0).
Proof.
  induction l as [|x l IH]; simpl; intros k0 H0; auto. apply IH.
  destruct (e_proc (get_ev k0 x)); [apply check_qinv|apply add_cb_qinv]; auto.
Qed.

Lemma any_of_qinv k es : QInv k -> QInv (fst (any_of k es)).
Proof.
  intros H. unfold any_of. destruct (new_event k) as [k1 c] eqn:E.
  assert (QInv k1) as H1 by (apply (f_equal fst) in E; simpl in E; subst k1; auto).
  destruct es as [|e es].
  - simpl. apply schedule_qinv; [lia|]. auto.
  - simpl fst. apply any_of_fold_qinv.
    destruct (e_proc (get_ev k1 e)); [apply check_qinv|apply add_cb_qinv]; auto.
Qed.

(* sortedness of the queue by time is all we need for monotone time *)
Definition QSorted (k : kern) : Prop := forall a b q1 q2, queue k = q1 ++ a :: b :: q2 -> q_time a <= q_time b.

(* C19: the clock never goes back *)
Theorem pop_time_monotone k k' e cbs : QInv k -> pop k = Some (k', e, cbs) -> now k <= now k'.
Proof.
  unfold pop, QInv. destruct (queue k) as [|x q]; [discriminate|]. intros H [= <- _ _]. simpl.
  inversion H; auto.
Qed.

Lemma qlt_false_le x y : qlt x y = false -> q_time y <= q_time x.
Proof.
  unfold qlt. intros H. apply orb_false_iff in H as (A & _). apply Z.ltb_ge in A. exact A.
Qed.

Definition TSorted (q : list qent) : Prop := forall i j, (i < j < length q)%nat ->
  q_time (nth i q {| q_time := 0; q_prio := 0; q_seq := 0; q_ev := 0 |}) <=
  q_time (nth j q {| q_time := 0; q_prio := 0; q_seq := 0; q_ev := 0 |}).

Lemma pop_qinv k k' e cbs : QInv k -> (forall x, In x (queue k) -> q_time (hd {| q_time := 0; q_prio := 0; q_seq := 0; q_ev := 0 |} (queue k)) <= q_time x) ->
  pop k = Some (k', e, cbs) -> QInv k'.
Proof.
  unfold pop, QInv. destruct (queue k) as [|x q] eqn:E; [discriminate|]. intros H M [= <- _ _]. simpl in *.
  rewrite Forall_forall. intros y Hy. apply M. auto.
Qed.

(* the head of a queue built by qins is a minimum w.r.t. time *)
Definition HeadMin (q : list qent) : Prop :=
  match q with [] => True | x :: r => Forall (fun y => q_time x <= q_time y) r /\ True end.

Inductive tsorted : list qent -> Prop :=
| ts_nil : tsorted []
| ts_cons x q : Forall (fun y => q_time x <= q_time y) q -> tsorted q -> tsorted (x :: q).

Lemma qins_tsorted x q : tsorted q -> tsorted (qins x q).
Proof.
  induction 1 as [|y q F S IH]; simpl.
  - constructor; constructor.
  - destruct (qlt x y) eqn:E.
    + constructor; [|constructor; auto].
      assert (q_time x <= q_time y) as L.
      { unfold qlt in E. apply orb_true_iff in E as [E|E]; [apply Z.ltb_lt in E; lia|].
        apply andb_prop in E as (E & _). apply Z.eqb_eq in E. lia. }
      constructor; auto. rewrite Forall_forall in *. intros z Hz. specialize (F z Hz). lia.
    + constructor; auto. apply qins_forall; auto. apply qlt_false_le; auto.
Qed.

Definition KInv (k : kern) : Prop := QInv k /\ tsorted (queue k).

Lemma schedule_kinv k e p d : 0 <= d -> KInv k -> KInv (schedule k e p d).
Proof. intros Hd (A & B). split; [apply schedule_qinv; auto|]. simpl. apply qins_tsorted; auto. Qed.

Lemma pop_kinv k k' e cbs : KInv k -> pop k = Some (k', e, cbs) -> KInv k' /\ now k <= now k'.
Proof.
  intros (A & B) E. pose proof (pop_time_monotone _ _ _ _ A E) as M. split; auto.
  unfold pop in E. destruct (queue k) as [|x q] eqn:EQ; [discriminate|]. inversion E; subst. clear E.
  inversion B; subst. split; simpl; auto.
Qed.

(* Resource: never more users than capacity *)
Definition RInv (r : res) : Prop := (length (r_users r) <= r_cap r)%nat.

Lemma res_trig_put_inv k r k' r' : res_trig_put k r = Some (k', r') -> RInv r -> RInv r'.
Proof.
  unfold res_trig_put, RInv. destruct (r_putq r); [intros [= <- <-]; auto|].
  destruct (Nat.ltb_spec (length (r_users r)) (r_cap r)); [|intros [= <- <-]; auto].
  destruct (succeed k n); [|discriminate]. intros [= <- <-] _. simpl. rewrite app_length; simpl. lia.
Qed.

Lemma res_trig_get_inv k r k' r' : res_trig_get k r = Some (k', r') -> RInv r -> RInv r'.
Proof.
  unfold res_trig_get, RInv. destruct (r_getq r) as [|[g q] rest]; [intros [= <- <-]; auto|].
  destruct (succeed k g); [|discriminate]. intros [= <- <-] H. simpl.
  pose proof (remove_first_len (Nat.eqb q) (r_users r)). lia.
Qed.

Lemma res_request_inv k rid r k' r' q : res_request k rid r = Some (k', r', q) -> RInv r -> RInv r'.
Proof.
  unfold res_request. simpl. destruct (res_trig_put _ _) as [[k3 r3]|] eqn:E; [|discriminate].
  intros [= <- <- <-] H. eapply res_trig_put_inv; eauto.
Qed.

Lemma res_release_inv k rid r q k' r' g : res_release k rid r q = Some (k', r', g) -> RInv r -> RInv r'.
Proof.
  unfold res_release. simpl. destruct (res_trig_get _ _) as [[k3 r3]|] eqn:E; [|discriminate].
  intros [= <- <- <-] H. eapply res_trig_get_inv; eauto.
Qed.
