(* Tie B: the admission tests and the can_put / can_get / occupancy expressions REGENERATED from
   /repo's current sources (generated/SrcFragments.v) agree with the hand-written model, for all
   states.  A changed `<` vs `<=` or a dropped summand in the source breaks these proofs at build
   time. *)
From Coq Require Import List ZArith Lia Bool Arith.
From FV Require Import ListLemmas ListLemmas2 SrcFragments.
From FV Require StoreP StorePInv StoreB StoreBInv StoreBProps Lens.
Import ListNotations.
Open Scope Z_scope.

Notation zl := Lens.zl.
Notation lensP := Lens.lensP.
Notation lensB := Lens.lensB.

Lemma ltb_nat_Z a b : (a <? b)%nat = (Z.of_nat a <? Z.of_nat b).
Proof. destruct (Nat.ltb_spec a b); destruct (Z.ltb_spec (Z.of_nat a) (Z.of_nat b)); auto; lia. Qed.

(* ---- positional stores: the three classes have the same three tests *)
Lemma tieB_allow_put_P s :
  StoreP.allow_put s = ReservableReqStore_allow_put (lensP s) /\
  StoreP.allow_put s = ReservablePriorityReqStore_allow_put (lensP s) /\
  StoreP.allow_put s = ReservablePriorityReqFilterStore_allow_put (lensP s).
Proof.
  unfold StoreP.allow_put, ReservableReqStore_allow_put, ReservablePriorityReqStore_allow_put,
    ReservablePriorityReqFilterStore_allow_put, lensP, zl; simpl.
  rewrite ltb_nat_Z, Nat2Z.inj_add. auto.
Qed.

Lemma tieB_allow_get_P s :
  StoreP.allow_get s = ReservableReqStore_allow_get (lensP s) /\
  StoreP.allow_get s = ReservablePriorityReqStore_allow_get (lensP s) /\
  StoreP.allow_get s = ReservablePriorityReqFilterStore_allow_get (lensP s).
Proof.
  unfold StoreP.allow_get, ReservableReqStore_allow_get, ReservablePriorityReqStore_allow_get,
    ReservablePriorityReqFilterStore_allow_get, lensP, zl; simpl.
  rewrite ltb_nat_Z. auto.
Qed.

Lemma tieB_put_room_P s :
  (length (StoreP.items s) <? StoreP.cap s)%nat = ReservableReqStore_put_room (lensP s) /\
  (length (StoreP.items s) <? StoreP.cap s)%nat = ReservablePriorityReqStore_put_room (lensP s) /\
  (length (StoreP.items s) <? StoreP.cap s)%nat = ReservablePriorityReqFilterStore_put_room (lensP s).
Proof.
  unfold ReservableReqStore_put_room, ReservablePriorityReqStore_put_room,
    ReservablePriorityReqFilterStore_put_room, lensP, zl; simpl. rewrite ltb_nat_Z. auto.
Qed.

(* ---- bound-item stores *)
Lemma tieB_allow_put_B s :
  StoreB.is_belt (StoreB.s_kind s) = false ->
  StoreB.allow_put s = BufferStore_allow_put (lensB s) /\ StoreB.allow_put s = FleetStore_allow_put (lensB s).
Proof.
  intros NB. rewrite StoreBProps.allow_put_nobelt by auto.
  unfold StoreB.used, BufferStore_allow_put, FleetStore_allow_put, lensB, zl; simpl.
  rewrite ltb_nat_Z, !Nat2Z.inj_add. auto.
Qed.

Lemma tieB_allow_get_B s :
  StoreB.allow_get s = BufferStore_allow_get (lensB s) /\ StoreB.allow_get s = FleetStore_allow_get (lensB s).
Proof.
  unfold StoreB.allow_get, BufferStore_allow_get, FleetStore_allow_get, lensB, zl; simpl.
  rewrite ltb_nat_Z. auto.
Qed.

Lemma tieB_put_room_B s :
  (length (StoreB.transit s) + length (StoreB.ready s) <? StoreB.cap s)%nat = BufferStore_put_room (lensB s) /\
  (length (StoreB.transit s) + length (StoreB.ready s) <? StoreB.cap s)%nat = FleetStore_put_room (lensB s).
Proof.
  unfold BufferStore_put_room, FleetStore_put_room, lensB, zl; simpl.
  rewrite ltb_nat_Z, Nat2Z.inj_add. auto.
Qed.

(* ---- C11: can_put / can_get of Buffer and Fleet are exactly "a reservation issued now is granted
        immediately", in every reachable state (Inv + NoLost) *)
Lemma can_put_is_room s :
  StoreBInv.Inv s ->
  Buffer_can_put (lensB s) = (StoreB.used s <? StoreB.cap s)%nat /\
  Fleet_can_put (lensB s) = (StoreB.used s <? StoreB.cap s)%nat.
Proof.
  intros (H1 & _). unfold Buffer_can_put, Fleet_can_put, StoreB.used, lensB, zl in *; simpl.
  set (a := length (StoreB.transit s)) in *. set (b := length (StoreB.ready s)) in *.
  set (c := length (StoreB.putres s)) in *. set (k := StoreB.cap s) in *.
  destruct (Z.eqb_spec (Z.of_nat a + Z.of_nat b) (Z.of_nat k));
    destruct (Nat.ltb_spec (c + a + b) k); try (split; reflexivity); try lia;
    split; apply Z.gtb_lt || (apply not_true_is_false; intros G; apply Z.gtb_lt in G); lia.
Qed.

Lemma can_get_is_avail s :
  Buffer_can_get (lensB s) = StoreB.allow_get s /\ Fleet_can_get (lensB s) = StoreB.allow_get s.
Proof.
  unfold Buffer_can_get, Fleet_can_get, StoreB.allow_get, lensB, zl; simpl.
  set (g := length (StoreB.getres s)). set (r := length (StoreB.ready s)).
  destruct (Z.eqb_spec (Z.of_nat r) 0); destruct (Nat.ltb_spec g r); try (split; reflexivity); try lia;
    split; apply Z.gtb_lt || (apply not_true_is_false; intros G; apply Z.gtb_lt in G); lia.
Qed.

Lemma ins_head_empty r : StoreB.ins r [] = [r].
Proof. reflexivity. Qed.

Theorem can_put_iff_immediate_grant s p pr :
  StoreB.is_belt (StoreB.s_kind s) = false -> StoreBInv.Inv s -> StoreBProps.NoLost s ->
  (Buffer_can_put (lensB s) = true <-> snd (StoreB.step s (StoreB.RPut p pr)) = [StoreB.next s]) /\
  (Fleet_can_put (lensB s) = true <-> snd (StoreB.step s (StoreB.RPut p pr)) = [StoreB.next s]).
Proof.
  intros NB HI (NP & _). destruct (can_put_is_room s HI) as (-> & ->).
  assert ((StoreB.used s <? StoreB.cap s)%nat = true <-> snd (StoreB.step s (StoreB.RPut p pr)) = [StoreB.next s]) as K.
  { rewrite <- (StoreBProps.allow_put_nobelt s NB). simpl.
    set (r := {| StoreB.r_tok := StoreB.next s; StoreB.r_pid := p; StoreB.r_prio := StoreB.eff_prio s pr |}).
    set (s1 := StoreB.set_next (StoreB.set_putq s (StoreB.ins r (StoreB.putq s))) (S (StoreB.next s))).
    assert (StoreB.allow_put s1 = StoreB.allow_put s) as EA by reflexivity.
    assert (StoreB.putq s1 = StoreB.ins r (StoreB.putq s)) as EP by reflexivity.
    destruct (StoreB.trig_put s1) as [s2 ts] eqn:E. simpl.
    unfold StoreB.trig_put in E. rewrite EP, EA in E.
    destruct (StoreB.putq s) as [|x q] eqn:EQ.
    - simpl in E. destruct (StoreB.allow_put s); inversion E; subst; simpl; split; congruence.
    - assert (StoreB.allow_put s = false) as F by (apply NP; congruence).
      destruct (StoreB.ins r (x :: q)) as [|y q'] eqn:EI.
      { exfalso. eapply StoreBProps.ins_nonnil; eauto. }
      rewrite F in E. inversion E; subst. rewrite F. split; congruence. }
  split; exact K.
Qed.

Theorem can_get_iff_immediate_grant s p pr :
  StoreBInv.Inv s -> StoreBProps.NoLost s ->
  (Buffer_can_get (lensB s) = true <-> snd (StoreB.step s (StoreB.RGet p pr)) = [StoreB.next s]) /\
  (Fleet_can_get (lensB s) = true <-> snd (StoreB.step s (StoreB.RGet p pr)) = [StoreB.next s]).
Proof.
  intros HI (_ & NG). destruct (can_get_is_avail s) as (-> & ->).
  assert (StoreB.allow_get s = true <-> snd (StoreB.step s (StoreB.RGet p pr)) = [StoreB.next s]) as K.
  { simpl.
    set (r := {| StoreB.r_tok := StoreB.next s; StoreB.r_pid := p; StoreB.r_prio := StoreB.eff_prio s pr |}).
    set (s1 := StoreB.set_next (StoreB.set_getq s (StoreB.ins r (StoreB.getq s))) (S (StoreB.next s))).
    assert (StoreBInv.Inv s1) as H1 by (apply StoreBInv.inv_set_next, StoreBInv.inv_set_getq, HI).
    assert (StoreB.allow_get s1 = StoreB.allow_get s) as EA by reflexivity.
    destruct (StoreBInv.trig_get_inv s1 H1) as (s2 & ts & E & _). rewrite E. simpl.
    unfold StoreB.trig_get in E. simpl in E. fold r in E.
    destruct (StoreB.getq s) as [|x q] eqn:EQ.
    - simpl in E. fold s1 in E. rewrite EA in E. destruct (StoreB.allow_get s) eqn:EG.
      + destruct (StoreB.pick s1); [|discriminate]. inversion E; subst. simpl. split; auto.
      + inversion E; subst. split; congruence.
    - assert (StoreB.allow_get s = false) as F by (apply NG; congruence).
      destruct (StoreB.ins r (x :: q)) as [|y q'] eqn:EI.
      { exfalso. eapply StoreBProps.ins_nonnil; eauto. }
      fold s1 in E. rewrite EA, F in E. inversion E; subst. rewrite F. split; congruence. }
  split; exact K.
Qed.

Theorem occupancy_counts_both s :
  Buffer_occupancy (lensB s) = zl (StoreBInv.contents s) /\ Fleet_occupancy (lensB s) = zl (StoreBInv.contents s).
Proof.
  unfold Buffer_occupancy, Fleet_occupancy, lensB, zl, StoreBInv.contents; simpl.
  rewrite app_length, Nat2Z.inj_add. auto.
Qed.
