(* The view of a store that the regenerated source fragments (generated/SrcFragments.v) are evaluated
   on: the lengths of the store's lists and its capacity.  Definitions only (the executable model and
   the extraction need them); the lemmas tying the fragments to the model are in TieB.v. *)
From Coq Require Import List ZArith.
From FV Require Import SrcFragments.
From FV Require StoreP StoreB.
Import ListNotations.
Open Scope Z_scope.

Definition zl {A} (l : list A) : Z := Z.of_nat (length l).

Definition lensP (s : StoreP.store) : lens :=
  {| n_items := zl (StoreP.items s); n_ready_items := 0;
     n_reservations_put := zl (StoreP.putres s); n_reservations_get := zl (StoreP.getres s);
     n_reserved_events := zl (StoreP.getres s);
     n_reserve_put_queue := zl (StoreP.putq s); n_reserve_get_queue := zl (StoreP.getq s);
     capacity := Z.of_nat (StoreP.cap s) |}.

Definition lensB (s : StoreB.store) : lens :=
  {| n_items := zl (StoreB.transit s); n_ready_items := zl (StoreB.ready s);
     n_reservations_put := zl (StoreB.putres s); n_reservations_get := zl (StoreB.getres s);
     n_reserved_events := zl (StoreB.getres s);
     n_reserve_put_queue := zl (StoreB.putq s); n_reserve_get_queue := zl (StoreB.getq s);
     capacity := Z.of_nat (StoreB.cap s) |}.

