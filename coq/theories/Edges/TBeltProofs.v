(* Invariants and theorems of the timed belt model (C12 / C13). *)
From Coq Require Import List ZArith Lia Bool Arith Sorted.
From FV Require Import TBelt.
Import ListNotations.
Open Scope Z_scope.

Definition WI (D now : Z) (x : mitem) : Prop :=
  0 <= total x /\ entry x <= now /\
  match intr x with
  | None => dead x = false -> since x + rem x = entry x + D + total x /\ now <= since x + rem x
  | Some s => s <= now /\ (dead x = false -> s + rem x = entry x + D + total x /\ 0 <= rem x)
  end.

Fixpoint spaced (u : Z) (l : list (nat * Z)) : Prop :=
  match l with
  | (_, e) :: (((_, e') :: _) as r) => e' + u <= e /\ spaced u r
  | _ => True
  end.

Definition entry_le (x y : mitem) : Prop := entry x <= entry y.

Record BInv (b : tb) : Prop := {
  i_D : 0 < bu b <= bD b;
  i_items : Forall (WI (bD b) (bclock b)) (moving b);
  i_arr : forall i e a t, In (i, e, a, t) (arrived b) ->
            a = e + bD b + t /\ 0 <= t /\ a <= bclock b /\ In (i, e) (entered b);
  i_mov : forall x, In x (moving b) -> In (mid x, entry x) (entered b);
  i_uniq : NoDup (map mid (moving b));
  i_ent : forall i e, In (i, e) (entered b) ->
            (exists x, In x (moving b) /\ mid x = i /\ entry x = e) \/ (exists a t, In (i, e, a, t) (arrived b));
  i_sorted : StronglySorted entry_le (moving b);
  i_cap : (occupied b <= bcap b)%nat;
  i_one : (nres b <= 1)%nat;
  i_pending : nres b = 1%nat -> forall j e, hd_error (entered b) = Some (j, e) -> e + bu b <= bclock b;
  i_spaced : spaced (bu b) (entered b)
}.

Lemma binit_inv sl c u D acc : 0 < u <= D -> BInv (binit sl c u D acc).
Proof.
  intros H. constructor; simpl; auto; try (intros; contradiction); try constructor; try lia;
    try (unfold occupied; simpl; lia); try (intros; discriminate).
Qed.

(* ------------------------------------------------------------------ list lemmas *)
Lemma find_item_some i m x : find_item i m = Some x -> In x m /\ mid x = i.
Proof.
  unfold find_item. intros H. apply find_some in H. destruct H as (A & B). apply Nat.eqb_eq in B. auto.
Qed.

Lemma in_drop i m x : In x (drop_item i m) <-> In x m /\ mid x <> i.
Proof.
  unfold drop_item. rewrite filter_In. split; intros (A & B); split; auto.
  - intros E. rewrite E, Nat.eqb_refl in B. discriminate.
  - apply negb_true_iff. apply Nat.eqb_neq. auto.
Qed.

Lemma filter_length_le {A} (p : A -> bool) l : (length (filter p l) <= length l)%nat.
Proof. induction l as [|x l IH]; simpl; auto. destruct (p x); simpl; lia. Qed.

Lemma drop_length i m x : find_item i m = Some x -> (S (length (drop_item i m)) <= length m)%nat.
Proof.
  unfold find_item, drop_item. induction m as [|y m IH]; simpl; [discriminate|].
  destruct (Nat.eqb (mid y) i) eqn:E; simpl.
  - intros _. pose proof (filter_length_le (fun x0 => negb (Nat.eqb (mid x0) i)) m). lia.
  - intros H. specialize (IH H). lia.
Qed.

Lemma remove_first_length i l : (length (remove_first i l) <= length l)%nat.
Proof. induction l as [|x l IH]; simpl; auto. destruct (Nat.eqb x i); simpl; lia. Qed.

Lemma nodup_map_filter {A B} (f : A -> B) (p : A -> bool) l : NoDup (map f l) -> NoDup (map f (filter p l)).
Proof.
  induction l as [|x l IH]; simpl; intros H; [constructor|]. inversion H; subst.
  destruct (p x); simpl; auto. constructor; auto. intros C. apply H2.
  apply in_map_iff in C. destruct C as (y & E & Hy). apply filter_In in Hy. apply in_map_iff. exists y. tauto.
Qed.

Lemma NoDup_app_single_fv {A} (l : list A) x : NoDup l -> ~ In x l -> NoDup (l ++ [x]).
Proof.
  induction l as [|y l IH]; simpl; intros ND NI; [constructor; [intros []|constructor]|].
  inversion ND; subst. constructor.
  - intros C. apply in_app_or in C. destruct C as [C|[C|[]]]; [auto|subst; apply NI; auto].
  - apply IH; auto.
Qed.

Lemma nodup_mid_inj m x y : NoDup (map mid m) -> In x m -> In y m -> mid x = mid y -> x = y.
Proof.
  induction m as [|z m IH]; [intros _ []|]. simpl. intros ND Hx Hy E. inversion ND; subst.
  destruct Hx as [->|Hx], Hy as [->|Hy]; auto.
  - exfalso. apply H1. apply in_map_iff. exists y. split; auto.
  - exfalso. apply H1. apply in_map_iff. exists x. split; auto.
Qed.

Lemma ssorted_filter {A} (R : A -> A -> Prop) (p : A -> bool) l : StronglySorted R l -> StronglySorted R (filter p l).
Proof.
  induction 1 as [|x l S IH F]; simpl; [constructor|]. destruct (p x); auto. constructor; auto.
  apply Forall_forall. intros y Hy. apply filter_In in Hy. eapply Forall_forall in F; [exact F|tauto].
Qed.

Lemma ssorted_map_entry (f : mitem -> mitem) l :
  (forall x, entry (f x) = entry x) -> StronglySorted entry_le l -> StronglySorted entry_le (map f l).
Proof.
  intros E. induction 1 as [|x l S IH F]; simpl; constructor; auto.
  apply Forall_forall. intros y Hy. apply in_map_iff in Hy. destruct Hy as (z & <- & Hz).
  unfold entry_le. rewrite !E. eapply Forall_forall in F; eauto.
Qed.

Lemma ssorted_app_max l y : StronglySorted entry_le l -> (forall x, In x l -> entry x <= entry y) ->
  StronglySorted entry_le (l ++ [y]).
Proof.
  induction 1 as [|x l S IH F]; simpl; intros H.
  - constructor; constructor.
  - constructor; [apply IH; intros; apply H; auto|].
    apply Forall_forall. intros z Hz. apply in_app_or in Hz. destruct Hz as [Hz|[<-|[]]].
    + eapply Forall_forall in F; eauto.
    + apply H. auto.
Qed.

Lemma ssorted_last l d x : StronglySorted entry_le l -> In x l -> entry x <= entry (last l d).
Proof.
  induction 1 as [|y l S IH F]; [intros []|]. intros [<-|H].
  - destruct l as [|z l]; simpl; [lia|]. change (entry y <= entry (last (z :: l) d)).
    assert (In (last (z :: l) d) (z :: l)) as HL.
    { clear. revert z. induction l as [|a l IH]; intros z; simpl; auto. right. apply IH. }
    eapply Forall_forall in F; eauto.
  - destruct l as [|z l]; [destruct H|]. change (entry x <= entry (last (z :: l) d)). auto.
Qed.

Lemma last_in {A} (l : list A) d : l <> [] -> In (last l d) l.
Proof.
  induction l as [|a l IH]; [congruence|]. intros _. destruct l as [|b l]; simpl; auto.
  right. apply IH. discriminate.
Qed.

(* ------------------------------------------------------------------ the admission test *)
Lemma gate_cap b n o : gate b n o = true -> (occupied b < bcap b)%nat /\ nres b = 0%nat.
Proof.
  unfold gate. intros H. apply andb_true_iff in H. destruct H as (H0 & H). apply Nat.eqb_eq in H0.
  split; auto. destruct (moving b) as [|f m].
  - apply andb_true_iff in H. destruct H as (H & _). apply Nat.ltb_lt in H. exact H.
  - destruct (slotted b); repeat (apply andb_true_iff in H; destruct H as (H & ?)); apply Nat.ltb_lt in H; exact H.
Qed.

Lemma tob_le now x : 0 <= total x -> (forall s, intr x = Some s -> s <= now) -> tob now x <= now - entry x.
Proof. intros T S. unfold tob. destruct (intr x) as [s|]; [specialize (S s eq_refl)|]; lia. Qed.

(* a grant on a belt that still carries items: each of them entered at least one slot time ago *)
Lemma gate_spacing b n o : gate b n o = true ->
  Forall (WI (bD b) (bclock b)) (moving b) -> StronglySorted entry_le (moving b) ->
  forall x, In x (moving b) -> entry x + bu b <= bclock b.
Proof.
  unfold gate. intros H FA SS x Hx. destruct (moving b) as [|f m] eqn:EM; [destruct Hx|].
  apply andb_true_iff in H. destruct H as (_ & H).
  assert (In (last (f :: m) f) (f :: m)) as HL by (apply last_in; discriminate).
  assert (entry x <= entry (last (f :: m) f)) as LE by (apply ssorted_last; auto).
  eapply Forall_forall in FA; [|exact HL]. destruct FA as (T & _ & W).
  destruct (slotted b).
  - apply andb_true_iff in H. destruct H as (_ & H). apply Z.leb_le in H. lia.
  - apply andb_true_iff in H. destruct H as (H & _). apply andb_true_iff in H. destruct H as (_ & H).
    apply Z.leb_le in H.
    assert (tob (bclock b) (last (f :: m) f) <= bclock b - entry (last (f :: m) f)).
    { apply tob_le; auto. intros s Es. rewrite Es in W. tauto. }
    lia.
Qed.

(* ------------------------------------------------------------------ one step *)
Lemma WI_mono D now now' x : now <= now' -> (running x = true -> now' <= due x) -> WI D now x -> WI D now' x.
Proof.
  unfold WI, running, due. intros L R (A & B & C). split; auto. split; [lia|].
  destruct (intr x) as [s|].
  - destruct C as (C1 & C2). split; [lia|auto].
  - intros Hd. destruct (C Hd) as (C1 & C2). split; auto. apply R. rewrite Hd. reflexivity.
Qed.

Lemma bstep_inv b o b' g : BInv b -> bstep b o = Some (b', g) -> BInv b'.
Proof.
  intros I H. destruct I as [iD iI iA iM iU iE iS iC iO iP iSp]. destruct o as [d|noacc one|i|i| |i|i]; simpl in H.
  - (* idle *)
    destruct ((0 <? d) && _) eqn:G; [|discriminate]. inversion H; subst; clear H.
    apply andb_true_iff in G. destruct G as (G1 & G2). apply Z.ltb_lt in G1. rewrite forallb_forall in G2.
    constructor; simpl; auto.
    + apply Forall_forall. intros x Hx. eapply Forall_forall in iI; [|exact Hx].
      eapply WI_mono; [| |exact iI]; [lia|]. intros R. specialize (G2 x Hx). rewrite R in G2. simpl in G2.
      apply Z.leb_le in G2. exact G2.
    + intros i e a t Hi. destruct (iA _ _ _ _ Hi) as (A1 & A2 & A3 & A4). repeat split; auto. lia.
    + intros N j e Hj. specialize (iP N j e Hj). lia.
  - (* admission test *)
    destruct (gate b noacc one) eqn:G; inversion H; subst; clear H; [|constructor; auto].
    destruct (gate_cap _ _ _ G) as (G1 & G2).
    constructor; simpl; auto.
    + unfold occupied in *; simpl. lia.
    + intros _ j e Hj. destruct (entered b) as [|[j' e'] en] eqn:EN; [discriminate|]. simpl in Hj. inversion Hj; subst j' e'.
      destruct (iE j e) as [(x & Hx & Mx & Ex)|(a & t & Ha)]; [left; reflexivity| |].
      * pose proof (gate_spacing b noacc one G iI iS x Hx). lia.
      * destruct (iA _ _ _ _ Ha) as (A1 & A2 & A3 & _). lia.
  - (* put *)
    destruct (nres b) as [|n] eqn:N; [discriminate|].
    destruct ((_ <? _)%nat && _) eqn:G; [|discriminate]. inversion H; subst; clear H.
    apply andb_true_iff in G. destruct G as (G1 & G2). apply Nat.ltb_lt in G1. apply negb_true_iff in G2.
    assert (forall e, ~ In (i, e) (entered b)) as FR.
    { intros e He. assert (existsb (fun e0 => Nat.eqb (fst e0) i) (entered b) = true); [|congruence].
      apply existsb_exists. exists (i, e). split; auto. simpl. apply Nat.eqb_refl. }
    assert (n = 0%nat) by lia. subst n.
    constructor; simpl; auto.
    + apply Forall_app. split; auto. constructor; [|constructor]. unfold WI; simpl. repeat split; lia.
    + intros j e a t Hj. destruct (iA _ _ _ _ Hj) as (A1 & A2 & A3 & A4). repeat split; auto.
    + intros x Hx. apply in_app_or in Hx. destruct Hx as [Hx|[<-|[]]]; simpl; auto.
    + rewrite map_app. simpl. apply NoDup_app_single_fv; auto.
      intros C. apply in_map_iff in C. destruct C as (x & Mx & Hx). specialize (iM x Hx). rewrite Mx in iM. eapply FR; eauto.
    + intros j e [Hj|Hj].
      * inversion Hj; subst. left. eexists. split; [apply in_or_app; right; left; reflexivity|]. simpl. auto.
      * destruct (iE _ _ Hj) as [(x & Hx & Mx & Ex)|R]; [left; exists x; split; [apply in_or_app; auto|auto]|right; exact R].
    + apply ssorted_app_max; auto. intros x Hx. simpl. eapply Forall_forall in iI; [|exact Hx]. destruct iI as (_ & L & _). exact L.
    + unfold occupied in *. simpl. rewrite app_length. simpl. rewrite N in iC. lia.
    + intros; discriminate.
    + destruct (entered b) as [|[j e] en] eqn:EN; [exact Logic.I|]. split; [|exact iSp].
      apply (iP eq_refl j e). reflexivity.
  - (* interrupt *)
    destruct (find_item i (moving b)) as [x|] eqn:F; [|discriminate]. destruct (dead x) eqn:Dx; [discriminate|].
    inversion H; subst; clear H.
    set (f := fun y => if Nat.eqb (mid y) i then interrupt (bclock b) y else y).
    assert (forall y, mid (f y) = mid y /\ entry (f y) = entry y) as FE.
    { intros y. unfold f, interrupt. destruct (Nat.eqb (mid y) i); [|auto]. destruct (intr y); simpl; auto. }
    constructor; simpl; auto.
    + apply Forall_forall. intros y Hy. apply in_map_iff in Hy. destruct Hy as (z & <- & Hz).
      eapply Forall_forall in iI; [|exact Hz]. unfold f. destruct (Nat.eqb (mid z) i); auto.
      destruct iI as (T & E & W). unfold interrupt, WI. destruct (intr z) as [s|] eqn:Iz; simpl; rewrite ?Iz.
      * repeat split; auto; try tauto; intros; discriminate.
      * split; [exact T|]. split; [exact E|]. split; [lia|]. intros Hd. destruct (W Hd). lia.
    + intros y Hy. apply in_map_iff in Hy. destruct Hy as (z & <- & Hz). destruct (FE z) as (-> & ->). auto.
    + rewrite map_map. erewrite map_ext; [exact iU|]. intros y. apply FE.
    + intros j e Hj. destruct (iE _ _ Hj) as [(y & Hy & My & Ey)|R]; [left|right; exact R].
      exists (f y). destruct (FE y) as (-> & ->). split; auto. apply in_map. exact Hy.
    + apply ssorted_map_entry; auto. intros y. apply FE.
    + unfold occupied in *. simpl. rewrite map_length. exact iC.
  - (* resume *)
    inversion H; subst; clear H.
    assert (forall y, mid (resume (bclock b) y) = mid y /\ entry (resume (bclock b) y) = entry y) as FE.
    { intros y. unfold resume. destruct (intr y); [|auto]. destruct (dead y); simpl; auto. }
    constructor; simpl; auto.
    + apply Forall_forall. intros y Hy. apply in_map_iff in Hy. destruct Hy as (z & <- & Hz).
      eapply Forall_forall in iI; [|exact Hz]. destruct iI as (T & E & W). unfold resume.
      destruct (intr z) as [s|] eqn:Iz; [|unfold WI; rewrite Iz; auto].
      destruct (dead z) eqn:Dz; [unfold WI; rewrite Iz, Dz; repeat split; try tauto; intros; discriminate|]. destruct W as (W1 & W2). destruct (W2 eq_refl) as (W3 & W4).
      unfold WI; simpl. repeat split; try lia.
    + intros y Hy. apply in_map_iff in Hy. destruct Hy as (z & <- & Hz). destruct (FE z) as (-> & ->). auto.
    + rewrite map_map. erewrite map_ext; [exact iU|]. intros y. apply FE.
    + intros j e Hj. destruct (iE _ _ Hj) as [(y & Hy & My & Ey)|R]; [left|right; exact R].
      exists (resume (bclock b) y). destruct (FE y) as (-> & ->). split; auto. apply in_map. exact Hy.
    + apply ssorted_map_entry; auto. intros y. apply FE.
    + unfold occupied in *. simpl. rewrite map_length. exact iC.
  - (* arrival at the exit *)
    destruct (find_item i (moving b)) as [x|] eqn:F; [|discriminate].
    destruct (running x && (due x =? bclock b)) eqn:G; [|discriminate]. inversion H; subst; clear H.
    apply andb_true_iff in G. destruct G as (G1 & G2). apply Z.eqb_eq in G2.
    destruct (find_item_some _ _ _ F) as (Hx & Mx).
    pose proof iI as iI'. eapply Forall_forall in iI'; [|exact Hx]. destruct iI' as (T & E & W).
    unfold running in G1. destruct (intr x) eqn:Ix; [discriminate|]. apply negb_true_iff in G1.
    destruct (W G1) as (W1 & W2). unfold due in G2.
    constructor; simpl; auto.
    + apply Forall_forall. intros y Hy. apply in_drop in Hy. eapply Forall_forall in iI; [exact iI|tauto].
    + intros j e a t [Hj|Hj].
      * injection Hj as <- <- <- <-. repeat split; try lia. rewrite <- Mx. apply iM. exact Hx.
      * apply iA. exact Hj.
    + intros y Hy. apply in_drop in Hy. apply iM. tauto.
    + apply nodup_map_filter. exact iU.
    + intros j e Hj. destruct (iE _ _ Hj) as [(y & Hy & My & Ey)|(a & t & R)]; [|right; exists a, t; right; exact R].
      destruct (Nat.eq_dec j i) as [->|NE].
      * right. assert (y = x) as ->.
        { eapply nodup_mid_inj; eauto. congruence. }
        exists (bclock b), (total x). left. congruence.
      * left. exists y. split; auto. apply in_drop. split; auto. congruence.
    + apply ssorted_filter. exact iS.
    + unfold occupied in *. simpl. rewrite app_length. simpl. pose proof (drop_length _ _ _ F). lia.
  - (* get *)
    destruct (existsb (Nat.eqb i) (bready b)); [|discriminate]. inversion H; subst; clear H.
    constructor; simpl; auto. unfold occupied in *. simpl. pose proof (remove_first_length i (bready b)). lia.
Qed.

(* ------------------------------------------------------------------ every legal history *)
Lemma bstep_params b o b' g : bstep b o = Some (b', g) ->
  slotted b' = slotted b /\ bcap b' = bcap b /\ bu b' = bu b /\ bD b' = bD b /\ bacc b' = bacc b /\ bclock b <= bclock b'.
Proof.
  destruct o as [d|noacc one|i|i| |i|i]; simpl.
  - destruct ((0 <? d) && _) eqn:G; [|discriminate]. apply andb_true_iff in G. destruct G as (G & _). apply Z.ltb_lt in G.
    intros [= <- _]. simpl. repeat split; auto. lia.
  - destruct (gate b noacc one); intros [= <- _]; simpl; repeat split; auto; lia.
  - destruct (nres b); [discriminate|]. destruct (_ && _); [|discriminate]. intros [= <- _]; simpl; repeat split; auto; lia.
  - destruct (find_item i (moving b)) as [x|]; [|discriminate]. destruct (dead x); [discriminate|].
    intros [= <- _]; simpl; repeat split; auto; lia.
  - intros [= <- _]; simpl; repeat split; auto; lia.
  - destruct (find_item i (moving b)) as [x|]; [|discriminate]. destruct (_ && _); [|discriminate].
    intros [= <- _]; simpl; repeat split; auto; lia.
  - destruct (existsb _ _); [|discriminate]. intros [= <- _]; simpl; repeat split; auto; lia.
Qed.

Lemma brun_inv ops : forall b b', BInv b -> brun b ops = Some b' ->
  BInv b' /\ slotted b' = slotted b /\ bcap b' = bcap b /\ bu b' = bu b /\ bD b' = bD b /\ bacc b' = bacc b /\ bclock b <= bclock b'.
Proof.
  induction ops as [|o r IH]; intros b b' I E; cbn [brun] in E.
  - inversion E; subst. split; [exact I|]. repeat split; lia.
  - destruct (bstep b o) as [[b1 g]|] eqn:ES; [|discriminate].
    destruct (IH _ _ (bstep_inv _ _ _ _ I ES) E) as (A & B1 & B2 & B3 & B4 & B5 & B6).
    destruct (bstep_params _ _ _ _ ES) as (C1 & C2 & C3 & C4 & C5 & C6). split; [exact A|]. repeat split; try congruence. lia.
Qed.

(* C12: an item is offered to the destination exactly [D] plus the time it spent interrupted after it
   entered -- never earlier than the full belt travel time, whatever the pattern of interrupts *)
Theorem travel_time sl c u D acc ops b i e a t :
  0 < u <= D -> brun (binit sl c u D acc) ops = Some b -> In (i, e, a, t) (arrived b) ->
  a = e + D + t /\ 0 <= t /\ In (i, e) (entered b).
Proof.
  intros H E Hi. destruct (brun_inv ops _ _ (binit_inv sl c u D acc H) E) as (I & _ & _ & _ & P & _).
  simpl in P. destruct (i_arr _ I _ _ _ _ Hi) as (A & B & _ & C). rewrite P in A. auto.
Qed.

Corollary min_travel_time sl c u D acc ops b i e a t :
  0 < u <= D -> brun (binit sl c u D acc) ops = Some b -> In (i, e, a, t) (arrived b) -> e + D <= a.
Proof. intros H E Hi. destruct (travel_time _ _ _ _ _ _ _ _ _ _ _ H E Hi) as (A & B & _). lia. Qed.

(* C12: capacity -- items on the belt plus granted entries never exceed the capacity *)
Theorem belt_capacity sl c u D acc ops b :
  0 < u <= D -> brun (binit sl c u D acc) ops = Some b ->
  (nres b + length (moving b) + length (bready b) <= c)%nat.
Proof.
  intros H E. destruct (brun_inv ops _ _ (binit_inv sl c u D acc H) E) as (I & _ & P & _).
  simpl in P. pose proof (i_cap _ I) as C. unfold occupied in C. lia.
Qed.

(* C12: successive items enter at least one slot time apart, and one entry is granted at a time *)
Theorem entry_spacing sl c u D acc ops b :
  0 < u <= D -> brun (binit sl c u D acc) ops = Some b -> spaced u (entered b) /\ (nres b <= 1)%nat.
Proof.
  intros H E. destruct (brun_inv ops _ _ (binit_inv sl c u D acc H) E) as (I & _ & _ & P & _).
  simpl in P. rewrite <- P. split; [apply (i_spaced _ I)|apply (i_one _ I)].
Qed.

(* ------------------------------------------------------------------ histories without interrupts *)
Definition not_int (o : bop) : bool := match o with BInt _ => false | _ => true end.

Definition NInv (b : tb) : Prop :=
  Forall (fun x => total x = 0 /\ intr x = None /\ dead x = false) (moving b) /\
  forall i e a t, In (i, e, a, t) (arrived b) -> t = 0.

Lemma bstep_ninv b o b' g : NInv b -> not_int o = true -> bstep b o = Some (b', g) -> NInv b'.
Proof.
  intros (N1 & N2) NI H. destruct o as [d|noacc one|i|i| |i|i]; simpl in H; try discriminate.
  - destruct ((0 <? d) && _); [|discriminate]. inversion H; subst. split; auto.
  - destruct (gate b noacc one); inversion H; subst; split; auto.
  - destruct (nres b); [discriminate|]. destruct (_ && _); [|discriminate]. inversion H; subst. split; auto. simpl.
    apply Forall_app. split; auto.
  - inversion H; subst. split; auto. simpl. apply Forall_forall. intros y Hy. apply in_map_iff in Hy.
    destruct Hy as (z & <- & Hz). eapply Forall_forall in N1; [|exact Hz]. destruct N1 as (A & B & C).
    unfold resume. rewrite B. auto.
  - destruct (find_item i (moving b)) as [x|] eqn:F; [|discriminate]. destruct (_ && _); [|discriminate]. inversion H; subst.
    destruct (find_item_some _ _ _ F) as (Hx & Mx). split; simpl.
    + apply Forall_forall. intros y Hy. apply in_drop in Hy. eapply Forall_forall in N1; [exact N1|tauto].
    + intros j e a t [Hj|Hj]; [|eauto]. injection Hj as <- <- <- <-. eapply Forall_forall in N1; [|exact Hx]. tauto.
  - destruct (existsb _ _); [|discriminate]. inversion H; subst. split; auto.
Qed.

Lemma brun_ninv ops : forall b b', NInv b -> forallb not_int ops = true -> brun b ops = Some b' -> NInv b'.
Proof.
  induction ops as [|o r IH]; intros b b' N F E; cbn [brun] in E.
  - inversion E; subst; auto.
  - simpl in F. apply andb_true_iff in F. destruct F as (F1 & F2).
    destruct (bstep b o) as [[b1 g]|] eqn:ES; [|discriminate].
    apply (IH b1 b' (bstep_ninv _ _ _ _ N F1 ES) F2 E).
Qed.

(* C12: when the belt is never interrupted (the destination takes every item as soon as it is
   offered, so the conveyor never stalls) the travel time is exactly [D] *)
Theorem exact_travel_uninterrupted sl c u D acc ops b i e a t :
  0 < u <= D -> forallb not_int ops = true -> brun (binit sl c u D acc) ops = Some b ->
  In (i, e, a, t) (arrived b) -> a = e + D.
Proof.
  intros H NI E Hi. destruct (travel_time _ _ _ _ _ _ _ _ _ _ _ H E Hi) as (A & _).
  assert (NInv (binit sl c u D acc)) as N0 by (split; [constructor|intros ? ? ? ? []]).
  destruct (brun_ninv ops _ _ N0 NI E) as (_ & N2). rewrite (N2 _ _ _ _ Hi) in A. lia.
Qed.

Lemma spaced_bound u l : 0 < u -> spaced u l -> forall i e, hd_error l = Some (i, e) ->
  forall j e', In (j, e') (tl l) -> e' < e.
Proof.
  intros Hu. induction l as [|[i0 e0] l IH]; [discriminate|]. intros S i e [= <- <-] j e' Hj. simpl in Hj.
  destruct l as [|[i1 e1] l]; [destruct Hj|]. destruct S as (S1 & S2). destruct Hj as [Hj|Hj].
  - inversion Hj; subst. lia.
  - specialize (IH S2 i1 e1 eq_refl j e' Hj). lia.
Qed.

Lemma spaced_entry_inj u l : 0 < u -> spaced u l -> forall i j e, In (i, e) l -> In (j, e) l -> i = j.
Proof.
  intros Hu. induction l as [|[i0 e0] l IH]; [intros _ ? ? ? []|]. intros S i j e Hi Hj.
  assert (spaced u l) as S' by (destruct l as [|[? ?] ?]; [exact Logic.I|apply S]).
  destruct Hi as [Hi|Hi], Hj as [Hj|Hj].
  - congruence.
  - inversion Hi; subst. pose proof (spaced_bound u _ Hu S i e eq_refl j e Hj). lia.
  - inversion Hj; subst. pose proof (spaced_bound u _ Hu S j e eq_refl i e Hi). lia.
  - eapply IH; eauto.
Qed.

(* C12: without interrupts the item that arrives at the exit is the oldest one on the belt, so the
   items are offered in the order in which they entered *)
Theorem fifo_uninterrupted sl c u D acc ops b i b' g :
  0 < u <= D -> forallb not_int ops = true -> brun (binit sl c u D acc) ops = Some b ->
  bstep b (BReady i) = Some (b', g) -> exists x m, moving b = x :: m /\ mid x = i.
Proof.
  intros H NI E ST.
  destruct (brun_inv ops _ _ (binit_inv sl c u D acc H) E) as (I & _ & _ & Pu & PD & _). simpl in Pu, PD.
  assert (NInv (binit sl c u D acc)) as N0 by (split; [constructor|intros ? ? ? ? []]).
  destruct (brun_ninv ops _ _ N0 NI E) as (N1 & _).
  simpl in ST. destruct (find_item i (moving b)) as [x|] eqn:F; [|discriminate].
  destruct (running x && (due x =? bclock b)) eqn:G; [|discriminate].
  apply andb_true_iff in G. destruct G as (_ & G). apply Z.eqb_eq in G.
  destruct (find_item_some _ _ _ F) as (Hx & Mx).
  destruct (moving b) as [|h m] eqn:EM; [destruct Hx|]. exists h, m. split; auto.
  destruct Hx as [->|Hx]; auto.
  (* x is behind h: h would be overdue *)
  pose proof (i_sorted _ I) as SS. rewrite EM in SS. inversion SS as [|? ? _ FA]; subst.
  eapply Forall_forall in FA; [|exact Hx]. unfold entry_le in FA.
  pose proof (i_items _ I) as WIs. rewrite EM in WIs.
  assert (In h (h :: m)) as Hh by (left; reflexivity). assert (In x (h :: m)) as Hx' by (right; exact Hx).
  pose proof WIs as Wh. eapply Forall_forall in Wh; [|exact Hh]. pose proof WIs as Wx. eapply Forall_forall in Wx; [|exact Hx'].
  pose proof N1 as Nh. eapply Forall_forall in Nh; [|exact Hh]. pose proof N1 as Nx. eapply Forall_forall in Nx; [|exact Hx'].
  destruct Nh as (Th & Ih & Dh), Nx as (Tx & Ix & Dx).
  destruct Wh as (_ & _ & Wh), Wx as (_ & _ & Wx). rewrite Ih in Wh. rewrite Ix in Wx.
  destruct (Wh Dh) as (Wh1 & Wh2). destruct (Wx Dx) as (Wx1 & Wx2). unfold due in G.
  assert (entry h = entry x) as EE by lia.
  assert (mid h = mid x) as MM.
  { eapply (spaced_entry_inj (bu b) (entered b)); [lia|apply (i_spaced _ I)| |].
    - apply (i_mov _ I). rewrite EM. exact Hh.
    - rewrite EE. apply (i_mov _ I). rewrite EM. exact Hx'. }
  congruence.
Qed.

(* ------------------------------------------------------------------ C13: stopping and resuming *)
(* distance travelled + distance still to go = the whole belt, for every item on the belt, in every
   reachable state and under every pattern of interrupts: an interrupted item is frozen ... *)
Definition to_go (now : Z) (x : mitem) : Z :=
  match intr x with Some _ => rem x | None => due x - now end.

Theorem travel_accounting sl c u D acc ops b x :
  0 < u <= D -> brun (binit sl c u D acc) ops = Some b -> In x (moving b) -> dead x = false ->
  tob (bclock b) x + to_go (bclock b) x = D /\ 0 <= to_go (bclock b) x.
Proof.
  intros H E Hx Dx. destruct (brun_inv ops _ _ (binit_inv sl c u D acc H) E) as (I & _ & _ & _ & PD & _). simpl in PD.
  pose proof (i_items _ I) as W. eapply Forall_forall in W; [|exact Hx]. destruct W as (T & En & W).
  unfold tob, to_go, due. rewrite PD in W. destruct (intr x) as [s|].
  - destruct W as (W1 & W2). destruct (W2 Dx). lia.
  - destruct (W Dx). lia.
Qed.

(* ... the passing of time moves no interrupted item ... *)
Theorem interrupted_item_frozen b d b' g x s :
  bstep b (BIdle d) = Some (b', g) -> In x (moving b) -> intr x = Some s ->
  In x (moving b') /\ tob (bclock b') x = tob (bclock b) x /\ to_go (bclock b') x = to_go (bclock b) x.
Proof.
  simpl. destruct ((0 <? d) && _); [|discriminate]. intros [= <- _] Hx Ix. simpl. split; auto.
  unfold tob, to_go. rewrite Ix. split; lia.
Qed.

(* ... and on release it resumes from exactly where it stopped: it needs its remaining travel time *)
Theorem resume_is_exact b b' g x s :
  bstep b BResume = Some (b', g) -> In x (moving b) -> intr x = Some s -> dead x = false ->
  let y := resume (bclock b) x in
  In y (moving b') /\ intr y = None /\ due y = bclock b + rem x /\ total y = total x + (bclock b - s) /\ bclock b' = bclock b.
Proof.
  simpl. intros [= <- _] Hx Ix Dx. simpl. split; [apply in_map; exact Hx|].
  unfold resume, due. rewrite Ix, Dx. simpl. auto.
Qed.

(* the admission test: a non-accumulating continuous belt lets in nothing while an item waits at the exit *)
Theorem nonacc_closed_while_head_waits b n o :
  slotted b = false -> bacc b = false -> bready b <> [] -> gate b n o = false.
Proof.
  intros S A R. unfold gate. rewrite S, A. destruct (bready b) as [|r rs]; [congruence|]. simpl.
  destruct (moving b); rewrite ?andb_false_r; reflexivity.
Qed.

(* an accumulating belt with nothing moving lets in until it holds [capacity] items *)
Theorem acc_open_until_full b n o :
  bacc b = true -> moving b = [] -> nres b = 0%nat -> gate b n o = (length (bready b) <? bcap b)%nat.
Proof.
  intros A M N. unfold gate, occupied. rewrite A, M, N. simpl. rewrite orb_true_r, andb_true_r. reflexivity.
Qed.

