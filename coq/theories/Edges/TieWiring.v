(* Tie B, constructor wiring: the edge models are built from an edge's configured capacity / mode / delays (the factory model's
   [est] is [StoreB.init kind mode capacity], the belt models take the slot delay and the speed as parameters).  That the
   implementation's edge objects hand exactly those constructor parameters down to the store that enforces them -- through
   every link of the chain edge -> private store subclass -> store -> simpy.Store -- is re-read from the constructors on every run:
   each fragment names (type [pyarg]) the caller's own parameter that arrives at the callee's parameter (directly or through
   `self.X = parameter`), the literal 'FIFO', [A_default] when nothing is passed, [A_other] for anything else (another parameter,
   another literal, a computed expression). *)
From FV Require Import SrcFragments.

(* C01: the capacity a user configures is the capacity the store enforces *)
Lemma capacity_reaches_the_store :
  Buffer_store_capacity_wiring = SrcFragments.A_capacity /\ BufferStore_base_capacity_wiring = SrcFragments.A_capacity /\
  Fleet_store_capacity_wiring = SrcFragments.A_capacity /\ FleetStore_base_capacity_wiring = SrcFragments.A_capacity /\
  SlotConveyor_store_capacity_wiring = SrcFragments.A_capacity /\ SlotConveyorStore_base_capacity_wiring = SrcFragments.A_capacity /\
  SlotBeltStore_base_capacity_wiring = SrcFragments.A_capacity /\ ContBeltStore_base_capacity_wiring = SrcFragments.A_capacity /\
  ReservableReqStore_base_capacity_wiring = SrcFragments.A_capacity /\ ReservablePriorityReqStore_base_capacity_wiring = SrcFragments.A_capacity.
Proof. repeat split; reflexivity. Qed.

(* C06: the retrieval mode (FIFO / LIFO) of a Buffer is the mode of its store *)
Lemma mode_reaches_the_store : Buffer_store_mode_wiring = SrcFragments.A_mode /\ BufferStore_keeps_mode = SrcFragments.A_mode.
Proof. repeat split; reflexivity. Qed.

(* C12 / C13: the slot delay of a slotted conveyor is the delay its entrance test and its move process use; a continuous
   conveyor's speed and accumulation flag are those of its belt store *)
Lemma slot_delay_reaches_the_gate :
  SlotConveyor_store_delay_wiring = SrcFragments.A_delay /\ SlotConveyorStore_base_delay_wiring = SrcFragments.A_delay /\ SlotBeltStore_keeps_delay = SrcFragments.A_delay /\
  SlotConveyorStore_base_mode_wiring = SrcFragments.A_const_FIFO.
Proof. repeat split; reflexivity. Qed.
Lemma speed_reaches_the_belt :
  ContConveyor_store_speed_wiring = SrcFragments.A_speed /\ ContBeltStore_keeps_speed = SrcFragments.A_speed /\
  ContConveyor_store_accumulation_mode_indicator_wiring = SrcFragments.A_accumulating.
Proof. repeat split; reflexivity. Qed.

(* C14: a fleet's waiting delay and transit delay are those of its store *)
Lemma fleet_delays_reach_the_store :
  Fleet_store_delay_wiring = SrcFragments.A_delay /\ FleetStore_keeps_delay = SrcFragments.A_delay /\
  Fleet_store_transit_delay_wiring = SrcFragments.A_transit_delay /\ FleetStore_keeps_transit_delay = SrcFragments.A_transit_delay.
Proof. repeat split; reflexivity. Qed.
