(* Timed model of the conveyor belt stores (base/belt_store.py, base/slotted_belt_store.py) for C12 /
   C13: the travel timer of every item with interrupt / resume (move_to_ready_items; its two phases
   are one remaining-time counter, which is all the arithmetic distinguishes), the admission test of
   _do_reserve_put computed from the model's own state, puts, arrivals at the exit and gets.
   Interrupts and resumes are inputs: the conveyor's state machine (and the accumulating belts'
   pattern heuristics) decide them, the harness records them, and the theorems hold for every
   pattern of interrupts.  As in TBuffer / TFleet the kernel's contract is the legality of the
   moves: an item arrives exactly when its remaining travel time has elapsed (BReady) and the clock
   never passes the due arrival of a running item (BIdle). *)
From Coq Require Import List ZArith Lia Bool Arith.
Import ListNotations.
Open Scope Z_scope.

Record mitem := {
  mid : nat; entry : Z;
  rem : Z;                 (* remaining travel time when last (re)started / when interrupted *)
  since : Z;               (* start of the current timeout *)
  intr : option Z;         (* interruption_start_time *)
  total : Z;               (* total_interruption_time *)
  dead : bool              (* the travel process was interrupted while waiting for the resume signal and ended *)
}.

Record tb := {
  slotted : bool; bcap : nat; bu : Z; bD : Z; bacc : bool;
  bclock : Z;
  nres : nat;                           (* len(reservations_put) *)
  moving : list mitem;                  (* belt.items, oldest first *)
  bready : list nat;                    (* belt.ready_items *)
  arrived : list (nat * Z * Z * Z);     (* ghost: id, entry, arrival time, total interruption; newest first *)
  entered : list (nat * Z)              (* ghost: id, entry time; newest first *)
}.

Inductive bop :=
| BIdle (d : Z)
| BRsv (noacc one : bool)     (* one evaluation of _do_reserve_put; the two flags are read by the slotted store *)
| BPut (i : nat)
| BInt (i : nat)
| BResume
| BReady (i : nat)
| BGet (i : nat).

(* time the item has travelled on the moving belt *)
Definition tob (now : Z) (x : mitem) : Z :=
  now - entry x - total x - match intr x with Some s => now - s | None => 0 end.

Definition occupied (b : tb) : nat := (nres b + length (moving b) + length (bready b))%nat.

Definition gate (b : tb) (noacc one : bool) : bool :=
  (nres b =? 0)%nat &&          (* one item enters at a time (fix: commit) *)
  match moving b with
  | [] => (occupied b <? bcap b)%nat && (slotted b || bacc b || (length (bready b) =? 0)%nat)
  | first :: _ =>
      let lastx := last (moving b) first in
      if slotted b then
        (occupied b <? bcap b)%nat && (negb noacc || negb one) && (entry lastx + bu b <=? bclock b)
      else
        (occupied b <? bcap b)%nat &&
        (bacc b || (length (bready b) =? 0)%nat) &&
        (bu b <=? tob (bclock b) lastx) &&
        negb (bD b <=? tob (bclock b) first)
  end.

Definition running (x : mitem) : bool := match intr x with None => negb (dead x) | Some _ => false end.
Definition due (x : mitem) : Z := since x + rem x.

Definition set_moving (b : tb) (m : list mitem) : tb :=
  {| slotted := slotted b; bcap := bcap b; bu := bu b; bD := bD b; bacc := bacc b; bclock := bclock b; nres := nres b;
     moving := m; bready := bready b; arrived := arrived b; entered := entered b |}.

Definition interrupt (now : Z) (x : mitem) : mitem :=
  match intr x with
  | Some _ => {| mid := mid x; entry := entry x; rem := rem x; since := since x; intr := intr x; total := total x; dead := true |}
  | None => {| mid := mid x; entry := entry x; rem := rem x - (now - since x); since := since x; intr := Some now;
               total := total x; dead := dead x |}
  end.

Definition resume (now : Z) (x : mitem) : mitem :=
  match intr x with
  | Some s => if dead x then x else
              {| mid := mid x; entry := entry x; rem := rem x; since := now; intr := None; total := total x + (now - s); dead := false |}
  | None => x
  end.

Definition has (i : nat) (m : list mitem) : bool := existsb (fun x => Nat.eqb (mid x) i) m.
Definition find_item (i : nat) (m : list mitem) : option mitem := find (fun x => Nat.eqb (mid x) i) m.
Definition drop_item (i : nat) (m : list mitem) : list mitem := filter (fun x => negb (Nat.eqb (mid x) i)) m.
Fixpoint remove_first (i : nat) (l : list nat) : list nat :=
  match l with [] => [] | x :: r => if Nat.eqb x i then r else x :: remove_first i r end.

Definition bstep (b : tb) (o : bop) : option (tb * bool) :=
  match o with
  | BIdle d =>
      if (0 <? d) && forallb (fun x => negb (running x) || (bclock b + d <=? due x)) (moving b) then
        Some ({| slotted := slotted b; bcap := bcap b; bu := bu b; bD := bD b; bacc := bacc b; bclock := bclock b + d;
                 nres := nres b; moving := moving b; bready := bready b; arrived := arrived b; entered := entered b |}, false)
      else None
  | BRsv noacc one =>
      if gate b noacc one then
        Some ({| slotted := slotted b; bcap := bcap b; bu := bu b; bD := bD b; bacc := bacc b; bclock := bclock b;
                 nres := S (nres b); moving := moving b; bready := bready b; arrived := arrived b; entered := entered b |}, true)
      else Some (b, false)
  | BPut i =>
      match nres b with
      | O => None
      | S n =>
          if (length (moving b) + length (bready b) <? bcap b)%nat && negb (existsb (fun e => Nat.eqb (fst e) i) (entered b)) then
            Some ({| slotted := slotted b; bcap := bcap b; bu := bu b; bD := bD b; bacc := bacc b; bclock := bclock b; nres := n;
                     moving := moving b ++ [{| mid := i; entry := bclock b; rem := bD b; since := bclock b; intr := None;
                                               total := 0; dead := false |}];
                     bready := bready b; arrived := arrived b; entered := (i, bclock b) :: entered b |}, false)
          else None
      end
  | BInt i =>
      match find_item i (moving b) with
      | Some x => if dead x then None else
          Some (set_moving b (map (fun y => if Nat.eqb (mid y) i then interrupt (bclock b) y else y) (moving b)), false)
      | None => None
      end
  | BResume => Some (set_moving b (map (resume (bclock b)) (moving b)), false)
  | BReady i =>
      match find_item i (moving b) with
      | Some x =>
          if running x && (due x =? bclock b) then
            Some ({| slotted := slotted b; bcap := bcap b; bu := bu b; bD := bD b; bacc := bacc b; bclock := bclock b; nres := nres b;
                     moving := drop_item i (moving b); bready := bready b ++ [i];
                     arrived := (i, entry x, bclock b, total x) :: arrived b; entered := entered b |}, false)
          else None
      | None => None
      end
  | BGet i =>
      if existsb (Nat.eqb i) (bready b) then
        Some ({| slotted := slotted b; bcap := bcap b; bu := bu b; bD := bD b; bacc := bacc b; bclock := bclock b; nres := nres b;
                 moving := moving b; bready := remove_first i (bready b); arrived := arrived b; entered := entered b |}, false)
      else None
  end.

Definition binit (sl : bool) (c : nat) (u D : Z) (acc : bool) : tb :=
  {| slotted := sl; bcap := c; bu := u; bD := D; bacc := acc; bclock := 0; nres := 0; moving := []; bready := [];
     arrived := []; entered := [] |}.

Fixpoint brun (b : tb) (ops : list bop) : option tb :=
  match ops with [] => Some b | o :: r => match bstep b o with Some (b', _) => brun b' r | None => None end end.
