(* C12 order under stalls.
   Uniform stalls (what a non-accumulating conveyor does): a stall interrupts every running item at
   once, a release resumes them all, and time passes only while either every item on the belt is
   stopped or none is (an item may enter in the very instant of the release, before the resume).  For the continuous
   belt store, histories of this shape deliver the items in the order in which they entered: the item
   that reaches the exit is always the oldest one on the belt. *)
From Coq Require Import List ZArith Lia Bool Arith Sorted.
From FV Require Import TBelt TBeltProofs.
Import ListNotations.
Open Scope Z_scope.

Definition stall_all (b : tb) : tb :=
  set_moving b (map (fun y => if running y then interrupt (bclock b) y else y) (moving b)).

Inductive uop :=
| UIdle (d : Z) | URsv (noacc one : bool) | UPut (i : nat) | UStall | UResume | UReady (i : nat) | UGet (i : nat).

Definition is_intr (x : mitem) : bool := match intr x with Some _ => true | None => false end.

Definition homog (l : list mitem) : bool := forallb (fun x => negb (is_intr x)) l || forallb is_intr l.

Definition ustep (b : tb) (o : uop) : option (tb * bool) :=
  match o with
  | UIdle d => if homog (moving b) then bstep b (BIdle d) else None
  | URsv n o => bstep b (BRsv n o)
  | UPut i => bstep b (BPut i)
  | UStall => Some (stall_all b, false)
  | UResume => bstep b BResume
  | UReady i => bstep b (BReady i)
  | UGet i => bstep b (BGet i)
  end.

Fixpoint urun (b : tb) (ops : list uop) : option tb :=
  match ops with [] => Some b | o :: r => match ustep b o with Some (b', _) => urun b' r | None => None end end.

(* x is at least one slot further along the belt than y *)
Definition ahead (u now : Z) (x y : mitem) : Prop := to_go now x + u <= to_go now y.

Record UInv (b : tb) : Prop := {
  u_b : BInv b;
  u_cont : slotted b = false;
  u_live : forall x, In x (moving b) -> dead x = false;
  u_order : StronglySorted (ahead (bu b) (bclock b)) (moving b);
  u_pending : nres b = 1%nat -> forall x, In x (moving b) -> bu b <= tob (bclock b) x
}.

Lemma ssorted_map_rel {A} (R1 R2 : A -> A -> Prop) (f : A -> A) l :
  (forall x y, In x l -> In y l -> R1 x y -> R2 (f x) (f y)) -> StronglySorted R1 l -> StronglySorted R2 (map f l).
Proof.
  intros K. induction 1 as [|x l S IH F]; simpl; constructor.
  - apply IH. intros a c Ha Hc. apply K; right; auto.
  - apply Forall_forall. intros y Hy. apply in_map_iff in Hy. destruct Hy as (z & <- & Hz).
    apply K; [left; auto|right; auto|]. eapply Forall_forall in F; eauto.
Qed.

Lemma ssorted_weaken {A} (R1 R2 : A -> A -> Prop) l :
  (forall x y, In x l -> In y l -> R1 x y -> R2 x y) -> StronglySorted R1 l -> StronglySorted R2 l.
Proof. intros K S. rewrite <- (map_id l). apply (ssorted_map_rel R1 R2 (fun x => x)); auto. Qed.

Lemma ssorted_filter' {A} (R : A -> A -> Prop) (p : A -> bool) l : StronglySorted R l -> StronglySorted R (filter p l).
Proof.
  induction 1 as [|x l S IH F]; simpl; [constructor|]. destruct (p x); auto. constructor; auto.
  apply Forall_forall. intros y Hy. apply filter_In in Hy. eapply Forall_forall in F; [exact F|tauto].
Qed.

Lemma ssorted_snoc {A} (R : A -> A -> Prop) l y : StronglySorted R l -> (forall x, In x l -> R x y) -> StronglySorted R (l ++ [y]).
Proof.
  induction 1 as [|x l S IH F]; simpl; intros H.
  - constructor; constructor.
  - constructor; [apply IH; intros; apply H; auto|].
    apply Forall_forall. intros z Hz. apply in_app_or in Hz. destruct Hz as [Hz|[<-|[]]].
    + eapply Forall_forall in F; eauto.
    + apply H. auto.
Qed.

(* everything on the belt is at least as far along as the last item *)
Lemma ahead_last u now l d x : 0 <= u -> StronglySorted (ahead u now) l -> In x l -> to_go now x <= to_go now (last l d).
Proof.
  intros Hu. induction 1 as [|y l S IH F]; [intros []|]. intros [<-|H].
  - destruct l as [|z l]; [simpl; lia|]. change (last (y :: z :: l) d) with (last (z :: l) d).
    assert (In (last (z :: l) d) (z :: l)) as HL by (apply last_in; discriminate).
    eapply Forall_forall in F; [|exact HL]. unfold ahead in F. lia.
  - destruct l as [|z l]; [destruct H|]. change (last (y :: z :: l) d) with (last (z :: l) d). auto.
Qed.

Lemma togo_tob b x : BInv b -> In x (moving b) -> dead x = false ->
  tob (bclock b) x + to_go (bclock b) x = bD b /\ 0 <= to_go (bclock b) x.
Proof.
  intros I Hx Dx. pose proof (i_items _ I) as W. eapply Forall_forall in W; [|exact Hx]. destruct W as (T & En & W).
  unfold tob, to_go, due. destruct (intr x) as [s|].
  - destruct W as (W1 & W2). destruct (W2 Dx). lia.
  - destruct (W Dx). lia.
Qed.

Lemma to_go_running now x : intr x = None -> to_go now x = due x - now.
Proof. unfold to_go. intros ->. reflexivity. Qed.
Lemma to_go_intr now x : is_intr x = true -> to_go now x = rem x.
Proof. unfold to_go, is_intr. destruct (intr x); [reflexivity|discriminate]. Qed.

Lemma stall_all_inv b : BInv b -> BInv (stall_all b).
Proof.
  intros [iD iI iA iM iU iE iS iC iO iP iSp].
  set (f := fun y => if running y then interrupt (bclock b) y else y).
  assert (forall y, mid (f y) = mid y /\ entry (f y) = entry y) as FE.
  { intros y. unfold f, interrupt. destruct (running y); [|auto]. destruct (intr y); simpl; auto. }
  unfold stall_all. fold f. constructor; simpl; auto.
  - apply Forall_forall. intros y Hy. apply in_map_iff in Hy. destruct Hy as (z & <- & Hz).
    eapply Forall_forall in iI; [|exact Hz]. unfold f. destruct (running z) eqn:Rz; auto.
    unfold running in Rz. destruct (intr z) eqn:Iz; [discriminate|]. apply negb_true_iff in Rz.
    destruct iI as (T & E & W). rewrite Iz in W. unfold interrupt, WI. rewrite Iz. simpl.
    split; [exact T|]. split; [exact E|]. split; [lia|]. intros Hd. destruct (W Hd). lia.
  - intros y Hy. apply in_map_iff in Hy. destruct Hy as (z & <- & Hz). destruct (FE z) as (-> & ->). auto.
  - rewrite map_map. erewrite map_ext; [exact iU|]. intros y. apply FE.
  - intros j e Hj. destruct (iE _ _ Hj) as [(y & Hy & My & Ey)|R0]; [left|right; exact R0].
    exists (f y). destruct (FE y) as (-> & ->). split; auto. apply in_map. exact Hy.
  - apply ssorted_map_entry; auto. intros y. apply FE.
  - unfold occupied in *. simpl. rewrite map_length. exact iC.
Qed.

Lemma uinit_inv c u D acc : 0 < u <= D -> UInv (binit false c u D acc).
Proof.
  intros H. constructor; simpl; auto; try (intros x []); try (intros _ x []).
  - apply binit_inv; auto.
  - constructor.
  - tauto.
Qed.

Lemma running_iff x : dead x = false -> intr x = None -> running x = true.
Proof. unfold running. intros A B. rewrite A, B. reflexivity. Qed.

Lemma ustep_binv b o b' g : BInv b -> ustep b o = Some (b', g) -> BInv b'.
Proof.
  intros B H. destruct o; unfold ustep in H; try (eapply bstep_inv; [exact B|exact H]).
  - destruct (homog (moving b)); [|discriminate]. eapply bstep_inv; [exact B|exact H].
  - inversion H; subst. apply stall_all_inv. exact B.
Qed.

Lemma ustep_inv b o b' g : UInv b -> ustep b o = Some (b', g) -> UInv b'.
Proof.
  intros U H. pose proof (ustep_binv _ _ _ _ (u_b _ U) H) as B'.
  destruct U as [uB uC uL uO uP].
  destruct o as [d|noacc one|i| | |i|i]; simpl in H.
  - (* idle *)
    destruct (homog (moving b)) eqn:HM; [|discriminate]. simpl in H.
    assert ((forall x, In x (moving b) -> intr x = None) \/ (forall x, In x (moving b) -> is_intr x = true)) as uM.
    { unfold homog in HM. apply orb_true_iff in HM. destruct HM as [HM|HM]; rewrite forallb_forall in HM; [left|right; exact HM].
      intros x Hx. specialize (HM x Hx). unfold is_intr in HM. destruct (intr x); [discriminate|reflexivity]. }
    destruct ((0 <? d) && _) eqn:G; [|discriminate]. inversion H; subst; clear H.
    apply andb_true_iff in G. destruct G as (G & _). apply Z.ltb_lt in G.
    constructor; simpl; auto.
    + destruct uM as [M|M]; (eapply ssorted_weaken; [|exact uO]); intros x y Hx Hy; unfold ahead; simpl.
      * rewrite !to_go_running by auto. lia.
      * rewrite !to_go_intr by auto. lia.
    + intros N x Hx. specialize (uP N x Hx). unfold tob in *. destruct (intr x); lia.
  - (* admission test *)
    destruct (gate b noacc one) eqn:G; inversion H; subst; clear H; [|constructor; auto].
    constructor; simpl; auto. intros _ x Hx.
    unfold gate in G. rewrite uC in G. destruct (moving b) as [|f m] eqn:EM; [destruct Hx|]. rewrite <- EM in *.
    apply andb_true_iff in G. destruct G as (_ & G). apply andb_true_iff in G. destruct G as (G & _).
    apply andb_true_iff in G. destruct G as (_ & G). apply Z.leb_le in G.
    assert (In (last (moving b) f) (moving b)) as HL by (apply last_in; rewrite EM; discriminate).
    destruct (togo_tob b x uB Hx (uL x Hx)) as (Tx & _).
    destruct (togo_tob b _ uB HL (uL _ HL)) as (Tl & _).
    assert (0 <= bu b) as Hu by (destruct (i_D _ uB); lia).
    pose proof (ahead_last (bu b) (bclock b) (moving b) f x Hu uO Hx). lia.
  - (* put *)
    simpl in H. destruct (nres b) as [|n] eqn:N; [discriminate|].
    destruct ((_ <? _)%nat && _); [|discriminate]. inversion H; subst; clear H.
    assert (n = 0%nat) by (pose proof (i_one _ uB); lia). subst n.
    constructor; simpl; auto.
    + intros x Hx. apply in_app_or in Hx. destruct Hx as [Hx|[<-|[]]]; auto.
    + apply ssorted_snoc; auto. intros x Hx. unfold ahead, to_go at 2, due. simpl.
      destruct (togo_tob b x uB Hx (uL x Hx)) as (Tx & _). specialize (uP eq_refl x Hx). lia.
    + intros; discriminate.
  - (* stall: every running item stops *)
    inversion H; subst; clear H. unfold stall_all in *. simpl.
    set (f := fun y => if running y then interrupt (bclock b) y else y) in *.
    assert (forall x, In x (moving b) -> dead (f x) = false /\ is_intr (f x) = true /\
                                        to_go (bclock b) (f x) = to_go (bclock b) x /\ tob (bclock b) (f x) = tob (bclock b) x) as K.
    { intros x Hx. pose proof (uL x Hx) as Dx. unfold f. destruct (running x) eqn:Rx.
      - unfold running in Rx. destruct (intr x) eqn:Ix; [discriminate|]. unfold interrupt. rewrite Ix.
        unfold is_intr, to_go, tob, due. simpl. rewrite Ix. repeat split; auto; lia.
      - unfold running in Rx. destruct (intr x) eqn:Ix.
        + unfold is_intr. rewrite Ix. auto.
        + rewrite Dx in Rx. discriminate. }
    constructor; simpl; auto.
    + intros y Hy. apply in_map_iff in Hy. destruct Hy as (x & <- & Hx). apply K, Hx.
    + apply (ssorted_map_rel (ahead (bu b) (bclock b))); auto. intros x y Hx Hy. unfold ahead.
      destruct (K x Hx) as (_ & _ & -> & _). destruct (K y Hy) as (_ & _ & -> & _). auto.
    + intros N y Hy. apply in_map_iff in Hy. destruct Hy as (x & <- & Hx). destruct (K x Hx) as (_ & _ & _ & ->). auto.
  - (* release: every stopped item resumes *)
    inversion H; subst; clear H. simpl.
    assert (forall x, In x (moving b) -> dead (resume (bclock b) x) = false /\ intr (resume (bclock b) x) = None /\
                                        to_go (bclock b) (resume (bclock b) x) = to_go (bclock b) x /\
                                        tob (bclock b) (resume (bclock b) x) = tob (bclock b) x) as K.
    { intros x Hx. pose proof (uL x Hx) as Dx. unfold resume. destruct (intr x) eqn:Ix.
      - rewrite Dx. unfold to_go, tob, due. simpl. rewrite Ix. repeat split; auto; lia.
      - repeat split; auto. }
    constructor; simpl; auto.
    + intros y Hy. apply in_map_iff in Hy. destruct Hy as (x & <- & Hx). apply K, Hx.
    + apply (ssorted_map_rel (ahead (bu b) (bclock b))); auto. intros x y Hx Hy. unfold ahead.
      destruct (K x Hx) as (_ & _ & -> & _). destruct (K y Hy) as (_ & _ & -> & _). auto.
    + intros N y Hy. apply in_map_iff in Hy. destruct Hy as (x & <- & Hx). destruct (K x Hx) as (_ & _ & _ & ->). auto.
  - (* arrival *)
    destruct (find_item i (moving b)) as [x|] eqn:F; [|discriminate].
    destruct (running x && (due x =? bclock b)); [|discriminate]. inversion H; subst; clear H.
    constructor; simpl; auto.
    + intros y Hy. apply in_drop in Hy. apply uL. tauto.
    + apply ssorted_filter'. exact uO.
    + intros N y Hy. apply in_drop in Hy. apply uP; tauto.
  - (* get *)
    destruct (existsb (Nat.eqb i) (bready b)); [|discriminate]. inversion H; subst; clear H.
    constructor; simpl; auto.
Qed.

Lemma urun_inv ops : forall b b', UInv b -> urun b ops = Some b' -> UInv b'.
Proof.
  induction ops as [|o r IH]; intros b b' U E; cbn [urun] in E.
  - inversion E; subst; auto.
  - destruct (ustep b o) as [[b1 g]|] eqn:ES; [|discriminate]. eapply IH; [eapply ustep_inv; eauto|exact E].
Qed.

(* C12 order under uniform stalls: on the continuous belt the item that reaches the exit is the
   oldest item on the belt -- in every history of admission tests, puts, stalls of the whole belt,
   releases, arrivals, gets, and idles during which the belt is wholly stopped or wholly moving *)
Theorem fifo_under_uniform_stalls c u D acc ops b i b' g :
  0 < u <= D -> urun (binit false c u D acc) ops = Some b -> ustep b (UReady i) = Some (b', g) ->
  exists x m, moving b = x :: m /\ mid x = i.
Proof.
  intros H E ST. pose proof (urun_inv ops _ _ (uinit_inv c u D acc H) E) as [uB uC uL uO uP].
  simpl in ST. destruct (find_item i (moving b)) as [x|] eqn:F; [|discriminate].
  destruct (running x && (due x =? bclock b)) eqn:G; [|discriminate].
  apply andb_true_iff in G. destruct G as (G1 & G2). apply Z.eqb_eq in G2.
  destruct (find_item_some _ _ _ F) as (Hx & Mx).
  destruct (moving b) as [|h m] eqn:EM; [destruct Hx|]. exists h, m. split; auto.
  destruct Hx as [->|Hx]; auto. exfalso.
  (* x is behind h, yet x has nothing left to travel: h would have a negative distance to go *)
  inversion uO as [|? ? _ FA]; subst. eapply Forall_forall in FA; [|exact Hx]. unfold ahead in FA.
  assert (In h (moving b)) as Hh by (rewrite EM; left; reflexivity).
  destruct (togo_tob b h uB Hh (uL h ltac:(left; reflexivity))) as (_ & Pos).
  unfold running in G1. destruct (intr x) eqn:Ix; [discriminate|].
  rewrite (to_go_running _ x Ix) in FA. destruct (i_D _ uB). lia.
Qed.

(* the uniform histories are histories of the belt store: a stall of the whole belt is the sequence of
   the interrupts of its running items, so every theorem about [brun] holds for [urun] as well *)
Lemma urun_binv c u D acc ops b : 0 < u <= D -> urun (binit false c u D acc) ops = Some b -> BInv b.
Proof. intros H E. exact (u_b _ (urun_inv ops _ _ (uinit_inv c u D acc H) E)). Qed.

(* Order from spacing, for ANY history of either belt store (arbitrary one-by-one interrupts, as an accumulating
   conveyor produces them): if at the instant an item is offered no item on the belt is closer than one slot to an item
   that entered before it (C13's "never overlapping"), the item offered is the oldest one on the belt (C12's order). *)
Theorem fifo_when_spaced sl c u D acc ops b i b' g :
  0 < u <= D -> brun (binit sl c u D acc) ops = Some b ->
  (forall x, In x (moving b) -> dead x = false) ->
  StronglySorted (ahead (bu b) (bclock b)) (moving b) ->
  bstep b (BReady i) = Some (b', g) ->
  exists x m, moving b = x :: m /\ mid x = i.
Proof.
  intros H E uL uO ST. destruct (brun_inv ops _ _ (binit_inv sl c u D acc H) E) as (uB & _).
  simpl in ST. destruct (find_item i (moving b)) as [x|] eqn:F; [|discriminate].
  destruct (running x && (due x =? bclock b)) eqn:G; [|discriminate].
  apply andb_true_iff in G. destruct G as (G1 & G2). apply Z.eqb_eq in G2.
  destruct (find_item_some _ _ _ F) as (Hx & Mx).
  destruct (moving b) as [|h m] eqn:EM; [destruct Hx|]. exists h, m. split; auto.
  destruct Hx as [->|Hx]; auto. exfalso.
  inversion uO as [|? ? _ FA]; subst. eapply Forall_forall in FA; [|exact Hx]. unfold ahead in FA.
  assert (In h (moving b)) as Hh by (rewrite EM; left; reflexivity).
  destruct (togo_tob b h uB Hh (uL h ltac:(left; reflexivity))) as (_ & Pos).
  unfold running in G1. destruct (intr x) eqn:Ix; [discriminate|].
  rewrite (to_go_running _ x Ix) in FA. destruct (i_D _ uB). lia.
Qed.
