(* Timed model of Fleet / FleetStore for C14 (fleet delivers whole batches after a full round trip).
   The activation process waits for any_of(timeout(delay), activate_fleet); when it fires and items
   are waiting it sends the items that are not yet travelling on a trip of 2 * transit_delay and
   re-arms.  As in TBuffer, the kernel's contract is the legality of the moves: the activation runs
   when its timeout is due or the capacity trigger has fired, a trip arrives exactly when due, and
   the clock passes neither a pending deadline nor a pending arrival nor a fired trigger. *)
From Coq Require Import List ZArith Lia Bool Arith.
From FV Require Import ListLemmas ListLemmas2 StoreB StoreBInv StoreBProps StoreBOrder.
From FV Require TBuffer.
Import ListNotations.
Open Scope Z_scope.

Record tf := {
  fs : store; fclock : Z; fdelay : Z; ftransit : Z;
  deadline : Z;                       (* due time of the activation process's current timeout *)
  act : bool;                         (* activate_fleet triggered and not yet consumed *)
  intransit : list nat;               (* in_transit_items *)
  trips : list (list nat * Z);        (* (batch in loading order, arrival time), oldest first *)
  loads : list (nat * Z);             (* ghost: item, time of its put *)
  avail : list (nat * Z)              (* ghost: item, time it became available *)
}.

Inductive fop :=
| FApi (o : op)
| FLoad (p t i : nat)      (* Fleet.put *)
| FActivate                (* the any_of of fleet_activation_process fires *)
| FArrive                  (* the oldest trip arrives *)
| FIdle (d : Z).

Definition api_ok := TBuffer.api_ok.

Definition with_store (b : tf) (s : store) : tf :=
  {| fs := s; fclock := fclock b; fdelay := fdelay b; ftransit := ftransit b; deadline := deadline b; act := act b;
     intransit := intransit b; trips := trips b; loads := loads b; avail := avail b |}.

(* move the items of a batch to ready, one after the other; None if any step is refused *)
Fixpoint arrive (s : store) (batch : list nat) : option (store * list nat) :=
  match batch with
  | [] => Some (s, [])
  | i :: r => let '(s', res, ts) := step s (Ready i) in
              match res with
              | OOk => match arrive s' r with Some (s'', ts') => Some (s'', ts ++ ts') | None => None end
              | _ => None
              end
  end.

Definition fstep (b : tf) (o : fop) : option (tf * out * list nat) :=
  match o with
  | FApi a =>
      if api_ok a then let '(s', r, ts) := step (fs b) a in Some (with_store b s', r, ts) else None
  | FLoad p t i =>
      if existsb (fun x => Nat.eqb (fst x) i) (loads b) then None else
      let '(s', r, ts) := step (fs b) (Put p t i) in
      match r with
      | OOk =>
          let full := (length (transit s') + length (ready s') =? cap s')%nat in
          Some ({| fs := s'; fclock := fclock b; fdelay := fdelay b; ftransit := ftransit b; deadline := deadline b;
                   act := act b || full; intransit := intransit b; trips := trips b;
                   loads := (i, fclock b) :: loads b; avail := avail b |}, r, ts)
      | _ => Some (with_store b s', r, ts)
      end
  | FActivate =>
      if (deadline b =? fclock b) || act b then
        match transit (fs b) with
        | [] => Some ({| fs := fs b; fclock := fclock b; fdelay := fdelay b; ftransit := ftransit b;
                         deadline := fclock b + fdelay b; act := act b; intransit := intransit b; trips := trips b;
                         loads := loads b; avail := avail b |}, OOk, [])
        | _ =>
            let batch := filter (fun it => negb (existsb (Nat.eqb it) (intransit b))) (transit (fs b)) in
            Some ({| fs := fs b; fclock := fclock b; fdelay := fdelay b; ftransit := ftransit b;
                     deadline := fclock b + fdelay b; act := false;
                     intransit := intransit b ++ batch;
                     trips := match batch with [] => trips b | _ => trips b ++ [(batch, fclock b + 2 * ftransit b)] end;
                     loads := loads b; avail := avail b |}, OOk, [])
        end
      else None
  | FArrive =>
      match trips b with
      | (batch, due) :: rest =>
          if due =? fclock b then
            match arrive (fs b) batch with
            | Some (s', ts) =>
                Some ({| fs := s'; fclock := fclock b; fdelay := fdelay b; ftransit := ftransit b; deadline := deadline b;
                         act := act b; intransit := filter (fun t => negb (existsb (Nat.eqb t) batch)) (intransit b);
                         trips := rest; loads := loads b;
                         avail := map (fun i => (i, fclock b)) batch ++ avail b |}, OOk, ts)
            | None => None
            end
          else None
      | [] => None
      end
  | FIdle d =>
      if (0 <? d) && (fclock b + d <=? deadline b) && negb (act b) &&
         forallb (fun x => fclock b + d <=? snd x) (trips b) then
        Some ({| fs := fs b; fclock := fclock b + d; fdelay := fdelay b; ftransit := ftransit b; deadline := deadline b;
                 act := act b; intransit := intransit b; trips := trips b; loads := loads b; avail := avail b |}, OOk, [])
      else None
  end.

Definition finit (c : nat) (delay transit : Z) : tf :=
  {| fs := init KFleet FIFO c; fclock := 0; fdelay := delay; ftransit := transit; deadline := delay; act := false;
     intransit := []; trips := []; loads := []; avail := [] |}.

Fixpoint frun (b : tf) (ops : list fop) : option tf :=
  match ops with [] => Some b | o :: r => match fstep b o with Some (b', _, _) => frun b' r | None => None end end.

(* ------------------------------------------------------------------ proofs *)

Definition load_time (b : tf) (i : nat) (t : Z) : Prop := In (i, t) (loads b).

(* the timing invariant behind C14 *)
Definition FInv (b : tf) : Prop :=
  0 <= fdelay b /\ 0 <= ftransit b /\
  fclock b <= deadline b <= fclock b + fdelay b /\
  (* every loaded item that is neither travelling nor delivered will leave with the next activation *)
  (forall i t, In (i, t) (loads b) -> In i (transit (fs b)) -> ~ In i (intransit b) -> deadline b <= t + fdelay b) /\
  (* every trip arrives within delay + round trip of each of its items' load time, and not in the past *)
  (forall batch due, In (batch, due) (trips b) -> fclock b <= due /\
     forall i, In i batch -> exists t, In (i, t) (loads b) /\ t + 2 * ftransit b <= due /\ due <= t + fdelay b + 2 * ftransit b) /\
  (* every delivered item became available within the bound, and not before a full round trip *)
  (forall i a, In (i, a) (avail b) -> exists t, In (i, t) (loads b) /\ t + 2 * ftransit b <= a /\ a <= t + fdelay b + 2 * ftransit b) /\
  (forall i t, In (i, t) (loads b) -> t <= fclock b) /\
  (forall i, In i (contents (fs b)) -> exists t, In (i, t) (loads b)) /\
  Inv (fs b).

Lemma finit_inv c d tr : 0 <= d -> 0 <= tr -> FInv (finit c d tr).
Proof.
  intros Hd Ht. unfold FInv, finit; simpl. repeat split; try lia; try (intros; tauto); try apply init_inv.
Qed.

(* API calls do not touch transit; a load appends the item to transit (or changes nothing there) *)
Lemma api_transit s o s' r ts : api_ok o = true -> step s o = (s', r, ts) -> transit s' = transit s.
Proof. intros A E. apply (TBuffer.api_shape _ _ _ _ _ A E). Qed.

Lemma load_transit s p t i s' r ts :
  step s (Put p t i) = (s', r, ts) -> (r = OOk -> transit s' = transit s ++ [i]) /\ (r <> OOk -> transit s' = transit s).
Proof. intros E. destruct (TBuffer.put_shape _ _ _ _ _ _ _ E) as (_ & A & B). auto. Qed.

(* an arrival only removes its batch from transit *)
Lemma ready_step_transit s i s' ts : step s (Ready i) = (s', OOk, ts) -> forall x, In x (transit s') -> In x (transit s).
Proof.
  simpl. destruct (existsb (Nat.eqb i) (transit s)); simpl; [|discriminate].
  destruct (ready_guard _ _); simpl; [|discriminate].
  destruct (trig_get _) as [[s2 ts2]|] eqn:E; [|discriminate].
  destruct (trig_put s2) as [s3 ts3] eqn:E3. intros [= <- <-] x Hx.
  apply (f_equal fst) in E3. simpl in E3. subst s3.
  destruct (trig_put_fields s2) as (_ & T & _). rewrite T in Hx.
  apply trig_get_fields in E. destruct E as (_ & T2 & _). rewrite T2 in Hx. simpl in Hx.
  eapply remove_first_incl; eauto.
Qed.

Lemma arrive_transit batch : forall s s' ts, arrive s batch = Some (s', ts) -> forall x, In x (transit s') -> In x (transit s).
Proof.
  induction batch as [|i r IH]; intros s s' ts E x Hx; cbn [arrive] in E.
  - inversion E; subst; auto.
  - destruct (step s (Ready i)) as [[s1 res] ts1] eqn:E1. destruct res; try discriminate.
    destruct (arrive s1 r) as [[s2 ts2]|] eqn:E2; [|discriminate]. inversion E; subst.
    eapply ready_step_transit; [exact E1|]. eapply IH; eauto.
Qed.

Ltac finv_split := unfold FInv, with_store; cbn [fs fclock fdelay ftransit deadline act intransit trips loads avail]; refine (conj _ (conj _ (conj _ (conj _ (conj _ (conj _ (conj _ (conj _ _)))))))).

Lemma in_transit_contents s i : In i (transit s) -> In i (contents s).
Proof. intros H. unfold contents. apply in_or_app; auto. Qed.

(* a successful Ready step removes its item from transit for good and adds nothing to the contents *)
Lemma ready_step_facts s i s' ts :
  Inv s -> step s (Ready i) = (s', OOk, ts) ->
  Inv s' /\ ~ In i (transit s') /\ (forall x, In x (transit s') -> In x (transit s)) /\
  (forall x, In x (contents s') -> In x (contents s)).
Proof.
  intros HI E. pose proof (step_inv s (Ready i) HI I) as HI'. unfold step_st in HI'. rewrite E in HI'. simpl in HI'.
  split; auto. split; [|split].
  - revert E. simpl. destruct (existsb (Nat.eqb i) (transit s)); simpl; [|discriminate].
    destruct (ready_guard _ _); simpl; [|discriminate].
    destruct (trig_get _) as [[s2 ts2]|] eqn:EG; [|discriminate].
    destruct (trig_put s2) as [s3 ts3] eqn:E3. intros [= <- <-].
    apply (f_equal fst) in E3. simpl in E3. subst s3.
    destruct (trig_put_fields s2) as (_ & T & _). rewrite T.
    apply trig_get_fields in EG. destruct EG as (_ & T2 & _). rewrite T2. simpl.
    apply remove_first_eqb_not_in. destruct HI as (_ & ND & _). eapply NoDup_app_l; eauto.
  - eapply ready_step_transit; eauto.
  - intros x Hx. pose proof (step_contents_incl s (Ready i) x) as K. unfold step_st in K. rewrite E in K. simpl in K.
    destruct (K Hx) as [?|(? & ? & ?)]; [auto|discriminate].
Qed.

Lemma arrive_facts batch : forall s s' ts,
  Inv s -> arrive s batch = Some (s', ts) ->
  Inv s' /\ (forall i, In i batch -> ~ In i (transit s')) /\ (forall x, In x (transit s') -> In x (transit s)) /\
  (forall x, In x (contents s') -> In x (contents s)).
Proof.
  induction batch as [|i r IH]; intros s s' ts HI E; cbn [arrive] in E.
  - inversion E; subst. split; [auto|]. split; [intros i []|]. split; auto.
  - destruct (step s (Ready i)) as [[s1 res] ts1] eqn:E1. destruct res; try discriminate.
    destruct (arrive s1 r) as [[s2 ts2]|] eqn:E2; [|discriminate]. inversion E; subst.
    destruct (ready_step_facts _ _ _ _ HI E1) as (I1 & N1 & T1 & C1).
    destruct (IH _ _ _ I1 E2) as (I2 & N2 & T2 & C2).
    split; [exact I2|]. split; [|split].
    + intros j [<-|Hj]; [|apply N2; exact Hj]. intros Hin. apply N1. apply T2. exact Hin.
    + intros x Hx. apply T1, T2, Hx.
    + intros x Hx. apply C1, C2, Hx.
Qed.

Lemma fstep_inv b o b' r ts : FInv b -> fstep b o = Some (b', r, ts) -> FInv b'.
Proof.
  intros (Hd & Htr & Hdl & IA & IB & IC & IL & ID & HI) E. destruct o; unfold fstep in E.
  - (* API *)
    destruct (api_ok o) eqn:A; [|discriminate].
    remember (step (fs b) o) as X eqn:ES. symmetry in ES. destruct X as [[s' r0] ts0]. inversion E; subst; clear E.
    pose proof (api_transit _ _ _ _ _ A ES) as ET.
    assert (fresh_op (fs b) o) as HF by (destruct o; simpl in *; auto; discriminate).
    pose proof (step_inv (fs b) o HI HF) as HI'. unfold step_st in HI'. rewrite ES in HI'. simpl in HI'.
    finv_split; auto; try lia; rewrite ?ET; auto.
    intros i Hi. apply ID. pose proof (step_contents_incl (fs b) o i) as K. unfold step_st in K. rewrite ES in K. simpl in K.
    destruct (K Hi) as [?|(? & ? & EQ)]; auto. subst o. discriminate.
  - (* load *)
    destruct (existsb _ (loads b)) eqn:EX; [discriminate|].
    remember (step (fs b) (Put p t i)) as X eqn:ES. symmetry in ES. destruct X as [[s' r0] ts0].
    destruct (load_transit _ _ _ _ _ _ _ ES) as (TOK & TNO).
    assert (forall t0, ~ In (i, t0) (loads b)) as FRESH.
    { intros t0 Hin. rewrite <- not_true_iff_false in EX. apply EX. apply existsb_exists. exists (i, t0). split; auto.
      simpl. apply Nat.eqb_refl. }
    assert (fresh_op (fs b) (Put p t i)) as HF.
    { simpl. intros Hc. destruct (ID _ Hc) as (t0 & H0). eapply FRESH; eauto. }
    pose proof (step_inv (fs b) (Put p t i) HI HF) as HI'. unfold step_st in HI'. rewrite ES in HI'. simpl in HI'.
    assert (forall x, In x (contents s') -> In x (contents (fs b)) \/ x = i) as CI.
    { intros x Hx. pose proof (step_contents_incl (fs b) (Put p t i) x) as K. unfold step_st in K. rewrite ES in K. simpl in K.
      destruct (K Hx) as [?|(? & ? & EQ)]; auto. inversion EQ; auto. }
    assert (ready s' = ready (fs b)) as RE by (apply (TBuffer.put_shape _ _ _ _ _ _ _ ES)).
    assert (r0 <> OOk -> FInv (with_store b s')) as FAIL.
    { intros N. specialize (TNO N). finv_split; auto; try lia; rewrite ?TNO; auto.
      intros x Hx. apply ID. unfold contents in *. rewrite TNO, RE in Hx. exact Hx. }
    destruct r0; try (inversion E; subst; apply FAIL; discriminate).
    inversion E; subst; clear E. specialize (TOK eq_refl).
    finv_split; auto; try lia; rewrite ?TOK.
    + intros j t0 [H|H] HT HN.
      * inversion H; subst. lia.
      * apply in_app_or in HT as [HT|[<-|[]]]; [apply (IA _ _ H HT HN)|]. exfalso. eapply FRESH; eauto.
    + intros batch due H. destruct (IB _ _ H) as (K1 & K2). split; auto.
      intros j Hj. destruct (K2 j Hj) as (t0 & A1 & A2 & A3). exists t0. repeat split; auto; try (right; assumption).
    + intros j a Hj. destruct (IC _ _ Hj) as (t0 & A1 & A2 & A3). exists t0. repeat split; auto; try (right; assumption).
    + intros j t0 [H|H]; [inversion H; subst; lia|eauto].
    + intros j Hj. destruct (CI j Hj) as [H| ->].
      * destruct (ID _ H) as (t0 & H0). exists t0. right; exact H0.
      * exists (fclock b). left; reflexivity.
  - (* activation *)
    destruct ((deadline b =? fclock b) || act b) eqn:LEG; [|discriminate].
    destruct (transit (fs b)) as [|x0 tr0] eqn:ETR.
    + inversion E; subst; clear E. finv_split; auto; try lia; rewrite ?ETR; try (intros; tauto). simpl. intros; tauto.
    + rewrite <- ETR in E. inversion E; subst; clear E.
      set (batch := filter (fun it => negb (existsb (Nat.eqb it) (intransit b))) (transit (fs b))) in *.
      assert (forall i, In i (transit (fs b)) -> In i (intransit b ++ batch)) as ALL.
      { intros i Hi. apply in_or_app. destruct (existsb (Nat.eqb i) (intransit b)) eqn:EI.
        - left. apply existsb_eqb_In. exact EI.
        - right. subst batch. apply filter_In. split; auto. rewrite EI. reflexivity. }
      finv_split; auto; try lia.
      * intros i t0 H HT HN. exfalso. apply HN, ALL, HT.
      * intros bt due H.
        assert (In (bt, due) (trips b) \/ (bt = batch /\ due = fclock b + 2 * ftransit b)) as [H'|(-> & ->)].
        { destruct batch; auto. apply in_app_or in H as [H|[H|[]]]; auto. inversion H; subst. auto. }
        -- apply (IB _ _ H').
        -- split; [lia|]. intros j Hj. subst batch. apply filter_In in Hj as (HT & HN).
           apply negb_true_iff, existsb_eqb_nIn in HN. destruct (ID _ (in_transit_contents _ _ HT)) as (t0 & H0).
           exists t0. assert (HT' := HT). rewrite ETR in HT'. pose proof (IA _ _ H0 HT' HN). pose proof (IL _ _ H0). repeat split; auto; lia.
  - (* arrival *)
    destruct (trips b) as [|[batch due] rest] eqn:ETP; [discriminate|].
    destruct (Z.eqb_spec due (fclock b)); [|discriminate]. subst due.
    destruct (arrive (fs b) batch) as [[s' ts']|] eqn:EA; [|discriminate]. inversion E; subst; clear E.
    destruct (arrive_facts _ _ _ _ HI EA) as (HI' & GONE & AT & AC).
    assert (In (batch, fclock b) ((batch, fclock b) :: rest)) as HB by (left; auto).
    finv_split; auto; try lia.
    + intros i t0 H HT HN. apply (IA _ _ H (AT _ HT)). intros Hin. apply HN.
      apply filter_In. split; auto. apply negb_true_iff, existsb_eqb_nIn. intros Hb. exact (GONE _ Hb HT).
    + intros bt due H. apply (IB bt due). right. exact H.
    + intros i a Hi. apply in_app_or in Hi as [Hi|Hi]; [|apply IC; auto].
      apply in_map_iff in Hi as (j & Hj & Hin). inversion Hj; subst.
      destruct (IB _ _ HB) as (_ & K). destruct (K _ Hin) as (t1 & A1 & A2 & A3). exists t1. repeat split; auto.
  - (* time passes *)
    destruct (0 <? d) eqn:ED; simpl in E; [|discriminate].
    destruct (fclock b + d <=? deadline b) eqn:EL; simpl in E; [|discriminate].
    destruct (act b) eqn:EAct; simpl in E; [discriminate|].
    destruct (forallb _ (trips b)) eqn:EF; [|discriminate]. inversion E; subst; clear E.
    apply Z.ltb_lt in ED. apply Z.leb_le in EL. rewrite forallb_forall in EF.
    finv_split; auto; try lia.
    + intros bt due H. destruct (IB _ _ H) as (K1 & K2). split; auto.
      specialize (EF _ H). simpl in EF. apply Z.leb_le in EF. lia.
    + intros i t0 H. specialize (IL _ _ H). lia.
Qed.

Lemma fstep_params b o b' r ts : fstep b o = Some (b', r, ts) -> fdelay b' = fdelay b /\ ftransit b' = ftransit b.
Proof.
  destruct o; unfold fstep; intros E;
    repeat match type of E with
           | context [match ?x with _ => _ end] => destruct x eqn:?; try discriminate
           | context [if ?x then _ else _] => destruct x eqn:?; try discriminate
           end; inversion E; subst; auto.
Qed.

Lemma frun_inv ops : forall b b', FInv b -> frun b ops = Some b' ->
  FInv b' /\ fdelay b' = fdelay b /\ ftransit b' = ftransit b.
Proof.
  induction ops as [|o ops IH]; simpl; intros b b' H E.
  - inversion E; subst; auto.
  - destruct (fstep b o) as [[[b1 r] ts]|] eqn:ES; [|discriminate].
    destruct (IH _ _ (fstep_inv _ _ _ _ _ H ES) E) as (A & B & C).
    destruct (fstep_params _ _ _ _ _ ES) as (D1 & D2). split; auto. split; congruence.
Qed.

(* ---------------------------------------------------------------- the theorems of C14 *)

(* the fleet departs only when its waiting delay expires or the held items reached the capacity *)
Theorem fleet_departure_condition b b' r ts :
  fstep b FActivate = Some (b', r, ts) -> deadline b = fclock b \/ act b = true.
Proof.
  unfold fstep. destruct (Z.eqb_spec (deadline b) (fclock b)); [left; auto|]. simpl.
  destruct (act b); [right; auto|discriminate].
Qed.

(* the capacity trigger is set exactly by the load that fills the fleet *)
Theorem fleet_capacity_trigger b p t i b' ts :
  fstep b (FLoad p t i) = Some (b', OOk, ts) ->
  act b' = act b || (length (transit (fs b')) + length (ready (fs b')) =? cap (fs b'))%nat.
Proof.
  unfold fstep. destruct (existsb _ _); [discriminate|].
  destruct (step (fs b) (Put p t i)) as [[s' r0] ts0]. destruct r0; intros [= <- <-]; reflexivity.
Qed.

(* what departs: exactly the items waiting (not yet travelling) at that instant, in loading order;
   the trip arrives one full round trip later *)
Theorem fleet_batch_is_waiting_items b b' r ts :
  fstep b FActivate = Some (b', r, ts) -> transit (fs b) <> [] ->
  let batch := filter (fun it => negb (existsb (Nat.eqb it) (intransit b))) (transit (fs b)) in
  intransit b' = intransit b ++ batch /\
  (batch <> [] -> trips b' = trips b ++ [(batch, fclock b + 2 * ftransit b)]) /\
  (batch = [] -> trips b' = trips b) /\ act b' = false /\ deadline b' = fclock b + fdelay b.
Proof.
  unfold fstep. destruct ((deadline b =? fclock b) || act b); [|discriminate].
  destruct (transit (fs b)) as [|x tr] eqn:ETR; [congruence|]. rewrite <- ETR.
  intros [= <- _ _] _. cbv zeta. simpl. repeat split; auto.
  - intros N. destruct (filter _ _); congruence.
  - intros ->. reflexivity.
Qed.

Lemma arrive_ready batch : forall s s' ts, arrive s batch = Some (s', ts) -> ready s' = ready s ++ batch.
Proof.
  induction batch as [|i r IH]; intros s s' ts E; cbn [arrive] in E.
  - inversion E; subst. rewrite app_nil_r. reflexivity.
  - destruct (step s (Ready i)) as [[s1 res] ts1] eqn:E1. destruct res; try discriminate.
    destruct (arrive s1 r) as [[s2 ts2]|] eqn:E2; [|discriminate]. inversion E; subst.
    destruct (TBuffer.fire_shape _ _ _ _ E1) as (_ & _ & R). rewrite (IH _ _ _ E2), R, <- app_assoc. reflexivity.
Qed.

(* the whole batch becomes available together, at its due time, in loading order *)
Theorem fleet_batch_arrives_together b b' r ts :
  fstep b FArrive = Some (b', r, ts) ->
  exists batch rest, trips b = (batch, fclock b) :: rest /\ trips b' = rest /\
                     ready (fs b') = ready (fs b) ++ batch /\ fclock b' = fclock b.
Proof.
  unfold fstep. destruct (trips b) as [|[batch due] rest]; [discriminate|].
  destruct (Z.eqb_spec due (fclock b)); [|discriminate]. subst due.
  destruct (arrive (fs b) batch) as [[s' ts']|] eqn:EA; [|discriminate]. intros [= <- _ _]. simpl.
  exists batch, rest. repeat split; auto. eapply arrive_ready; eauto.
Qed.

(* in every legal timed history: every item that became available did so no earlier than one
   full round trip and no later than one waiting delay plus one round trip after it was loaded *)
Theorem fleet_waiting_bound c d tr ops b i a :
  0 <= d -> 0 <= tr -> frun (finit c d tr) ops = Some b -> In (i, a) (avail b) ->
  exists t, In (i, t) (loads b) /\ t + 2 * tr <= a /\ a <= t + d + 2 * tr.
Proof.
  intros Hd Htr E Hi. destruct (frun_inv ops _ _ (finit_inv c d tr Hd Htr) E) as (FI & P1 & P2).
  simpl in P1, P2. destruct FI as (_ & _ & _ & _ & _ & IC & _).
  destruct (IC _ _ Hi) as (t & A & B & C). exists t. rewrite P1, P2 in *. auto.
Qed.

(* an item loaded after a departure is not part of that trip: trips are fixed when they leave *)
Theorem fleet_later_load_waits c d tr ops b batch due i t :
  0 <= d -> 0 <= tr -> frun (finit c d tr) ops = Some b -> In (batch, due) (trips b) -> In i batch ->
  In (i, t) (loads b) -> NoDup (map fst (loads b)) -> t + 2 * tr <= due.
Proof.
  intros Hd Htr E HB Hi HL ND. destruct (frun_inv ops _ _ (finit_inv c d tr Hd Htr) E) as (FI & P1 & P2).
  simpl in P1, P2. destruct FI as (_ & _ & _ & _ & IB & _).
  destruct (IB _ _ HB) as (_ & K). destruct (K _ Hi) as (t' & A & B & _).
  assert (t' = t) as -> by (eapply TBuffer.nodup_fst_inj; eauto). rewrite P2 in B. exact B.
Qed.

(* ------------------------------------------------------------------ no loaded item is left behind
   A second invariant: the travelling items are exactly the items of the trips under way, each once,
   and all still held by the fleet; every loaded item is held (waiting or travelling) or available. *)
Definition FAcc (b : tf) : Prop :=
  intransit b = concat (map fst (trips b)) /\
  NoDup (intransit b) /\
  (forall x, In x (intransit b) -> In x (transit (fs b))) /\
  (forall i t, In (i, t) (loads b) -> In i (transit (fs b)) \/ exists a, In (i, a) (avail b)) /\
  NoDup (map fst (loads b)).

Lemma remove_first_keeps {A} (f : A -> bool) l x : In x l -> f x = false -> In x (remove_first f l).
Proof.
  induction l as [|y l IH]; simpl; [tauto|]. intros [->|H] F.
  - rewrite F. left; reflexivity.
  - destruct (f y); [exact H|right; apply IH; auto].
Qed.

Lemma ready_step_keeps s i s' ts x :
  step s (Ready i) = (s', OOk, ts) -> In x (transit s) -> x <> i -> In x (transit s').
Proof.
  simpl. destruct (existsb (Nat.eqb i) (transit s)); simpl; [|discriminate].
  destruct (ready_guard _ _); simpl; [|discriminate].
  destruct (trig_get _) as [[s2 ts2]|] eqn:E; [|discriminate].
  destruct (trig_put s2) as [s3 ts3] eqn:E3. intros [= <- <-] Hx NE.
  apply (f_equal fst) in E3. simpl in E3. subst s3.
  destruct (trig_put_fields s2) as (_ & T & _). rewrite T.
  apply trig_get_fields in E. destruct E as (_ & T2 & _). rewrite T2. simpl.
  apply remove_first_keeps; auto. apply Nat.eqb_neq. auto.
Qed.

Lemma arrive_keeps batch : forall s s' ts x,
  arrive s batch = Some (s', ts) -> In x (transit s) -> ~ In x batch -> In x (transit s').
Proof.
  induction batch as [|i r IH]; intros s s' ts x E Hx NI; cbn [arrive] in E.
  - inversion E; subst; auto.
  - destruct (step s (Ready i)) as [[s1 res] ts1] eqn:E1. destruct res; try discriminate.
    destruct (arrive s1 r) as [[s2 ts2]|] eqn:E2; [|discriminate]. inversion E; subst.
    eapply IH; [exact E2| |intros C; apply NI; right; exact C].
    eapply ready_step_keeps; [exact E1|exact Hx|]. intros ->. apply NI. left; reflexivity.
Qed.

Lemma filter_drop_prefix (batch rest : list nat) :
  NoDup (batch ++ rest) ->
  filter (fun t => negb (existsb (Nat.eqb t) batch)) (batch ++ rest) = rest.
Proof.
  intros ND. rewrite filter_app.
  assert (filter (fun t => negb (existsb (Nat.eqb t) batch)) batch = []) as ->.
  { assert (forall l, (forall x, In x l -> In x batch) -> filter (fun t => negb (existsb (Nat.eqb t) batch)) l = []) as K.
    { induction l as [|y l IH]; simpl; auto. intros H.
      assert (existsb (Nat.eqb y) batch = true) as ->.
      { apply existsb_exists. exists y. split; [apply H; left; reflexivity|apply Nat.eqb_refl]. }
      simpl. apply IH. intros x Hx. apply H. right; exact Hx. }
    apply K. auto. }
  simpl. assert (forall l, (forall x, In x l -> ~ In x batch) -> filter (fun t => negb (existsb (Nat.eqb t) batch)) l = l) as K.
  { induction l as [|y l IH]; simpl; auto. intros H.
    assert (existsb (Nat.eqb y) batch = false) as ->.
    { destruct (existsb (Nat.eqb y) batch) eqn:E; auto. apply existsb_exists in E. destruct E as (z & Hz & Ez).
      apply Nat.eqb_eq in Ez. subst z. exfalso. eapply H; [left; reflexivity|exact Hz]. }
    simpl. f_equal. apply IH. intros x Hx. apply H. right; exact Hx. }
  apply K. intros x Hx Hb. eapply NoDup_app_disj; eauto.
Qed.

Lemma finit_acc c d tr : FAcc (finit c d tr).
Proof. unfold FAcc, finit; simpl. repeat split; try constructor; intros; tauto. Qed.

Lemma fstep_acc b o b' r ts : FInv b -> FAcc b -> fstep b o = Some (b', r, ts) -> FAcc b'.
Proof.
  intros FI (A1 & A2 & A3 & A4 & A5) H. destruct o as [a|p t i| | |d]; unfold fstep in H.
  - (* API *)
    destruct (api_ok a) eqn:OK; [|discriminate]. destruct (step (fs b) a) as [[s' r'] ts'] eqn:E. inversion H; subst; clear H.
    pose proof (api_transit _ _ _ _ _ OK E) as T. unfold FAcc, with_store; simpl. rewrite T. auto.
  - (* load *)
    destruct (existsb _ (loads b)) eqn:FR; [discriminate|].
    assert (~ In i (map fst (loads b))) as Fresh.
    { intros C. apply in_map_iff in C. destruct C as ([j tj] & Ej & Hj). simpl in Ej. subst j.
      assert (existsb (fun x => Nat.eqb (fst x) i) (loads b) = true); [|congruence].
      apply existsb_exists. exists (i, tj). split; auto. simpl. apply Nat.eqb_refl. }
    destruct (step (fs b) (Put p t i)) as [[s' r'] ts'] eqn:E. destruct (load_transit _ _ _ _ _ _ _ E) as (L1 & L2).
    destruct r'; inversion H; subst; clear H; unfold FAcc, with_store; simpl;
      try (rewrite (L2 ltac:(discriminate)); repeat split; auto; fail).
    rewrite (L1 eq_refl). repeat split; auto.
    + intros x Hx. apply in_or_app. left. auto.
    + intros j tj [Hj|Hj].
      * inversion Hj; subst. left. apply in_or_app. right. left; reflexivity.
      * destruct (A4 _ _ Hj) as [K|K]; [left; apply in_or_app; auto|right; exact K].
    + constructor; auto.
  - (* activation *)
    destruct ((deadline b =? fclock b) || act b); [|discriminate].
    destruct (transit (fs b)) as [|x0 tr0] eqn:ETR.
    + inversion H; subst; clear H. unfold FAcc; simpl. rewrite ETR. auto.
    + rewrite <- ETR in *. inversion H; subst; clear H. unfold FAcc; simpl.
      set (batch := filter (fun it => negb (existsb (Nat.eqb it) (intransit b))) (transit (fs b))).
      assert (forall x, In x batch -> In x (transit (fs b)) /\ ~ In x (intransit b)) as HB.
      { intros x Hx. apply filter_In in Hx. destruct Hx as (Hx & Hn). split; auto. intros C.
        apply negb_true_iff in Hn. assert (existsb (Nat.eqb x) (intransit b) = true); [|congruence].
        apply existsb_exists. exists x. split; auto. apply Nat.eqb_refl. }
      assert (NoDup batch) as NB.
      { apply NoDup_filter. destruct FI as (_ & _ & _ & _ & _ & _ & _ & _ & (_ & ND & _)). eapply NoDup_app_l; eauto. }
      repeat split.
      * destruct batch as [|b0 bs] eqn:EB.
        -- rewrite app_nil_r. exact A1.
        -- rewrite map_app, concat_app. simpl. rewrite app_nil_r. rewrite A1. reflexivity.
      * apply NoDup_app_intro; auto. intros x Hx Hb. destruct (HB _ Hb). auto.
      * intros x Hx. apply in_app_or in Hx. destruct Hx as [Hx|Hx]; [auto|apply HB; exact Hx].
      * exact A4.
      * exact A5.
  - (* arrival *)
    destruct (trips b) as [|[batch due] rest] eqn:ET; [discriminate|].
    destruct (due =? fclock b); [|discriminate].
    destruct (arrive (fs b) batch) as [[s' ts']|] eqn:EA; [|discriminate]. inversion H; subst; clear H.
    simpl in A1. unfold FAcc; simpl. rewrite A1 in *.
    rewrite (filter_drop_prefix _ _ A2).
    repeat split.
    + eapply NoDup_app_r; eauto.
    + intros x Hx. eapply arrive_keeps; [exact EA| |].
      * apply A3. apply in_or_app. right; exact Hx.
      * intros C. eapply NoDup_app_disj; eauto.
    + intros j tj Hj. destruct (A4 _ _ Hj) as [K|(a & K)].
      * destruct (in_dec Nat.eq_dec j batch) as [Hb|Hb].
        -- right. exists (fclock b). apply in_or_app. left. apply in_map_iff. exists j. auto.
        -- left. eapply arrive_keeps; eauto.
      * right. exists a. apply in_or_app. right; exact K.
    + exact A5.
  - (* idle *)
    destruct (_ && _); [|discriminate]. inversion H; subst; clear H. unfold FAcc; simpl. auto.
Qed.

Lemma frun_acc ops : forall b b', FInv b -> FAcc b -> frun b ops = Some b' -> FAcc b'.
Proof.
  induction ops as [|o r IH]; intros b b' FI FA E; cbn [frun] in E.
  - inversion E; subst; auto.
  - destruct (fstep b o) as [[[b1 r1] ts1]|] eqn:ES; [|discriminate].
    eapply IH; [eapply fstep_inv; eauto|eapply fstep_acc; eauto|exact E].
Qed.

(* C14, the upper bound at full strength: in every legal timed history, once more than one waiting
   delay plus one round trip has passed since an item was loaded, the item IS available -- no
   loaded item is left behind, whatever was loaded before, during or after the trips *)
Theorem fleet_no_item_left_behind c d tr ops b i t :
  0 <= d -> 0 <= tr -> frun (finit c d tr) ops = Some b -> In (i, t) (loads b) ->
  t + d + 2 * tr < fclock b -> exists a, In (i, a) (avail b) /\ t + 2 * tr <= a <= t + d + 2 * tr.
Proof.
  intros Hd Htr E Hi Late.
  destruct (frun_inv ops _ _ (finit_inv c d tr Hd Htr) E) as (FI & P1 & P2). simpl in P1, P2.
  pose proof (frun_acc ops _ _ (finit_inv c d tr Hd Htr) (finit_acc c d tr) E) as (A1 & A2 & A3 & A4 & A5).
  destruct FI as (F1 & F2 & F3 & F4 & F5 & F6 & F7 & F8 & F9).
  destruct (A4 _ _ Hi) as [K|(a & K)].
  - exfalso. destruct (in_dec Nat.eq_dec i (intransit b)) as [Hin|Hout].
    + (* on a trip: the trip is due within the bound and not in the past *)
      rewrite A1 in Hin. apply in_concat in Hin. destruct Hin as (batch & Hb & Hib).
      apply in_map_iff in Hb. destruct Hb as ([batch' due] & Eb & Hb). simpl in Eb. subst batch'.
      destruct (F5 _ _ Hb) as (Fut & Each). destruct (Each _ Hib) as (t' & L' & _ & Up).
      assert (t' = t) as -> by (eapply TBuffer.nodup_fst_inj; eauto). rewrite P1, P2 in *. lia.
    + (* still waiting: the activation deadline is within the bound and not in the past *)
      pose proof (F4 _ _ Hi K Hout). rewrite P1 in *. lia.
  - exists a. split; auto. destruct (F6 _ _ K) as (t' & L' & Lo & Up).
    assert (t' = t) as -> by (eapply TBuffer.nodup_fst_inj; eauto). rewrite P1, P2 in *. lia.
Qed.
