(* Tie B for the conveyors: the admission test of both belt stores (BeltStore._do_reserve_put), REGENERATED
   from /repo on every run (generated/SrcFragments.v: ContBeltStore_gate / SlotBeltStore_gate), is the
   test the timed belt model uses (TBelt.gate). *)
From Coq Require Import List ZArith Lia Bool Arith.
From FV Require Import SrcFragments TBelt.
Import ListNotations.
Open Scope Z_scope.

Definition glens_of (b : tb) (noacc one : bool) : glens :=
  let first := match moving b with x :: _ => x | [] => {| mid := 0; entry := 0; rem := 0; since := 0; intr := None; total := 0; dead := false |} end in
  let lastx := last (moving b) first in
  {| g_n_reservations_put := Z.of_nat (nres b); g_n_items := Z.of_nat (length (moving b));
     g_n_ready_items := Z.of_nat (length (bready b)); g_cap := Z.of_nat (bcap b);
     g_acc := bacc b; g_noacc := noacc; g_one := one;
     g_tob_last := tob (bclock b) lastx; g_tob_first := tob (bclock b) first;
     g_u := bu b; g_D := bD b; g_now := bclock b; g_entry_last := entry lastx |}.

Lemma ltb_nat_Z a b : (a <? b)%nat = (Z.of_nat a <? Z.of_nat b).
Proof. destruct (Nat.ltb_spec a b), (Z.ltb_spec (Z.of_nat a) (Z.of_nat b)); auto; lia. Qed.
Lemma eqb0_nat_Z a : (a =? 0)%nat = (Z.of_nat a =? 0).
Proof. destruct (Nat.eqb_spec a 0), (Z.eqb_spec (Z.of_nat a) 0); auto; lia. Qed.

Theorem gate_regenerated b noacc one :
  gate b noacc one =
  if slotted b then SlotBeltStore_gate (glens_of b noacc one) else ContBeltStore_gate (glens_of b noacc one).
Proof.
  unfold gate, SlotBeltStore_gate, ContBeltStore_gate, glens_of, occupied. cbn [g_n_reservations_put g_n_items g_n_ready_items g_cap g_acc g_noacc g_one g_tob_last g_tob_first g_u g_D g_now g_entry_last].
  rewrite !ltb_nat_Z, !eqb0_nat_Z, !Nat2Z.inj_add, !Z.geb_leb.
  destruct (moving b) as [|f m] eqn:EM.
  - cbn [length]. change (Z.of_nat 0) with 0. rewrite Z.add_0_r. cbn [Z.eqb negb].
    destruct (slotted b), (Z.of_nat (nres b) =? 0), (Z.of_nat (nres b) + Z.of_nat (length (bready b)) <? Z.of_nat (bcap b)),
      (bacc b), (Z.of_nat (length (bready b)) =? 0); reflexivity.
  - assert (Z.of_nat (length (f :: m)) =? 0 = false) as NZ by (apply Z.eqb_neq; cbn [length]; lia). rewrite NZ. cbn [negb].
    set (L := last (f :: m) f).
    destruct (slotted b), (Z.of_nat (nres b) =? 0),
      (Z.of_nat (nres b) + Z.of_nat (length (f :: m)) + Z.of_nat (length (bready b)) <? Z.of_nat (bcap b)),
      (bacc b), noacc, one, (Z.of_nat (length (bready b)) =? 0), (entry L + bu b <=? bclock b),
      (bu b <=? tob (bclock b) L), (bD b <=? tob (bclock b) f); reflexivity.
Qed.

(* the continuous conveyor's stall test, regenerated from ConveyorBelt.is_stalled (edges/continuous_conveyor.py): the belt is
   stalled exactly when an item waits at the exit -- whether or not the destination has already claimed it (fix a6eee90: the test
   used to require that no retrieval was granted, so a claimed head did not stop a non-accumulating belt) *)
Lemma cont_is_stalled_src : forall l, ContBelt_is_stalled l = negb (n_ready_items l =? 0).
Proof. intros l. unfold ContBelt_is_stalled. destruct (negb (n_ready_items l =? 0)); reflexivity. Qed.
