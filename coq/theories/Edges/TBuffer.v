(* Timed model of Buffer / BufferStore for the delay part of C11.
   A put with delay d starts a timer due at now + d (BufferStore.move_to_ready_items:
   `yield env.timeout(delay)`); when it fires the item moves to ready_items.  The kernel's
   contract enters as the legality of moves: a timer fires exactly when the clock shows its due
   time, and the clock cannot pass a pending timer (kernel theorem: an event scheduled for t is
   processed at now = t).  Model definitions first, proofs below. *)
From Coq Require Import List ZArith Lia Bool Arith.
From FV Require Import ListLemmas ListLemmas2 StoreB StoreBInv StoreBProps StoreBOrder.
Import ListNotations.
Open Scope Z_scope.

Record tb := {
  st : store; clock : Z;
  timers : list (nat * Z);      (* (item, due time), in creation order *)
  dues : list (nat * Z)         (* ghost: every item ever put, with put time + delay *)
}.

Inductive top :=
| TApi (o : op)                       (* RPut / RGet / Get / CPut / CGet *)
| TPut (p t i : nat) (d : Z)          (* Buffer.put: delay d drawn once, >= 0 *)
| TFire (i : nat)                     (* the timer of item i expires *)
| TIdle (d : Z).                      (* simulated time advances by d > 0 *)

Definition api_ok (o : op) : bool :=
  match o with RPut _ _ | RGet _ _ | Get _ _ | CPut _ | CGet _ => true | _ => false end.

Definition is_item (i : nat) (x : nat * Z) : bool := Nat.eqb (fst x) i.

Definition tstep (b : tb) (o : top) : option (tb * out * list nat) :=
  match o with
  | TApi a =>
      if api_ok a then
        let '(s', r, ts) := step (st b) a in
        Some ({| st := s'; clock := clock b; timers := timers b; dues := dues b |}, r, ts)
      else None
  | TPut p t i d =>
      if (0 <=? d) && negb (existsb (is_item i) (dues b)) then
        let '(s', r, ts) := step (st b) (Put p t i) in
        match r with
        | OOk => Some ({| st := s'; clock := clock b; timers := timers b ++ [(i, clock b + d)];
                          dues := (i, clock b + d) :: dues b |}, r, ts)
        | _ => Some ({| st := s'; clock := clock b; timers := timers b; dues := dues b |}, r, ts)
        end
      else None
  | TFire i =>
      match find (is_item i) (timers b) with
      | Some (_, due) =>
          if due =? clock b then
            let '(s', r, ts) := step (st b) (Ready i) in
            match r with
            | OOk => Some ({| st := s'; clock := clock b; timers := remove_first (is_item i) (timers b);
                              dues := dues b |}, r, ts)
            | _ => None
            end
          else None
      | None => None
      end
  | TIdle d =>
      if (0 <? d) && forallb (fun x => clock b + d <=? snd x) (timers b) then
        Some ({| st := st b; clock := clock b + d; timers := timers b; dues := dues b |}, OOk, [])
      else None
  end.

Definition tinit (m : mode) (c : nat) : tb :=
  {| st := init KBuffer m c; clock := 0; timers := []; dues := [] |}.

(* a legal timed history: every move is legal *)
Fixpoint trun (b : tb) (ops : list top) : option tb :=
  match ops with
  | [] => Some b
  | o :: r => match tstep b o with Some (b', _, _) => trun b' r | None => None end
  end.

Fixpoint trun_trace (b : tb) (ops : list top) : list (option (out * list nat * tb)) :=
  match ops with
  | [] => []
  | o :: r => match tstep b o with
              | Some (b', x, ts) => Some (x, ts, b') :: trun_trace b' r
              | None => [None]
              end
  end.

(* ------------------------------------------------------------------ proofs *)

Definition TInv (b : tb) : Prop :=
  Inv (st b) /\
  (forall i due, In (i, due) (timers b) -> clock b <= due /\ In i (transit (st b)) /\ In (i, due) (dues b)) /\
  (forall i, In i (transit (st b)) -> exists due, In (i, due) (timers b)) /\
  (forall i, In i (ready (st b)) -> exists due, In (i, due) (dues b) /\ due <= clock b) /\
  NoDup (map fst (dues b)) /\
  (forall i, In i (contents (st b)) -> In i (map fst (dues b))) /\
  NoDup (map fst (timers b)).

Lemma tinit_inv m c : TInv (tinit m c).
Proof.
  unfold TInv, tinit; simpl. repeat split; try (intros; tauto); try constructor; try apply init_inv.
Qed.

Lemma tg_tr s s' ts : trig_get s = Some (s', ts) -> transit s' = transit s /\ ready s' = ready s.
Proof. intros E. apply trig_get_fields in E. destruct E as (_ & A & B & _). auto. Qed.
Lemma tp_tr s : transit (fst (trig_put s)) = transit s /\ ready (fst (trig_put s)) = ready s.
Proof. destruct (trig_put_fields s) as (_ & A & B & _). auto. Qed.

Lemma put_shape s p t i s' r ts :
  step s (Put p t i) = (s', r, ts) ->
  ready s' = ready s /\ (r = OOk -> transit s' = transit s ++ [i]) /\ (r <> OOk -> transit s' = transit s).
Proof.
  simpl. unfold after_get.
  destruct (existsb (owns p t) (putres s)); simpl.
  2:{ intros [= <- <- <-]. repeat split; auto; congruence. }
  destruct (length (transit s) + length (ready s) <? cap s)%nat; simpl.
  2:{ intros [= <- <- <-]. repeat split; auto; congruence. }
  destruct (s_kind s).
  - destruct (trig_get _) as [[s2 ts2]|] eqn:E; intros [= <- <- <-].
    + destruct (tg_tr _ _ _ E) as (A & B). simpl in *. repeat split; auto; congruence.
    + repeat split; auto; congruence.
  - destruct (trig_get _) as [[s2 ts2]|] eqn:E.
    + destruct (trig_get s2) as [[s3 ts3]|] eqn:E3; intros [= <- <- <-].
      * destruct (tg_tr _ _ _ E) as (A & B). destruct (tg_tr _ _ _ E3) as (A3 & B3). simpl in *.
        repeat split; try congruence.
      * repeat split; auto; congruence.
    + intros [= <- <- <-]. repeat split; auto; congruence.
  - destruct (trig_get _) as [[s2 ts2]|] eqn:E; intros [= <- <- <-].
    + destruct (tg_tr _ _ _ E) as (A & B). simpl in *. repeat split; auto; congruence.
    + repeat split; auto; congruence.
  - destruct (trig_get _) as [[s2 ts2]|] eqn:E; intros [= <- <- <-].
    + destruct (tg_tr _ _ _ E) as (A & B). simpl in *. repeat split; auto; congruence.
    + repeat split; auto; congruence.
Qed.

Lemma api_shape s o s' r ts :
  api_ok o = true -> step s o = (s', r, ts) ->
  transit s' = transit s /\ (forall i, In i (ready s') -> In i (ready s)).
Proof.
  intros A. destruct o; try discriminate; simpl; unfold after_get.
  - destruct (trig_put _) as [s2 ts2] eqn:E. intros [= <- <- <-].
    apply (f_equal fst) in E. simpl in E. subst s2.
    match goal with |- context [trig_put ?z] => destruct (tp_tr z) as (-> & ->) end. simpl. auto.
  - destruct (trig_get _) as [[s2 ts2]|] eqn:E; intros [= <- <- <-]; auto.
    destruct (tg_tr _ _ _ E) as (-> & ->). simpl. auto.
  - destruct (existsb (owns2 p t) (getres s)); simpl; [|intros [= <- <- <-]; auto].
    destruct (index_where (tokb2 t) (getres s)) as [i|]; simpl; [|intros [= <- <- <-]; auto].
    destruct (nth_error (getres s) i) as [[r0 it]|]; simpl; [|intros [= <- <- <-]; auto].
    destruct (existsb (Nat.eqb it) (ready s)); simpl; [|intros [= <- <- <-]; auto].
    destruct (trig_put _) as [s2 ts2] eqn:E. intros [= <- <- <-].
    apply (f_equal fst) in E. simpl in E. subst s2.
    match goal with |- context [trig_put ?z] => destruct (tp_tr z) as (-> & ->) end. simpl. split; auto.
    intros j Hj. eapply remove_first_incl; eauto.
  - destruct (existsb (tokb t) (putq s)).
    + destruct (trig_put _) as [s2 ts2] eqn:E. intros [= <- <- <-].
      apply (f_equal fst) in E. simpl in E. subst s2.
      match goal with |- context [trig_put ?z] => destruct (tp_tr z) as (-> & ->) end. simpl. auto.
    + destruct (existsb (tokb t) (putres s)); simpl; [|intros [= <- <- <-]; auto].
      destruct (trig_put _) as [s2 ts2] eqn:E. intros [= <- <- <-].
      apply (f_equal fst) in E. simpl in E. subst s2.
      match goal with |- context [trig_put ?z] => destruct (tp_tr z) as (-> & ->) end. simpl. auto.
  - destruct (existsb (tokb t) (getq s)).
    + destruct (trig_get _) as [[s2 ts2]|] eqn:E; intros [= <- <- <-]; auto.
      destruct (tg_tr _ _ _ E) as (-> & ->). simpl. auto.
    + destruct (index_where (tokb2 t) (getres s)) as [i|]; simpl; [|intros [= <- <- <-]; auto].
      destruct (nth_error (getres s) i) as [[r0 it]|]; simpl; [|intros [= <- <- <-]; auto].
      destruct (existsb (Nat.eqb it) (ready s)); simpl; [|intros [= <- <- <-]; auto].
      destruct (trig_get _) as [[s2 ts2]|] eqn:E; intros [= <- <- <-]; auto.
      destruct (tg_tr _ _ _ E) as (-> & ->). simpl. auto.
Qed.

Lemma fire_shape s i s' ts :
  step s (Ready i) = (s', OOk, ts) ->
  In i (transit s) /\ transit s' = remove_first (Nat.eqb i) (transit s) /\ ready s' = ready s ++ [i].
Proof.
  simpl. destruct (existsb (Nat.eqb i) (transit s)) eqn:EX; simpl; [|discriminate].
  destruct (ready_guard _ _); simpl; [|discriminate].
  destruct (trig_get _) as [[s2 ts2]|] eqn:E; [|discriminate].
  destruct (trig_put s2) as [s3 ts3] eqn:E3. intros [= <- <-].
  apply (f_equal fst) in E3. simpl in E3. subst s3.
  destruct (tp_tr s2) as (-> & ->). destruct (tg_tr _ _ _ E) as (-> & ->). simpl.
  split; auto. apply existsb_eqb_In; auto.
Qed.

Lemma find_is_item_in i l x : find (is_item i) l = Some x -> In x l /\ fst x = i.
Proof. intros H. apply find_some in H as (A & B). unfold is_item in B. apply Nat.eqb_eq in B. auto. Qed.

Lemma in_remove_first_other {A} (f : A -> bool) l x : In x l -> f x = false -> In x (remove_first f l).
Proof.
  induction l as [|y l IH]; simpl; auto. intros [->|H] F.
  - rewrite F. left; auto.
  - destruct (f y); auto. right; auto.
Qed.

Lemma existsb_is_item_false i l : existsb (is_item i) l = false -> ~ In i (map fst l).
Proof.
  intros E Hi. apply in_map_iff in Hi as (x & Hx & Hin).
  assert (existsb (is_item i) l = true) as C.
  { apply existsb_exists. exists x. split; auto. unfold is_item. apply Nat.eqb_eq. auto. }
  congruence.
Qed.

Lemma nodup_fst_inj (l : list (nat * Z)) i d d' :
  NoDup (map fst l) -> In (i, d) l -> In (i, d') l -> d = d'.
Proof.
  induction l as [|[j e] l IH]; simpl; [tauto|]. intros ND [H|H] [H'|H']; inversion ND; subst.
  - congruence.
  - inversion H; subst. exfalso. apply H2. apply in_map_iff. exists (i, d'). auto.
  - inversion H'; subst. exfalso. apply H2. apply in_map_iff. exists (i, d). auto.
  - eauto.
Qed.

Lemma nodup_fst_remove_first (f : nat * Z -> bool) l : NoDup (map fst l) -> NoDup (map fst (remove_first f l)).
Proof.
  induction l as [|x l IH]; simpl; auto. intros ND. inversion ND; subst. destruct (f x); auto.
  simpl. constructor; auto. intros Hi. apply H1. apply in_map_iff in Hi as (y & Hy & Hin).
  apply in_map_iff. exists y. split; auto. eapply remove_first_incl; eauto.
Qed.

Lemma nodup_fst_removed i d l : NoDup (map fst l) -> In (i, d) (remove_first (is_item i) l) -> False.
Proof.
  induction l as [|[j e] l IH]; simpl; auto. intros ND. inversion ND; subst.
  unfold is_item at 1. simpl. destruct (Nat.eqb_spec j i).
  - subst. intros Hin. apply H1. apply in_map_iff. exists (i, d). auto.
  - intros [H|H]; [congruence|]. eauto.
Qed.

Ltac tinv_split := unfold TInv; simpl; refine (conj _ (conj _ (conj _ (conj _ (conj _ (conj _ _)))))).

Lemma step_tinv b o b' r ts : TInv b -> tstep b o = Some (b', r, ts) -> TInv b'.
Proof.
  intros (HI & T1 & T2 & T3 & T4 & T5 & T6) E. destruct o; unfold tstep in E.
  - (* API call *)
    destruct (api_ok o) eqn:EA; [|discriminate].
    assert (fresh_op (st b) o) as HF by (destruct o; simpl in *; auto; discriminate).
    pose proof (step_inv (st b) o HI HF) as HI'. unfold step_st in HI'.
    remember (step (st b) o) as X eqn:ES. symmetry in ES. destruct X as [[s' r0] ts0].
    inversion E; subst. clear E. simpl in *.
    destruct (api_shape _ _ _ _ _ EA ES) as (ET & ER).
    tinv_split; auto.
    + intros i due H. rewrite ET. apply T1; auto.
    + intros i H. rewrite ET in H. apply T2; auto.
    + intros i Hi. apply T5. unfold contents in *. apply in_app_or in Hi as [Hi|Hi]; apply in_or_app; auto.
      left. rewrite <- ET. exact Hi.
  - (* Put with delay d *)
    remember (step (st b) (Put p t i)) as X eqn:ES. symmetry in ES. destruct X as [[s' r0] ts0].
    destruct (0 <=? d) eqn:ED; simpl in E; [|discriminate].
    destruct (existsb (is_item i) (dues b)) eqn:EX; simpl in E; [discriminate|].
    pose proof (existsb_is_item_false _ _ EX) as NI.
    assert (fresh_op (st b) (Put p t i)) as HF by (simpl; intros Hi; apply NI, T5, Hi).
    pose proof (step_inv (st b) (Put p t i) HI HF) as HI'. unfold step_st in HI'. rewrite ES in HI'. simpl in HI'.
    destruct (put_shape _ _ _ _ _ _ _ ES) as (ER & EOK & ENO).
    apply Z.leb_le in ED.
    assert (r0 <> OOk ->
            TInv {| st := s'; clock := clock b; timers := timers b; dues := dues b |}) as FAIL.
    { intros N. specialize (ENO N). tinv_split; auto.
      - intros j due H. rewrite ENO. apply T1; auto.
      - intros j H. rewrite ENO in H. apply T2; auto.
      - intros j H. rewrite ER in H. apply T3; auto.
      - intros j Hj. apply T5. unfold contents in *. rewrite ENO, ER in Hj. exact Hj. }
    destruct r0; try (inversion E; subst; apply FAIL; discriminate).
    inversion E; subst; clear E.
    specialize (EOK eq_refl). tinv_split; auto.
    + intros j due H. rewrite EOK. apply in_app_or in H as [H|[H|[]]].
      * destruct (T1 _ _ H) as (A & B & C). repeat split; auto. apply in_or_app; auto.
      * inversion H; subst. repeat split; [lia|apply in_or_app; right; left; auto|left; auto].
    + intros j Hj. rewrite EOK in Hj. apply in_app_or in Hj as [Hj|[<-|[]]].
      * destruct (T2 j Hj) as (due & Hd). exists due. apply in_or_app; auto.
      * exists (clock b + d). apply in_or_app; right; left; auto.
    + intros j Hj. rewrite ER in Hj. destruct (T3 j Hj) as (due & Hd & Hl). exists due. split; auto.
    + constructor; auto.
    + intros j Hj. unfold contents in Hj. rewrite EOK, ER in Hj.
      apply in_app_or in Hj as [Hj|Hj]; [apply in_app_or in Hj as [Hj|[<-|[]]]|]; auto;
        right; apply T5; unfold contents; apply in_or_app; auto.
    + rewrite map_app. simpl. apply NoDup_snoc; auto. intros Hi. apply NI.
      apply in_map_iff in Hi as ([j e] & Hj & Hin). simpl in Hj. subst j.
      apply in_map_iff. exists (i, e). split; auto. apply T1 in Hin. apply Hin.
  - (* a timer fires *)
    remember (step (st b) (Ready i)) as X eqn:ES. symmetry in ES. destruct X as [[s' r0] ts0].
    destruct (find (is_item i) (timers b)) as [[j due]|] eqn:EF; [|discriminate].
    destruct (find_is_item_in _ _ _ EF) as (Hin & Hj). simpl in Hj. subst j.
    destruct (Z.eqb_spec due (clock b)); [|discriminate]. subst due.
    pose proof (step_inv (st b) (Ready i) HI I) as HI'. unfold step_st in HI'. rewrite ES in HI'. simpl in HI'.
    destruct r0; try discriminate. inversion E; subst. clear E.
    destruct (fire_shape _ _ _ _ ES) as (Hit & ET & ER).
    assert (NoDup (transit (st b))) as NDT by (destruct HI as (_ & ND & _); eapply NoDup_app_l; eauto).
    tinv_split; auto.
    + intros j due H. pose proof H as H0. apply remove_first_incl in H0.
      destruct (T1 _ _ H0) as (A & B & C). repeat split; auto. rewrite ET.
      apply in_remove_first_neq; auto. intros ->. eapply nodup_fst_removed; eauto.
    + intros j Hj. rewrite ET in Hj. apply remove_first_incl in Hj as Hj'.
      destruct (T2 j Hj') as (due & Hd). exists due.
      apply in_remove_first_other; auto. unfold is_item; simpl. apply Nat.eqb_neq. intros ->.
      revert Hj. apply remove_first_eqb_not_in. exact NDT.
    + intros j Hj. rewrite ER in Hj. apply in_app_or in Hj as [Hj|[<-|[]]].
      * destruct (T3 j Hj) as (due & Hd & Hl). exists due. split; auto.
      * exists (clock b). split; [apply T1 in Hin; apply Hin|lia].
    + intros j Hj. apply T5. unfold contents in *. rewrite ET, ER in Hj.
      apply in_app_or in Hj as [Hj|Hj]; [apply remove_first_incl in Hj; apply in_or_app; auto|].
      apply in_app_or in Hj as [Hj|[<-|[]]]; apply in_or_app; auto.
    + apply nodup_fst_remove_first; auto.
  - (* time advances *)
    destruct (0 <? d) eqn:ED; simpl in E; [|discriminate].
    destruct (forallb _ (timers b)) eqn:EA; [|discriminate]. inversion E; subst. clear E.
    apply Z.ltb_lt in ED. rewrite forallb_forall in EA.
    tinv_split; auto.
    + intros j due H. destruct (T1 _ _ H) as (A & B & C). repeat split; auto.
      specialize (EA _ H). simpl in EA. apply Z.leb_le in EA. lia.
    + intros j Hj. destruct (T3 j Hj) as (due & Hd & Hl). exists due. split; auto. lia.
Qed.

Lemma trun_inv ops : forall b b', TInv b -> trun b ops = Some b' -> TInv b'.
Proof.
  induction ops as [|o ops IH]; simpl; intros b b' H E.
  - inversion E; subst; auto.
  - destruct (tstep b o) as [[[b1 r] ts]|] eqn:ES; [|discriminate].
    eapply IH; [|exact E]. eapply step_tinv; eauto.
Qed.

(* ------------------------------------------------------------------ the delay theorems (C11) *)

(* in every legal timed history: an item that is ready (hence retrievable) was put at least its
   delay ago *)
Theorem ready_not_before_due m c ops b i :
  trun (tinit m c) ops = Some b -> In i (ready (st b)) ->
  exists due, In (i, due) (dues b) /\ due <= clock b.
Proof.
  intros E Hi. pose proof (trun_inv ops _ _ (tinit_inv m c) E) as (_ & _ & _ & T3 & _). auto.
Qed.

(* ... and once the clock has passed put time + delay the item is no longer in transit: it is
   ready or has been retrieved *)
Theorem due_passed_not_in_transit m c ops b i due :
  trun (tinit m c) ops = Some b -> In (i, due) (dues b) -> due < clock b -> ~ In i (transit (st b)).
Proof.
  intros E Hd Hl Hi. pose proof (trun_inv ops _ _ (tinit_inv m c) E) as (_ & T1 & T2 & _ & T4 & _).
  destruct (T2 i Hi) as (due' & Ht). destruct (T1 _ _ Ht) as (A & _ & C).
  pose proof (nodup_fst_inj _ _ _ _ T4 Hd C). lia.
Qed.

(* at the instant put time + delay itself the timer fires before the clock may move on *)
Theorem due_now_fires_before_time_passes m c ops b i due d b' r ts :
  trun (tinit m c) ops = Some b -> In (i, due) (dues b) -> due <= clock b ->
  tstep b (TIdle d) = Some (b', r, ts) -> ~ In i (transit (st b)).
Proof.
  intros E Hd Hl EI Hi. pose proof (trun_inv ops _ _ (tinit_inv m c) E) as (_ & T1 & T2 & _ & T4 & _).
  destruct (T2 i Hi) as (due' & Ht). destruct (T1 _ _ Ht) as (A & _ & C).
  pose proof (nodup_fst_inj _ _ _ _ T4 Hd C). subst due'.
  simpl in EI. destruct (0 <? d) eqn:ED; simpl in EI; [|discriminate].
  destruct (forallb _ (timers b)) eqn:EA; [|discriminate].
  rewrite forallb_forall in EA. specialize (EA _ Ht). simpl in EA.
  apply Z.leb_le in EA. apply Z.ltb_lt in ED. lia.
Qed.

(* a get returns a ready item (StoreBInv.granted_get_ok), so together: never retrievable before
   put time + delay, retrievable from then on *)
Theorem get_returns_due_item m c ops b p t :
  trun (tinit m c) ops = Some b -> existsb (owns2 p t) (getres (st b)) = true ->
  exists it due, snd (fst (step (st b) (Get p t))) = OItem it /\ In (it, due) (dues b) /\ due <= clock b.
Proof.
  intros E EO. pose proof (trun_inv ops _ _ (tinit_inv m c) E) as (HI & _ & _ & T3 & _).
  destruct (granted_get_ok _ _ _ HI EO) as (i & r & it & _ & _ & Hin & K & _).
  destruct (T3 _ Hin) as (due & A & B). exists it, due. auto.
Qed.
