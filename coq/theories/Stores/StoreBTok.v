(* Tokens of space requests (waiting or granted) of the bound-item store: pairwise distinct, all below
   the token counter -- an invariant every store operation keeps unconditionally; cancelling a space
   request removes its token for good, and no operation other than the request that creates it ever
   brings a token (back) in.  Used by FactoryWithdraw.v for C10 ("a node that commits to one edge
   withdraws its requests on all the others"). *)
From Coq Require Import List ZArith Lia Bool Arith Permutation.
From FV Require Import ListLemmas ListLemmas2.
From FV Require Import StoreB StoreBInv StoreBProps.
Import ListNotations.

Definition ptl (s : store) : list tok := map r_tok (putq s) ++ map r_tok (putres s).
Definition PT (s : store) (t : tok) : Prop := In t (ptl s).
Definition TokB (s : store) : Prop := NoDup (ptl s) /\ (forall t, PT s t -> t < next s).

Lemma ins_toks r q : Permutation (map r_tok (ins r q)) (r_tok r :: map r_tok q).
Proof.
  induction q as [|x q IH]; simpl; auto. destruct (_ <? _)%Z; simpl; auto.
  rewrite IH. apply perm_swap.
Qed.

Lemma trig_put_ptl s : Permutation (ptl (fst (trig_put s))) (ptl s).
Proof.
  unfold trig_put, ptl. destruct (putq s) as [|r q] eqn:EQ.
  - simpl. rewrite EQ. apply Permutation_refl.
  - destruct (allow_put s); simpl.
    + rewrite map_app. simpl. rewrite app_assoc. rewrite <- Permutation_cons_append. apply Permutation_refl.
    + rewrite EQ. apply Permutation_refl.
Qed.
Lemma trig_get_ptl s s' ts : trig_get s = Some (s', ts) -> ptl s' = ptl s.
Proof. intros E. apply trig_get_fields in E. destruct E as (_ & _ & _ & E1 & E2 & _). unfold ptl. rewrite E1, E2. reflexivity. Qed.

Lemma map_remove_first_in {A B} (g : A -> B) f l x : In x (map g (remove_first f l)) -> In x (map g l).
Proof. intros H. apply in_map_iff in H. destruct H as (y & <- & Hy). apply in_map. eapply remove_first_incl; eauto. Qed.
Lemma map_remove_first_nodup {A B} (g : A -> B) f l : NoDup (map g l) -> NoDup (map g (remove_first f l)).
Proof.
  induction l as [|x l IH]; simpl; auto. intros H. inversion H; subst. destruct (f x); auto.
  simpl. constructor; auto. intros K. apply H2. eapply map_remove_first_in; eauto.
Qed.
Lemma remove_tok_absent t l : NoDup (map r_tok l) -> ~ In t (map r_tok (remove_first (tokb t) l)).
Proof.
  induction l as [|x l IH]; simpl; auto. intros H. inversion H; subst. unfold tokb at 1.
  destruct (Nat.eqb_spec (r_tok x) t) as [E|E].
  - subst t. exact H2.
  - simpl. intros [K|K]; [contradiction|]. eapply IH; eauto.
Qed.
Lemma existsb_tokb_false t l : existsb (tokb t) l = false -> ~ In t (map r_tok l).
Proof.
  induction l as [|x l IH]; simpl; auto. intros H. apply orb_false_iff in H. destruct H as (H1 & H2).
  unfold tokb in H1. apply Nat.eqb_neq in H1. intros [K|K]; [contradiction|]. apply IH; auto.
Qed.

(* a token present after an operation was present before, or is the one the operation just issued *)
Definition issues (s : store) (o : op) (t : tok) : Prop := match o with RPut _ _ => t = next s | _ => False end.
Lemma pt_origin s o t : PT (step_st s o) t -> PT s t \/ issues s o t.
Proof.
  unfold step_st, PT. destruct o; simpl.
  - set (r := {| r_tok := next s; r_pid := p; r_prio := eff_prio s pr |}).
    set (s1 := set_next (set_putq s (ins r (putq s))) (S (next s))).
    pose proof (trig_put_ptl s1) as P. destruct (trig_put s1) as [s2 ts]. simpl in *. intros H.
    apply (Permutation_in _ P) in H. unfold ptl, s1 in H. simpl in H. apply in_app_or in H. destruct H as [H|H].
    + apply (Permutation_in _ (ins_toks r (putq s))) in H. simpl in H. destruct H as [H|H]; [right; auto|left; unfold ptl; apply in_or_app; auto].
    + left. unfold ptl. apply in_or_app; auto.
  - unfold after_get. destruct (trig_get _) as [[s2 ts]|] eqn:E; simpl; auto.
    intros H. rewrite (trig_get_ptl _ _ _ E) in H. left. exact H.
  - intros H. left. revert H.
    destruct (existsb _ _); [|auto]. destruct (_ <? _); simpl.
    + assert (forall s2, ptl s2 = ptl (set_transit (set_putres s (remove_first (owns p t0) (putres s))) (transit s ++ [i])) -> In t (ptl s2) -> In t (ptl s)) as K.
      { intros s2 -> H. unfold ptl in *. simpl in H. apply in_app_or in H. apply in_or_app. destruct H as [H|H]; auto.
        right. eapply map_remove_first_in; eauto. }
      destruct (s_kind s); unfold after_get.
      all: repeat (match goal with |- context [trig_get ?z] => let E := fresh "E" in destruct (trig_get z) as [[? ?]|] eqn:E; [apply trig_get_ptl in E|]; simpl end).
      all: auto.
      all: intros H; refine (K _ _ H); congruence.
    + unfold ptl. simpl. intros H. apply in_app_or in H. apply in_or_app. destruct H as [H|H]; auto.
      right. eapply map_remove_first_in; eauto.
  - intros H. left. revert H.
    destruct (existsb _ _); [|auto]. destruct (index_where _ _); [|auto]. destruct (nth_error _ _) as [[? it]|]; [|auto].
    destruct (existsb _ _); [|auto].
    match goal with |- context [trig_put ?z] => pose proof (trig_put_ptl z) as P; destruct (trig_put z) as [s2 ts] end. simpl in *.
    intros H. apply (Permutation_in _ P) in H. exact H.
  - intros H. left. revert H. destruct (existsb (tokb t0) (putq s)).
    + match goal with |- context [trig_put ?z] => pose proof (trig_put_ptl z) as P; destruct (trig_put z) as [s2 ts] end. simpl in *.
      intros H. apply (Permutation_in _ P) in H. unfold ptl in *. simpl in H. apply in_app_or in H. apply in_or_app.
      destruct H as [H|H]; auto. left. eapply map_remove_first_in; eauto.
    + destruct (existsb (tokb t0) (putres s)); [|auto].
      match goal with |- context [trig_put ?z] => pose proof (trig_put_ptl z) as P; destruct (trig_put z) as [s2 ts] end. simpl in *.
      intros H. apply (Permutation_in _ P) in H. unfold ptl in *. simpl in H. apply in_app_or in H. apply in_or_app.
      destruct H as [H|H]; auto. right. eapply map_remove_first_in; eauto.
  - intros H. left. revert H. unfold after_get.
    repeat (match goal with
            | |- context [trig_get ?z] => let E := fresh "E" in destruct (trig_get z) as [[? ?]|] eqn:E; [apply trig_get_ptl in E|]; simpl
            | |- context [if ?b then _ else _] => destruct b; simpl
            | |- context [match ?x with _ => _ end] => destruct x eqn:?; simpl
            end); auto; intros H;
      match goal with E : ptl ?a = ptl _ , H : In _ (ptl ?a) |- _ => rewrite E in H; exact H end.
  - intros H. left. revert H.
    destruct (existsb _ _); [|auto]. destruct (ready_guard _ _); simpl; [|auto].
    destruct (trig_get _) as [[s2 ts1]|] eqn:E; simpl; [|auto]. apply trig_get_ptl in E.
    pose proof (trig_put_ptl s2) as P. destruct (trig_put s2) as [s3 ts2]. simpl in *.
    intros H. apply (Permutation_in _ P) in H. rewrite E in H. exact H.
  - auto.
  - pose proof (trig_put_ptl s) as P. destruct (trig_put s) as [s2 ts]. simpl in *. intros H. left. apply (Permutation_in _ P). exact H.
  - destruct (_ <=? _); simpl; auto.
Qed.

(* the tokens after an operation are, as a multiset, among those before it plus the one it issued *)
Definition sub (l l' : list tok) : Prop := exists r, Permutation (l ++ r) l'.
Lemma sub_refl l : sub l l. Proof. exists []. rewrite app_nil_r. apply Permutation_refl. Qed.
Lemma sub_perm l l' l'' : Permutation l l' -> sub l' l'' -> sub l l''.
Proof. intros P (r & R). exists r. rewrite P. exact R. Qed.
Lemma sub_nodup l l' : sub l l' -> NoDup l' -> NoDup l.
Proof. intros (r & R) H. apply Permutation_sym in R. apply (Permutation_NoDup R) in H. eapply NoDup_app_l; eauto. Qed.
Lemma sub_in l l' x : sub l l' -> In x l -> In x l'.
Proof. intros (r & R) H. apply (Permutation_in _ R). apply in_or_app; auto. Qed.
Lemma remove_first_sub {A} (g : A -> tok) f l : sub (map g (remove_first f l)) (map g l).
Proof.
  induction l as [|x l IH]; simpl; [apply sub_refl|]. destruct (f x).
  - exists [g x]. rewrite <- Permutation_cons_append. apply Permutation_refl.
  - destruct IH as (r & R). exists r. simpl. constructor. exact R.
Qed.
Lemma sub_app_l a a' b : sub a a' -> sub (a ++ b) (a' ++ b).
Proof. intros (r & R). exists r. rewrite <- app_assoc. rewrite (Permutation_app_comm b r). rewrite app_assoc. apply Permutation_app_tail. exact R. Qed.
Lemma sub_app_r a b b' : sub b b' -> sub (a ++ b) (a ++ b').
Proof. intros (r & R). exists r. rewrite <- app_assoc. apply Permutation_app_head. exact R. Qed.
Lemma sub_cons x l : sub l (x :: l).
Proof. exists [x]. rewrite <- Permutation_cons_append. apply Permutation_refl. Qed.
Lemma sub_trans a b c : sub a b -> sub b c -> sub a c.
Proof.
  intros (r1 & R1) (r2 & R2). exists (r1 ++ r2). rewrite app_assoc. rewrite R1. exact R2.
Qed.

Definition issued (s : store) (o : op) : list tok := match o with RPut _ _ => [next s] | _ => [] end.
Lemma pt_sub s o : sub (ptl (step_st s o)) (issued s o ++ ptl s).
Proof.
  unfold step_st. destruct o; simpl.
  - set (r := {| r_tok := next s; r_pid := p; r_prio := eff_prio s pr |}).
    set (s1 := set_next (set_putq s (ins r (putq s))) (S (next s))).
    pose proof (trig_put_ptl s1) as P. destruct (trig_put s1) as [s2 ts]. simpl in *.
    eapply sub_perm; [exact P|]. unfold ptl, s1. simpl.
    eapply sub_perm; [apply Permutation_app_tail; apply (ins_toks r (putq s))|]. simpl. apply sub_refl.
  - unfold after_get. destruct (trig_get _) as [[s2 ts]|] eqn:E; simpl; [|apply sub_refl].
    rewrite (trig_get_ptl _ _ _ E). apply sub_refl.
  - destruct (existsb _ _); [|apply sub_refl]. destruct (_ <? _); simpl.
    + assert (forall s2, ptl s2 = ptl (set_transit (set_putres s (remove_first (owns p t) (putres s))) (transit s ++ [i])) -> sub (ptl s2) (ptl s)) as K.
      { intros s2 ->. unfold ptl. simpl. apply sub_app_r. apply remove_first_sub. }
      destruct (s_kind s); unfold after_get.
      all: repeat (match goal with |- context [trig_get ?z] => let E := fresh "E" in destruct (trig_get z) as [[? ?]|] eqn:E; [apply trig_get_ptl in E|]; simpl end).
      all: try apply sub_refl.
      all: apply K; congruence.
    + unfold ptl. simpl. apply sub_app_r. apply remove_first_sub.
  - destruct (existsb _ _); [|apply sub_refl]. destruct (index_where _ _); [|apply sub_refl].
    destruct (nth_error _ _) as [[? it]|]; [|apply sub_refl]. destruct (existsb _ _); [|apply sub_refl].
    match goal with |- context [trig_put ?z] => pose proof (trig_put_ptl z) as P; destruct (trig_put z) as [s2 ts] end. simpl in *.
    eapply sub_perm; [exact P|]. apply sub_refl.
  - destruct (existsb (tokb t) (putq s)).
    + match goal with |- context [trig_put ?z] => pose proof (trig_put_ptl z) as P; destruct (trig_put z) as [s2 ts] end. simpl in *.
      eapply sub_perm; [exact P|]. unfold ptl. simpl. apply sub_app_l. apply remove_first_sub.
    + destruct (existsb (tokb t) (putres s)); [|apply sub_refl].
      match goal with |- context [trig_put ?z] => pose proof (trig_put_ptl z) as P; destruct (trig_put z) as [s2 ts] end. simpl in *.
      eapply sub_perm; [exact P|]. unfold ptl. simpl. apply sub_app_r. apply remove_first_sub.
  - unfold after_get.
    repeat (match goal with
            | |- context [trig_get ?z] => let E := fresh "E" in destruct (trig_get z) as [[? ?]|] eqn:E; [apply trig_get_ptl in E|]; simpl
            | |- context [if ?b then _ else _] => destruct b; simpl
            | |- context [match ?x with _ => _ end] => destruct x eqn:?; simpl
            end); try apply sub_refl;
      match goal with E : ptl ?a = ptl _ |- sub (ptl ?a) _ => rewrite E; apply sub_refl end.
  - destruct (existsb _ _); [|apply sub_refl]. destruct (ready_guard _ _); simpl; [|apply sub_refl].
    destruct (trig_get _) as [[s2 ts1]|] eqn:E; simpl; [|apply sub_refl]. apply trig_get_ptl in E.
    pose proof (trig_put_ptl s2) as P. destruct (trig_put s2) as [s3 ts2]. simpl in *.
    eapply sub_perm; [exact P|]. rewrite E. apply sub_refl.
  - apply sub_refl.
  - pose proof (trig_put_ptl s) as P. destruct (trig_put s) as [s2 ts]. simpl in *. eapply sub_perm; [exact P|apply sub_refl].
  - destruct (_ <=? _); simpl; apply sub_refl.
Qed.

Lemma step_next_ge s o : next s <= next (step_st s o).
Proof.
  unfold step_st. destruct o; simpl; unfold after_get;
    repeat (match goal with
            | |- context [trig_put ?z] =>
                let E := fresh "E" in pose proof (trig_put_fields z) as E; destruct (trig_put z); simpl in *
            | |- context [trig_get ?z] =>
                let E := fresh "E" in destruct (trig_get z) as [[? ?]|] eqn:E; [apply trig_get_fields in E|]; simpl in *
            | |- context [if ?b then _ else _] => destruct b eqn:?; simpl in *
            | |- context [match ?x with _ => _ end] => destruct x eqn:?; simpl in *
            end); repeat match goal with E : _ /\ _ |- _ => destruct E end; try lia.
  all: try (apply Nat.leb_le in Heqb; lia).
Qed.

Theorem tokb_step s o : TokB s -> TokB (step_st s o).
Proof.
  intros (ND & B). pose proof (pt_sub s o) as SB. split.
  - eapply sub_nodup; [exact SB|]. destruct o; simpl; auto. constructor; auto. intros K. apply B in K. lia.
  - intros t H. pose proof (step_next_ge s o) as G. destruct (pt_origin s o t H) as [K|K].
    + apply B in K. lia.
    + destruct o; simpl in K; try contradiction. subst t.
      assert (next (step_st s (RPut p pr)) = S (next s)) as ->; [|lia].
      unfold step_st. simpl. match goal with |- context [trig_put ?z] => pose proof (trig_put_fields z) as F; destruct (trig_put z) end.
      simpl in *. destruct F as (_ & _ & _ & _ & _ & F & _). exact F.
Qed.
Lemma init_tokb k m c : TokB (init k m c).
Proof. split; [constructor|]. intros t H. inversion H. Qed.

(* cancelling a space request removes its token *)
Theorem cput_absent s t : TokB s -> ~ PT (step_st s (CPut t)) t.
Proof.
  intros (ND & _). unfold step_st, PT. simpl.
  assert (NoDup (map r_tok (putq s)) /\ NoDup (map r_tok (putres s)) /\
          (forall x, In x (map r_tok (putq s)) -> ~ In x (map r_tok (putres s)))) as (N1 & N2 & N3).
  { unfold ptl in ND. split; [eapply NoDup_app_l; eauto|]. split; [eapply NoDup_app_r; eauto|].
    intros x H1 H2. eapply NoDup_app_disj; eauto. }
  destruct (existsb (tokb t) (putq s)) eqn:E1.
  - match goal with |- context [trig_put ?z] => pose proof (trig_put_ptl z) as P; destruct (trig_put z) as [s2 ts] end. cbn [fst snd] in *.
    intros H. apply (Permutation_in _ P) in H. unfold ptl in H. simpl in H. apply in_app_or in H. destruct H as [H|H].
    + exact (remove_tok_absent t (putq s) N1 H).
    + apply existsb_exists in E1. destruct E1 as (x & Hx & Ex). unfold tokb in Ex. apply Nat.eqb_eq in Ex.
      eapply N3; [|exact H]. subst t. apply in_map. exact Hx.
  - destruct (existsb (tokb t) (putres s)) eqn:E2.
    + match goal with |- context [trig_put ?z] => pose proof (trig_put_ptl z) as P; destruct (trig_put z) as [s2 ts] end. cbn [fst snd] in *.
      intros H. apply (Permutation_in _ P) in H. unfold ptl in H. simpl in H. apply in_app_or in H. destruct H as [H|H].
      * exact (existsb_tokb_false t (putq s) E1 H).
      * exact (remove_tok_absent t (putres s) N2 H).
    + simpl. unfold ptl. intros H. apply in_app_or in H. destruct H as [H|H]; [exact (existsb_tokb_false t (putq s) E1 H)|exact (existsb_tokb_false t (putres s) E2 H)].
Qed.
