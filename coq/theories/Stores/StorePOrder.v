(* Positional store model: no lost wake-up (C04), service order (C05), retrieval discipline (C06),
   rejection of ill-formed calls (C07). *)
From Coq Require Import List ZArith Lia Bool Arith Permutation Sorted.
From FV Require Import ListLemmas ListLemmas2 Queue StoreP StorePInv.
Import ListNotations.

Lemma ins_gins r q : ins r q = gins r_prio r q.
Proof. induction q as [|x q IH]; simpl; try rewrite IH; auto. Qed.

Notation qs := (qsorted r_prio r_tok).
Notation bel := (below r_tok).
Notation rlt := (klt r_prio r_tok).

(* ------------------------------------------------------------------ C05 *)

Definition QInv (s : store) : Prop :=
  qs (putq s) /\ qs (getq s) /\ bel (next s) (putq s) /\ bel (next s) (getq s).

Lemma trig_put_q s : QInv s -> QInv (fst (trig_put s)).
Proof.
  intros (A & B & C & D). unfold trig_put. destruct (putq s) as [|r q] eqn:E; simpl.
  { unfold QInv. rewrite E. auto. }
  destruct (allow_put s); simpl.
  - unfold QInv; simpl. repeat split; auto. eapply sorted_tail; eauto. eapply below_tail; eauto.
  - unfold QInv. rewrite E. auto.
Qed.

Lemma trig_get1_q s : QInv s -> QInv (fst (trig_get1 s)).
Proof.
  intros (A & B & C & D). unfold trig_get1. destruct (getq s) as [|r q] eqn:EQ; simpl.
  { unfold QInv. rewrite EQ. auto. }
  destruct (allow_get s); simpl.
  - destruct (split_first _ _) as [[[a x] b]|]; simpl.
    + unfold QInv; simpl. repeat split; auto. eapply sorted_tail; eauto. eapply below_tail; eauto.
    + unfold QInv. rewrite EQ. auto.
  - unfold QInv. rewrite EQ. auto.
Qed.

Lemma trig_get_q s : QInv s -> QInv (fst (trig_get s)).
Proof. apply trig_get_lift. apply trig_get1_q. Qed.

Ltac trg :=
  match goal with
  | |- context [trig_put ?s1] =>
      let E := fresh "E" in let s2 := fresh "s2" in let ts := fresh "ts" in
      destruct (trig_put s1) as [s2 ts] eqn:E;
      apply (f_equal fst) in E; simpl fst in E; subst s2
  | |- context [trig_get ?s1] =>
      let E := fresh "E" in let s2 := fresh "s2" in let ts := fresh "ts" in
      destruct (trig_get s1) as [s2 ts] eqn:E;
      apply (f_equal fst) in E; simpl fst in E; subst s2
  end.

Lemma step_qinv s o : QInv s -> QInv (step_st s o).
Proof.
  intros HQ. pose proof HQ as (A & B & C & D). unfold step_st. destruct o; simpl.
  - trg. simpl. apply trig_put_q. unfold QInv; simpl. rewrite ins_gins. repeat split; auto.
    + eapply gins_sorted; eauto.
    + apply gins_below; simpl; auto. eapply below_mono; [|eauto]. lia.
    + eapply below_mono; [|eauto]. lia.
  - trg. simpl. apply trig_get_q. unfold QInv; simpl. rewrite ins_gins. repeat split; auto.
    + eapply gins_sorted; eauto.
    + eapply below_mono; [|eauto]. lia.
    + apply gins_below; simpl; auto. eapply below_mono; [|eauto]. lia.
  - destruct (existsb (owns p t) (putres s)); simpl; auto.
    destruct (length (items s) <? cap s); simpl; auto. trg. simpl. apply trig_get_q. exact HQ.
  - destruct (existsb (owns p t) (getres s)); simpl; auto.
    destruct (index_where (tokb t) (getres s)) as [i|]; simpl; auto.
    destruct (nth_error (items s) i); simpl; auto. trg. simpl. apply trig_put_q. exact HQ.
  - destruct (existsb (tokb t) (putq s)).
    + trg. simpl. apply trig_put_q. unfold QInv; simpl. repeat split; auto.
      apply remove_first_sorted; auto. apply remove_first_below; auto.
    + destruct (existsb (tokb t) (putres s)); simpl; auto. trg. simpl. apply trig_put_q. exact HQ.
  - destruct (existsb (tokb t) (getq s)).
    + trg. simpl. apply trig_get_q. unfold QInv; simpl. repeat split; auto.
      apply remove_first_sorted; auto. apply remove_first_below; auto.
    + destruct (index_where (tokb t) (getres s)) as [i|]; simpl; auto.
      destruct (nth_error (items s) i); simpl; auto. trg. simpl. apply trig_get_q. exact HQ.
  - trg. simpl. apply trig_get_q. exact HQ.
  - destruct (0 <=? d)%Z; simpl; exact HQ.
  - destruct (Nat.leb_spec (next s) n); simpl; auto.
    unfold QInv; simpl. repeat split; auto; eapply below_mono; eauto.
Qed.

Lemma init_qinv k c td : QInv (init k c td).
Proof. unfold QInv; simpl. repeat split; constructor. Qed.

Theorem qinv_reachable k c td ops : QInv (run (init k c td) ops).
Proof. apply run_inv; [apply step_qinv | apply init_qinv]. Qed.

Theorem trig_put_serves_min s s' t :
  QInv s -> trig_put s = (s', [t]) ->
  exists r q, putq s = r :: q /\ t = r_tok r /\ putq s' = q /\ putres s' = putres s ++ [r] /\
              forall y, In y q -> rlt r y.
Proof.
  intros (A & _) E. unfold trig_put in E. destruct (putq s) as [|r q] eqn:EQ; [inversion E|].
  destruct (allow_put s); inversion E; subst. exists r, q. simpl. repeat split; auto.
  intros y Hy. eapply sorted_head_min; eauto.
Qed.

Theorem trig_get_serves_min s s' t :
  QInv s -> trig_get1 s = (s', [t]) ->
  exists r q, getq s = r :: q /\ t = r_tok r /\ getq s' = q /\ getres s' = getres s ++ [r] /\
              forall y, In y q -> rlt r y.
Proof.
  intros (_ & B & _) E. unfold trig_get1 in E. destruct (getq s) as [|r q] eqn:EQ; [inversion E|].
  destruct (allow_get s); [|inversion E].
  destruct (split_first _ _) as [[[a x] b]|]; inversion E; subst. exists r, q. simpl. repeat split; auto.
  intros y Hy. eapply sorted_head_min; eauto.
Qed.

Lemma trig_put_at_most_one s : length (snd (trig_put s)) <= 1.
Proof. unfold trig_put. destruct (putq s); simpl; auto. destruct (allow_put s); simpl; auto. Qed.
Lemma trig_get_at_most_one s : length (snd (trig_get1 s)) <= 1.
Proof.
  unfold trig_get1. destruct (getq s); simpl; auto. destruct (allow_get s); simpl; auto.
  destruct (split_first _ _) as [[[a x] b]|]; simpl; auto.
Qed.

(* ------------------------------------------------------------------ C04 (stores without filters) *)

Definition NoLost (s : store) : Prop :=
  (putq s <> [] -> allow_put s = false) /\ (getq s <> [] -> allow_get s = false).

Lemma trig_put_nolost s :
  (forall r1 r2 q, putq s = r1 :: r2 :: q -> cap s <= length (putres s) + length (items s) + 1) ->
  putq (fst (trig_put s)) <> [] -> allow_put (fst (trig_put s)) = false.
Proof.
  intros H. unfold trig_put. destruct (putq s) as [|r q] eqn:EQ; simpl; [congruence|].
  destruct (allow_put s) eqn:EA; simpl.
  - intros Hq. destruct q as [|r2 q]; [congruence|]. specialize (H _ _ _ eq_refl).
    unfold allow_put; simpl. rewrite app_length; simpl. apply Nat.ltb_ge. lia.
  - rewrite EQ. auto.
Qed.

(* without filters the head request always matches the first unreserved item *)
Lemma nofilter_match s r : s_kind s <> KFilter -> forall it, fmatch (now s) (tdelay s) (eff_flt s r) it = true.
Proof. intros NF it. unfold eff_flt. destruct (s_kind s); try congruence; unfold fmatch; rewrite Nat.mod_1_r; reflexivity. Qed.

Lemma trig_get_nofilter s :
  s_kind s <> KFilter -> CapInv s ->
  trig_get s = match getq s with
               | [] => (s, [])
               | r :: q => if allow_get s
                           then (set_getres (set_getq s q) (getres s ++ [r]), [r_tok r])
                           else (s, [])
               end.
Proof.
  intros NF (_ & HL).
  assert (trig_get s = trig_get1 s) as -> by (unfold trig_get; destruct (s_kind s); congruence).
  unfold trig_get1. destruct (getq s) as [|r q]; auto.
  unfold allow_get. destruct (Nat.ltb_spec (length (getres s)) (length (items s))); auto.
  destruct (skipn (length (getres s)) (items s)) as [|x l] eqn:ES.
  { exfalso. pose proof (skipn_length (length (getres s)) (items s)) as K. rewrite ES in K. simpl in K. lia. }
  simpl. rewrite (nofilter_match s r NF x). simpl.
  rewrite <- ES, firstn_skipn.
  destruct s; reflexivity.
Qed.

Lemma trig_get_nolost s :
  s_kind s <> KFilter -> CapInv s ->
  (forall r1 r2 q, getq s = r1 :: r2 :: q -> length (items s) <= length (getres s) + 1) ->
  getq (fst (trig_get s)) <> [] -> allow_get (fst (trig_get s)) = false.
Proof.
  intros NF HC H. rewrite trig_get_nofilter by auto.
  destruct (getq s) as [|r q] eqn:EQ; simpl; [congruence|].
  destruct (allow_get s) eqn:EA; simpl.
  - intros Hq. destruct q as [|r2 q]; [congruence|]. specialize (H _ _ _ eq_refl).
    unfold allow_get; simpl. rewrite app_length; simpl. apply Nat.ltb_ge. lia.
  - rewrite EQ. auto.
Qed.

Lemma allow_put_false s : CapInv s -> allow_put s = false -> length (putres s) + length (items s) = cap s.
Proof. intros (H1 & _) E. unfold allow_put in E. apply Nat.ltb_ge in E. lia. Qed.
Lemma allow_get_false s : CapInv s -> allow_get s = false -> length (getres s) = length (items s).
Proof. intros (_ & H2) E. unfold allow_get in E. apply Nat.ltb_ge in E. lia. Qed.

Lemma trig_put_getpart s : getq (fst (trig_put s)) = getq s /\ allow_get (fst (trig_put s)) = allow_get s.
Proof. unfold allow_get. destruct (trig_put_fields s) as (_ & -> & -> & -> & _). auto. Qed.
Lemma trig_get_putpart s : putq (fst (trig_get s)) = putq s /\ allow_put (fst (trig_get s)) = allow_put s.
Proof.
  unfold allow_put. pose proof (trig_get_items_len s) as L.
  destruct (trig_get_fields s) as (-> & -> & -> & _). rewrite L. auto.
Qed.

Lemma ins_two r x q : exists a b c, ins r (x :: q) = a :: b :: c.
Proof.
  simpl. destruct (_ <? _)%Z; [eauto|]. destruct q; simpl; [eauto|]. destruct (_ <? _)%Z; eauto.
Qed.

Lemma trig_get_kind s : s_kind (fst (trig_get s)) = s_kind s.
Proof. apply trig_get_fields. Qed.
Lemma trig_put_kind s : s_kind (fst (trig_put s)) = s_kind s.
Proof. apply trig_put_fields. Qed.

Lemma trig_get1_nogrant s : allow_get s = false \/ getq s = [] -> trig_get1 s = (s, []).
Proof.
  unfold trig_get1. intros HC. destruct (getq s) as [|r q]; auto.
  destruct HC as [HC|HC]; [|discriminate]. rewrite HC. auto.
Qed.

Lemma trig_get_nogrant s : allow_get s = false \/ getq s = [] -> fst (trig_get s) = s.
Proof.
  intros HC. unfold trig_get. destruct (s_kind s); try (rewrite trig_get1_nogrant; auto).
  destruct (length (getq s)); simpl; auto. rewrite trig_get1_nogrant; auto.
Qed.

Theorem step_nolost s o :
  s_kind s <> KFilter -> CapInv s -> NoLost s -> NoLost (step_st s o).
Proof.
  intros NF HC (NP & NG). pose proof HC as (H1 & H2). unfold step_st. destruct o; simpl.
  - (* RPut *) trg. simpl. split.
    + apply trig_put_nolost. simpl. intros r1 r2 q EQ.
      destruct (putq s) as [|x q0] eqn:EP; [simpl in EQ; discriminate|].
      assert (length (putres s) + length (items s) = cap s) by (apply allow_put_false; auto; apply NP; congruence).
      lia.
    + match goal with |- context [trig_put ?z] => destruct (trig_put_getpart z) as (-> & ->) end. exact NG.
  - (* RGet *) trg. simpl. split.
    + match goal with |- context [trig_get ?z] => destruct (trig_get_putpart z) as (-> & ->) end. exact NP.
    + apply trig_get_nolost; auto. simpl. intros r1 r2 q EQ.
      destruct (getq s) as [|x q0] eqn:EP; [simpl in EQ; discriminate|].
      assert (length (getres s) = length (items s)) by (apply allow_get_false; auto; apply NG; congruence).
      lia.
  - (* Put *)
    destruct (existsb (owns p t) (putres s)) eqn:EO; simpl; [|split; auto].
    pose proof (remove_first_len_ex _ _ EO) as LP.
    destruct (Nat.ltb_spec (length (items s)) (cap s)); simpl; [|lia].
    trg. simpl.
    match goal with |- context [trig_get ?z] => set (s1 := z) end.
    assert (CapInv s1) as HC1.
    { subst s1. unfold CapInv; simpl. rewrite app_length; simpl. lia. }
    split.
    + destruct (trig_get_putpart s1) as (-> & ->). subst s1. unfold allow_put in *; simpl.
      rewrite app_length; simpl. intros HQ. specialize (NP HQ). apply Nat.ltb_ge in NP. apply Nat.ltb_ge. lia.
    + apply trig_get_nolost; auto. subst s1; simpl. intros r1 r2 q EQ.
      assert (length (getres s) = length (items s)) by (apply allow_get_false; auto; apply NG; congruence).
      rewrite app_length; simpl. lia.
  - (* Get *)
    destruct (existsb (owns p t) (getres s)) eqn:EO; simpl; [|split; auto].
    destruct (index_where (tokb t) (getres s)) as [i|] eqn:EI; simpl; [|split; auto].
    destruct (nth_error (items s) i) as [it|] eqn:EN; simpl; [|split; auto].
    pose proof (index_where_lt _ _ _ EI) as LI. pose proof (nth_error_lt _ _ _ EN) as LN.
    pose proof (remove_nth_len_lt i (items s) LN) as L1. pose proof (remove_nth_len_lt i (getres s) LI) as L2.
    trg. simpl. split.
    + apply trig_put_nolost. simpl. intros r1 r2 q EQ.
      assert (length (putres s) + length (items s) = cap s) by (apply allow_put_false; auto; apply NP; congruence).
      lia.
    + match goal with |- context [trig_put ?z] => destruct (trig_put_getpart z) as (-> & ->) end.
      simpl. intros HQ. specialize (NG HQ). unfold allow_get in *; simpl.
      apply Nat.ltb_ge in NG. apply Nat.ltb_ge. lia.
  - (* CPut *)
    destruct (existsb (tokb t) (putq s)) eqn:EQ.
    + trg. simpl. split.
      * apply trig_put_nolost. simpl. intros r1 r2 q EQ2.
        assert (putq s <> []) as NE by (intros Z; rewrite Z in EQ; discriminate).
        assert (length (putres s) + length (items s) = cap s) by (apply allow_put_false; auto). lia.
      * match goal with |- context [trig_put ?z] => destruct (trig_put_getpart z) as (-> & ->) end. exact NG.
    + destruct (existsb (tokb t) (putres s)) eqn:ER; simpl; [|split; auto].
      pose proof (remove_first_len_ex _ _ ER) as LP.
      trg. simpl. split.
      * apply trig_put_nolost. simpl. intros r1 r2 q EQ2.
        assert (length (putres s) + length (items s) = cap s) by (apply allow_put_false; auto; apply NP; congruence).
        lia.
      * match goal with |- context [trig_put ?z] => destruct (trig_put_getpart z) as (-> & ->) end. exact NG.
  - (* CGet *)
    destruct (existsb (tokb t) (getq s)) eqn:EQ.
    + trg. simpl. split.
      * match goal with |- context [trig_get ?z] => destruct (trig_get_putpart z) as (-> & ->) end. exact NP.
      * apply trig_get_nolost; auto. simpl. intros r1 r2 q EQ2.
        assert (getq s <> []) as NE by (intros Z; rewrite Z in EQ; discriminate).
        assert (length (getres s) = length (items s)) by (apply allow_get_false; auto). lia.
    + destruct (index_where (tokb t) (getres s)) as [i|] eqn:EI; simpl; [|split; auto].
      destruct (nth_error (items s) i) as [it|] eqn:EN; simpl; [|split; auto].
      pose proof (index_where_lt _ _ _ EI) as LI. pose proof (nth_error_lt _ _ _ EN) as LN.
      pose proof (remove_nth_len_lt i (items s) LN) as L1. pose proof (remove_nth_len_lt i (getres s) LI) as L2.
      trg. simpl.
      match goal with |- context [trig_get ?z] => set (s1 := z) end.
      assert (CapInv s1) as HC1.
      { subst s1. unfold CapInv; simpl. rewrite insert_at_len. lia. }
      split.
      * destruct (trig_get_putpart s1) as (-> & ->). subst s1. unfold allow_put in *; simpl.
        rewrite insert_at_len. intros HQ. specialize (NP HQ). apply Nat.ltb_ge in NP. apply Nat.ltb_ge. lia.
      * apply trig_get_nolost; auto. subst s1; simpl. intros r1 r2 q EQ2.
        assert (length (getres s) = length (items s)) by (apply allow_get_false; auto; apply NG; congruence).
        rewrite insert_at_len. lia.
  - (* Retrig *)
    trg. simpl. split.
    + destruct (trig_get_putpart s) as (-> & ->). exact NP.
    + rewrite trig_get_nogrant; auto. destruct (getq s); [right; auto|left; apply NG; congruence].
  - destruct (0 <=? d)%Z; simpl; split; auto.
  - destruct (next s <=? n); simpl; split; auto.
Qed.

Lemma step_kind s o : s_kind (step_st s o) = s_kind s.
Proof.
  unfold step_st. destruct o; simpl;
    repeat (match goal with
            | |- context [trig_put ?z] =>
                let E := fresh "E" in pose proof (trig_put_kind z) as E; destruct (trig_put z); simpl in *
            | |- context [trig_get ?z] =>
                let E := fresh "E" in pose proof (trig_get_kind z) as E; destruct (trig_get z); simpl in *
            | |- context [if ?b then _ else _] => destruct b; simpl in *
            | |- context [match ?x with _ => _ end] => destruct x eqn:?; simpl in *
            end); try congruence.
Qed.

Theorem nolost_reachable k c td ops :
  k <> KFilter -> NoLost (run (init k c td) ops).
Proof.
  intros NF.
  assert (forall s, s_kind s <> KFilter /\ CapInv s /\ NoLost s ->
                    s_kind (run s ops) <> KFilter /\ CapInv (run s ops) /\ NoLost (run s ops)) as G.
  { unfold run. induction ops as [|o ops IH]; simpl; intros s H; auto. apply IH.
    destruct H as (A & B & C). repeat split.
    - rewrite step_kind. exact A.
    - apply step_cap; auto.
    - apply step_cap; auto.
    - apply step_nolost; auto.
    - apply step_nolost; auto. }
  apply G. repeat split; simpl; auto; try lia; congruence.
Qed.

(* ------------------------------------------------------------------ C06 *)

(* [items] = reserved prefix (bound, in reservation order) ++ unreserved items in service order *)
Definition unres (s : store) : list item := skipn (length (getres s)) (items s).

(* a grant binds the first unreserved item that satisfies the request's filter (the first
   unreserved item when the store has no filters) and keeps the order of all other items *)
Theorem grant_discipline s s' t :
  trig_get1 s = (s', [t]) ->
  exists r q a x b, getq s = r :: q /\ r_tok r = t /\ unres s = a ++ x :: b /\
    fmatch (now s) (tdelay s) (eff_flt s r) x = true /\
    forallb (fun y => negb (fmatch (now s) (tdelay s) (eff_flt s r) y)) a = true /\
    items s' = firstn (length (getres s)) (items s) ++ x :: a ++ b /\
    getres s' = getres s ++ [r].
Proof.
  unfold trig_get1. destruct (getq s) as [|r q]; [intros [= <-]|].
  destruct (allow_get s); [|intros [= <-]].
  destruct (split_first _ _) as [[[a x] b]|] eqn:ES; [|intros [= <-]].
  intros [= <- <-]. apply split_first_spec in ES as (E1 & E2 & E3).
  exists r, q, a, x, b. simpl. repeat split; auto.
Qed.

Theorem filtered_get_matches s s' t :
  CapInv s -> trig_get1 s = (s', [t]) ->
  exists r x, In r (getq s) /\ r_tok r = t /\
    nth_error (items s') (length (getres s)) = Some x /\
    fmatch (now s) (tdelay s) (eff_flt s r) x = true.
Proof.
  intros (_ & HL) E. destruct (grant_discipline _ _ _ E) as (r & q & a & x & b & Q & T & U & M & _ & I & _).
  exists r, x. rewrite Q. repeat split; auto; [left; auto|]. rewrite I.
  rewrite nth_error_app2; rewrite firstn_length, Nat.min_l by lia; [|lia].
  rewrite Nat.sub_diag. reflexivity.
Qed.

Lemma remove_nth_app1 {A} (a b : list A) i : i < length a -> remove_nth i (a ++ b) = remove_nth i a ++ b.
Proof.
  revert i; induction a as [|y a IH]; simpl; intros i L; [lia|].
  destruct i; simpl; auto. f_equal. apply IH. lia.
Qed.

Lemma insert_at_app {A} (a b : list A) x : insert_at (length a) x (a ++ b) = a ++ x :: b.
Proof. induction a as [|y a IH]; simpl; auto. rewrite IH. reflexivity. Qed.

Lemma cancel_list {A} (l : list A) k i it :
  i < k -> k <= length l -> nth_error l i = Some it ->
  let l' := insert_at (k - 1) it (remove_nth i l) in
  firstn (k - 1) l' = remove_nth i (firstn k l) /\ skipn (k - 1) l' = it :: skipn k l.
Proof.
  intros Li Lk EN. pose proof (firstn_skipn k l) as E.
  assert (length (firstn k l) = k) as LF by (rewrite firstn_length; lia).
  set (pre := firstn k l) in *. set (suf := skipn k l) in *. clearbody pre suf. subst l.
  rewrite nth_error_app1 in EN by lia.
  rewrite remove_nth_app1 by lia.
  assert (length (remove_nth i pre) = k - 1) as LR.
  { pose proof (remove_nth_len_lt i pre). lia. }
  simpl. rewrite <- LR, insert_at_app. split.
  - rewrite firstn_app, Nat.sub_diag. simpl. rewrite app_nil_r, firstn_all. reflexivity.
  - rewrite skipn_app, Nat.sub_diag, skipn_all. reflexivity.
Qed.

(* cancelling the i-th granted retrieval: its item becomes the first unreserved one (ahead of
   every never-reserved item), the other bound items and the unreserved items keep their order *)
Theorem cancel_granted_reinserts s t i it :
  CapInv s -> existsb (tokb t) (getq s) = false -> getq s = [] ->
  index_where (tokb t) (getres s) = Some i -> nth_error (items s) i = Some it ->
  let s1 := step_st s (CGet t) in
  getres s1 = remove_nth i (getres s) /\
  firstn (length (getres s1)) (items s1) = remove_nth i (firstn (length (getres s)) (items s)) /\
  unres s1 = it :: unres s.
Proof.
  intros (_ & HL) EQ Q EI EN. unfold step_st. simpl. rewrite EQ, EI, EN.
  match goal with |- context [trig_get ?z] =>
    pose proof (trig_get_nogrant z (or_intror Q)) as NG; destruct (trig_get z) as [z2 ts2]; simpl in NG; subst z2 end.
  simpl.
  pose proof (index_where_lt _ _ _ EI) as LI.
  pose proof (remove_nth_len_lt i (getres s) LI) as L2.
  assert (length (remove_nth i (getres s)) = length (getres s) - 1) as LK by lia.
  destruct (cancel_list (items s) (length (getres s)) i it LI HL EN) as (C1 & C2).
  unfold unres. simpl. rewrite LK. auto.
Qed.

(* ------------------------------------------------------------------ C07 *)

Definition illformed (s : store) (o : op) : bool :=
  match o with
  | Put p t _ => negb (existsb (owns p t) (putres s))
  | Get p t => negb (existsb (owns p t) (getres s))
  | CPut t => negb (existsb (tokb t) (putq s)) && negb (existsb (tokb t) (putres s))
  | CGet t => negb (existsb (tokb t) (getq s)) && negb (existsb (tokb t) (getres s))
  | _ => false
  end.

Theorem rejected_is_noop s o : illformed s o = true -> step s o = (s, OErr ERuntime, []).
Proof.
  destruct o; simpl; try discriminate.
  - intros H. apply negb_true_iff in H. rewrite H. reflexivity.
  - intros H. apply negb_true_iff in H. rewrite H. reflexivity.
  - intros H. apply andb_prop in H as (A & B). apply negb_true_iff in A, B. rewrite A, B. reflexivity.
  - intros H. apply andb_prop in H as (A & B). apply negb_true_iff in A, B. rewrite A.
    rewrite (index_where_none _ _ B). reflexivity.
Qed.

Theorem wellformed_accepted s o :
  CapInv s -> illformed s o = false ->
  match snd (fst (step s o)) with OErr _ => match o with Tick _ => True | _ => False end | _ => True end.
Proof.
  intros HC W. destruct o; simpl in W.
  - simpl. trg. simpl. auto.
  - simpl. trg. simpl. auto.
  - apply negb_false_iff in W. destruct (granted_put_ok s p t i HC W) as (K & _). rewrite K. auto.
  - apply negb_false_iff in W. destruct (granted_get_ok s p t HC W) as (i & it & _ & _ & K). rewrite K. auto.
  - simpl. destruct (existsb (tokb t) (putq s)); simpl in *.
    + trg. simpl. auto.
    + apply negb_false_iff in W. rewrite W. trg. simpl. auto.
  - simpl. destruct (existsb (tokb t) (getq s)); simpl in *.
    + trg. simpl. auto.
    + apply negb_false_iff in W. destruct (index_where_some _ _ W) as [i EI]. rewrite EI.
      pose proof (index_where_lt _ _ _ EI) as L. destruct HC as (_ & HL).
      destruct (nth_error (items s) i) as [it|] eqn:EN.
      2:{ apply nth_error_None in EN. lia. }
      trg. simpl. auto.
  - simpl. trg. simpl. auto.
  - simpl. destruct (0 <=? d)%Z; simpl; auto.
  - simpl. destruct (next s <=? n); simpl; auto.
Qed.

(* ------------------------------------------------------------------ C04 for the filter store *)

(* "the request that is next in line cannot be served now": one attempt on the head grants nothing *)
Definition NoLostF (s : store) : Prop := snd (trig_get1 s) = [].

Lemma trig_get1_nil s : snd (trig_get1 s) = [] -> fst (trig_get1 s) = s.
Proof.
  unfold trig_get1. destruct (getq s); auto. destruct (allow_get s); auto.
  destruct (split_first _ _) as [[[a x] b]|]; simpl; auto. discriminate.
Qed.

Lemma trig_get1_pops s : snd (trig_get1 s) <> [] -> S (length (getq (fst (trig_get1 s)))) = length (getq s).
Proof.
  unfold trig_get1. destruct (getq s); simpl; [congruence|]. destruct (allow_get s); simpl; [|congruence].
  destruct (split_first _ _) as [[[a x] b]|]; simpl; auto. congruence.
Qed.

(* the trigger loop of the filter store stops only when the head cannot be served *)
Lemma trig_get_n_exhausts n : forall s, length (getq s) <= n -> NoLostF (fst (trig_get_n n s)).
Proof.
  unfold NoLostF. induction n as [|n IH]; simpl; intros s L.
  - destruct (getq s) eqn:E; [|simpl in L; lia]. unfold trig_get1. rewrite E. reflexivity.
  - pose proof (trig_get1_nil s) as N. pose proof (trig_get1_pops s) as P.
    destruct (trig_get1 s) as [s1 ts] eqn:E1. simpl in *. destruct ts as [|t ts].
    + simpl. specialize (N eq_refl). subst s1. rewrite E1. reflexivity.
    + specialize (IH s1). destruct (trig_get_n n s1) as [s2 ts2]. simpl in *. apply IH.
      assert (t :: ts <> []) as NE by congruence. specialize (P NE). lia.
Qed.

Lemma trig_get_filter_exhausts s : s_kind s = KFilter -> NoLostF (fst (trig_get s)).
Proof. intros K. unfold trig_get. rewrite K. apply trig_get_n_exhausts. lia. Qed.

(* an attempt on the head looks only at these fields *)
Lemma trig_get1_view s s' :
  getq s' = getq s -> getres s' = getres s -> items s' = items s -> now s' = now s ->
  tdelay s' = tdelay s -> s_kind s' = s_kind s -> snd (trig_get1 s') = snd (trig_get1 s).
Proof.
  intros A B C D E F. unfold trig_get1, allow_get, eff_flt. rewrite A, B, C, D, E, F.
  destruct (getq s); auto. destruct (_ <? _); auto. destruct (split_first _ _) as [[[a x] b]|]; auto.
Qed.

Lemma skipn_remove_nth {A} (l : list A) i k : i < k -> k <= length l -> skipn (k - 1) (remove_nth i l) = skipn k l.
Proof.
  revert i k. induction l as [|x l IH]; intros i k Li Lk; simpl in Lk; [lia|].
  destruct k as [|k]; [lia|]. replace (S k - 1) with k by lia.
  destruct i as [|i]; simpl; auto.
  destruct k as [|k]; [lia|]. simpl in Lk.
  assert (i < S k) as A1 by lia. assert (S k <= length l) as A2 by lia.
  specialize (IH i (S k) A1 A2). replace (S k - 1) with k in IH by lia. exact IH.
Qed.

Theorem step_nolostF s o :
  s_kind s = KFilter -> CapInv s -> NoLostF s -> (forall d, o <> Tick d) -> NoLostF (step_st s o).
Proof.
  intros K HC NL NT. pose proof HC as (H1 & H2). unfold step_st. destruct o; simpl.
  - (* RPut *) trg. simpl. unfold NoLostF in *.
    match goal with |- context [trig_put ?z] => destruct (trig_put_fields z) as (_ & F1 & F2 & F3 & F4 & F5 & F6 & F7) end.
    rewrite <- NL. apply trig_get1_view; simpl in *; auto.
  - (* RGet *) trg. simpl. apply trig_get_filter_exhausts. simpl. exact K.
  - (* Put *)
    destruct (existsb (owns p t) (putres s)); simpl; auto.
    destruct (length (items s) <? cap s); simpl.
    + trg. simpl. apply trig_get_filter_exhausts. simpl. exact K.
    + unfold NoLostF in *. rewrite <- NL. apply trig_get1_view; simpl; auto.
  - (* Get *)
    destruct (existsb (owns p t) (getres s)); simpl; auto.
    destruct (index_where (tokb t) (getres s)) as [i|] eqn:EI; simpl; auto.
    destruct (nth_error (items s) i) as [it|] eqn:EN; simpl; auto.
    pose proof (index_where_lt _ _ _ EI) as LI. pose proof (remove_nth_len_lt i (getres s) LI) as L2.
    pose proof (remove_nth_len_lt i (items s) (nth_error_lt _ _ _ EN)) as L1.
    trg. simpl. unfold NoLostF in *.
    match goal with |- context [trig_put ?z] => destruct (trig_put_fields z) as (_ & F1 & F2 & F3 & F4 & F5 & F6 & F7) end.
    simpl in *. rewrite <- NL. unfold trig_get1, allow_get, eff_flt. rewrite F1, F2, F3, F5, F6, F7. simpl.
    destruct (getq s) as [|r q]; auto.
    assert (length (remove_nth i (getres s)) = length (getres s) - 1) as -> by lia.
    rewrite (skipn_remove_nth (items s) i (length (getres s))) by lia.
    destruct (Nat.ltb_spec (length (getres s) - 1) (length (remove_nth i (items s))));
      destruct (Nat.ltb_spec (length (getres s)) (length (items s))); try lia; auto.
    destruct (split_first _ _) as [[[a x] b]|]; auto.
  - (* CPut *)
    destruct (existsb (tokb t) (putq s)).
    + trg. simpl. unfold NoLostF in *.
      match goal with |- context [trig_put ?z] => destruct (trig_put_fields z) as (_ & F1 & F2 & F3 & F4 & F5 & F6 & F7) end.
      rewrite <- NL. apply trig_get1_view; simpl in *; auto.
    + destruct (existsb (tokb t) (putres s)); simpl; auto.
      trg. simpl. unfold NoLostF in *.
      match goal with |- context [trig_put ?z] => destruct (trig_put_fields z) as (_ & F1 & F2 & F3 & F4 & F5 & F6 & F7) end.
      rewrite <- NL. apply trig_get1_view; simpl in *; auto.
  - (* CGet *)
    destruct (existsb (tokb t) (getq s)).
    + trg. simpl. apply trig_get_filter_exhausts. simpl. exact K.
    + destruct (index_where (tokb t) (getres s)) as [i|]; simpl; auto.
      destruct (nth_error (items s) i); simpl; auto.
      trg. simpl. apply trig_get_filter_exhausts. simpl. exact K.
  - (* Retrig *) trg. simpl. apply trig_get_filter_exhausts. exact K.
  - exfalso. eapply NT. reflexivity.
  - destruct (next s <=? n); simpl; auto. unfold NoLostF in *. rewrite <- NL. apply trig_get1_view; simpl; auto.
Qed.

Fixpoint no_tick (ops : list op) : Prop :=
  match ops with [] => True | Tick _ :: _ => False | _ :: r => no_tick r end.

Theorem nolostF_reachable c td ops :
  no_tick ops -> NoLostF (run (init KFilter c td) ops).
Proof.
  intros NT.
  assert (forall s, s_kind s = KFilter /\ CapInv s /\ NoLostF s ->
                    NoLostF (run s ops)) as G.
  { unfold run. induction ops as [|o ops IH]; simpl; intros s (A & B & C); auto. apply IH.
    - destruct o; simpl in NT; auto; tauto.
    - repeat split.
      + rewrite step_kind. exact A.
      + apply step_cap; auto.
      + apply step_cap; auto.
      + apply step_nolostF; auto. intros d ->. simpl in NT. exact NT. }
  apply G. repeat split; simpl; auto; lia.
Qed.

(* time passing can make the default age filter of a waiting request true; the store's own
   timer runs the trigger loop at that moment, which restores the invariant *)
Theorem retrig_restores s : s_kind s = KFilter -> NoLostF (step_st s Retrig).
Proof. intros K. unfold step_st. simpl. trg. simpl. apply trig_get_filter_exhausts. exact K. Qed.
