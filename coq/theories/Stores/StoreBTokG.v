(* Tokens of retrieval requests (waiting or granted) of the bound-item store: the mirror image of StoreBTok.v.
   Pairwise distinct and below the token counter -- an invariant every store operation keeps unconditionally;
   a cancellation the store accepts removes the token for good, and no operation other than the request that
   creates it ever brings a token (back) in.  Used by FactoryWithdraw.v for the retrieval side of C10. *)
From Coq Require Import List ZArith Lia Bool Arith Permutation.
From FV Require Import ListLemmas ListLemmas2.
From FV Require Import StoreB StoreBInv StoreBProps StoreBTok.
Import ListNotations.

Definition g2 (x : req * item) : tok := r_tok (fst x).
Definition gtl (s : store) : list tok := map r_tok (getq s) ++ map g2 (getres s).
Definition GT (s : store) (t : tok) : Prop := In t (gtl s).
Definition TokG (s : store) : Prop := NoDup (gtl s) /\ (forall t, GT s t -> t < next s).

Lemma trig_put_gtl s : gtl (fst (trig_put s)) = gtl s.
Proof. destruct (trig_put_fields s) as (_ & _ & _ & A & B & _). unfold gtl. rewrite A, B. reflexivity. Qed.
Lemma trig_get_gtl s s' ts : trig_get s = Some (s', ts) -> Permutation (gtl s') (gtl s).
Proof.
  unfold trig_get, gtl. destruct (getq s) as [|r q] eqn:EQ; [intros [= <- <-]; rewrite EQ; apply Permutation_refl|].
  destruct (allow_get s); [|intros [= <- <-]; rewrite EQ; apply Permutation_refl].
  destruct (pick s) as [it|]; [|discriminate]. intros [= <- <-]. simpl.
  rewrite map_app. simpl. rewrite app_assoc. rewrite <- Permutation_cons_append. apply Permutation_refl.
Qed.

Definition gissued (s : store) (o : op) : list tok := match o with RGet _ _ => [next s] | _ => [] end.

Lemma after_get_sub s0 r x l :
  sub (gtl s0) l -> (forall s2 ts, x = Some (s2, ts) -> sub (gtl s2) l) -> sub (gtl (fst (fst (after_get s0 r x)))) l.
Proof. intros A B. unfold after_get. destruct x as [[s2 ts]|]; simpl; [eapply B; reflexivity|exact A]. Qed.

Lemma remove_first2_sub f (l : list (req * item)) : sub (map g2 (remove_first f l)) (map g2 l).
Proof. apply remove_first_sub. Qed.

Lemma remove_nth_sub {A} (g : A -> tok) i l : sub (map g (remove_nth i l)) (map g l).
Proof.
  revert i; induction l as [|x l IH]; intros i; simpl; [destruct i; apply sub_refl|]. destruct i as [|i].
  - simpl. apply sub_cons.
  - simpl. destruct (IH i) as (r & R). exists r. simpl. constructor. exact R.
Qed.
Lemma sub_of_perm l l' : Permutation l l' -> sub l l'.
Proof. intros P. eapply sub_perm; [exact P|apply sub_refl]. Qed.
Lemma sub_of_eq (l l' : list tok) : l = l' -> sub l l'.
Proof. intros ->. apply sub_refl. Qed.

Lemma gt_sub s o : sub (gtl (step_st s o)) (gissued s o ++ gtl s).
Proof.
  unfold step_st. destruct o; cbn [step gissued app].
  - match goal with |- context [trig_put ?z] => pose proof (trig_put_gtl z) as P; destruct (trig_put z) as [s2 ts] end.
    cbn [fst snd] in *. rewrite P. apply sub_refl.
  - apply after_get_sub; [apply sub_cons|]. intros s2 ts E. apply trig_get_gtl in E. eapply sub_perm; [exact E|].
    unfold gtl. cbn. eapply sub_perm; [apply Permutation_app_tail; apply ins_toks|]. simpl. apply sub_refl.
  - destruct (existsb _ _); [|apply sub_refl]. destruct (_ <? _); [|apply sub_refl].
    destruct (s_kind s).
    all: try (apply after_get_sub; [apply sub_refl|]; intros s2 ts E; apply trig_get_gtl in E; eapply sub_perm; [exact E|]; apply sub_refl).
    destruct (trig_get _) as [[s3 ts1]|] eqn:E1; [|apply sub_refl]. apply trig_get_gtl in E1.
    destruct (trig_get s3) as [[s4 ts2]|] eqn:E2; [|apply sub_refl]. apply trig_get_gtl in E2.
    cbn [fst]. eapply sub_perm; [exact E2|]. eapply sub_perm; [exact E1|]. apply sub_refl.
  - destruct (existsb _ _); [|apply sub_refl]. destruct (index_where _ _) as [i|]; [|apply sub_refl].
    destruct (nth_error _ _) as [[? it]|]; [|apply sub_refl]. destruct (existsb _ _); [|apply sub_refl].
    match goal with |- context [trig_put ?z] => pose proof (trig_put_gtl z) as P; destruct (trig_put z) as [s2 ts] end.
    cbn [fst snd] in *. rewrite P. unfold gtl. cbn. apply sub_app_r. apply remove_nth_sub.
  - destruct (existsb (tokb t) (putq s)).
    + match goal with |- context [trig_put ?z] => pose proof (trig_put_gtl z) as P; destruct (trig_put z) as [s2 ts] end.
      cbn [fst snd] in *. rewrite P. apply sub_refl.
    + destruct (existsb (tokb t) (putres s)); [|apply sub_refl].
      match goal with |- context [trig_put ?z] => pose proof (trig_put_gtl z) as P; destruct (trig_put z) as [s2 ts] end.
      cbn [fst snd] in *. rewrite P. apply sub_refl.
  - destruct (existsb (tokb t) (getq s)).
    + apply after_get_sub; [apply sub_refl|]. intros s2 ts E. apply trig_get_gtl in E. eapply sub_perm; [exact E|].
      unfold gtl. cbn. apply sub_app_l. apply remove_first_sub.
    + destruct (index_where _ _) as [i|]; [|apply sub_refl]. destruct (nth_error _ _) as [[? it]|]; [|apply sub_refl].
      destruct (existsb _ _); [|apply sub_refl].
      apply after_get_sub; [apply sub_refl|]. intros s2 ts E. apply trig_get_gtl in E. eapply sub_perm; [exact E|].
      unfold gtl. cbn. apply sub_app_r. apply remove_nth_sub.
  - destruct (existsb _ _); [|apply sub_refl]. destruct (ready_guard _ _); [|apply sub_refl].
    destruct (trig_get _) as [[s2 ts1]|] eqn:E; [|apply sub_refl]. apply trig_get_gtl in E.
    pose proof (trig_put_gtl s2) as P. destruct (trig_put s2) as [s3 ts2]. cbn [fst snd] in *.
    rewrite P. eapply sub_perm; [exact E|]. apply sub_refl.
  - apply sub_refl.
  - pose proof (trig_put_gtl s) as P. destruct (trig_put s) as [s2 ts]. cbn [fst snd] in *. rewrite P. apply sub_refl.
  - destruct (_ <=? _); apply sub_refl.
Qed.

Lemma gt_origin s o t : GT (step_st s o) t -> GT s t \/ In t (gissued s o).
Proof. intros H. apply (sub_in _ _ _ (gt_sub s o)) in H. apply in_app_or in H. tauto. Qed.

Theorem tokg_step s o : TokG s -> TokG (step_st s o).
Proof.
  intros (ND & B). pose proof (gt_sub s o) as SB. split.
  - eapply sub_nodup; [exact SB|]. destruct o; simpl; auto. constructor; auto. intros K. apply B in K. lia.
  - intros t H. pose proof (step_next_ge s o) as G.
    destruct o; try (destruct (gt_origin _ _ _ H) as [K|[]]; apply B in K; lia).
    revert H G. unfold step_st. cbn [step]. unfold after_get.
    destruct (trig_get _) as [[s2 ts]|] eqn:E; cbn [fst].
    + intros H _. pose proof (trig_get_gtl _ _ _ E) as P. apply trig_get_fields in E. destruct E as (_ & _ & _ & _ & _ & E & _).
      rewrite E. cbn. apply (Permutation_in _ P) in H. unfold gtl in H. cbn in H.
      apply in_app_or in H. destruct H as [H|H].
      * apply (Permutation_in _ (ins_toks _ _)) in H. simpl in H. destruct H as [<-|H]; [lia|].
        assert (GT s t) as K by (unfold GT, gtl; apply in_or_app; auto). apply B in K. lia.
      * assert (GT s t) as K by (unfold GT, gtl; apply in_or_app; auto). apply B in K. lia.
    + intros H _. apply B. exact H.
Qed.
Lemma init_tokg k m c : TokG (init k m c).
Proof. split; [constructor|]. intros t H. inversion H. Qed.

Lemma existsb_tokb2_false t l : index_where (tokb2 t) l = None -> ~ In t (map g2 l).
Proof.
  intros H K. apply in_map_iff in K. destruct K as (x & <- & Hx).
  assert (existsb (tokb2 (g2 x)) l = true) as E by (apply existsb_exists; exists x; split; auto; unfold tokb2, tokb, g2; apply Nat.eqb_refl).
  revert H E. clear. induction l as [|y l IH]; simpl; [discriminate|].
  destruct (tokb2 (g2 x) y); [discriminate|]. simpl. destruct (index_where _ l); [discriminate|]. intros _. apply IH. reflexivity.
Qed.

(* a cancellation of a retrieval request that the store accepts removes its token *)
Theorem cget_absent s t s' ts : TokG s -> step s (CGet t) = (s', OOk, ts) -> ~ GT s' t.
Proof.
  intros (ND & _). cbn [step].
  assert (NoDup (map r_tok (getq s)) /\ NoDup (map g2 (getres s)) /\
          (forall x, In x (map r_tok (getq s)) -> ~ In x (map g2 (getres s)))) as (N1 & N2 & N3).
  { unfold gtl in ND. split; [eapply NoDup_app_l; eauto|]. split; [eapply NoDup_app_r; eauto|].
    intros x H1 H2. eapply NoDup_app_disj; eauto. }
  destruct (existsb (tokb t) (getq s)) eqn:E1.
  - unfold after_get. destruct (trig_get _) as [[s2 ts2]|] eqn:E; [|discriminate]. intros [= <- <-].
    apply trig_get_gtl in E. intros H. apply (Permutation_in _ E) in H. unfold gtl in H. cbn in H.
    apply in_app_or in H. destruct H as [H|H].
    + exact (remove_tok_absent t (getq s) N1 H).
    + apply existsb_exists in E1. destruct E1 as (x & Hx & Ex). unfold tokb in Ex. apply Nat.eqb_eq in Ex.
      eapply N3; [|exact H]. subst t. apply in_map. exact Hx.
  - destruct (index_where (tokb2 t) (getres s)) as [i|] eqn:EI; [|discriminate].
    destruct (nth_error (getres s) i) as [[r it]|] eqn:EN; [|discriminate].
    destruct (existsb (Nat.eqb it) (ready s)); [|discriminate].
    unfold after_get. destruct (trig_get _) as [[s2 ts2]|] eqn:E; [|discriminate]. intros [= <- <-].
    apply trig_get_gtl in E. intros H. apply (Permutation_in _ E) in H. unfold gtl in H. cbn in H.
    apply in_app_or in H. destruct H as [H|H].
    + exact (existsb_tokb_false t (getq s) E1 H).
    + rewrite map_remove_nth in H. revert H. apply remove_nth_not_in; [exact N2|].
      rewrite nth_error_map, EN. cbn. f_equal.
      pose proof (index_where_nth (tokb2 t) (getres s) i (r, it) EI) as K.
      rewrite (nth_error_nth _ _ _ EN) in K. unfold tokb2, tokb in K. cbn in K. apply Nat.eqb_eq in K. exact K.
Qed.

(* nothing but a retrieval request brings a token in: in particular a refused cancellation of an unknown token *)
Lemma gt_not_back s o t : (forall p pr, o <> RGet p pr) -> ~ GT s t -> ~ GT (step_st s o) t.
Proof.
  intros NR NG H. destruct (gt_origin s o t H) as [K|K]; [exact (NG K)|].
  destruct o; simpl in K; try contradiction. eapply NR; reflexivity.
Qed.
