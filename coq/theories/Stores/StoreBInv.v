(* Invariants of the bound-item store model (BufferStore / FleetStore / belt stores' API layer),
   proved for every operation and lifted to every history by induction over the op list. *)
From Coq Require Import List ZArith Lia Bool Arith Permutation.
From FV Require Import ListLemmas ListLemmas2 StoreB.
Import ListNotations.

Definition contents (s : store) : list item := transit s ++ ready s.

(* the main invariant: capacity (C01), distinct contents, injective binding into ready (C02) *)
Definition Inv (s : store) : Prop :=
  used s <= cap s /\ NoDup (contents s) /\ NoDup (reserved s) /\ incl (reserved s) (ready s).

Lemma inv_getres_le s : Inv s -> length (getres s) <= length (ready s).
Proof.
  intros (_ & _ & ND & IN). unfold reserved in *.
  rewrite <- (map_length snd (getres s)). apply NoDup_incl_length; auto.
Qed.

Lemma inv_ready_nodup s : Inv s -> NoDup (ready s).
Proof. intros (_ & ND & _). eapply NoDup_app_r; eauto. Qed.

(* ------------------------------------------------------------------ trig_put *)

Lemma trig_put_fields s :
  let s' := fst (trig_put s) in
  cap s' = cap s /\ transit s' = transit s /\ ready s' = ready s /\ getq s' = getq s /\
  getres s' = getres s /\ next s' = next s /\ s_kind s' = s_kind s /\ s_mode s' = s_mode s /\
  gate s' = gate s.
Proof.
  unfold trig_put. destruct (putq s); simpl; [repeat split|].
  destruct (allow_put s); simpl; repeat split.
Qed.

Lemma trig_put_inv s : Inv s -> Inv (fst (trig_put s)).
Proof.
  intros (H1 & H2 & H3 & H4). unfold trig_put. destruct (putq s) as [|r q]; simpl.
  { repeat split; auto. }
  unfold allow_put. destruct (Nat.ltb_spec (used s) (cap s)); simpl; [|repeat split; auto].
  destruct (match s_kind s with KBuffer => _ | _ => _ end); simpl; [|repeat split; auto].
  unfold Inv, used, contents, reserved in *; simpl. rewrite app_length; simpl.
  repeat split; auto. lia.
Qed.

(* ------------------------------------------------------------------ trig_get *)

Lemma pick_in s it : pick s = Some it -> In it (ready s) /\ ~ In it (reserved s).
Proof.
  unfold pick, unreserved. intros H.
  assert (In it (filter (fun it0 => negb (existsb (Nat.eqb it0) (reserved s))) (ready s))) as HI.
  { destruct (s_mode s); apply hd_error_In in H; auto. apply in_rev; auto. }
  apply filter_In in HI. destruct HI as (HI1 & HN). apply negb_true_iff, existsb_eqb_nIn in HN. auto.
Qed.

Lemma pick_some s : Inv s -> length (getres s) < length (ready s) -> exists it, pick s = Some it.
Proof.
  intros HI L. pose proof (inv_ready_nodup _ HI) as ND.
  destruct (NoDup_incl_lt_ex (ready s) (reserved s) ND) as (x & Hx & Nx).
  { unfold reserved. rewrite map_length. exact L. }
  assert (In x (unreserved s)) as HU.
  { unfold unreserved. apply filter_In. split; auto. apply negb_true_iff, existsb_eqb_nIn; auto. }
  unfold pick. destruct (s_mode s).
  - eapply In_hd_error_some; exact HU.
  - apply in_rev in HU. eapply In_hd_error_some; exact HU.
Qed.

Lemma trig_get_inv s : Inv s -> exists s' ts, trig_get s = Some (s', ts) /\ Inv s'.
Proof.
  intros HI. pose proof HI as (H1 & H2 & H3 & H4). unfold trig_get.
  destruct (getq s) as [|r q]; [eauto|].
  unfold allow_get. destruct (Nat.ltb_spec (length (getres s)) (length (ready s))); [|eauto].
  destruct (pick_some s HI H) as [it E]. rewrite E.
  apply pick_in in E as (Ei & En).
  eexists _, _. split; [reflexivity|].
  unfold Inv, used, contents, reserved in *; simpl. rewrite map_app; simpl.
  repeat split; auto.
  - apply NoDup_snoc; auto.
  - apply incl_app; auto. intros x [<-|[]]; auto.
Qed.

Lemma trig_get_fields s s' ts :
  trig_get s = Some (s', ts) ->
  cap s' = cap s /\ transit s' = transit s /\ ready s' = ready s /\ putq s' = putq s /\
  putres s' = putres s /\ next s' = next s /\ s_kind s' = s_kind s /\ s_mode s' = s_mode s /\
  gate s' = gate s.
Proof.
  unfold trig_get. destruct (getq s); [intros [= <- <-]; repeat split|].
  destruct (allow_get s); [|intros [= <- <-]; repeat split].
  destruct (pick s); [|discriminate]. intros [= <- <-]. simpl. repeat split.
Qed.

(* ------------------------------------------------------------------ one step *)

(* the side condition on the caller: an object is put only while it is not inside the store *)
Definition fresh_op (s : store) (o : op) : Prop :=
  match o with Put _ _ i => ~ In i (contents s) | _ => True end.

Ltac tp :=
  match goal with
  | |- context [trig_put ?s1] =>
      let E := fresh "E" in let s2 := fresh "s2" in let ts := fresh "ts" in
      destruct (trig_put s1) as [s2 ts] eqn:E;
      apply (f_equal fst) in E; simpl fst in E; subst s2
  end.

Ltac tg H :=
  match goal with
  | |- context [trig_get ?s1] =>
      let s2 := fresh "s2" in let ts := fresh "ts" in let E := fresh "E" in let I := fresh "I" in
      destruct (trig_get_inv s1 H) as (s2 & ts & E & I); rewrite E
  end.

Lemma inv_set_putq s q : Inv s -> Inv (set_putq s q).
Proof. unfold Inv, used, contents, reserved; simpl; auto. Qed.
Lemma inv_set_getq s q : Inv s -> Inv (set_getq s q).
Proof. unfold Inv, used, contents, reserved; simpl; auto. Qed.
Lemma inv_set_next s n : Inv s -> Inv (set_next s n).
Proof. unfold Inv, used, contents, reserved; simpl; auto. Qed.
Lemma inv_set_gate s b : Inv s -> Inv (set_gate s b).
Proof. unfold Inv, used, contents, reserved; simpl; auto. Qed.

Lemma inv_drop_putres s f :
  Inv s -> Inv (set_putres s (remove_first f (putres s))).
Proof.
  intros (H1 & H2 & H3 & H4). unfold Inv, used, contents, reserved in *; simpl.
  pose proof (remove_first_len f (putres s)). repeat split; auto. lia.
Qed.

Lemma step_inv s o : Inv s -> fresh_op s o -> Inv (step_st s o).
Proof.
  intros HI HF. pose proof HI as (H1 & H2 & H3 & H4). unfold step_st.
  destruct o; simpl.
  - (* RPut *) tp. simpl. apply trig_put_inv, inv_set_next, inv_set_putq, HI.
  - (* RGet *)
    assert (Inv (set_next (set_getq s (ins {| r_tok := next s; r_pid := p; r_prio := eff_prio s pr |} (getq s))) (S (next s)))) as HX
      by (apply inv_set_next, inv_set_getq, HI).
    tg HX. simpl. exact I.
  - (* Put *)
    destruct (existsb (owns p t) (putres s)) eqn:E; simpl; auto.
    pose proof (remove_first_len_ex _ _ E) as L.
    destruct (Nat.ltb_spec (length (transit s) + length (ready s)) (cap s)); simpl.
    + assert (Inv (set_transit (set_putres s (remove_first (owns p t) (putres s))) (transit s ++ [i]))) as HX.
      { unfold Inv, used, contents, reserved in *; simpl in *. rewrite app_length; simpl.
        repeat split; auto; [lia|]. rewrite <- app_assoc. simpl.
        apply NoDup_app_intro.
        - eapply NoDup_app_l; eauto.
        - constructor; [|eapply NoDup_app_r; eauto]. intros Hi. apply HF, in_or_app; auto.
        - intros x Ha [<-|Hb]; [apply HF, in_or_app; auto|]. eapply NoDup_app_disj; eauto. }
      destruct (s_kind s).
      * tg HX. simpl. exact I.
      * tg HX. tg I. simpl. exact I0.
      * tg HX. simpl. exact I.
      * tg HX. simpl. exact I.
    + apply inv_drop_putres. exact HI.
  - (* Get *)
    destruct (existsb (owns2 p t) (getres s)) eqn:E; simpl; auto.
    destruct (index_where (tokb2 t) (getres s)) as [i|] eqn:EI; simpl; auto.
    destruct (nth_error (getres s) i) as [[r it]|] eqn:EN; simpl; auto.
    destruct (existsb (Nat.eqb it) (ready s)) eqn:ER; simpl; auto.
    tp. simpl. apply trig_put_inv.
    assert (nth_error (reserved s) i = Some it) as EN'.
    { unfold reserved. rewrite nth_error_map, EN. reflexivity. }
    apply existsb_eqb_In in ER.
    pose proof (remove_first_len_ex (Nat.eqb it) (ready s) (proj2 (existsb_eqb_In _ _) ER)) as LR.
    unfold Inv, used, contents, reserved in *; simpl. rewrite map_remove_nth.
    repeat split.
    + lia.
    + apply NoDup_app_intro.
      * eapply NoDup_app_l; eauto.
      * apply NoDup_remove_first. eapply NoDup_app_r; eauto.
      * intros x Ha Hb. apply remove_first_incl in Hb. eapply NoDup_app_disj; eauto.
    + apply NoDup_remove_nth; auto.
    + intros x Hx. pose proof (remove_nth_not_in _ _ _ H3 EN') as NI.
      apply in_remove_first_neq.
      * apply H4. eapply remove_nth_incl; eauto.
      * intros ->. tauto.
  - (* CPut *)
    destruct (existsb (tokb t) (putq s)).
    + tp. simpl. apply trig_put_inv, inv_set_putq, HI.
    + destruct (existsb (tokb t) (putres s)) eqn:E; simpl; auto.
      tp. simpl. apply trig_put_inv, inv_drop_putres, HI.
  - (* CGet *)
    destruct (existsb (tokb t) (getq s)).
    + assert (Inv (set_getq s (remove_first (tokb t) (getq s)))) as HX by (apply inv_set_getq, HI).
      tg HX. simpl. exact I.
    + destruct (index_where (tokb2 t) (getres s)) as [i|] eqn:EI; simpl; auto.
      destruct (nth_error (getres s) i) as [[r it]|] eqn:EN; simpl; auto.
      destruct (existsb (Nat.eqb it) (ready s)) eqn:ER; simpl; auto.
      assert (Inv (set_getres s (remove_nth i (getres s)))) as HX.
      { unfold Inv, used, contents, reserved in *; simpl. rewrite map_remove_nth.
        repeat split; auto.
        - apply NoDup_remove_nth; auto.
        - intros x Hx. apply H4. eapply remove_nth_incl; eauto. }
      tg HX. simpl. exact I.
  - (* Ready *)
    destruct (existsb (Nat.eqb i) (transit s)) eqn:E; simpl; auto.
    pose proof (remove_first_len_ex _ _ E) as L.
    assert (Inv (set_ready (set_transit s (remove_first (Nat.eqb i) (transit s))) (ready s ++ [i]))) as HX.
    { apply existsb_eqb_In in E.
      unfold Inv, used, contents, reserved in *; simpl. rewrite app_length; simpl.
      repeat split; auto; [lia| |].
      - rewrite app_assoc. apply NoDup_snoc.
        + apply NoDup_app_intro.
          * apply NoDup_remove_first. eapply NoDup_app_l; eauto.
          * eapply NoDup_app_r; eauto.
          * intros x Ha Hb. apply remove_first_incl in Ha. eapply NoDup_app_disj; eauto.
        + intros Hi. apply in_app_or in Hi as [Hi|Hi].
          * revert Hi. apply remove_first_eqb_not_in. eapply NoDup_app_l; eauto.
          * eapply NoDup_app_disj; eauto.
      - intros x Hx. apply in_or_app. left. auto. }
    destruct (ready_guard s (remove_first (Nat.eqb i) (transit s))); simpl.
    + tg HX. tp. simpl. apply trig_put_inv. exact I.
    + destruct HX as (X1 & X2 & X3 & X4).
      unfold Inv, used, contents, reserved in *; simpl in *. rewrite app_length in X1; simpl in X1.
      repeat split; auto; [lia|].
      rewrite app_assoc in X2. apply NoDup_app_l in X2. exact X2.
  - (* SetGate *) apply inv_set_gate, HI.
  - (* TrigPut *) tp. simpl. apply trig_put_inv, HI.
  - (* Sync *) destruct (next s <=? n); simpl; auto; apply inv_set_next, HI.
Qed.

Lemma init_inv k m c : Inv (init k m c).
Proof. unfold Inv, used, contents, reserved; simpl. repeat split; try constructor. lia. intros x []. Qed.

(* ------------------------------------------------------------------ every history *)

(* callers put pairwise distinct objects: the list of ids of all Put ops has no duplicates *)
Fixpoint put_ids (ops : list op) : list item :=
  match ops with
  | [] => []
  | Put _ _ i :: r => i :: put_ids r
  | _ :: r => put_ids r
  end.

Lemma step_contents_incl s o x :
  In x (contents (step_st s o)) -> In x (contents s) \/ (exists p t, o = Put p t x).
Proof.
  unfold step_st, contents. destruct o; simpl.
  - tp. simpl. destruct (trig_put_fields (set_next (set_putq s (ins {| r_tok := next s; r_pid := p; r_prio := eff_prio s pr |} (putq s))) (S (next s)))) as (_ & -> & -> & _). simpl. auto.
  - destruct (trig_get _) as [[s2 ts]|] eqn:E; simpl; auto.
    destruct (trig_get_fields _ _ _ E) as (_ & -> & -> & _). simpl. auto.
  - destruct (existsb (owns p t) (putres s)); simpl; auto.
    destruct (length (transit s) + length (ready s) <? cap s); simpl; auto.
    assert (In x ((transit s ++ [i]) ++ ready s) -> In x (transit s ++ ready s) \/ (exists p0 t0, Put p t i = Put p0 t0 x)) as K.
    { intros H. apply in_app_or in H as [H|H]; [apply in_app_or in H as [H|[<-|[]]]|].
      - left; apply in_or_app; auto.
      - right; eauto.
      - left; apply in_or_app; auto. }
    destruct (s_kind s).
    + destruct (trig_get _) as [[s2 ts]|] eqn:E; simpl; auto.
      destruct (trig_get_fields _ _ _ E) as (_ & -> & -> & _). simpl. auto.
    + destruct (trig_get _) as [[s2 ts]|] eqn:E; simpl; auto.
      destruct (trig_get s2) as [[s3 ts3]|] eqn:E3; simpl; auto.
      destruct (trig_get_fields _ _ _ E3) as (_ & -> & -> & _).
      destruct (trig_get_fields _ _ _ E) as (_ & -> & -> & _). simpl. auto.
    + destruct (trig_get _) as [[s2 ts]|] eqn:E; simpl; auto.
      destruct (trig_get_fields _ _ _ E) as (_ & -> & -> & _). simpl. auto.
    + destruct (trig_get _) as [[s2 ts]|] eqn:E; simpl; auto.
      destruct (trig_get_fields _ _ _ E) as (_ & -> & -> & _). simpl. auto.
  - destruct (existsb (owns2 p t) (getres s)); simpl; auto.
    destruct (index_where (tokb2 t) (getres s)) as [i|]; simpl; auto.
    destruct (nth_error (getres s) i) as [[r it]|]; simpl; auto.
    destruct (existsb (Nat.eqb it) (ready s)); simpl; auto.
    tp. simpl.
    match goal with |- context [trig_put ?z] => destruct (trig_put_fields z) as (_ & -> & -> & _) end.
    simpl. intros H. left. apply in_app_or in H as [H|H]; apply in_or_app; auto.
    right. eapply remove_first_incl; eauto.
  - destruct (existsb (tokb t) (putq s)).
    + tp. simpl. match goal with |- context [trig_put ?z] => destruct (trig_put_fields z) as (_ & -> & -> & _) end. simpl; auto.
    + destruct (existsb (tokb t) (putres s)); simpl; auto.
      tp. simpl. match goal with |- context [trig_put ?z] => destruct (trig_put_fields z) as (_ & -> & -> & _) end. simpl; auto.
  - destruct (existsb (tokb t) (getq s)).
    + destruct (trig_get _) as [[s2 ts]|] eqn:E; simpl; auto.
      destruct (trig_get_fields _ _ _ E) as (_ & -> & -> & _). simpl. auto.
    + destruct (index_where (tokb2 t) (getres s)) as [i|]; simpl; auto.
      destruct (nth_error (getres s) i) as [[r it]|]; simpl; auto.
      destruct (existsb (Nat.eqb it) (ready s)); simpl; auto.
      destruct (trig_get _) as [[s2 ts]|] eqn:E; simpl; auto.
      destruct (trig_get_fields _ _ _ E) as (_ & -> & -> & _). simpl. auto.
  - destruct (existsb (Nat.eqb i) (transit s)) eqn:EX; simpl; auto.
    assert (In x (remove_first (Nat.eqb i) (transit s) ++ ready s ++ [i]) -> In x (transit s ++ ready s)) as K.
    { intros H. apply in_or_app. apply in_app_or in H as [H|H].
      - left. eapply remove_first_incl; eauto.
      - apply in_app_or in H as [H|[<-|[]]]; auto. left. apply existsb_eqb_In; auto. }
    destruct (ready_guard _ _); simpl.
    + destruct (trig_get _) as [[s2 ts]|] eqn:E; simpl; auto.
      tp. simpl. match goal with |- context [trig_put ?z] => destruct (trig_put_fields z) as (_ & -> & -> & _) end.
      destruct (trig_get_fields _ _ _ E) as (_ & -> & -> & _). simpl. auto.
    + intros H. left. apply in_app_or in H as [H|H]; apply in_or_app; auto.
      left. eapply remove_first_incl; eauto.
  - auto.
  - tp. simpl. destruct (trig_put_fields s) as (_ & -> & -> & _). auto.
  - destruct (next s <=? n); simpl; auto.
Qed.

Lemma run_inv_gen ops : forall s seen,
  Inv s -> incl (contents s) seen -> NoDup (seen ++ put_ids ops) -> Inv (run s ops).
Proof.
  induction ops as [|o ops IH]; intros s seen HI HS ND; simpl; auto.
  unfold run in *. simpl.
  assert (fresh_op s o) as HF.
  { destruct o; simpl; auto. intros Hi. simpl in ND.
    eapply NoDup_app_disj; [exact ND| apply HS; exact Hi | left; reflexivity]. }
  pose proof (step_inv s o HI HF) as HI'.
  destruct o; simpl in ND;
    try (apply (IH _ seen);
         [ exact HI'
         | intros x Hx; destruct (step_contents_incl _ _ _ Hx) as [?|(? & ? & ?)]; [auto|discriminate]
         | exact ND ]).
  apply (IH _ (seen ++ [i])).
  - exact HI'.
  - intros x Hx. destruct (step_contents_incl _ _ _ Hx) as [?|(? & ? & E)].
    + apply in_or_app; auto.
    + inversion E; subst. apply in_or_app; right; left; auto.
  - rewrite <- app_assoc. simpl. exact ND.
Qed.

Theorem inv_reachable k m c ops : NoDup (put_ids ops) -> Inv (run (init k m c) ops).
Proof.
  intros ND. apply (run_inv_gen ops _ []); auto.
  - apply init_inv.
  - intros x [].
Qed.

(* ------------------------------------------------------------------ C01 consequences *)

Theorem granted_put_ok s p t i :
  Inv s -> ~ In i (contents s) -> existsb (owns p t) (putres s) = true ->
  snd (fst (step s (Put p t i))) = OOk /\ In i (transit (step_st s (Put p t i))) /\
  Inv (step_st s (Put p t i)).
Proof.
  intros HI HF E. pose proof (step_inv s (Put p t i) HI HF) as HS. revert HS.
  pose proof HI as (H1 & _). unfold step_st. simpl. rewrite E.
  pose proof (remove_first_len_ex _ _ E) as L. unfold used in H1.
  destruct (Nat.ltb_spec (length (transit s) + length (ready s)) (cap s)); [|lia].
  assert (Inv (set_transit (set_putres s (remove_first (owns p t) (putres s))) (transit s ++ [i]))) as HX.
  { pose proof (step_inv s (Put p t i) HI HF) as K. unfold step_st in K. simpl in K. rewrite E in K.
    destruct (Nat.ltb_spec (length (transit s) + length (ready s)) (cap s)); [|lia].
    (* re-derive the intermediate invariant directly *)
    destruct HI as (I1 & I2 & I3 & I4).
    unfold Inv, used, contents, reserved in *; simpl in *. rewrite app_length; simpl.
    repeat split; auto; [lia|]. rewrite <- app_assoc. simpl.
    apply NoDup_app_intro.
    - eapply NoDup_app_l; eauto.
    - constructor; [|eapply NoDup_app_r; eauto]. intros Hi. apply HF, in_or_app; auto.
    - intros x Ha [<-|Hb]; [apply HF, in_or_app; auto|]. eapply NoDup_app_disj; eauto. }
  destruct (s_kind s).
  - destruct (trig_get_inv _ HX) as (s2 & ts & E2 & I2). rewrite E2. simpl. intros HS.
    split; auto. split; auto. destruct (trig_get_fields _ _ _ E2) as (_ & -> & _). simpl.
    apply in_or_app; right; left; auto.
  - destruct (trig_get_inv _ HX) as (s2 & ts & E2 & I2). rewrite E2.
    destruct (trig_get_inv _ I2) as (s3 & ts3 & E3 & I3). rewrite E3. simpl. intros HS.
    split; auto. split; auto.
    destruct (trig_get_fields _ _ _ E3) as (_ & -> & _).
    destruct (trig_get_fields _ _ _ E2) as (_ & -> & _). simpl.
    apply in_or_app; right; left; auto.
  - destruct (trig_get_inv _ HX) as (s2 & ts & E2 & I2). rewrite E2. simpl. intros HS.
    split; auto. split; auto. destruct (trig_get_fields _ _ _ E2) as (_ & -> & _). simpl.
    apply in_or_app; right; left; auto.
  - destruct (trig_get_inv _ HX) as (s2 & ts & E2 & I2). rewrite E2. simpl. intros HS.
    split; auto. split; auto. destruct (trig_get_fields _ _ _ E2) as (_ & -> & _). simpl.
    apply in_or_app; right; left; auto.
Qed.

(* ------------------------------------------------------------------ C02: binding and retrieval *)

Lemma owns2_tokb2 p t l : existsb (owns2 p t) l = true -> existsb (tokb2 t) l = true.
Proof.
  intros E. apply existsb_exists in E as (x & Hx & Ho). apply existsb_exists. exists x. split; auto.
  unfold owns2, owns, tokb2, tokb in *. apply andb_prop in Ho. apply Ho.
Qed.

(* a get made with a granted, un-cancelled reservation of one's own returns the bound item *)
Theorem granted_get_ok s p t :
  Inv s -> existsb (owns2 p t) (getres s) = true ->
  exists i r it, index_where (tokb2 t) (getres s) = Some i /\ nth_error (getres s) i = Some (r, it) /\
                 In it (ready s) /\ snd (fst (step s (Get p t))) = OItem it /\
                 ~ In it (contents (step_st s (Get p t))).
Proof.
  intros HI E. pose proof HI as (H1 & H2 & H3 & H4). unfold step_st. simpl. rewrite E.
  destruct (index_where_some _ _ (owns2_tokb2 _ _ _ E)) as [i EI]. rewrite EI.
  pose proof (index_where_lt _ _ _ EI) as L.
  destruct (nth_error (getres s) i) as [[r it]|] eqn:EN.
  2:{ apply nth_error_None in EN. lia. }
  assert (In it (ready s)) as Hin.
  { apply H4. unfold reserved. apply in_map_iff. exists (r, it). split; auto. eapply nth_error_In; eauto. }
  rewrite (proj2 (existsb_eqb_In _ _) Hin).
  exists i, r, it. repeat split; auto.
  - tp. reflexivity.
  - tp. simpl.
    match goal with |- context [trig_put ?z] => destruct (trig_put_fields z) as (_ & T & R & _) end.
    unfold contents. rewrite T, R. simpl. intros Hi. apply in_app_or in Hi as [Hi|Hi].
    + eapply NoDup_app_disj; eauto.
    + revert Hi. apply remove_first_eqb_not_in. eapply NoDup_app_r; eauto.
Qed.

(* bindings are never rewritten: a (reservation, item) pair stays until that very token is
   used or cancelled, whatever happens to the other reservations *)
Definition consumes (o : op) (x : req * item) : bool :=
  match o with
  | Get _ t => tokb2 t x
  | CGet t => tokb2 t x
  | _ => false
  end.

Lemma trig_get_getres s s' ts x : trig_get s = Some (s', ts) -> In x (getres s) -> In x (getres s').
Proof.
  unfold trig_get. destruct (getq s); [intros [= <- <-]; auto|].
  destruct (allow_get s); [|intros [= <- <-]; auto].
  destruct (pick s); [|discriminate]. intros [= <- <-] H. simpl. apply in_or_app; auto.
Qed.

Lemma in_remove_nth_other {A} (f : A -> bool) l i x :
  index_where f l = Some i -> In x l -> f x = false -> In x (remove_nth i l).
Proof.
  revert i; induction l as [|y l IH]; simpl; intros i; [discriminate|].
  destruct (f y) eqn:E.
  - intros [= <-] [->|H] Fx; [congruence|auto].
  - destruct (index_where f l) as [n|]; simpl; [|discriminate]. intros [= <-] [->|H] Fx; simpl; auto.
Qed.

Theorem binding_stable s o x :
  Inv s -> fresh_op s o -> In x (getres s) -> consumes o x = false -> In x (getres (step_st s o)).
Proof.
  intros HI HF Hx HC. unfold step_st. destruct o; simpl in *.
  - tp. simpl. match goal with |- context [trig_put ?z] => destruct (trig_put_fields z) as (_ & _ & _ & _ & -> & _) end. auto.
  - match goal with |- context [trig_get ?z] => assert (Inv z) as HX by (apply inv_set_next, inv_set_getq, HI) end.
    tg HX. simpl. eapply trig_get_getres; eauto.
  - destruct (existsb (owns p t) (putres s)) eqn:E; simpl; auto.
    destruct (granted_put_ok s p t i HI HF E) as (_ & _ & _).
    destruct (Nat.ltb_spec (length (transit s) + length (ready s)) (cap s)); simpl; auto.
    destruct (s_kind s).
    + destruct (trig_get _) as [[s2 ts]|] eqn:E2; simpl; auto. eapply trig_get_getres; eauto.
    + destruct (trig_get _) as [[s2 ts]|] eqn:E2; simpl; auto.
      destruct (trig_get s2) as [[s3 ts3]|] eqn:E3; simpl; auto.
      eapply trig_get_getres; eauto. eapply trig_get_getres; eauto.
    + destruct (trig_get _) as [[s2 ts]|] eqn:E2; simpl; auto. eapply trig_get_getres; eauto.
    + destruct (trig_get _) as [[s2 ts]|] eqn:E2; simpl; auto. eapply trig_get_getres; eauto.
  - destruct (existsb (owns2 p t) (getres s)); simpl; auto.
    destruct (index_where (tokb2 t) (getres s)) as [i|] eqn:EI; simpl; auto.
    destruct (nth_error (getres s) i) as [[r it]|]; simpl; auto.
    destruct (existsb (Nat.eqb it) (ready s)); simpl; auto.
    tp. simpl. match goal with |- context [trig_put ?z] => destruct (trig_put_fields z) as (_ & _ & _ & _ & -> & _) end.
    simpl. eapply in_remove_nth_other; eauto.
  - destruct (existsb (tokb t) (putq s)).
    + tp. simpl. match goal with |- context [trig_put ?z] => destruct (trig_put_fields z) as (_ & _ & _ & _ & -> & _) end. auto.
    + destruct (existsb (tokb t) (putres s)); simpl; auto.
      tp. simpl. match goal with |- context [trig_put ?z] => destruct (trig_put_fields z) as (_ & _ & _ & _ & -> & _) end. auto.
  - destruct (existsb (tokb t) (getq s)).
    + destruct (trig_get _) as [[s2 ts]|] eqn:E2; simpl; auto. eapply trig_get_getres; eauto.
    + destruct (index_where (tokb2 t) (getres s)) as [i|] eqn:EI; simpl; auto.
      destruct (nth_error (getres s) i) as [[r it]|]; simpl; auto.
      destruct (existsb (Nat.eqb it) (ready s)); simpl; auto.
      destruct (trig_get _) as [[s2 ts]|] eqn:E2; simpl; auto.
      eapply trig_get_getres; eauto. simpl. eapply in_remove_nth_other; eauto.
  - destruct (existsb (Nat.eqb i) (transit s)); simpl; auto.
    destruct (ready_guard _ _); simpl; auto.
    destruct (trig_get _) as [[s2 ts]|] eqn:E2; simpl; auto.
    tp. simpl. match goal with |- context [trig_put ?z] => destruct (trig_put_fields z) as (_ & _ & _ & _ & -> & _) end.
    eapply trig_get_getres; eauto.
  - auto.
  - tp. simpl. destruct (trig_put_fields s) as (_ & _ & _ & _ & -> & _). auto.
  - destruct (next s <=? n); simpl; auto.
Qed.
