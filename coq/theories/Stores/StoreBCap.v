(* C01: one operation of the bound-item store keeps  granted space reservations + items in transit + ready
   items <= capacity  in EVERY state and for EVERY argument (no side condition on the items put, unlike
   the full invariant StoreBInv.Inv).  This is what lifts to every edge of every factory. *)
From Coq Require Import List ZArith Lia Bool Arith.
From FV Require Import ListLemmas ListLemmas2 StoreB StoreBInv.
Import ListNotations.

Definition CapOK (s : store) : Prop := used s <= cap s.

Lemma used_eq s s' : cap s' = cap s -> length (putres s') = length (putres s) -> length (transit s') = length (transit s) ->
  length (ready s') = length (ready s) -> CapOK s -> CapOK s'.
Proof. unfold CapOK, used. intros -> -> -> ->. auto. Qed.

Lemma trig_put_cap s : CapOK s -> CapOK (fst (trig_put s)).
Proof.
  unfold trig_put, CapOK. intros H. destruct (putq s) as [|r q]; simpl; auto.
  destruct (allow_put s) eqn:A; simpl; auto. unfold allow_put in A. apply andb_true_iff in A. destruct A as (A & _).
  apply Nat.ltb_lt in A. unfold used in *. simpl. rewrite app_length. simpl. lia.
Qed.

Lemma trig_get_cap s s' ts : trig_get s = Some (s', ts) -> CapOK s -> CapOK s'.
Proof.
  intros E H. destruct (trig_get_fields _ _ _ E) as (A & B & C & _ & D & _).
  unfold CapOK, used in *. rewrite A, B, C, D. exact H.
Qed.

Lemma after_get_cap s0 r x s' r' ts : CapOK s0 -> (forall s2 ts2, x = Some (s2, ts2) -> CapOK s2) ->
  after_get s0 r x = (s', r', ts) -> CapOK s'.
Proof. unfold after_get. intros H0 K. destruct x as [[s2 ts2]|]; intros [= <- _ _]; auto. eapply K; eauto. Qed.

Lemma remove_first_len_le {A} (f : A -> bool) l : length (remove_first f l) <= length l.
Proof. apply remove_first_len. Qed.

Theorem cap_step s o : CapOK s -> CapOK (step_st s o).
Proof.
  intros H. unfold step_st. destruct o; simpl.
  - destruct (trig_put _) as [s2 ts2] eqn:E. simpl. apply (f_equal fst) in E. simpl in E. subst s2.
    apply trig_put_cap. unfold CapOK, used in *. simpl. exact H.
  - match goal with |- CapOK (fst (fst (after_get ?a ?b ?c))) => destruct (after_get a b c) as [[s' r'] ts'] eqn:E end. simpl.
    eapply after_get_cap; [exact H| |exact E]. intros s2 ts2 E2. eapply trig_get_cap; [exact E2|]. unfold CapOK, used in *; simpl; exact H.
  - destruct (existsb (owns p t) (putres s)) eqn:EX; [|simpl; exact H].
    pose proof (remove_first_len_ex (owns p t) (putres s) EX) as L.
    destruct (_ <? _) eqn:RM; [|simpl; unfold CapOK, used in *; simpl; lia].
    assert (CapOK (set_transit (set_putres s (remove_first (owns p t) (putres s))) (transit s ++ [i]))) as H2.
    { unfold CapOK, used in *. simpl. rewrite app_length. simpl. lia. }
    destruct (s_kind s).
    all: try (match goal with |- CapOK (fst (fst (after_get ?a ?b ?c))) => destruct (after_get a b c) as [[s' r'] ts'] eqn:E end; simpl;
              eapply after_get_cap; [exact H| |exact E]; intros s2 ts2 E2; eapply trig_get_cap; [exact E2|exact H2]).
    destruct (trig_get _) as [[s3 ts1]|] eqn:E1; [|simpl; exact H].
    destruct (trig_get s3) as [[s4 ts2]|] eqn:E2; [|simpl; exact H]. simpl.
    eapply trig_get_cap; [exact E2|]. eapply trig_get_cap; [exact E1|exact H2].
  - destruct (existsb _ (getres s)); [|simpl; exact H].
    destruct (index_where _ _); [|simpl; exact H].
    destruct (nth_error _ _) as [[? it]|]; [|simpl; exact H].
    destruct (existsb (Nat.eqb it) (ready s)) eqn:EX; [|simpl; exact H].
    destruct (trig_put _) as [s2 ts2] eqn:E. simpl. apply (f_equal fst) in E. simpl in E. subst s2.
    apply trig_put_cap. unfold CapOK, used in *. simpl.
    pose proof (remove_first_len (Nat.eqb it) (ready s)). lia.
  - destruct (existsb _ (putq s)).
    + destruct (trig_put _) as [s2 ts2] eqn:E. simpl. apply (f_equal fst) in E. simpl in E. subst s2.
      apply trig_put_cap. unfold CapOK, used in *. simpl. exact H.
    + destruct (existsb _ (putres s)); [|simpl; exact H].
      destruct (trig_put _) as [s2 ts2] eqn:E. simpl. apply (f_equal fst) in E. simpl in E. subst s2.
      apply trig_put_cap. unfold CapOK, used in *. simpl. pose proof (remove_first_len (tokb t) (putres s)). lia.
  - destruct (existsb _ (getq s)).
    + match goal with |- CapOK (fst (fst (after_get ?a ?b ?c))) => destruct (after_get a b c) as [[s' r'] ts'] eqn:E end. simpl.
      eapply after_get_cap; [exact H| |exact E]. intros s2 ts2 E2. eapply trig_get_cap; [exact E2|]. unfold CapOK, used in *; simpl; exact H.
    + destruct (index_where _ _); [|simpl; exact H].
      destruct (nth_error _ _) as [[? it]|]; [|simpl; exact H].
      destruct (existsb _ _); [|simpl; exact H].
      match goal with |- CapOK (fst (fst (after_get ?a ?b ?c))) => destruct (after_get a b c) as [[s' r'] ts'] eqn:E end. simpl.
      eapply after_get_cap; [exact H| |exact E]. intros s2 ts2 E2. eapply trig_get_cap; [exact E2|]. unfold CapOK, used in *; simpl; exact H.
  - destruct (existsb (Nat.eqb i) (transit s)) eqn:EX; [|simpl; exact H].
    pose proof (remove_first_len_ex (Nat.eqb i) (transit s) EX) as L.
    destruct (ready_guard _ _); [|simpl; unfold CapOK, used in *; simpl; lia].
    destruct (trig_get _) as [[s2 ts1]|] eqn:E1; [|simpl; exact H].
    destruct (trig_put s2) as [s3 ts2] eqn:E3. simpl. apply (f_equal fst) in E3. simpl in E3. subst s3.
    apply trig_put_cap. eapply trig_get_cap; [exact E1|]. unfold CapOK, used in *. simpl. rewrite app_length. simpl. lia.
  - unfold CapOK, used in *. simpl. exact H.
  - destruct (trig_put s) as [s2 ts2] eqn:E. simpl. apply (f_equal fst) in E. simpl in E. subst s2. apply trig_put_cap, H.
  - destruct (_ <=? _); simpl; unfold CapOK, used in *; simpl; exact H.
Qed.

Lemma init_cap k m c : CapOK (init k m c).
Proof. unfold CapOK, used, init. simpl. lia. Qed.
