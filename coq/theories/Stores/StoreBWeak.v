(* C04 / C10 without side conditions.  The full invariant of the bound-item store (StoreBInv.Inv) needs the
   callers to put pairwise distinct objects.  Two of its consequences do not:
     W s      :  granted space reservations + items <= capacity,  and  granted retrievals <= ready items
     NoLost s :  no request is waiting while the store could serve the one next in line
   Both are kept by EVERY store operation in EVERY state (buffer and fleet stores), so they hold on every
   edge of every factory (lifted in theories/Factory/FactoryQueue.v). *)
From Coq Require Import List ZArith Lia Bool Arith.
From FV Require Import ListLemmas ListLemmas2 StoreB StoreBInv StoreBProps StoreBCap.
Import ListNotations.

Definition W (s : store) : Prop := CapOK s /\ length (getres s) <= length (ready s).

Lemma trig_put_w s : W s -> W (fst (trig_put s)).
Proof.
  intros (A & B). split; [apply trig_put_cap, A|]. destruct (trig_put_fields s) as (_ & _ & -> & _ & -> & _). exact B.
Qed.
Lemma trig_get_w s s' ts : trig_get s = Some (s', ts) -> W s -> W s'.
Proof.
  intros E (A & B). split; [eapply trig_get_cap; eauto|]. revert E. unfold trig_get.
  destruct (getq s) as [|r q]; [intros [= <- _]; exact B|].
  destruct (allow_get s) eqn:EA; [|intros [= <- _]; exact B].
  destruct (pick s); [|discriminate]. intros [= <- _]. simpl. rewrite app_length. simpl.
  unfold allow_get in EA. apply Nat.ltb_lt in EA. lia.
Qed.
Lemma after_get_w s0 r x s' r' ts : W s0 -> (forall s2 ts2, x = Some (s2, ts2) -> W s2) -> after_get s0 r x = (s', r', ts) -> W s'.
Proof. unfold after_get. intros H0 K. destruct x as [[s2 ts2]|]; intros [= <- _ _]; auto. eapply K; eauto. Qed.

Theorem w_step s o : W s -> W (step_st s o).
Proof.
  intros H. pose proof H as (HC & HG). split; [apply cap_step, HC|].
  unfold step_st. destruct o; simpl.
  - destruct (trig_put _) as [s2 ts2] eqn:E. simpl. apply (f_equal fst) in E. simpl in E. subst s2.
    match goal with |- context [trig_put ?z] => destruct (trig_put_fields z) as (_ & _ & -> & _ & -> & _) end. exact HG.
  - match goal with |- context [after_get ?a ?b ?c] => destruct (after_get a b c) as [[s' r'] ts'] eqn:E end. simpl.
    assert (W s') as (_ & K); [|exact K]. eapply after_get_w; [exact H| |exact E]. intros s2 ts2 E2.
    eapply trig_get_w; [exact E2|]. split; [unfold CapOK, used in *; exact HC|exact HG].
  - destruct (existsb (owns p t) (putres s)) eqn:EX; [|simpl; exact HG].
    destruct (_ <? _) eqn:RM; [|simpl; exact HG].
    assert (W (set_transit (set_putres s (remove_first (owns p t) (putres s))) (transit s ++ [i]))) as H2.
    { split; [|exact HG]. pose proof (remove_first_len_ex (owns p t) (putres s) EX). unfold CapOK, used in *. simpl. rewrite app_length. simpl. lia. }
    destruct (s_kind s).
    all: try (match goal with |- context [after_get ?a ?b ?c] => destruct (after_get a b c) as [[s' r'] ts'] eqn:E end; simpl;
              assert (W s') as (_ & K); [|exact K]; eapply after_get_w; [exact H| |exact E]; intros s2 ts2 E2; eapply trig_get_w; [exact E2|exact H2]).
    destruct (trig_get _) as [[s3 ts1]|] eqn:E1; [|simpl; exact HG].
    destruct (trig_get s3) as [[s4 ts2]|] eqn:E2; [|simpl; exact HG]. simpl.
    assert (W s4) as (_ & K); [|exact K]. eapply trig_get_w; [exact E2|]. eapply trig_get_w; [exact E1|exact H2].
  - destruct (existsb _ (getres s)); [|simpl; exact HG].
    destruct (index_where _ _) as [ix|] eqn:EI; [|simpl; exact HG].
    destruct (nth_error _ _) as [[? it]|] eqn:EN; [|simpl; exact HG].
    destruct (existsb (Nat.eqb it) (ready s)) eqn:EX; [|simpl; exact HG].
    destruct (trig_put _) as [s2 ts2] eqn:E. simpl. apply (f_equal fst) in E. simpl in E. subst s2.
    match goal with |- context [trig_put ?z] => destruct (trig_put_fields z) as (_ & _ & -> & _ & -> & _) end. simpl.
    pose proof (remove_first_len_ex _ _ EX). pose proof (remove_nth_len_lt ix (getres s) (nth_error_lt' _ _ _ EN)). lia.
  - destruct (existsb _ (putq s)).
    + destruct (trig_put _) as [s2 ts2] eqn:E. simpl. apply (f_equal fst) in E. simpl in E. subst s2.
      match goal with |- context [trig_put ?z] => destruct (trig_put_fields z) as (_ & _ & -> & _ & -> & _) end. exact HG.
    + destruct (existsb _ (putres s)); [|simpl; exact HG].
      destruct (trig_put _) as [s2 ts2] eqn:E. simpl. apply (f_equal fst) in E. simpl in E. subst s2.
      match goal with |- context [trig_put ?z] => destruct (trig_put_fields z) as (_ & _ & -> & _ & -> & _) end. exact HG.
  - destruct (existsb _ (getq s)).
    + match goal with |- context [after_get ?a ?b ?c] => destruct (after_get a b c) as [[s' r'] ts'] eqn:E end. simpl.
      assert (W s') as (_ & K); [|exact K]. eapply after_get_w; [exact H| |exact E]. intros s2 ts2 E2.
      eapply trig_get_w; [exact E2|]. split; [unfold CapOK, used in *; exact HC|exact HG].
    + destruct (index_where _ _) as [ix|] eqn:EI; [|simpl; exact HG].
      destruct (nth_error _ _) as [[? it]|] eqn:EN; [|simpl; exact HG].
      destruct (existsb _ _); [|simpl; exact HG].
      match goal with |- context [after_get ?a ?b ?c] => destruct (after_get a b c) as [[s' r'] ts'] eqn:E end. simpl.
      assert (W s') as (_ & K); [|exact K]. eapply after_get_w; [exact H| |exact E]. intros s2 ts2 E2.
      eapply trig_get_w; [exact E2|]. split; [unfold CapOK, used in *; exact HC|]. simpl.
      pose proof (remove_nth_len_lt ix (getres s) (nth_error_lt' _ _ _ EN)). lia.
  - destruct (existsb (Nat.eqb i) (transit s)) eqn:EX; [|simpl; exact HG].
    destruct (ready_guard _ _); [|simpl; exact HG].
    destruct (trig_get _) as [[s2 ts1]|] eqn:E1; [|simpl; exact HG].
    destruct (trig_put s2) as [s3 ts2] eqn:E3. simpl. apply (f_equal fst) in E3. simpl in E3. subst s3.
    destruct (trig_put_fields s2) as (_ & _ & -> & _ & -> & _).
    assert (W s2) as (_ & K); [|exact K]. eapply trig_get_w; [exact E1|]. split.
    + pose proof (remove_first_len_ex _ _ EX). unfold CapOK, used in *. simpl. rewrite app_length. simpl. lia.
    + simpl. rewrite app_length. simpl. lia.
  - simpl. exact HG.
  - destruct (trig_put s) as [s2 ts2] eqn:E. simpl. apply (f_equal fst) in E. simpl in E. subst s2.
    destruct (trig_put_fields s) as (_ & _ & -> & _ & -> & _). exact HG.
  - destruct (_ <=? _); simpl; exact HG.
Qed.

Lemma init_w k m c : W (init k m c).
Proof. split; [apply init_cap|simpl; lia]. Qed.

Lemma allow_put_false_w s : is_belt (s_kind s) = false -> W s -> allow_put s = false -> used s = cap s.
Proof.
  intros NB (H1 & _) E. rewrite allow_put_nobelt in E by auto. apply Nat.ltb_ge in E. unfold CapOK in H1. lia.
Qed.
Lemma allow_get_false_w s : W s -> allow_get s = false -> length (getres s) = length (ready s).
Proof. intros (_ & HL) E. unfold allow_get in E. apply Nat.ltb_ge in E. lia. Qed.

Lemma ready_guard_w s i : W s -> existsb (Nat.eqb i) (transit s) = true -> ready_guard s (remove_first (Nat.eqb i) (transit s)) = true.
Proof.
  intros (H1 & _) Hi. pose proof (remove_first_len_ex _ _ Hi) as L. unfold ready_guard, CapOK, used in *.
  destruct (s_kind s); apply Nat.ltb_lt; lia.
Qed.

Theorem step_nolost_w s o :
  is_belt (s_kind s) = false -> W s -> NoLost s -> NoLost (step_st s o).
Proof.
  intros NB HI (NP & NG). pose proof HI as (H1 & HL). unfold CapOK in H1.
  unfold step_st. destruct o; simpl.
  - (* RPut *) tp. simpl. split.
    + apply trig_put_nolost; [exact NB|]. simpl. intros r1 r2 q EQ.
      destruct (putq s) as [|x q0] eqn:EP; [simpl in EQ; discriminate|].
      assert (used s = cap s) by (apply allow_put_false_w; auto; apply NP; congruence).
      unfold used in *; simpl. lia.
    + match goal with |- context [trig_put ?z] => destruct (trig_put_getpart z) as (-> & ->) end. exact NG.
  - (* RGet *)
    unfold after_get. destruct (trig_get _) as [[s2 ts]|] eqn:E; simpl; [|split; auto]. split.
    + destruct (trig_get_putpart _ _ _ E) as (-> & ->). exact NP.
    + eapply trig_get_nolost; [exact E|]. simpl. intros r1 r2 q EQ.
      destruct (getq s) as [|x q0] eqn:EP; [simpl in EQ; discriminate|].
      assert (length (getres s) = length (ready s)) by (apply allow_get_false_w; auto; apply NG; congruence).
      lia.
  - (* Put *)
    destruct (existsb (owns p t) (putres s)) eqn:EO; simpl; [|split; auto].
    pose proof (remove_first_len_ex _ _ EO) as LP.
    destruct (Nat.ltb_spec (length (transit s) + length (ready s)) (cap s)); simpl.
    2:{ exfalso. unfold used in H1. lia. }
    remember (set_transit (set_putres s (remove_first (owns p t) (putres s))) (transit s ++ [i])) as s1 eqn:ES1.
    assert (allow_put s1 = allow_put s /\ putq s1 = putq s /\ allow_get s1 = allow_get s /\ getq s1 = getq s /\ s_kind s1 = s_kind s) as (A1 & A2 & A3 & A4 & A5).
    { subst s1. rewrite !allow_put_nobelt by (simpl; auto). unfold used, allow_get; simpl.
      rewrite app_length; simpl. repeat split; auto. f_equal. lia. }
    assert (allow_get s1 = false \/ getq s1 = []) as HC.
    { rewrite A3, A4. destruct (getq s); [right; auto|left; apply NG; congruence]. }
    assert (NoLost s1) as NL1.
    { split; [rewrite A1, A2; exact NP | rewrite A3, A4; exact NG]. }
    destruct (s_kind s) eqn:EK; simpl in NB; try discriminate.
    + unfold after_get. destruct (trig_get s1) as [[s2 ts]|] eqn:E2; simpl; [|split; auto].
      rewrite (trig_get_nogrant _ _ _ E2 HC). exact NL1.
    + destruct (trig_get s1) as [[s2 ts]|] eqn:E2; simpl; [|split; auto].
      pose proof (trig_get_nogrant _ _ _ E2 HC) as ->.
      destruct (trig_get s1) as [[s3 ts3]|] eqn:E3; simpl; [|split; auto].
      rewrite (trig_get_nogrant _ _ _ E3 HC). exact NL1.
  - (* Get *)
    destruct (existsb (owns2 p t) (getres s)) eqn:EO; simpl; [|split; auto].
    destruct (index_where (tokb2 t) (getres s)) as [i|] eqn:EI; simpl; [|split; auto].
    destruct (nth_error (getres s) i) as [[r it]|] eqn:EN; simpl; [|split; auto].
    destruct (existsb (Nat.eqb it) (ready s)) eqn:ER; simpl; [|split; auto].
    pose proof (remove_first_len_ex _ _ ER) as LR.
    pose proof (remove_nth_len_lt i (getres s) (nth_error_lt' _ _ _ EN)) as LG.
    tp. simpl. split.
    + apply trig_put_nolost; [exact NB|]. simpl. intros r1 r2 q EQ.
      assert (used s = cap s) by (apply allow_put_false_w; auto; apply NP; congruence).
      unfold used in *; simpl. lia.
    + match goal with |- context [trig_put ?z] => destruct (trig_put_getpart z) as (-> & ->) end.
      simpl. intros HQ. specialize (NG HQ). unfold allow_get in *; simpl.
      apply Nat.ltb_ge in NG. apply Nat.ltb_ge. lia.
  - (* CPut *)
    destruct (existsb (tokb t) (putq s)) eqn:EQ.
    + tp. simpl. split.
      * apply trig_put_nolost; [exact NB|]. simpl. intros r1 r2 q EQ2.
        assert (putq s <> []) as NE by (intros Z; rewrite Z in EQ; discriminate).
        assert (used s = cap s) by (apply allow_put_false_w; auto).
        unfold used in *; simpl. lia.
      * match goal with |- context [trig_put ?z] => destruct (trig_put_getpart z) as (-> & ->) end. exact NG.
    + destruct (existsb (tokb t) (putres s)) eqn:ER; simpl; [|split; auto].
      pose proof (remove_first_len_ex _ _ ER) as LP.
      tp. simpl. split.
      * apply trig_put_nolost; [exact NB|]. simpl. intros r1 r2 q EQ2.
        assert (used s = cap s) by (apply allow_put_false_w; auto; apply NP; congruence).
        unfold used in *; simpl. lia.
      * match goal with |- context [trig_put ?z] => destruct (trig_put_getpart z) as (-> & ->) end. exact NG.
  - (* CGet *)
    destruct (existsb (tokb t) (getq s)) eqn:EQ.
    + unfold after_get. destruct (trig_get _) as [[s2 ts]|] eqn:E; simpl; [|split; auto]. split.
      * destruct (trig_get_putpart _ _ _ E) as (-> & ->). exact NP.
      * eapply trig_get_nolost; [exact E|]. simpl. intros r1 r2 q EQ2.
        assert (getq s <> []) as NE by (intros Z; rewrite Z in EQ; discriminate).
        assert (length (getres s) = length (ready s)) by (apply allow_get_false_w; auto). lia.
    + destruct (index_where (tokb2 t) (getres s)) as [i|] eqn:EI; simpl; [|split; auto].
      destruct (nth_error (getres s) i) as [[r it]|] eqn:EN; simpl; [|split; auto].
      destruct (existsb (Nat.eqb it) (ready s)) eqn:ER; simpl; [|split; auto].
      pose proof (remove_nth_len_lt i (getres s) (nth_error_lt' _ _ _ EN)) as LG.
      unfold after_get. destruct (trig_get _) as [[s2 ts]|] eqn:E; simpl; [|split; auto]. split.
      * destruct (trig_get_putpart _ _ _ E) as (-> & ->). exact NP.
      * eapply trig_get_nolost; [exact E|]. simpl. intros r1 r2 q EQ2.
        assert (length (getres s) = length (ready s)) by (apply allow_get_false_w; auto; apply NG; congruence). lia.
  - (* Ready *)
    destruct (existsb (Nat.eqb i) (transit s)) eqn:EX; simpl; [|split; auto].
    pose proof (remove_first_len_ex _ _ EX) as LT.
    rewrite (ready_guard_w s i HI EX).
    destruct (trig_get _) as [[s2 ts]|] eqn:E2; simpl in *.
    2:{ split; auto. }
    tp. simpl. split.
    + destruct (trig_get_putpart _ _ _ E2) as (P1 & P2).
      destruct (trig_get_fields _ _ _ E2) as (F1 & F2 & F3 & F4 & F5 & _ & F7 & _).
      apply trig_put_nolost; [rewrite F7; exact NB|]. rewrite P1. simpl. intros r1 r2 q EQ.
      assert (used s = cap s) by (apply allow_put_false_w; auto; apply NP; congruence).
      unfold used in *. rewrite F1, F2, F3, F5. simpl. rewrite app_length. simpl. lia.
    + match goal with |- context [trig_put ?z] => destruct (trig_put_getpart z) as (-> & ->) end.
      eapply trig_get_nolost; [exact E2|]. simpl. intros r1 r2 q EQ.
      assert (length (getres s) = length (ready s)) by (apply allow_get_false_w; auto; apply NG; congruence).
      rewrite app_length; simpl. lia.
  - (* SetGate *) split; simpl; auto. rewrite allow_put_nobelt in * by (simpl; auto). exact NP.
  - (* TrigPut *) tp. simpl. split.
    + apply trig_put_nolost; [exact NB|]. intros r1 r2 q EQ.
      assert (used s = cap s) by (apply allow_put_false_w; auto; apply NP; congruence). lia.
    + destruct (trig_put_getpart s) as (-> & ->). exact NG.
  - (* Sync *) destruct (next s <=? n); simpl; split; auto;
      rewrite allow_put_nobelt in * by (simpl; auto); exact NP.
Qed.


(* both together, one step *)
Definition WN (s : store) : Prop := is_belt (s_kind s) = false /\ W s /\ NoLost s.
Theorem wn_step s o : WN s -> WN (step_st s o).
Proof.
  intros (NB & HW & NL). split; [rewrite step_kind; exact NB|]. split; [apply w_step, HW|apply step_nolost_w; auto].
Qed.
Lemma init_wn k m c : is_belt k = false -> WN (init k m c).
Proof. intros NB. split; [exact NB|]. split; [apply init_w|apply init_nolost]. Qed.
