(* L1 model of the four "bound-item" reservable stores of factorysimpy/base:
     BufferStore, FleetStore, BeltStore (continuous), BeltStore (slotted).
   Items enter [transit] (the Python list `items`) on put and are moved to [ready]
   (`ready_items`) by an internal event (buffer timer expiry, fleet arrival, end of belt travel).
   A granted retrieval reservation is bound to one ready item: the Python lists
   reservations_get / reserved_events / reserved_items always hold corresponding entries in the
   same order (the correspondence harness checks this on the implementation), so the model keeps
   one list of pairs.

   The belt stores' spacing test in _do_reserve_put depends on travel times; at this layer it is
   the boolean [gate], set from outside by the [SetGate] op (it only ever *restricts* admission).

   Model only: no proofs in this file, so that it still runs when a proof breaks. *)
From Coq Require Import List ZArith Bool Arith.
From FV Require Import ListLemmas.
Import ListNotations.

Notation tok := nat (only parsing).
Notation pid := nat (only parsing).
Notation item := nat (only parsing).

Inductive kind := KBuffer | KFleet | KBelt | KSlot.
Inductive mode := FIFO | LIFO.
Definition is_belt (k : kind) : bool := match k with KBelt | KSlot => true | _ => false end.

Record req := { r_tok : tok; r_pid : pid; r_prio : Z }.

Record store := {
  s_kind : kind; s_mode : mode; cap : nat; next : tok; gate : bool;
  transit : list item;                      (* items (buffer: tuples (item, delay)) *)
  ready : list item;                        (* ready_items *)
  putq : list req; putres : list req;       (* reserve_put_queue / reservations_put *)
  getq : list req;                          (* reserve_get_queue *)
  getres : list (req * item)                (* reservations_get = reserved_events, zipped with reserved_items *)
}.

Inductive op :=
| RPut (p : pid) (pr : Z)
| RGet (p : pid) (pr : Z)
| Put (p : pid) (t : tok) (i : item)
| Get (p : pid) (t : tok)
| CPut (t : tok)
| CGet (t : tok)
| Ready (i : item)        (* internal: the item's timer / trip / belt travel ends *)
| SetGate (b : bool)      (* internal (belts): the spacing condition changes *)
| TrigPut                 (* internal (belts): the timer callback _trigger_reserve_put *)
| Sync (n : tok).         (* align the token counter with the kernel's event counter *)

Inductive err := ERuntime | EIndex | EValue.
Inductive out := OTok (t : tok) | OOk | OItem (it : item) | OErr (e : err).

Fixpoint ins (r : req) (q : list req) : list req :=
  match q with
  | [] => [r]
  | x :: q' => if (r_prio r <? r_prio x)%Z then r :: q else x :: ins r q'
  end.

Definition set_transit s x :=
  {| s_kind := s_kind s; s_mode := s_mode s; cap := cap s; next := next s; gate := gate s;
     transit := x; ready := ready s; putq := putq s; putres := putres s; getq := getq s; getres := getres s |}.
Definition set_ready s x :=
  {| s_kind := s_kind s; s_mode := s_mode s; cap := cap s; next := next s; gate := gate s;
     transit := transit s; ready := x; putq := putq s; putres := putres s; getq := getq s; getres := getres s |}.
Definition set_putq s x :=
  {| s_kind := s_kind s; s_mode := s_mode s; cap := cap s; next := next s; gate := gate s;
     transit := transit s; ready := ready s; putq := x; putres := putres s; getq := getq s; getres := getres s |}.
Definition set_putres s x :=
  {| s_kind := s_kind s; s_mode := s_mode s; cap := cap s; next := next s; gate := gate s;
     transit := transit s; ready := ready s; putq := putq s; putres := x; getq := getq s; getres := getres s |}.
Definition set_getq s x :=
  {| s_kind := s_kind s; s_mode := s_mode s; cap := cap s; next := next s; gate := gate s;
     transit := transit s; ready := ready s; putq := putq s; putres := putres s; getq := x; getres := getres s |}.
Definition set_getres s x :=
  {| s_kind := s_kind s; s_mode := s_mode s; cap := cap s; next := next s; gate := gate s;
     transit := transit s; ready := ready s; putq := putq s; putres := putres s; getq := getq s; getres := x |}.
Definition set_next s x :=
  {| s_kind := s_kind s; s_mode := s_mode s; cap := cap s; next := x; gate := gate s;
     transit := transit s; ready := ready s; putq := putq s; putres := putres s; getq := getq s; getres := getres s |}.
Definition set_gate s x :=
  {| s_kind := s_kind s; s_mode := s_mode s; cap := cap s; next := next s; gate := x;
     transit := transit s; ready := ready s; putq := putq s; putres := putres s; getq := getq s; getres := getres s |}.

(* admission test of _do_reserve_put.  Belt stores: one item enters at a time (no grant while a
   granted space reservation is unused), and the time- and mode-dependent tests (spacing against
   the last item on a moving belt; "nothing is allowed while the head of a non-accumulating belt
   waits") are the boolean [gate], set from outside. *)
Definition used (s : store) : nat := length (putres s) + length (transit s) + length (ready s).
Definition allow_put (s : store) : bool :=
  (used s <? cap s) &&
  match s_kind s with
  | KBelt | KSlot => (length (putres s) =? 0) && gate s
  | _ => true
  end.
Definition allow_get (s : store) : bool := length (getres s) <? length (ready s).

Definition trig_put (s : store) : store * list tok :=
  match putq s with
  | [] => (s, [])
  | r :: q => if allow_put s
              then (set_putres (set_putq s q) (putres s ++ [r]), [r_tok r])
              else (s, [])
  end.

Definition reserved (s : store) : list item := map snd (getres s).
Definition unreserved (s : store) : list item :=
  filter (fun it => negb (existsb (Nat.eqb it) (reserved s))) (ready s).
Definition pick (s : store) : option item :=
  match s_mode s with
  | FIFO => hd_error (unreserved s)
  | LIFO => hd_error (rev (unreserved s))
  end.

(* _trigger_reserve_get / _do_reserve_get: only the head of the queue is tried.  [None] stands for
   the IndexError of `unreserved[0]` (all ready items already bound), which leaves the Python
   store half-updated; the theorems show it unreachable when callers put distinct objects. *)
Definition trig_get (s : store) : option (store * list tok) :=
  match getq s with
  | [] => Some (s, [])
  | r :: q =>
      if allow_get s then
        match pick s with
        | Some it => Some (set_getres (set_getq s q) (getres s ++ [(r, it)]), [r_tok r])
        | None => None
        end
      else Some (s, [])
  end.

Definition tokb (t : tok) (r : req) : bool := Nat.eqb (r_tok r) t.
Definition owns (p : pid) (t : tok) (r : req) : bool := Nat.eqb (r_tok r) t && Nat.eqb (r_pid r) p.
Definition tokb2 (t : tok) (x : req * item) : bool := tokb t (fst x).
Definition owns2 (p : pid) (t : tok) (x : req * item) : bool := owns p t (fst x).

Definition eff_prio (s : store) (pr : Z) : Z := match s_kind s with KFleet | KSlot => pr | _ => 0%Z end.

(* result of a step: new store, result, tokens triggered.  A crash inside a trigger loop
   (see trig_get) is reported as OErr EIndex with the pre-state kept. *)
Definition after_get (s0 : store) (r : out) (x : option (store * list tok)) : store * out * list tok :=
  match x with Some (s2, ts) => (s2, r, ts) | None => (s0, OErr EIndex, []) end.

Definition ready_guard (s : store) (transit' : list item) : bool :=
  match s_kind s with
  | KFleet => length (ready s) <? cap s
  | _ => length (ready s) + length transit' <? cap s
  end.

Definition step (s : store) (o : op) : store * out * list tok :=
  match o with
  | RPut p pr =>
      let r := {| r_tok := next s; r_pid := p; r_prio := eff_prio s pr |} in
      let '(s2, ts) := trig_put (set_next (set_putq s (ins r (putq s))) (S (next s))) in
      (s2, OTok (next s), ts)
  | RGet p pr =>
      let r := {| r_tok := next s; r_pid := p; r_prio := eff_prio s pr |} in
      after_get s (OTok (next s)) (trig_get (set_next (set_getq s (ins r (getq s))) (S (next s))))
  | Put p t i =>
      if existsb (owns p t) (putres s) then
        let s1 := set_putres s (remove_first (owns p t) (putres s)) in
        if length (transit s) + length (ready s) <? cap s then
          let s2 := set_transit s1 (transit s ++ [i]) in
          match s_kind s with
          | KFleet =>
              (* _do_put and put each call _trigger_reserve_get *)
              match trig_get s2 with
              | Some (s3, ts1) =>
                  match trig_get s3 with
                  | Some (s4, ts2) => (s4, OOk, ts1 ++ ts2)
                  | None => (s, OErr EIndex, [])
                  end
              | None => (s, OErr EIndex, [])
              end
          | _ => after_get s OOk (trig_get s2)
          end
        else (s1, OErr ERuntime, [])
      else (s, OErr ERuntime, [])
  | Get p t =>
      if existsb (owns2 p t) (getres s) then
        match index_where (tokb2 t) (getres s) with
        | Some i =>
            match nth_error (getres s) i with
            | Some (_, it) =>
                if existsb (Nat.eqb it) (ready s) then
                  let s1 := set_ready (set_getres s (remove_nth i (getres s)))
                                      (remove_first (Nat.eqb it) (ready s)) in
                  let '(s2, ts) := trig_put s1 in (s2, OItem it, ts)
                else (s, OErr EValue, [])
            | None => (s, OErr EIndex, [])
            end
        | None => (s, OErr ERuntime, [])
        end
      else (s, OErr ERuntime, [])
  | CPut t =>
      if existsb (tokb t) (putq s) then
        let '(s2, ts) := trig_put (set_putq s (remove_first (tokb t) (putq s))) in (s2, OOk, ts)
      else if existsb (tokb t) (putres s) then
        let '(s2, ts) := trig_put (set_putres s (remove_first (tokb t) (putres s))) in (s2, OOk, ts)
      else (s, OErr ERuntime, [])
  | CGet t =>
      if existsb (tokb t) (getq s) then
        after_get s OOk (trig_get (set_getq s (remove_first (tokb t) (getq s))))
      else
        match index_where (tokb2 t) (getres s) with
        | Some i =>
            match nth_error (getres s) i with
            | Some (_, it) =>
                if existsb (Nat.eqb it) (ready s) then
                  after_get s OOk (trig_get (set_getres s (remove_nth i (getres s))))
                else (s, OErr ERuntime, [])
            | None => (s, OErr EIndex, [])
            end
        | None => (s, OErr ERuntime, [])
        end
  | Ready i =>
      if existsb (Nat.eqb i) (transit s) then
        let tr := remove_first (Nat.eqb i) (transit s) in
        if ready_guard s tr then
          match trig_get (set_ready (set_transit s tr) (ready s ++ [i])) with
          | Some (s2, ts1) => let '(s3, ts2) := trig_put s2 in (s3, OOk, ts1 ++ ts2)
          | None => (s, OErr EIndex, [])
          end
        else (set_transit s tr, OErr ERuntime, [])
      else (s, OErr EValue, [])
  | SetGate b => (set_gate s b, OOk, [])
  | TrigPut => let '(s2, ts) := trig_put s in (s2, OOk, ts)
  | Sync n => if next s <=? n then (set_next s n, OOk, []) else (s, OOk, [])
  end.

Definition init (k : kind) (m : mode) (c : nat) : store :=
  {| s_kind := k; s_mode := m; cap := c; next := 0; gate := true;
     transit := []; ready := []; putq := []; putres := []; getq := []; getres := [] |}.

Definition step_st (s : store) (o : op) : store := fst (fst (step s o)).
Definition run (s : store) (ops : list op) : store := fold_left step_st ops s.

Fixpoint run_trace (s : store) (ops : list op) : list (out * list tok * store) :=
  match ops with
  | [] => []
  | o :: ops' => let '(s', r, ts) := step s o in (r, ts, s') :: run_trace s' ops'
  end.
