(* Further theorems about the bound-item store model: conservation (C02), no lost wake-up (C04),
   service order (C05), retrieval discipline (C06), protocol enforcement (C07). *)
From Coq Require Import List ZArith Lia Bool Arith Permutation Sorted.
From FV Require Import ListLemmas ListLemmas2 Queue StoreB StoreBInv.
Import ListNotations.

Ltac tp :=
  match goal with
  | |- context [trig_put ?s1] =>
      let E := fresh "E" in let s2 := fresh "s2" in let ts := fresh "ts" in
      destruct (trig_put s1) as [s2 ts] eqn:E;
      apply (f_equal fst) in E; simpl fst in E; subst s2
  end.
Ltac tg H :=
  match goal with
  | |- context [trig_get ?s1] =>
      let s2 := fresh "s2" in let ts := fresh "ts" in let E := fresh "E" in let I := fresh "I" in
      destruct (trig_get_inv s1 H) as (s2 & ts & E & I); rewrite E
  end.

Lemma trig_put_contents s : contents (fst (trig_put s)) = contents s.
Proof. unfold contents. destruct (trig_put_fields s) as (_ & -> & -> & _). reflexivity. Qed.
Lemma trig_get_contents s s' ts : trig_get s = Some (s', ts) -> contents s' = contents s.
Proof. intros E. unfold contents. destruct (trig_get_fields _ _ _ E) as (_ & -> & -> & _). reflexivity. Qed.

(* ------------------------------------------------------------------ C02: conservation *)

Definition put_of (o : op) (r : out) : list item :=
  match o, r with Put _ _ i, OOk => [i] | _, _ => [] end.
Definition got_of (r : out) : list item :=
  match r with OItem it => [it] | _ => [] end.

Lemma ready_guard_ok s i :
  Inv s -> In i (transit s) -> ready_guard s (remove_first (Nat.eqb i) (transit s)) = true.
Proof.
  intros (H1 & _) Hi. apply existsb_eqb_In in Hi.
  pose proof (remove_first_len_ex _ _ Hi) as L. unfold ready_guard, used in *.
  destruct (s_kind s); apply Nat.ltb_lt; lia.
Qed.

(* one step: inside afterwards + returned = inside before + put, as multisets *)
Lemma step_conserve s o :
  Inv s -> fresh_op s o ->
  let '(s', r, _) := step s o in
  Permutation (contents s' ++ got_of r) (contents s ++ put_of o r).
Proof.
  intros HI HF. pose proof HI as (H1 & H2 & H3 & H4).
  destruct o; simpl.
  - tp. simpl. rewrite trig_put_contents. reflexivity.
  - match goal with |- context [trig_get ?z] => assert (Inv z) as HX by (apply inv_set_next, inv_set_getq, HI) end.
    tg HX. simpl. rewrite (trig_get_contents _ _ _ E). reflexivity.
  - destruct (existsb (owns p t) (putres s)) eqn:EO; simpl; [|reflexivity].
    destruct (granted_put_ok s p t i HI HF EO) as (K1 & _ & _). simpl in K1. rewrite EO in K1.
    destruct (Nat.ltb_spec (length (transit s) + length (ready s)) (cap s)); simpl.
    2:{ simpl in K1. discriminate. }
    assert (Permutation (contents (set_transit (set_putres s (remove_first (owns p t) (putres s))) (transit s ++ [i])) ++ [])
                        (contents s ++ [i])) as P.
    { unfold contents; simpl. rewrite app_nil_r, <- !app_assoc. apply Permutation_app_head.
      apply Permutation_app_comm. }
    destruct (s_kind s).
    + destruct (trig_get _) as [[s2 ts]|] eqn:E2; simpl in *; [|discriminate].
      rewrite (trig_get_contents _ _ _ E2). exact P.
    + destruct (trig_get _) as [[s2 ts]|] eqn:E2; simpl in *; [|discriminate].
      destruct (trig_get s2) as [[s3 ts3]|] eqn:E3; simpl in *; [|discriminate].
      rewrite (trig_get_contents _ _ _ E3), (trig_get_contents _ _ _ E2). exact P.
    + destruct (trig_get _) as [[s2 ts]|] eqn:E2; simpl in *; [|discriminate].
      rewrite (trig_get_contents _ _ _ E2). exact P.
    + destruct (trig_get _) as [[s2 ts]|] eqn:E2; simpl in *; [|discriminate].
      rewrite (trig_get_contents _ _ _ E2). exact P.
  - destruct (existsb (owns2 p t) (getres s)); simpl; [|reflexivity].
    destruct (index_where (tokb2 t) (getres s)) as [i|]; simpl; [|reflexivity].
    destruct (nth_error (getres s) i) as [[r it]|]; simpl; [|reflexivity].
    destruct (existsb (Nat.eqb it) (ready s)) eqn:ER; simpl; [|reflexivity].
    tp. simpl. rewrite trig_put_contents. unfold contents; simpl.
    rewrite !app_nil_r, <- app_assoc. apply Permutation_app_head.
    apply existsb_eqb_In in ER. rewrite (remove_first_eqb_perm _ _ ER) at 2.
    symmetry. apply Permutation_cons_append.
  - destruct (existsb (tokb t) (putq s)).
    + tp. simpl. rewrite trig_put_contents. reflexivity.
    + destruct (existsb (tokb t) (putres s)); simpl; [|reflexivity].
      tp. simpl. rewrite trig_put_contents. reflexivity.
  - destruct (existsb (tokb t) (getq s)).
    + destruct (trig_get _) as [[s2 ts]|] eqn:E2; simpl; [|reflexivity].
      rewrite (trig_get_contents _ _ _ E2). reflexivity.
    + destruct (index_where (tokb2 t) (getres s)) as [i|]; simpl; [|reflexivity].
      destruct (nth_error (getres s) i) as [[r it]|]; simpl; [|reflexivity].
      destruct (existsb (Nat.eqb it) (ready s)); simpl; [|reflexivity].
      destruct (trig_get _) as [[s2 ts]|] eqn:E2; simpl; [|reflexivity].
      rewrite (trig_get_contents _ _ _ E2). reflexivity.
  - destruct (existsb (Nat.eqb i) (transit s)) eqn:EX; simpl; [|reflexivity].
    apply existsb_eqb_In in EX. rewrite (ready_guard_ok s i HI EX).
    destruct (trig_get _) as [[s2 ts]|] eqn:E2; simpl; [|reflexivity].
    tp. simpl. rewrite trig_put_contents, (trig_get_contents _ _ _ E2). unfold contents; simpl.
    rewrite !app_nil_r. rewrite (remove_first_eqb_perm _ _ EX) at 2. simpl.
    rewrite app_assoc. rewrite <- Permutation_cons_append. reflexivity.
  - reflexivity.
  - tp. simpl. rewrite trig_put_contents. reflexivity.
  - destruct (next s <=? n); reflexivity.
Qed.

Fixpoint puts_of (s : store) (ops : list op) : list item :=
  match ops with
  | [] => []
  | o :: ops' => let '(s', r, _) := step s o in put_of o r ++ puts_of s' ops'
  end.
Fixpoint gots_of (s : store) (ops : list op) : list item :=
  match ops with
  | [] => []
  | o :: ops' => let '(s', r, _) := step s o in got_of r ++ gots_of s' ops'
  end.

Lemma conservation_gen ops : forall s seen,
  Inv s -> incl (contents s) seen -> NoDup (seen ++ put_ids ops) ->
  Permutation (contents (run s ops) ++ gots_of s ops) (contents s ++ puts_of s ops).
Proof.
  induction ops as [|o ops IH]; intros s seen HI HS ND; simpl.
  - reflexivity.
  - assert (fresh_op s o) as HF.
    { destruct o; simpl; auto. intros Hi. simpl in ND.
      eapply NoDup_app_disj; [exact ND| apply HS; exact Hi | left; reflexivity]. }
    pose proof (step_conserve s o HI HF) as HC. pose proof (step_inv s o HI HF) as HI'.
    unfold run in *. simpl. unfold step_st in *.
    assert (exists seen', incl (contents (fst (fst (step s o)))) seen' /\ NoDup (seen' ++ put_ids ops)) as (seen' & HS' & ND').
    { destruct o; simpl in ND;
        try (exists seen; split; [intros x Hx; destruct (step_contents_incl _ _ _ Hx) as [?|(? & ? & ?)]; [auto|discriminate] | exact ND]).
      exists (seen ++ [i]). split.
      - intros x Hx. destruct (step_contents_incl _ _ _ Hx) as [?|(? & ? & E)].
        + apply in_or_app; auto.
        + inversion E; subst. apply in_or_app; right; left; auto.
      - rewrite <- app_assoc. exact ND. }
    specialize (IH _ _ HI' HS' ND').
    destruct (step s o) as [[s' r] ts]. simpl in *.
    transitivity (got_of r ++ (contents (fold_left (fun s0 o0 => fst (fst (step s0 o0))) ops s') ++ gots_of s' ops)).
    { rewrite !app_assoc. apply Permutation_app_tail. apply Permutation_app_comm. }
    rewrite IH.
    transitivity ((contents s' ++ got_of r) ++ puts_of s' ops).
    { rewrite app_assoc. apply Permutation_app_tail. apply Permutation_app_comm. }
    rewrite HC. rewrite app_assoc. reflexivity.
Qed.

Theorem conservation k m c ops :
  NoDup (put_ids ops) ->
  Permutation (contents (run (init k m c) ops) ++ gots_of (init k m c) ops) (puts_of (init k m c) ops).
Proof.
  intros ND. apply (conservation_gen ops (init k m c) []); auto.
  - apply init_inv.
  - intros x [].
Qed.

(* ------------------------------------------------------------------ C04: no lost wake-up *)

Definition NoLost (s : store) : Prop :=
  (putq s <> [] -> allow_put s = false) /\ (getq s <> [] -> allow_get s = false).

Lemma allow_put_nobelt s : is_belt (s_kind s) = false -> allow_put s = (used s <? cap s).
Proof. unfold allow_put. destruct (s_kind s); simpl; try discriminate; intros _; apply andb_true_r. Qed.

(* after one pass of the put trigger nothing servable is left, provided at most one unit was
   free whenever two or more requests were waiting *)
Lemma trig_put_nolost s :
  is_belt (s_kind s) = false ->
  (forall r1 r2 q, putq s = r1 :: r2 :: q -> cap s <= used s + 1) ->
  putq (fst (trig_put s)) <> [] -> allow_put (fst (trig_put s)) = false.
Proof.
  intros NB H. unfold trig_put. destruct (putq s) as [|r q] eqn:EQ; simpl; [congruence|].
  destruct (allow_put s) eqn:EA; simpl.
  - intros Hq. destruct q as [|r2 q]; [congruence|]. specialize (H _ _ _ eq_refl).
    rewrite allow_put_nobelt by (simpl; exact NB). unfold used in *; simpl. rewrite app_length; simpl.
    apply Nat.ltb_ge. lia.
  - rewrite EQ. auto.
Qed.

Lemma trig_get_nolost s s' ts :
  trig_get s = Some (s', ts) ->
  (forall r1 r2 q, getq s = r1 :: r2 :: q -> length (ready s) <= length (getres s) + 1) ->
  getq s' <> [] -> allow_get s' = false.
Proof.
  unfold trig_get. intros E H. destruct (getq s) as [|r q] eqn:EQ.
  { inversion E; subst. congruence. }
  destruct (allow_get s) eqn:EA.
  - destruct (pick s); [|discriminate]. inversion E; subst. simpl. intros Hq.
    destruct q as [|r2 q]; [congruence|]. specialize (H _ _ _ eq_refl).
    unfold allow_get; simpl. rewrite app_length; simpl. apply Nat.ltb_ge. lia.
  - inversion E; subst. auto.
Qed.

Lemma allow_put_false s : is_belt (s_kind s) = false -> Inv s -> allow_put s = false -> used s = cap s.
Proof.
  intros NB (H1 & _) E. rewrite allow_put_nobelt in E by auto. apply Nat.ltb_ge in E. lia.
Qed.

Lemma allow_get_false s : Inv s -> allow_get s = false -> length (getres s) = length (ready s).
Proof.
  intros HI E. pose proof (inv_getres_le _ HI). unfold allow_get in E. apply Nat.ltb_ge in E. lia.
Qed.

Lemma trig_put_getpart s : getq (fst (trig_put s)) = getq s /\ allow_get (fst (trig_put s)) = allow_get s.
Proof. unfold allow_get. destruct (trig_put_fields s) as (_ & _ & -> & -> & -> & _). auto. Qed.

Lemma trig_get_putpart s s' ts :
  trig_get s = Some (s', ts) -> putq s' = putq s /\ allow_put s' = allow_put s.
Proof.
  intros E. unfold allow_put, used. destruct (trig_get_fields _ _ _ E) as (-> & -> & -> & -> & -> & _ & -> & _ & ->). auto.
Qed.

Lemma ins_nonnil r q : ins r q <> [].
Proof. destruct q; simpl; [congruence|]. destruct (_ <? _)%Z; congruence. Qed.

Lemma ins_two r x q : exists a b c, ins r (x :: q) = a :: b :: c.
Proof.
  simpl. destruct (_ <? _)%Z; [eauto|]. destruct q; simpl; [eauto|]. destruct (_ <? _)%Z; eauto.
Qed.

Lemma trig_get_nogrant s1 s2 ts :
  trig_get s1 = Some (s2, ts) -> allow_get s1 = false \/ getq s1 = [] -> s2 = s1.
Proof.
  unfold trig_get. intros E HC. destruct (getq s1) as [|r q].
  - inversion E; auto.
  - destruct HC as [HC|HC]; [|discriminate]. rewrite HC in E. inversion E; auto.
Qed.

Theorem step_nolost s o :
  is_belt (s_kind s) = false -> Inv s -> fresh_op s o -> NoLost s -> NoLost (step_st s o).
Proof.
  intros NB HI HF (NP & NG). pose proof HI as (H1 & H2 & H3 & H4).
  pose proof (inv_getres_le _ HI) as HL.
  unfold step_st. destruct o; simpl.
  - (* RPut *) tp. simpl. split.
    + apply trig_put_nolost; [exact NB|]. simpl. intros r1 r2 q EQ.
      destruct (putq s) as [|x q0] eqn:EP; [simpl in EQ; discriminate|].
      assert (used s = cap s) by (apply allow_put_false; auto; apply NP; congruence).
      unfold used in *; simpl. lia.
    + match goal with |- context [trig_put ?z] => destruct (trig_put_getpart z) as (-> & ->) end. exact NG.
  - (* RGet *)
    match goal with |- context [trig_get ?z] => assert (Inv z) as HX by (apply inv_set_next, inv_set_getq, HI) end.
    tg HX. simpl. split.
    + destruct (trig_get_putpart _ _ _ E) as (-> & ->). exact NP.
    + eapply trig_get_nolost; [exact E|]. simpl. intros r1 r2 q EQ.
      destruct (getq s) as [|x q0] eqn:EP; [simpl in EQ; discriminate|].
      assert (length (getres s) = length (ready s)) by (apply allow_get_false; auto; apply NG; congruence).
      lia.
  - (* Put *)
    destruct (existsb (owns p t) (putres s)) eqn:EO; simpl; [|split; auto].
    destruct (granted_put_ok s p t i HI HF EO) as (K1 & _ & _). simpl in K1. rewrite EO in K1.
    pose proof (remove_first_len_ex _ _ EO) as LP.
    destruct (Nat.ltb_spec (length (transit s) + length (ready s)) (cap s)); simpl.
    2:{ simpl in K1. discriminate. }
    remember (set_transit (set_putres s (remove_first (owns p t) (putres s))) (transit s ++ [i])) as s1 eqn:ES1.
    assert (allow_put s1 = allow_put s /\ putq s1 = putq s /\ allow_get s1 = allow_get s /\ getq s1 = getq s /\ s_kind s1 = s_kind s) as (A1 & A2 & A3 & A4 & A5).
    { subst s1. rewrite !allow_put_nobelt by (simpl; auto). unfold used, allow_get; simpl.
      rewrite app_length; simpl. repeat split; auto. f_equal. lia. }
    assert (allow_get s1 = false \/ getq s1 = []) as HC.
    { rewrite A3, A4. destruct (getq s); [right; auto|left; apply NG; congruence]. }
    assert (NoLost s1) as NL1.
    { split; [rewrite A1, A2; exact NP | rewrite A3, A4; exact NG]. }
    clear K1.
    destruct (s_kind s) eqn:EK; simpl in NB; try discriminate.
    + destruct (trig_get s1) as [[s2 ts]|] eqn:E2; simpl; [|split; auto].
      rewrite (trig_get_nogrant _ _ _ E2 HC). exact NL1.
    + destruct (trig_get s1) as [[s2 ts]|] eqn:E2; simpl; [|split; auto].
      pose proof (trig_get_nogrant _ _ _ E2 HC) as ->.
      destruct (trig_get s1) as [[s3 ts3]|] eqn:E3; simpl; [|split; auto].
      rewrite (trig_get_nogrant _ _ _ E3 HC). exact NL1.
  - (* Get *)
    destruct (existsb (owns2 p t) (getres s)) eqn:EO; simpl; [|split; auto].
    destruct (index_where (tokb2 t) (getres s)) as [i|] eqn:EI; simpl; [|split; auto].
    destruct (nth_error (getres s) i) as [[r it]|] eqn:EN; simpl; [|split; auto].
    destruct (existsb (Nat.eqb it) (ready s)) eqn:ER; simpl; [|split; auto].
    pose proof (remove_first_len_ex _ _ ER) as LR.
    pose proof (remove_nth_len_lt i (getres s) (nth_error_lt' _ _ _ EN)) as LG.
    tp. simpl. split.
    + apply trig_put_nolost; [exact NB|]. simpl. intros r1 r2 q EQ.
      assert (used s = cap s) by (apply allow_put_false; auto; apply NP; congruence).
      unfold used in *; simpl. lia.
    + match goal with |- context [trig_put ?z] => destruct (trig_put_getpart z) as (-> & ->) end.
      simpl. intros HQ. specialize (NG HQ). unfold allow_get in *; simpl.
      apply Nat.ltb_ge in NG. apply Nat.ltb_ge. lia.
  - (* CPut *)
    destruct (existsb (tokb t) (putq s)) eqn:EQ.
    + tp. simpl. split.
      * apply trig_put_nolost; [exact NB|]. simpl. intros r1 r2 q EQ2.
        assert (putq s <> []) as NE by (intros Z; rewrite Z in EQ; discriminate).
        assert (used s = cap s) by (apply allow_put_false; auto).
        unfold used in *; simpl. lia.
      * match goal with |- context [trig_put ?z] => destruct (trig_put_getpart z) as (-> & ->) end. exact NG.
    + destruct (existsb (tokb t) (putres s)) eqn:ER; simpl; [|split; auto].
      pose proof (remove_first_len_ex _ _ ER) as LP.
      tp. simpl. split.
      * apply trig_put_nolost; [exact NB|]. simpl. intros r1 r2 q EQ2.
        assert (used s = cap s) by (apply allow_put_false; auto; apply NP; congruence).
        unfold used in *; simpl. lia.
      * match goal with |- context [trig_put ?z] => destruct (trig_put_getpart z) as (-> & ->) end. exact NG.
  - (* CGet *)
    destruct (existsb (tokb t) (getq s)) eqn:EQ.
    + match goal with |- context [trig_get ?z] => assert (Inv z) as HX by (apply inv_set_getq, HI) end.
      tg HX. simpl. split.
      * destruct (trig_get_putpart _ _ _ E) as (-> & ->). exact NP.
      * eapply trig_get_nolost; [exact E|]. simpl. intros r1 r2 q EQ2.
        assert (getq s <> []) as NE by (intros Z; rewrite Z in EQ; discriminate).
        assert (length (getres s) = length (ready s)) by (apply allow_get_false; auto). lia.
    + destruct (index_where (tokb2 t) (getres s)) as [i|] eqn:EI; simpl; [|split; auto].
      destruct (nth_error (getres s) i) as [[r it]|] eqn:EN; simpl; [|split; auto].
      destruct (existsb (Nat.eqb it) (ready s)) eqn:ER; simpl; [|split; auto].
      pose proof (remove_nth_len_lt i (getres s) (nth_error_lt' _ _ _ EN)) as LG.
      match goal with |- context [trig_get ?z] => assert (Inv z) as HX end.
      { pose proof (step_inv s (CGet t) HI I) as K. unfold step_st in K. simpl in K.
        rewrite EQ, EI, EN, ER in K.
        (* rebuild directly *)
        unfold Inv, used, contents, reserved in *; simpl. rewrite map_remove_nth.
        repeat split; auto.
        - apply NoDup_remove_nth; auto.
        - intros x Hx. apply H4. eapply remove_nth_incl; eauto. }
      tg HX. simpl. split.
      * destruct (trig_get_putpart _ _ _ E) as (-> & ->). exact NP.
      * eapply trig_get_nolost; [exact E|]. simpl. intros r1 r2 q EQ2.
        assert (length (getres s) = length (ready s)) by (apply allow_get_false; auto; apply NG; congruence). lia.
  - (* Ready *)
    destruct (existsb (Nat.eqb i) (transit s)) eqn:EX; simpl; [|split; auto].
    pose proof (remove_first_len_ex _ _ EX) as LT.
    apply existsb_eqb_In in EX. rewrite (ready_guard_ok s i HI EX).
    pose proof (step_inv s (Ready i) HI I) as K. unfold step_st in K. simpl in K.
    rewrite (proj2 (existsb_eqb_In _ _) EX), (ready_guard_ok s i HI EX) in K.
    destruct (trig_get _) as [[s2 ts]|] eqn:E2; simpl in *.
    2:{ split; auto. }
    revert K. tp. simpl. intros K. split.
    + destruct (trig_get_putpart _ _ _ E2) as (P1 & P2).
      destruct (trig_get_fields _ _ _ E2) as (F1 & F2 & F3 & F4 & F5 & _ & F7 & _).
      apply trig_put_nolost; [rewrite F7; exact NB|]. rewrite P1. simpl. intros r1 r2 q EQ.
      assert (used s = cap s) by (apply allow_put_false; auto; apply NP; congruence).
      unfold used in *. rewrite F1, F2, F3, F5. simpl. rewrite app_length. simpl. lia.
    + match goal with |- context [trig_put ?z] => destruct (trig_put_getpart z) as (-> & ->) end.
      eapply trig_get_nolost; [exact E2|]. simpl. intros r1 r2 q EQ.
      assert (length (getres s) = length (ready s)) by (apply allow_get_false; auto; apply NG; congruence).
      rewrite app_length; simpl. lia.
  - (* SetGate *) split; simpl; auto. rewrite allow_put_nobelt in * by (simpl; auto). exact NP.
  - (* TrigPut *) tp. simpl. split.
    + apply trig_put_nolost; [exact NB|]. intros r1 r2 q EQ.
      assert (used s = cap s) by (apply allow_put_false; auto; apply NP; congruence). lia.
    + destruct (trig_put_getpart s) as (-> & ->). exact NG.
  - (* Sync *) destruct (next s <=? n); simpl; split; auto;
      rewrite allow_put_nobelt in * by (simpl; auto); exact NP.
Qed.

Lemma trig_put_kind s : s_kind (fst (trig_put s)) = s_kind s.
Proof. apply trig_put_fields. Qed.
Lemma trig_get_kind s s' ts : trig_get s = Some (s', ts) -> s_kind s' = s_kind s.
Proof. intros E. apply trig_get_fields in E. apply E. Qed.

Lemma step_kind s o : s_kind (step_st s o) = s_kind s.
Proof.
  unfold step_st. destruct o; simpl; unfold after_get;
    repeat (match goal with
            | |- context [trig_put ?z] =>
                let E := fresh "E" in pose proof (trig_put_kind z) as E; destruct (trig_put z); simpl in *
            | |- context [trig_get ?z] =>
                let E := fresh "E" in destruct (trig_get z) as [[? ?]|] eqn:E; [apply trig_get_kind in E|]; simpl in *
            | |- context [if ?b then _ else _] => destruct b; simpl in *
            | |- context [match ?x with _ => _ end] => destruct x eqn:?; simpl in *
            end); try congruence.
Qed.

Lemma init_nolost k m c : NoLost (init k m c).
Proof. split; simpl; congruence. Qed.

Lemma run_nolost_gen ops : forall s seen,
  is_belt (s_kind s) = false -> Inv s -> NoLost s -> incl (contents s) seen -> NoDup (seen ++ put_ids ops) ->
  NoLost (run s ops).
Proof.
  induction ops as [|o ops IH]; intros s seen NB HI NL HS ND; simpl; auto.
  unfold run in *. simpl.
  assert (fresh_op s o) as HF.
  { destruct o; simpl; auto. intros Hi. simpl in ND.
    eapply NoDup_app_disj; [exact ND| apply HS; exact Hi | left; reflexivity]. }
  pose proof (step_inv s o HI HF) as HI'. pose proof (step_nolost s o NB HI HF NL) as NL'.
  assert (is_belt (s_kind (step_st s o)) = false) as NB' by (rewrite step_kind; exact NB).
  destruct o; simpl in ND;
    try (apply (IH _ seen);
         [ exact NB' | exact HI' | exact NL'
         | intros x Hx; destruct (step_contents_incl _ _ _ Hx) as [?|(? & ? & ?)]; [auto|discriminate]
         | exact ND ]).
  apply (IH _ (seen ++ [i])); auto.
  - intros x Hx. destruct (step_contents_incl _ _ _ Hx) as [?|(? & ? & E)].
    + apply in_or_app; auto.
    + inversion E; subst. apply in_or_app; right; left; auto.
  - rewrite <- app_assoc. simpl. exact ND.
Qed.

Theorem nolost_reachable k m c ops :
  is_belt k = false -> NoDup (put_ids ops) -> NoLost (run (init k m c) ops).
Proof.
  intros NB ND. apply (run_nolost_gen ops _ []); auto.
  - apply init_inv.
  - apply init_nolost.
  - intros x [].
Qed.
