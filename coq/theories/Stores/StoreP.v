(* L1 model of the three "positional" reservable stores of factorysimpy/base:
     ReservableReqStore, ReservablePriorityReqStore, ReservablePriorityReqFilterStore.
   The i-th granted retrieval reservation is bound to the i-th element of [items]
   (reserved_events[i] <-> items[i] in the Python).  The two Python lists
   reservations_get / reserved_events always hold the same events in the same order
   (the correspondence harness checks this on the implementation), so the model keeps one.

   Model only: no proofs in this file, so that it still runs when a proof breaks. *)
From Coq Require Import List ZArith Bool Arith.
From FV Require Import ListLemmas.
Import ListNotations.

Definition tok := nat.
Definition pid := nat.
(* an item: its identity and the put_time attribute the filter store stamps on it *)
Definition item := (nat * Z)%type.

(* filters: the default age filter of the filter store, or a user predicate on the item
   (finite enum: identity mod k = r; FMod 1 0 is "any item") *)
Inductive flt := FAge | FMod (k r : nat).
Inductive kind := KReq | KPrio | KFilter.

Record req := { r_tok : tok; r_pid : pid; r_prio : Z; r_flt : flt }.

Record store := {
  s_kind : kind; cap : nat; tdelay : Z; now : Z; next : tok;
  items : list item;
  putq : list req; putres : list req;      (* reserve_put_queue / reservations_put *)
  getq : list req; getres : list req       (* reserve_get_queue / reservations_get = reserved_events *)
}.

Inductive op :=
| RPut (p : pid) (pr : Z)
| RGet (p : pid) (pr : Z) (f : flt)
| Put (p : pid) (t : tok) (i : nat)
| Get (p : pid) (t : tok)
| CPut (t : tok)
| CGet (t : tok)
| Retrig                 (* the filter store's timer callback: _trigger_reserve_get *)
| Tick (d : Z)           (* simulated time advances by d >= 0 *)
| Sync (n : tok).        (* align the token counter with the kernel's event counter *)

Inductive err := ERuntime | EIndex.
Inductive out := OTok (t : tok) | OOk | OItem (it : item) | OErr (e : err).

Definition fmatch (nw td : Z) (f : flt) (it : item) : bool :=
  match f with
  | FAge => (snd it + td <=? nw)%Z
  | FMod k r => Nat.eqb (fst it mod k) r
  end.

(* list.sort(key=priority) after append: stable, so the new request goes behind every
   request whose priority is <= its own *)
Fixpoint ins (r : req) (q : list req) : list req :=
  match q with
  | [] => [r]
  | x :: q' => if (r_prio r <? r_prio x)%Z then r :: q else x :: ins r q'
  end.

Definition set_items s it :=
  {| s_kind := s_kind s; cap := cap s; tdelay := tdelay s; now := now s; next := next s;
     items := it; putq := putq s; putres := putres s; getq := getq s; getres := getres s |}.
Definition set_putq s q :=
  {| s_kind := s_kind s; cap := cap s; tdelay := tdelay s; now := now s; next := next s;
     items := items s; putq := q; putres := putres s; getq := getq s; getres := getres s |}.
Definition set_putres s q :=
  {| s_kind := s_kind s; cap := cap s; tdelay := tdelay s; now := now s; next := next s;
     items := items s; putq := putq s; putres := q; getq := getq s; getres := getres s |}.
Definition set_getq s q :=
  {| s_kind := s_kind s; cap := cap s; tdelay := tdelay s; now := now s; next := next s;
     items := items s; putq := putq s; putres := putres s; getq := q; getres := getres s |}.
Definition set_getres s q :=
  {| s_kind := s_kind s; cap := cap s; tdelay := tdelay s; now := now s; next := next s;
     items := items s; putq := putq s; putres := putres s; getq := getq s; getres := q |}.
Definition set_next s n :=
  {| s_kind := s_kind s; cap := cap s; tdelay := tdelay s; now := now s; next := n;
     items := items s; putq := putq s; putres := putres s; getq := getq s; getres := getres s |}.
Definition set_now s n :=
  {| s_kind := s_kind s; cap := cap s; tdelay := tdelay s; now := n; next := next s;
     items := items s; putq := putq s; putres := putres s; getq := getq s; getres := getres s |}.

(* admission tests of _do_reserve_put / _do_reserve_get (tie B regenerates these from source) *)
Definition allow_put (s : store) : bool := length (putres s) + length (items s) <? cap s.
Definition allow_get (s : store) : bool := length (getres s) <? length (items s).

(* _trigger_reserve_put: the loop always breaks after the first _do_reserve_put
   (which returns None), so exactly the head of the queue is tried *)
Definition trig_put (s : store) : store * list tok :=
  match putq s with
  | [] => (s, [])
  | r :: q => if allow_put s
              then (set_putres (set_putq s q) (putres s ++ [r]), [r_tok r])
              else (s, [])
  end.

(* _do_reserve_get on the head of the queue.  The filter store scans
   the unreserved items (those behind the reserved prefix) for the first one satisfying the
   request's filter and moves it to the end of the reserved prefix; the other two stores
   grant without a filter (modelled as the always-true filter, which picks the head). *)
Definition eff_flt (s : store) (r : req) : flt :=
  match s_kind s with KFilter => r_flt r | _ => FMod 1 0 end.

Definition trig_get1 (s : store) : store * list tok :=
  match getq s with
  | [] => (s, [])
  | r :: q =>
      if allow_get s then
        let k := length (getres s) in
        match split_first (fmatch (now s) (tdelay s) (eff_flt s r)) (skipn k (items s)) with
        | Some (a, x, b) =>
            (set_getres (set_getq (set_items s (firstn k (items s) ++ x :: a ++ b)) q)
                        (getres s ++ [r]), [r_tok r])
        | None => (s, [])
        end
      else (s, [])
  end.

(* The loop of _trigger_reserve_get goes on while _do_reserve_get returns a true value.  In the
   filter store it returns True after a grant, so heads are served until one cannot be; in the
   other two stores it returns None, so exactly one head is tried.  Fuel: one unit per waiting
   request (every grant removes one). *)
Fixpoint trig_get_n (n : nat) (s : store) : store * list tok :=
  match n with
  | 0 => (s, [])
  | S n' =>
      let '(s1, ts) := trig_get1 s in
      match ts with
      | [] => (s1, [])
      | _ => let '(s2, ts2) := trig_get_n n' s1 in (s2, ts ++ ts2)
      end
  end.

Definition trig_get (s : store) : store * list tok :=
  match s_kind s with
  | KFilter => trig_get_n (length (getq s)) s
  | _ => trig_get1 s
  end.

Definition tokb (t : tok) (r : req) : bool := Nat.eqb (r_tok r) t.
Definition owns (p : pid) (t : tok) (r : req) : bool := Nat.eqb (r_tok r) t && Nat.eqb (r_pid r) p.

Definition eff_prio (s : store) (pr : Z) : Z := match s_kind s with KReq => 0%Z | _ => pr end.
Definition stamp (s : store) (i : nat) : item :=
  match s_kind s with KFilter => (i, now s) | _ => (i, 0%Z) end.

Definition step (s : store) (o : op) : store * out * list tok :=
  match o with
  | RPut p pr =>
      let r := {| r_tok := next s; r_pid := p; r_prio := eff_prio s pr; r_flt := FMod 1 0 |} in
      let '(s2, ts) := trig_put (set_next (set_putq s (ins r (putq s))) (S (next s))) in
      (s2, OTok (next s), ts)
  | RGet p pr f =>
      let r := {| r_tok := next s; r_pid := p; r_prio := eff_prio s pr; r_flt := f |} in
      let '(s2, ts) := trig_get (set_next (set_getq s (ins r (getq s))) (S (next s))) in
      (s2, OTok (next s), ts)
  | Put p t i =>
      if existsb (owns p t) (putres s) then
        let s1 := set_putres s (remove_first (owns p t) (putres s)) in
        (* second capacity test of _do_put; on failure the reservation is already consumed *)
        if length (items s) <? cap s then
          let '(s2, ts) := trig_get (set_items s1 (items s ++ [stamp s i])) in (s2, OOk, ts)
        else (s1, OErr ERuntime, [])
      else (s, OErr ERuntime, [])
  | Get p t =>
      if existsb (owns p t) (getres s) then
        match index_where (tokb t) (getres s) with
        | Some i =>
            match nth_error (items s) i with
            | Some it =>
                let s1 := set_getres (set_items s (remove_nth i (items s))) (remove_nth i (getres s)) in
                let '(s2, ts) := trig_put s1 in (s2, OItem it, ts)
            | None => (s, OErr EIndex, [])
            end
        | None => (s, OErr ERuntime, [])
        end
      else (s, OErr ERuntime, [])
  | CPut t =>
      if existsb (tokb t) (putq s) then
        let '(s2, ts) := trig_put (set_putq s (remove_first (tokb t) (putq s))) in (s2, OOk, ts)
      else if existsb (tokb t) (putres s) then
        let '(s2, ts) := trig_put (set_putres s (remove_first (tokb t) (putres s))) in (s2, OOk, ts)
      else (s, OErr ERuntime, [])
  | CGet t =>
      if existsb (tokb t) (getq s) then
        let '(s2, ts) := trig_get (set_getq s (remove_first (tokb t) (getq s))) in (s2, OOk, ts)
      else
        match index_where (tokb t) (getres s) with
        | Some i =>
            match nth_error (items s) i with
            | Some it =>
                (* items.pop(i); items.insert(len(reserved_events)-1, item): the released item
                   becomes the first unreserved one *)
                let s1 := set_getres
                            (set_items s (insert_at (length (getres s) - 1) it (remove_nth i (items s))))
                            (remove_nth i (getres s)) in
                let '(s2, ts) := trig_get s1 in (s2, OOk, ts)
            | None => (s, OErr EIndex, [])
            end
        | None => (s, OErr ERuntime, [])
        end
  | Retrig => let '(s2, ts) := trig_get s in (s2, OOk, ts)
  | Tick d => if (0 <=? d)%Z then (set_now s (now s + d)%Z, OOk, []) else (s, OErr ERuntime, [])
  | Sync n => if next s <=? n then (set_next s n, OOk, []) else (s, OOk, [])
  end.

Definition init (k : kind) (c : nat) (td : Z) : store :=
  {| s_kind := k; cap := c; tdelay := td; now := 0%Z; next := 0;
     items := []; putq := []; putres := []; getq := []; getres := [] |}.

Definition step_st (s : store) (o : op) : store := fst (fst (step s o)).
Definition run (s : store) (ops : list op) : store := fold_left step_st ops s.

(* the run with everything observable: per op, its result, the tokens it triggered and the
   state it left -- this is what the correspondence check compares with the implementation *)
Fixpoint run_trace (s : store) (ops : list op) : list (out * list tok * store) :=
  match ops with
  | [] => []
  | o :: ops' => let '(s', r, ts) := step s o in (r, ts, s') :: run_trace s' ops'
  end.
