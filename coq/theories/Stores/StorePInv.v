(* Invariants of the positional store model, proved for every operation and lifted to every
   history by induction over the op list (no bound on capacity, history length, priorities). *)
From Coq Require Import List ZArith Lia Bool Arith Permutation.
From FV Require Import ListLemmas StoreP.
Import ListNotations.

(* ------------------------------------------------------------------ capacity (C01) *)

Definition CapInv (s : store) : Prop :=
  length (putres s) + length (items s) <= cap s /\ length (getres s) <= length (items s).

Lemma split_first_perm {A} (f : A -> bool) l a x b :
  split_first f l = Some (a, x, b) -> Permutation l (x :: a ++ b).
Proof.
  intros H. apply split_first_spec in H as (-> & _ & _).
  symmetry. apply Permutation_middle.
Qed.

Lemma trig_get1_items_perm s : Permutation (items (fst (trig_get1 s))) (items s).
Proof.
  unfold trig_get1. destruct (getq s) as [|r q]; simpl; auto.
  destruct (allow_get s); simpl; auto.
  destruct (split_first _ _) as [[[a x] b]|] eqn:E; simpl; auto.
  apply split_first_perm in E.
  rewrite <- (firstn_skipn (length (getres s)) (items s)) at 2.
  apply Permutation_app_head. symmetry. exact E.
Qed.

Lemma trig_get1_items_len s : length (items (fst (trig_get1 s))) = length (items s).
Proof. apply Permutation_length, trig_get1_items_perm. Qed.

(* whatever one attempt preserves, the whole trigger loop preserves *)
Lemma trig_get_n_lift (P : store -> Prop) :
  (forall s, P s -> P (fst (trig_get1 s))) -> forall n s, P s -> P (fst (trig_get_n n s)).
Proof.
  intros H n. induction n as [|n IH]; simpl; intros s Hs; auto.
  specialize (H s Hs). destruct (trig_get1 s) as [s1 ts]. simpl in H.
  destruct ts; simpl; auto. specialize (IH s1 H). destruct (trig_get_n n s1); simpl in *; auto.
Qed.

Lemma trig_get_lift (P : store -> Prop) :
  (forall s, P s -> P (fst (trig_get1 s))) -> forall s, P s -> P (fst (trig_get s)).
Proof.
  intros H s Hs. unfold trig_get. destruct (s_kind s); auto. apply trig_get_n_lift; auto.
Qed.

Lemma trig_get_items_perm s : Permutation (items (fst (trig_get s))) (items s).
Proof.
  apply (trig_get_lift (fun x => Permutation (items x) (items s))); auto.
  intros x Hx. rewrite trig_get1_items_perm. exact Hx.
Qed.

Lemma trig_get_items_len s : length (items (fst (trig_get s))) = length (items s).
Proof. apply Permutation_length, trig_get_items_perm. Qed.

Lemma trig_put_cap s : CapInv s -> CapInv (fst (trig_put s)).
Proof.
  unfold trig_put, CapInv, allow_put. destruct (putq s) as [|r q]; simpl; auto.
  destruct (Nat.ltb_spec (length (putres s) + length (items s)) (cap s)); simpl; auto.
  rewrite app_length; simpl; lia.
Qed.

Lemma trig_get1_cap s : CapInv s -> CapInv (fst (trig_get1 s)).
Proof.
  intros H. pose proof (trig_get1_items_len s) as L. revert L.
  unfold trig_get1, CapInv, allow_get in *. destruct (getq s) as [|r q]; simpl; auto.
  destruct (Nat.ltb_spec (length (getres s)) (length (items s))); simpl; auto.
  destruct (split_first _ _) as [[[a x] b]|] eqn:E; simpl; auto.
  intros L. rewrite L, app_length; simpl; lia.
Qed.

Lemma trig_get_cap s : CapInv s -> CapInv (fst (trig_get s)).
Proof. apply trig_get_lift. apply trig_get1_cap. Qed.

Lemma trig_put_fields s :
  let s' := fst (trig_put s) in
  cap s' = cap s /\ items s' = items s /\ getq s' = getq s /\ getres s' = getres s /\
  next s' = next s /\ s_kind s' = s_kind s /\ now s' = now s /\ tdelay s' = tdelay s.
Proof.
  unfold trig_put. destruct (putq s); simpl; [repeat split|].
  destruct (allow_put s); simpl; repeat split.
Qed.

Lemma trig_get1_fields s :
  let s' := fst (trig_get1 s) in
  cap s' = cap s /\ putq s' = putq s /\ putres s' = putres s /\
  next s' = next s /\ s_kind s' = s_kind s /\ now s' = now s /\ tdelay s' = tdelay s.
Proof.
  unfold trig_get1. destruct (getq s); simpl; [repeat split|].
  destruct (allow_get s); simpl; [|repeat split].
  destruct (split_first _ _) as [[[a x] b]|]; simpl; repeat split.
Qed.

Lemma trig_get_fields s :
  let s' := fst (trig_get s) in
  cap s' = cap s /\ putq s' = putq s /\ putres s' = putres s /\
  next s' = next s /\ s_kind s' = s_kind s /\ now s' = now s /\ tdelay s' = tdelay s.
Proof.
  apply (trig_get_lift (fun x => cap x = cap s /\ putq x = putq s /\ putres x = putres s /\
           next x = next s /\ s_kind x = s_kind s /\ now x = now s /\ tdelay x = tdelay s)).
  - intros x (A & B & C & D & E & F & G).
    destruct (trig_get1_fields x) as (A' & B' & C' & D' & E' & F' & G'). repeat split; congruence.
  - repeat split.
Qed.

Lemma trig_put_items s : items (fst (trig_put s)) = items s.
Proof. apply trig_put_fields. Qed.

(* destruct the [let '(s2, ts) := trig_x s1 in ...] of a step branch, remembering s2 = fst (trig_x s1) *)
Ltac trig :=
  match goal with
  | |- context [trig_put ?s1] =>
      let E := fresh "E" in let s2 := fresh "s2" in let ts := fresh "ts" in
      destruct (trig_put s1) as [s2 ts] eqn:E;
      apply (f_equal fst) in E; simpl fst in E; subst s2
  | |- context [trig_get ?s1] =>
      let E := fresh "E" in let s2 := fresh "s2" in let ts := fresh "ts" in
      destruct (trig_get s1) as [s2 ts] eqn:E;
      apply (f_equal fst) in E; simpl fst in E; subst s2
  end.

Lemma nth_error_lt {A} (l : list A) i x : nth_error l i = Some x -> i < length l.
Proof. intros H. apply nth_error_Some. congruence. Qed.

Lemma step_cap s o : CapInv s -> CapInv (step_st s o).
Proof.
  intros H. pose proof H as (H1 & H2). unfold step_st.
  destruct o; simpl.
  - trig. simpl. apply trig_put_cap. exact H.
  - trig. simpl. apply trig_get_cap. exact H.
  - destruct (existsb (owns p t) (putres s)) eqn:E; simpl; auto.
    pose proof (remove_first_len_ex _ _ E).
    destruct (Nat.ltb_spec (length (items s)) (cap s)).
    + trig. simpl. apply trig_get_cap. unfold CapInv; simpl. rewrite app_length; simpl. lia.
    + simpl. unfold CapInv; simpl. lia.
  - destruct (existsb (owns p t) (getres s)) eqn:E; simpl; auto.
    destruct (index_where (tokb t) (getres s)) as [i|] eqn:EI; simpl; auto.
    destruct (nth_error (items s) i) as [it|] eqn:EN; simpl; auto.
    pose proof (index_where_lt _ _ _ EI). pose proof (nth_error_lt _ _ _ EN).
    trig. simpl. apply trig_put_cap. unfold CapInv; simpl.
    pose proof (remove_nth_len_lt i (items s)). pose proof (remove_nth_len_lt i (getres s)). lia.
  - destruct (existsb (tokb t) (putq s)).
    + trig. simpl. apply trig_put_cap. exact H.
    + destruct (existsb (tokb t) (putres s)) eqn:E; simpl; auto.
      pose proof (remove_first_len_ex _ _ E).
      trig. simpl. apply trig_put_cap. unfold CapInv; simpl. lia.
  - destruct (existsb (tokb t) (getq s)).
    + trig. simpl. apply trig_get_cap. exact H.
    + destruct (index_where (tokb t) (getres s)) as [i|] eqn:EI; simpl; auto.
      destruct (nth_error (items s) i) as [it|] eqn:EN; simpl; auto.
      pose proof (index_where_lt _ _ _ EI). pose proof (nth_error_lt _ _ _ EN).
      trig. simpl. apply trig_get_cap. unfold CapInv; simpl. rewrite insert_at_len.
      pose proof (remove_nth_len_lt i (items s)). pose proof (remove_nth_len_lt i (getres s)). lia.
  - trig. simpl. apply trig_get_cap. exact H.
  - destruct (0 <=? d)%Z; simpl; exact H.
  - destruct (next s <=? n); simpl; exact H.
Qed.

Lemma run_inv (P : store -> Prop) :
  (forall s o, P s -> P (step_st s o)) -> forall ops s, P s -> P (run s ops).
Proof.
  intros Hs ops. unfold run. induction ops as [|o ops IH]; simpl; intros s H; auto.
Qed.

Lemma init_cap k c td : CapInv (init k c td).
Proof. unfold CapInv; simpl; lia. Qed.

Theorem cap_inv_reachable k c td ops : CapInv (run (init k c td) ops).
Proof. apply run_inv; [apply step_cap | apply init_cap]. Qed.

(* a put made with a granted, un-cancelled reservation of one's own succeeds *)
Theorem granted_put_ok s p t i :
  CapInv s -> existsb (owns p t) (putres s) = true ->
  snd (fst (step s (Put p t i))) = OOk /\
  In (stamp s i) (items (step_st s (Put p t i))) /\
  CapInv (step_st s (Put p t i)).
Proof.
  intros H E. pose proof (step_cap s (Put p t i) H) as HC. revert HC.
  unfold step_st. simpl. rewrite E.
  pose proof (remove_first_len_ex _ _ E). destruct H as (H1 & H2).
  destruct (Nat.ltb_spec (length (items s)) (cap s)); [|lia].
  trig. simpl. intros HC. split; [reflexivity|]. split; [|exact HC].
  eapply Permutation_in; [symmetry; apply trig_get_items_perm|].
  simpl. apply in_or_app. right. left. reflexivity.
Qed.

(* a get made with a granted, un-cancelled reservation of one's own succeeds and returns the
   item at the reservation's position *)
Theorem granted_get_ok s p t :
  CapInv s -> existsb (owns p t) (getres s) = true ->
  exists i it, index_where (tokb t) (getres s) = Some i /\ nth_error (items s) i = Some it /\
               snd (fst (step s (Get p t))) = OItem it.
Proof.
  intros (H1 & H2) E. simpl. rewrite E.
  assert (E' : existsb (tokb t) (getres s) = true).
  { apply existsb_exists in E as (r & Hr & Ho). apply existsb_exists. exists r. split; auto.
    unfold owns in Ho. apply andb_prop in Ho. apply Ho. }
  destruct (index_where_some _ _ E') as [i EI]. rewrite EI.
  pose proof (index_where_lt _ _ _ EI).
  destruct (nth_error (items s) i) as [it|] eqn:EN.
  - exists i, it. repeat split; auto. trig. reflexivity.
  - apply nth_error_None in EN. lia.
Qed.

(* ------------------------------------------------------------------ conservation (C02) *)

Definition put_of (s : store) (o : op) (r : out) : list item :=
  match o, r with Put _ _ i, OOk => [stamp s i] | _, _ => [] end.
Definition got_of (r : out) : list item :=
  match r with OItem it => [it] | _ => [] end.

Lemma nth_error_nth {A} (l : list A) i x d : nth_error l i = Some x -> nth i l d = x.
Proof. revert i; induction l as [|y l IH]; intros [|i]; simpl; try discriminate; [congruence|auto]. Qed.

(* one step: what is inside afterwards plus what the step returned is what was inside before
   plus what the step put -- as multisets, with no hypothesis on the items *)
Lemma step_conserve s o :
  let '(s', r, _) := step s o in
  Permutation (items s' ++ got_of r) (items s ++ put_of s o r).
Proof.
  destruct o; simpl.
  - trig. simpl. rewrite !app_nil_r. rewrite trig_put_items. reflexivity.
  - trig. simpl. rewrite !app_nil_r, trig_get_items_perm. reflexivity.
  - destruct (existsb (owns p t) (putres s)); simpl; [|reflexivity].
    destruct (length (items s) <? cap s); simpl; [|reflexivity].
    trig. simpl. rewrite app_nil_r, trig_get_items_perm. reflexivity.
  - destruct (existsb (owns p t) (getres s)); simpl; [|reflexivity].
    destruct (index_where (tokb t) (getres s)) as [i|]; simpl; [|reflexivity].
    destruct (nth_error (items s) i) as [it|] eqn:EN; simpl; [|reflexivity].
    trig. simpl. rewrite trig_put_items. simpl.
    rewrite app_nil_r. pose proof (nth_error_lt _ _ _ EN) as L.
    rewrite (remove_nth_perm i (items s) it L) at 2. rewrite (nth_error_nth _ _ _ it EN).
    symmetry. apply Permutation_cons_append.
  - destruct (existsb (tokb t) (putq s)).
    + trig. simpl. rewrite trig_put_items. reflexivity.
    + destruct (existsb (tokb t) (putres s)); simpl; [|reflexivity].
      trig. simpl. rewrite trig_put_items. reflexivity.
  - destruct (existsb (tokb t) (getq s)).
    + trig. simpl. rewrite !app_nil_r, trig_get_items_perm. reflexivity.
    + destruct (index_where (tokb t) (getres s)) as [i|]; simpl; [|reflexivity].
      destruct (nth_error (items s) i) as [it|] eqn:EN; simpl; [|reflexivity].
      trig. simpl. rewrite !app_nil_r. rewrite trig_get_items_perm. simpl.
      rewrite insert_at_perm. pose proof (nth_error_lt _ _ _ EN) as L.
      rewrite (remove_nth_perm i (items s) it L) at 2. rewrite (nth_error_nth _ _ _ it EN). reflexivity.
  - trig. simpl. rewrite !app_nil_r, trig_get_items_perm. reflexivity.
  - destruct (0 <=? d)%Z; reflexivity.
  - destruct (next s <=? n); reflexivity.
Qed.

(* all items put / got along a run *)
Fixpoint puts_of (s : store) (ops : list op) : list item :=
  match ops with
  | [] => []
  | o :: ops' => let '(s', r, _) := step s o in put_of s o r ++ puts_of s' ops'
  end.
Fixpoint gots_of (s : store) (ops : list op) : list item :=
  match ops with
  | [] => []
  | o :: ops' => let '(s', r, _) := step s o in got_of r ++ gots_of s' ops'
  end.

Theorem conservation s ops :
  Permutation (items (run s ops) ++ gots_of s ops) (items s ++ puts_of s ops).
Proof.
  revert s. induction ops as [|o ops IH]; intros s; simpl.
  - reflexivity.
  - pose proof (step_conserve s o) as H. unfold run in *. simpl. unfold step_st at 2.
    destruct (step s o) as [[s' r] ts]. simpl.
    transitivity (got_of r ++ (items (fold_left step_st ops s') ++ gots_of s' ops)).
    { rewrite !app_assoc. apply Permutation_app_tail. apply Permutation_app_comm. }
    rewrite IH.
    transitivity ((items s' ++ got_of r) ++ puts_of s' ops).
    { rewrite app_assoc. apply Permutation_app_tail. apply Permutation_app_comm. }
    rewrite H. rewrite app_assoc. reflexivity.
Qed.
