(* Bound-item store model: service order of requests (C05), retrieval discipline (C06),
   rejection of ill-formed calls (C07). *)
From Coq Require Import List ZArith Lia Bool Arith Permutation Sorted.
From FV Require Import ListLemmas ListLemmas2 Queue StoreB StoreBInv StoreBProps.
Import ListNotations.

Lemma ins_gins r q : ins r q = gins r_prio r q.
Proof. induction q as [|x q IH]; simpl; try rewrite IH; auto. Qed.

Notation qs := (qsorted r_prio r_tok).
Notation bel := (below r_tok).
Notation rlt := (klt r_prio r_tok).

(* ------------------------------------------------------------------ C05 *)

Definition QInv (s : store) : Prop :=
  qs (putq s) /\ qs (getq s) /\ bel (next s) (putq s) /\ bel (next s) (getq s).

Lemma trig_put_q s : QInv s -> QInv (fst (trig_put s)).
Proof.
  intros (A & B & C & D). unfold trig_put. destruct (putq s) as [|r q] eqn:E; simpl.
  { unfold QInv. rewrite E. auto. }
  destruct (allow_put s); simpl.
  - unfold QInv; simpl. repeat split; auto. eapply sorted_tail; eauto. eapply below_tail; eauto.
  - unfold QInv. rewrite E. auto.
Qed.

Lemma trig_get_q s s' ts : trig_get s = Some (s', ts) -> QInv s -> QInv s'.
Proof.
  unfold trig_get. intros E (A & B & C & D). destruct (getq s) as [|r q] eqn:EQ.
  { inversion E; subst. unfold QInv. rewrite EQ. auto. }
  destruct (allow_get s).
  - destruct (pick s); [|discriminate]. inversion E; subst. unfold QInv; simpl.
    repeat split; auto. eapply sorted_tail; eauto. eapply below_tail; eauto.
  - inversion E; subst. unfold QInv. rewrite EQ. auto.
Qed.

Lemma step_qinv s o : QInv s -> QInv (step_st s o).
Proof.
  intros HQ. pose proof HQ as (A & B & C & D). unfold step_st.
  destruct o; simpl; unfold after_get.
  - tp. simpl. apply trig_put_q. unfold QInv; simpl. rewrite ins_gins. repeat split; auto.
    + eapply gins_sorted; eauto.
    + apply gins_below; simpl; auto. eapply below_mono; [|eauto]. lia.
    + eapply below_mono; [|eauto]. lia.
  - destruct (trig_get _) as [[s2 ts]|] eqn:E; simpl; auto.
    eapply trig_get_q; [exact E|]. unfold QInv; simpl. rewrite ins_gins. repeat split; auto.
    + eapply gins_sorted; eauto.
    + eapply below_mono; [|eauto]. lia.
    + apply gins_below; simpl; auto. eapply below_mono; [|eauto]. lia.
  - destruct (existsb (owns p t) (putres s)); simpl; auto.
    destruct (length (transit s) + length (ready s) <? cap s); simpl; auto.
    destruct (s_kind s).
    + destruct (trig_get _) as [[s2 ts]|] eqn:E; simpl; auto. eapply trig_get_q; [exact E|]. exact HQ.
    + destruct (trig_get _) as [[s2 ts]|] eqn:E; simpl; auto.
      destruct (trig_get s2) as [[s3 ts3]|] eqn:E3; simpl; auto.
      eapply trig_get_q; [exact E3|]. eapply trig_get_q; [exact E|]. exact HQ.
    + destruct (trig_get _) as [[s2 ts]|] eqn:E; simpl; auto. eapply trig_get_q; [exact E|]. exact HQ.
    + destruct (trig_get _) as [[s2 ts]|] eqn:E; simpl; auto. eapply trig_get_q; [exact E|]. exact HQ.
  - destruct (existsb (owns2 p t) (getres s)); simpl; auto.
    destruct (index_where (tokb2 t) (getres s)) as [i|]; simpl; auto.
    destruct (nth_error (getres s) i) as [[r it]|]; simpl; auto.
    destruct (existsb (Nat.eqb it) (ready s)); simpl; auto.
    tp. simpl. apply trig_put_q. exact HQ.
  - destruct (existsb (tokb t) (putq s)).
    + tp. simpl. apply trig_put_q. unfold QInv; simpl. repeat split; auto.
      apply remove_first_sorted; auto. apply remove_first_below; auto.
    + destruct (existsb (tokb t) (putres s)); simpl; auto. tp. simpl. apply trig_put_q. exact HQ.
  - destruct (existsb (tokb t) (getq s)).
    + destruct (trig_get _) as [[s2 ts]|] eqn:E; simpl; auto. eapply trig_get_q; [exact E|].
      unfold QInv; simpl. repeat split; auto.
      apply remove_first_sorted; auto. apply remove_first_below; auto.
    + destruct (index_where (tokb2 t) (getres s)) as [i|]; simpl; auto.
      destruct (nth_error (getres s) i) as [[r it]|]; simpl; auto.
      destruct (existsb (Nat.eqb it) (ready s)); simpl; auto.
      destruct (trig_get _) as [[s2 ts]|] eqn:E; simpl; auto. eapply trig_get_q; [exact E|]. exact HQ.
  - destruct (existsb (Nat.eqb i) (transit s)); simpl; auto.
    destruct (ready_guard _ _); simpl; auto.
    destruct (trig_get _) as [[s2 ts]|] eqn:E; simpl; auto.
    tp. simpl. apply trig_put_q. eapply trig_get_q; [exact E|]. exact HQ.
  - exact HQ.
  - tp. simpl. apply trig_put_q. exact HQ.
  - destruct (Nat.leb_spec (next s) n); simpl; auto.
    unfold QInv; simpl. repeat split; auto; eapply below_mono; eauto.
Qed.

Lemma init_qinv k m c : QInv (init k m c).
Proof. unfold QInv; simpl. repeat split; constructor. Qed.

Theorem qinv_reachable k m c ops : QInv (run (init k m c) ops).
Proof.
  unfold run. generalize (init_qinv k m c). generalize (init k m c).
  induction ops as [|o ops IH]; simpl; intros s H; auto. apply IH, step_qinv, H.
Qed.

(* every grant serves the request that is first by (priority, arrival), and leaves the others
   in their order *)
Theorem trig_put_serves_min s s' t :
  QInv s -> trig_put s = (s', [t]) ->
  exists r q, putq s = r :: q /\ t = r_tok r /\ putq s' = q /\ putres s' = putres s ++ [r] /\
              forall y, In y q -> rlt r y.
Proof.
  intros (A & _) E. unfold trig_put in E. destruct (putq s) as [|r q] eqn:EQ; [inversion E|].
  destruct (allow_put s); inversion E; subst. exists r, q. simpl. repeat split; auto.
  intros y Hy. eapply sorted_head_min; eauto.
Qed.

Theorem trig_get_serves_min s s' t :
  QInv s -> trig_get s = Some (s', [t]) ->
  exists r q it, getq s = r :: q /\ t = r_tok r /\ getq s' = q /\ getres s' = getres s ++ [(r, it)] /\
                 pick s = Some it /\ forall y, In y q -> rlt r y.
Proof.
  intros (_ & B & _) E. unfold trig_get in E. destruct (getq s) as [|r q] eqn:EQ; [inversion E|].
  destruct (allow_get s); [|inversion E].
  destruct (pick s) as [it|] eqn:EP; inversion E; subst. exists r, q, it. simpl. repeat split; auto.
  intros y Hy. eapply sorted_head_min; eauto.
Qed.

(* trigger functions grant at most one request per call *)
Lemma trig_put_at_most_one s : length (snd (trig_put s)) <= 1.
Proof. unfold trig_put. destruct (putq s); simpl; auto. destruct (allow_put s); simpl; auto. Qed.
Lemma trig_get_at_most_one s s' ts : trig_get s = Some (s', ts) -> length ts <= 1.
Proof.
  unfold trig_get. destruct (getq s); [intros [= <- <-]; simpl; auto|].
  destruct (allow_get s); [|intros [= <- <-]; simpl; auto].
  destruct (pick s); [|discriminate]. intros [= <- <-]. simpl; auto.
Qed.

(* ------------------------------------------------------------------ C06 *)

Lemma trig_put_ready s : ready (fst (trig_put s)) = ready s.
Proof. apply trig_put_fields. Qed.
Lemma trig_get_ready s s' ts : trig_get s = Some (s', ts) -> ready s' = ready s.
Proof. intros E. apply trig_get_fields in E. apply E. Qed.

(* the availability order: ready_items only ever changes by appending the item that just became
   available, or by deleting the item that was retrieved *)
Theorem ready_shape s o :
  let '(s', r, _) := step s o in
  ready s' = ready s
  \/ (exists i, o = Ready i /\ ready s' = ready s ++ [i])
  \/ (exists it, r = OItem it /\ ready s' = remove_first (Nat.eqb it) (ready s)).
Proof.
  destruct o; simpl; unfold after_get.
  - tp. simpl. left. rewrite trig_put_ready. reflexivity.
  - destruct (trig_get _) as [[s2 ts]|] eqn:E; simpl; auto. left. rewrite (trig_get_ready _ _ _ E). reflexivity.
  - destruct (existsb (owns p t) (putres s)); simpl; auto.
    destruct (length (transit s) + length (ready s) <? cap s); simpl; auto.
    destruct (s_kind s).
    + destruct (trig_get _) as [[s2 ts]|] eqn:E; simpl; auto. left. rewrite (trig_get_ready _ _ _ E). reflexivity.
    + destruct (trig_get _) as [[s2 ts]|] eqn:E; simpl; auto.
      destruct (trig_get s2) as [[s3 ts3]|] eqn:E3; simpl; auto. left.
      apply trig_get_fields in E3. apply trig_get_fields in E.
      destruct E3 as (_ & _ & -> & _). destruct E as (_ & _ & -> & _). reflexivity.
    + destruct (trig_get _) as [[s2 ts]|] eqn:E; simpl; auto. left. rewrite (trig_get_ready _ _ _ E). reflexivity.
    + destruct (trig_get _) as [[s2 ts]|] eqn:E; simpl; auto. left. rewrite (trig_get_ready _ _ _ E). reflexivity.
  - destruct (existsb (owns2 p t) (getres s)); simpl; auto.
    destruct (index_where (tokb2 t) (getres s)) as [i|]; simpl; auto.
    destruct (nth_error (getres s) i) as [[r it]|]; simpl; auto.
    destruct (existsb (Nat.eqb it) (ready s)); simpl; auto.
    tp. simpl. right. right. exists it. split; auto.
    match goal with |- context [trig_put ?z] => destruct (trig_put_fields z) as (_ & _ & -> & _) end. reflexivity.
  - destruct (existsb (tokb t) (putq s)).
    + tp. simpl. left. rewrite trig_put_ready. reflexivity.
    + destruct (existsb (tokb t) (putres s)); simpl; auto. tp. simpl. left. rewrite trig_put_ready. reflexivity.
  - destruct (existsb (tokb t) (getq s)).
    + destruct (trig_get _) as [[s2 ts]|] eqn:E; simpl; auto. left. rewrite (trig_get_ready _ _ _ E). reflexivity.
    + destruct (index_where (tokb2 t) (getres s)) as [i|]; simpl; auto.
      destruct (nth_error (getres s) i) as [[r it]|]; simpl; auto.
      destruct (existsb (Nat.eqb it) (ready s)); simpl; auto.
      destruct (trig_get _) as [[s2 ts]|] eqn:E; simpl; auto. left. rewrite (trig_get_ready _ _ _ E). reflexivity.
  - destruct (existsb (Nat.eqb i) (transit s)); simpl; auto.
    destruct (ready_guard _ _); simpl; auto.
    destruct (trig_get _) as [[s2 ts]|] eqn:E; simpl; auto.
    tp. simpl. right. left. exists i. split; auto.
    match goal with |- context [trig_put ?z] => destruct (trig_put_fields z) as (_ & _ & -> & _) end.
    apply trig_get_fields in E. destruct E as (_ & _ & -> & _). reflexivity.
  - auto.
  - tp. simpl. left. rewrite trig_put_ready. reflexivity.
  - destruct (next s <=? n); simpl; auto.
Qed.

(* a grant binds the oldest (FIFO) / newest (LIFO) ready item that no other reservation holds *)
Theorem grant_discipline s s' t :
  trig_get s = Some (s', [t]) ->
  exists r it, getres s' = getres s ++ [(r, it)] /\ r_tok r = t /\
    match s_mode s with
    | FIFO => hd_error (unreserved s) = Some it
    | LIFO => hd_error (rev (unreserved s)) = Some it
    end.
Proof.
  unfold trig_get. destruct (getq s) as [|r q]; [intros [= <-]|].
  destruct (allow_get s); [|intros [= <-]].
  destruct (pick s) as [it|] eqn:EP; [|discriminate]. intros [= <- <-].
  exists r, it. simpl. repeat split; auto.
  unfold pick in EP. destruct (s_mode s); exact EP.
Qed.

(* the unreserved items are always listed in availability order *)
Lemma unreserved_order s x y a b c :
  unreserved s = a ++ x :: b ++ y :: c -> exists a' b' c', ready s = a' ++ x :: b' ++ y :: c'.
Proof.
  unfold unreserved. generalize (fun it : nat => negb (existsb (Nat.eqb it) (reserved s))) as f.
  intros f. revert a. induction (ready s) as [|z l IH]; simpl; intros a E.
  - destruct a; discriminate.
  - destruct (f z).
    + destruct a as [|a0 a]; simpl in E.
      * inversion E; subst. clear IH E.
        assert (In y l) as Hy.
        { assert (In y (filter f l)) as K by (rewrite H1; apply in_or_app; right; left; auto).
          apply filter_In in K. apply K. }
        apply in_split in Hy as (l1 & l2 & ->). exists [], l1, l2. reflexivity.
      * inversion E; subst. destruct (IH _ H1) as (a' & b' & c' & ->). exists (a0 :: a'), b', c'. reflexivity.
    + destruct (IH _ E) as (a' & b' & c' & ->). exists (z :: a'), b', c'. reflexivity.
Qed.

(* cancelling a granted retrieval only unbinds its item: ready_items is untouched, so the item
   is back among the unreserved ones at its availability position; every other binding stays *)
Theorem cancel_granted_unbinds s t i r it :
  Inv s -> existsb (tokb t) (getq s) = false ->
  index_where (tokb2 t) (getres s) = Some i -> nth_error (getres s) i = Some (r, it) ->
  exists s1 ts, step s (CGet t) = (s1, OOk, ts) /\ ready s1 = ready s /\ transit s1 = transit s /\
    (getq s = [] -> getres s1 = remove_nth i (getres s) /\ In it (unreserved s1)).
Proof.
  intros HI EQ EI EN. pose proof HI as (H1 & H2 & H3 & H4). simpl. rewrite EQ, EI, EN.
  assert (In it (ready s)) as Hin.
  { apply H4. unfold reserved. apply in_map_iff. exists (r, it). split; auto. eapply nth_error_In; eauto. }
  rewrite (proj2 (existsb_eqb_In _ _) Hin).
  assert (Inv (set_getres s (remove_nth i (getres s)))) as HX.
  { unfold Inv, used, contents, reserved in *; simpl. rewrite map_remove_nth. repeat split; auto.
    - apply NoDup_remove_nth; auto.
    - intros x Hx. apply H4. eapply remove_nth_incl; eauto. }
  destruct (trig_get_inv _ HX) as (s2 & ts & E & I). rewrite E. simpl.
  exists s2, ts. split; auto.
  destruct (trig_get_fields _ _ _ E) as (_ & T & R & _). simpl in *. repeat split; auto.
  - unfold trig_get in E. simpl in E. rewrite H in E. inversion E; subst. reflexivity.
  - unfold trig_get in E. simpl in E. rewrite H in E. inversion E; subst.
    unfold unreserved, reserved. simpl. apply filter_In. split; auto.
    apply negb_true_iff, existsb_eqb_nIn. rewrite map_remove_nth.
    apply remove_nth_not_in; auto. rewrite nth_error_map, EN. reflexivity.
Qed.

(* ------------------------------------------------------------------ C07 *)

Definition illformed (s : store) (o : op) : bool :=
  match o with
  | Put p t _ => negb (existsb (owns p t) (putres s))
  | Get p t => negb (existsb (owns2 p t) (getres s))
  | CPut t => negb (existsb (tokb t) (putq s)) && negb (existsb (tokb t) (putres s))
  | CGet t => negb (existsb (tokb t) (getq s)) && negb (existsb (tokb2 t) (getres s))
  | _ => false
  end.

Theorem rejected_is_noop s o : illformed s o = true -> step s o = (s, OErr ERuntime, []).
Proof.
  destruct o; simpl; try discriminate.
  - intros H. apply negb_true_iff in H. rewrite H. reflexivity.
  - intros H. apply negb_true_iff in H. rewrite H. reflexivity.
  - intros H. apply andb_prop in H as (A & B). apply negb_true_iff in A, B. rewrite A, B. reflexivity.
  - intros H. apply andb_prop in H as (A & B). apply negb_true_iff in A, B. rewrite A.
    rewrite (index_where_none _ _ B). reflexivity.
Qed.

(* conversely a call that is not ill-formed never raises (given the invariant) *)
Theorem wellformed_accepted s o :
  Inv s -> fresh_op s o -> illformed s o = false ->
  match snd (fst (step s o)) with OErr _ => match o with Ready _ => True | _ => False end | _ => True end.
Proof.
  intros HI HF W. pose proof HI as (H1 & H2 & H3 & H4). destruct o; simpl in W.
  - simpl. tp. simpl. auto.
  - simpl; unfold after_get.
    match goal with |- context [trig_get ?z] => assert (Inv z) as HX by (apply inv_set_next, inv_set_getq, HI) end.
    tg HX. simpl. auto.
  - apply negb_false_iff in W. destruct (granted_put_ok s p t i HI HF W) as (K & _). rewrite K. auto.
  - apply negb_false_iff in W. destruct (granted_get_ok s p t HI W) as (i & r & it & _ & _ & _ & K & _).
    rewrite K. auto.
  - simpl. destruct (existsb (tokb t) (putq s)); simpl in *.
    + tp. simpl. auto.
    + apply negb_false_iff in W. rewrite W. tp. simpl. auto.
  - simpl; unfold after_get. destruct (existsb (tokb t) (getq s)); simpl in *.
    + match goal with |- context [trig_get ?z] => assert (Inv z) as HX by (apply inv_set_getq, HI) end.
      tg HX. simpl. auto.
    + apply negb_false_iff in W. destruct (index_where_some _ _ W) as [i EI]. rewrite EI.
      pose proof (index_where_lt _ _ _ EI) as L.
      destruct (nth_error (getres s) i) as [[r it]|] eqn:EN.
      2:{ apply nth_error_None in EN. lia. }
      assert (In it (ready s)) as Hin.
      { apply H4. unfold reserved. apply in_map_iff. exists (r, it). split; auto. eapply nth_error_In; eauto. }
      rewrite (proj2 (existsb_eqb_In _ _) Hin).
      assert (Inv (set_getres s (remove_nth i (getres s)))) as HX.
      { unfold Inv, used, contents, reserved in *; simpl. rewrite map_remove_nth. repeat split; auto.
        - apply NoDup_remove_nth; auto.
        - intros x Hx. apply H4. eapply remove_nth_incl; eauto. }
      tg HX. simpl. auto.
  - destruct (snd (fst _)); auto.
  - simpl. auto.
  - simpl. tp. simpl. auto.
  - simpl. destruct (next s <=? n); simpl; auto.
Qed.
