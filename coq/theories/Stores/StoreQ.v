(* Model of PriorityReqStore (base/priority_req_store.py): a SimPy Store whose put / get request
   queues are kept sorted by key (priority, request time) with a stable sort.  Requests arrive in
   time order, so sorting stably by (priority, time) is sorting stably by priority; the token
   number is the arrival number.
   SimPy BaseResource semantics: issuing a request appends it to its queue and runs the trigger
   loop of its own side once; when the kernel later *processes* a granted put (get) request, the
   trigger loop of the get (put) side runs.  Store._do_put / _do_get return None, so a trigger
   loop tries exactly the head.  Model only; proofs below the line. *)
From Coq Require Import List ZArith Lia Bool Arith Sorted.
From FV Require Import ListLemmas ListLemmas2 Queue.
Import ListNotations.

Record qreq := { q_tok : nat; q_prio : Z; q_item : nat }.
Record qstore := { qcap : nat; qnext : nat; qitems : list nat; qputq : list qreq; qgetq : list qreq }.

Inductive qop :=
| QPut (pr : Z) (i : nat)      (* store.put(item, priority) *)
| QGet (pr : Z)                (* store.get(priority) *)
| QProcPut                     (* the kernel processes a granted put request: _trigger_get *)
| QProcGet                     (* the kernel processes a granted get request: _trigger_put *)
| QCancelPut (t : nat) | QCancelGet (t : nat).     (* request.cancel() of a waiting request *)

(* what one op grants: put tokens / (get token, item) *)
Inductive qgrant := GPut (t : nat) | GGet (t : nat) (i : nat).

Definition qtrig_put (s : qstore) : qstore * list qgrant :=
  match qputq s with
  | r :: q => if length (qitems s) <? qcap s
              then ({| qcap := qcap s; qnext := qnext s; qitems := qitems s ++ [q_item r]; qputq := q; qgetq := qgetq s |},
                    [GPut (q_tok r)])
              else (s, [])
  | [] => (s, [])
  end.

Definition qtrig_get (s : qstore) : qstore * list qgrant :=
  match qgetq s, qitems s with
  | r :: q, i :: its => ({| qcap := qcap s; qnext := qnext s; qitems := its; qputq := qputq s; qgetq := q |},
                         [GGet (q_tok r) i])
  | _, _ => (s, [])
  end.

Definition qtokb (t : nat) (r : qreq) : bool := Nat.eqb (q_tok r) t.

Definition qstep (s : qstore) (o : qop) : qstore * list qgrant :=
  match o with
  | QPut pr i =>
      let r := {| q_tok := qnext s; q_prio := pr; q_item := i |} in
      qtrig_put {| qcap := qcap s; qnext := S (qnext s); qitems := qitems s; qputq := gins q_prio r (qputq s); qgetq := qgetq s |}
  | QGet pr =>
      let r := {| q_tok := qnext s; q_prio := pr; q_item := 0 |} in
      qtrig_get {| qcap := qcap s; qnext := S (qnext s); qitems := qitems s; qputq := qputq s; qgetq := gins q_prio r (qgetq s) |}
  | QProcPut => qtrig_get s
  | QProcGet => qtrig_put s
  | QCancelPut t => ({| qcap := qcap s; qnext := qnext s; qitems := qitems s;
                        qputq := remove_first (qtokb t) (qputq s); qgetq := qgetq s |}, [])
  | QCancelGet t => ({| qcap := qcap s; qnext := qnext s; qitems := qitems s;
                        qputq := qputq s; qgetq := remove_first (qtokb t) (qgetq s) |}, [])
  end.

Definition qinit (c : nat) : qstore := {| qcap := c; qnext := 0; qitems := []; qputq := []; qgetq := [] |}.
Definition qrun (s : qstore) (ops : list qop) : qstore := fold_left (fun s o => fst (qstep s o)) ops s.
Fixpoint qrun_trace (s : qstore) (ops : list qop) : list (list qgrant * qstore) :=
  match ops with [] => [] | o :: r => let '(s', g) := qstep s o in (g, s') :: qrun_trace s' r end.

(* ------------------------------------------------------------------ proofs *)

Notation qqs := (qsorted q_prio q_tok).
Notation qbel := (below q_tok).
Notation qlt := (klt q_prio q_tok).

Definition QQInv (s : qstore) : Prop :=
  qqs (qputq s) /\ qqs (qgetq s) /\ qbel (qnext s) (qputq s) /\ qbel (qnext s) (qgetq s) /\
  length (qitems s) <= qcap s.

Lemma qtrig_put_inv s : QQInv s -> QQInv (fst (qtrig_put s)).
Proof.
  intros (A & B & C & D & E). unfold qtrig_put. destruct (qputq s) as [|r q] eqn:EQ; simpl.
  { unfold QQInv. rewrite EQ. auto. }
  destruct (Nat.ltb_spec (length (qitems s)) (qcap s)); simpl.
  - unfold QQInv; simpl. rewrite app_length; simpl. repeat split; auto; try lia.
    eapply sorted_tail; eauto. eapply below_tail; eauto.
  - unfold QQInv. rewrite EQ. auto.
Qed.

Lemma qtrig_get_inv s : QQInv s -> QQInv (fst (qtrig_get s)).
Proof.
  intros (A & B & C & D & E). unfold qtrig_get. destruct (qgetq s) as [|r q] eqn:EQ; simpl.
  { unfold QQInv. rewrite EQ. auto. }
  destruct (qitems s) as [|i its] eqn:EI; simpl.
  - unfold QQInv. rewrite EQ, EI. auto.
  - unfold QQInv; simpl. simpl in E. repeat split; auto; try lia.
    eapply sorted_tail; eauto. eapply below_tail; eauto.
Qed.

Lemma qstep_inv s o : QQInv s -> QQInv (fst (qstep s o)).
Proof.
  intros HI. pose proof HI as (A & B & C & D & E). destruct o; simpl.
  - apply qtrig_put_inv. unfold QQInv; simpl. repeat split; auto.
    + eapply gins_sorted; eauto.
    + apply gins_below; simpl; auto. eapply below_mono; [|eauto]. lia.
    + eapply below_mono; [|eauto]. lia.
  - apply qtrig_get_inv. unfold QQInv; simpl. repeat split; auto.
    + eapply gins_sorted; eauto.
    + eapply below_mono; [|eauto]. lia.
    + apply gins_below; simpl; auto. eapply below_mono; [|eauto]. lia.
  - apply qtrig_get_inv; auto.
  - apply qtrig_put_inv; auto.
  - unfold QQInv; simpl. repeat split; auto. apply remove_first_sorted; auto. apply remove_first_below; auto.
  - unfold QQInv; simpl. repeat split; auto. apply remove_first_sorted; auto. apply remove_first_below; auto.
Qed.

Theorem qinv_reachable c ops : QQInv (qrun (qinit c) ops).
Proof.
  assert (QQInv (qinit c)) as H0 by (unfold QQInv; simpl; repeat split; try constructor; lia).
  unfold qrun. revert H0. generalize (qinit c). induction ops as [|o ops IH]; simpl; intros s H; auto.
  apply IH, qstep_inv, H.
Qed.

(* every grant serves the head of its queue, which precedes all other waiting requests of that
   side in (priority, arrival) order; nothing else is granted *)
Theorem qgrant_is_min s o s' g :
  QQInv s -> qstep s o = (s', g) ->
  match g with
  | [] => True
  | [GPut t] => exists r, q_tok r = t /\ forall y, In y (qputq s') -> qlt r y
  | [GGet t i] => exists r, q_tok r = t /\ forall y, In y (qgetq s') -> qlt r y
  | _ => False
  end.
Proof.
  intros HI E. pose proof (qstep_inv s o HI) as HI'. rewrite E in HI'. simpl in HI'.
  assert (forall s1 s2 g2, QQInv s1 -> qtrig_put s1 = (s2, g2) ->
          match g2 with [] => True | [GPut t] => exists r, q_tok r = t /\ forall y, In y (qputq s2) -> qlt r y | _ => False end) as TP.
  { intros s1 s2 g2 (A & _) E2. unfold qtrig_put in E2. destruct (qputq s1) as [|r q] eqn:EQ; [inversion E2; auto|].
    destruct (length (qitems s1) <? qcap s1); inversion E2; subst; auto. simpl.
    exists r. split; auto. intros y Hy. eapply sorted_head_min; eauto. }
  assert (forall s1 s2 g2, QQInv s1 -> qtrig_get s1 = (s2, g2) ->
          match g2 with [] => True | [GGet t i] => exists r, q_tok r = t /\ forall y, In y (qgetq s2) -> qlt r y | _ => False end) as TG.
  { intros s1 s2 g2 (_ & B & _) E2. unfold qtrig_get in E2. destruct (qgetq s1) as [|r q] eqn:EQ; [inversion E2; auto|].
    destruct (qitems s1); inversion E2; subst; auto. simpl.
    exists r. split; auto. intros y Hy. eapply sorted_head_min; eauto. }
  pose proof HI as (A & B & C & D & F).
  destruct o; simpl in E.
  - match type of E with qtrig_put ?z = _ => assert (QQInv z) as HZ end.
    { unfold QQInv; simpl. repeat split; auto.
      + eapply gins_sorted; eauto.
      + apply gins_below; simpl; auto. eapply below_mono; [|eauto]. lia.
      + eapply below_mono; [|eauto]. lia. }
    pose proof (TP _ _ _ HZ E) as K. destruct g as [|[] [|]]; simpl in *; auto; try contradiction; try exact K.
  - match type of E with qtrig_get ?z = _ => assert (QQInv z) as HZ end.
    { unfold QQInv; simpl. repeat split; auto.
      + eapply gins_sorted; eauto.
      + eapply below_mono; [|eauto]. lia.
      + apply gins_below; simpl; auto. eapply below_mono; [|eauto]. lia. }
    pose proof (TG _ _ _ HZ E) as K. destruct g as [|[] [|]]; simpl in *; auto; try contradiction; try exact K.
  - pose proof (TG _ _ _ HI E) as K. destruct g as [|[] [|]]; simpl in *; auto; try contradiction; try exact K.
  - pose proof (TP _ _ _ HI E) as K. destruct g as [|[] [|]]; simpl in *; auto; try contradiction; try exact K.
  - inversion E; subst; auto.
  - inversion E; subst; auto.
Qed.

(* items leave in the order in which their put requests were granted (plain FIFO store) *)
Theorem qget_takes_oldest s s' t i :
  qtrig_get s = (s', [GGet t i]) -> exists its, qitems s = i :: its /\ qitems s' = its.
Proof.
  unfold qtrig_get. destruct (qgetq s); [intros [= <-]|]. destruct (qitems s) as [|x its]; intros [= <- <- <-].
  exists its. auto.
Qed.
