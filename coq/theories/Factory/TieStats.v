(* Tie B for the fleet's departure tests and for the arithmetic of the statistics code: expressions REGENERATED
   from /repo (generated/SrcFragments.v) on every run, against what the model computes.
     FleetStore._do_put                 capacity trigger            -> Factory.fleet_after_put
     FleetStore.fleet_activation_process  "something is waiting"    -> Factory.fleetact_block
     FleetStore.move_to_ready_items     two transit legs            -> Factory.fleetmove_block (pc 0 -> 1 -> 2)
     Node.update_state                  elapsed, charged total      -> Accounting.nacc_step / Factory.update_state
     Sink.behaviour                     cycle-time increment        -> FactoryStamp.contrib (LRecv entry)
     *_update_time_averaged_level       weighted-sum increment, level -> Accounting.lacc_step / World.e_update_level *)
From Coq Require Import List ZArith Lia Bool Arith.
From FV Require Import ListLemmas Kernel SrcFragments Lens Accounting World.
From FV Require StoreB FactoryStamp.
Import ListNotations.
Open Scope Z_scope.

Lemma eqb_nat_Z a b : (a =? b)%nat = (Z.of_nat a =? Z.of_nat b).
Proof. destruct (Nat.eqb_spec a b); destruct (Z.eqb_spec (Z.of_nat a) (Z.of_nat b)); auto; lia. Qed.

(* the capacity trigger of the model's fleet_after_put is the regenerated test *)
Lemma fleet_capacity_trigger_src s :
  FleetStore_capacity_trigger (lensB s) = (length (StoreB.transit s) + length (StoreB.ready s) =? StoreB.cap s)%nat.
Proof. unfold FleetStore_capacity_trigger, lensB, zl. simpl. rewrite eqb_nat_Z, Nat2Z.inj_add. reflexivity. Qed.

(* a batch leaves exactly when something is waiting *)
Lemma fleet_activation_guard_src s :
  FleetStore_activation_guard (lensB s) = match StoreB.transit s with [] => false | _ => true end.
Proof. unfold FleetStore_activation_guard, lensB, zl. simpl. destruct (StoreB.transit s); reflexivity. Qed.

(* a trip is two transit legs *)
Lemma fleet_transit_legs_src : FleetStore_transit_legs = 2.
Proof. reflexivity. Qed.

(* Node.update_state charges the elapsed time to the state that is being left *)
Lemma node_elapsed_src now_ last : Node_elapsed now_ last = now_ - last.
Proof. reflexivity. Qed.
Lemma node_state_charge_src a t s' :
  (na_state a < length (na_tot a))%nat ->
  nth (na_state a) (na_tot (nacc_step a (t, s'))) 0 = Node_state_charge (nth (na_state a) (na_tot a) 0) t (na_last a).
Proof.
  intros L. unfold nacc_step, Node_state_charge. simpl.
  generalize dependent (na_state a). generalize (na_tot a). induction l as [|x l IH]; intros [|k] L; simpl in *; try lia.
  apply IH. lia.
Qed.

(* the sink adds reception time - creation stamp; this is the contribution of an LRecv entry to the cycle total *)
Lemma sink_cycle_increment_src n t i c : FactoryStamp.contrib n (LRecv t n i c) = Sink_cycle_increment t c.
Proof. unfold FactoryStamp.contrib, Sink_cycle_increment. rewrite Nat.eqb_refl. reflexivity. Qed.

(* _update_time_averaged_level of both stores is the accumulator step of Accounting.v on the true occupancy *)
Lemma level_increment_src a t n :
  l_sum (lacc_step a (t, n)) = l_sum a + BufferStore_level_increment t (l_t a) (l_n a) /\
  l_sum (lacc_step a (t, n)) = l_sum a + FleetStore_level_increment t (l_t a) (l_n a).
Proof. split; reflexivity. Qed.
Lemma level_count_src s :
  BufferStore_level_count (lensB s) = Z.of_nat (length (StoreB.transit s) + length (StoreB.ready s)) /\
  FleetStore_level_count (lensB s) = Z.of_nat (length (StoreB.transit s) + length (StoreB.ready s)).
Proof. unfold BufferStore_level_count, FleetStore_level_count, lensB, zl. simpl. rewrite Nat2Z.inj_add. split; reflexivity. Qed.
