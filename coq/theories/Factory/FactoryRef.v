(* Whole-factory invariant for C20 (and for the model itself): every resume callback registered with the kernel names
   an existing process.  The model's [run_cb] refuses to resume a process index beyond the process table (it stops the
   run instead of running the table's default record); this file shows that the refusal never happens: in every
   reachable world of every configuration all the callbacks handed out by a kernel pop name existing processes.
   Lifted through all process blocks with the tactic of FactoryInv.v. *)
From Coq Require Import List ZArith Lia Bool Arith.
From RecordUpdate Require Import RecordUpdate.
From FV Require Import ListLemmas Kernel SrcFragments Lens World Factory.
From FV Require FactoryInv.
From FV Require StoreB.
Import ListNotations.
Open Scope Z_scope.

Definition cb_ok (n : nat) (c : cb) : Prop := match c with CbResume p => (p < n)%nat | _ => True end.
(* all callbacks of all events of kernel k name processes below n *)
Definition RK (k : kern) (n : nat) : Prop := Forall (fun e => Forall (cb_ok n) (e_cbs e)) (evs k).

Lemma cb_ok_mono n m c : (n <= m)%nat -> cb_ok n c -> cb_ok m c.
Proof. destruct c; simpl; auto. lia. Qed.
Lemma RK_mono k n m : (n <= m)%nat -> RK k n -> RK k m.
Proof.
  intros L H. unfold RK in *. eapply Forall_impl; [|exact H]. intros e He. eapply Forall_impl; [|exact He].
  intros c. apply cb_ok_mono. exact L.
Qed.
Lemma Forall_upd {A} (P : A -> Prop) n f : (forall x, P x -> P (f x)) -> forall l, Forall P l -> Forall P (upd n f l).
Proof.
  intros K. induction n as [|n IH]; intros [|x l] H; simpl; auto; inversion H; subst; constructor; auto.
Qed.
Lemma upd_length {A} n (f : A -> A) l : length (upd n f l) = length l.
Proof. revert l. induction n as [|n IH]; intros [|x l]; simpl; auto. Qed.

Lemma RK_set_evs_same k n q sq nw : RK k n -> RK {| now := nw; seq := sq; queue := q; evs := evs k |} n.
Proof. auto. Qed.
Lemma RK_new_event k n : RK k n -> RK (fst (new_event k)) n.
Proof. unfold RK, new_event. simpl. intros H. apply Forall_app. split; auto. constructor; auto. constructor. Qed.
Lemma RK_schedule k e p d n : RK k n -> RK (schedule k e p d) n.
Proof. auto. Qed.
Lemma RK_mark_trig k e n : RK k n -> RK (mark_trig k e) n.
Proof. unfold RK, mark_trig, set_evs. simpl. apply Forall_upd. auto. Qed.
Lemma RK_add_cb k e c n : cb_ok n c -> RK k n -> RK (add_cb k e c) n.
Proof.
  unfold RK, add_cb, set_evs. simpl. intros C. apply Forall_upd. intros x Hx. simpl. apply Forall_app. split; auto.
Qed.
Lemma RK_succeed k e k' n : succeed k e = Some k' -> RK k n -> RK k' n.
Proof. unfold succeed. destruct (e_trig _); [discriminate|]. intros [= <-] H. apply RK_schedule, RK_mark_trig, H. Qed.
Lemma RK_timeout k d n : RK k n -> RK (fst (timeout k d)) n.
Proof. intros H. unfold timeout. simpl. apply RK_schedule, RK_mark_trig. apply (RK_new_event k n H). Qed.
Lemma RK_check k c n : RK k n -> RK (check k c) n.
Proof. unfold check. intros H. destruct (e_trig _); auto. apply RK_schedule, RK_mark_trig, H. Qed.
Lemma RK_any_of_fold c l n : forall k0, RK k0 n ->
  RK (fold_left (fun k1 e1 => if e_proc (get_ev k1 e1) then check k1 c else add_cb k1 e1 (CbCheck c)) l k0) n.
Proof.
  induction l as [|x l IH]; simpl; intros k0 H; auto. apply IH.
  destruct (e_proc _); [apply RK_check; exact H|apply RK_add_cb; [exact I|exact H]].
Qed.
Lemma RK_any_of k es n : RK k n -> RK (fst (any_of k es)) n.
Proof.
  intros H. unfold any_of. pose proof (RK_new_event k n H) as H1. simpl in *. destruct es as [|e es].
  - cbn [fst]. apply RK_schedule, RK_mark_trig. exact H1.
  - cbn [fst]. apply RK_any_of_fold. exact H1.
Qed.
Lemma RK_pop k k' e cbs n : pop k = Some (k', e, cbs) -> RK k n -> RK k' n /\ Forall (cb_ok n) cbs.
Proof.
  unfold pop. destruct (queue k) as [|x q]; [discriminate|]. intros [= <- _ <-] H. split.
  - unfold RK in *. simpl. apply Forall_upd; auto. intros y Hy. simpl. constructor.
  - unfold RK in H. unfold get_ev. destruct (Nat.lt_ge_cases (q_ev x) (length (evs k))) as [L|L].
    + rewrite Forall_forall in H. apply H. apply nth_In. exact L.
    + rewrite nth_overflow by exact L. constructor.
Qed.
Lemma RK_res_trig_put k r k' r' n : res_trig_put k r = Some (k', r') -> RK k n -> RK k' n.
Proof.
  unfold res_trig_put. destruct (r_putq r); [intros [= <- _]; auto|]. destruct (_ <? _)%nat; [|intros [= <- _]; auto].
  destruct (succeed k n0) eqn:E; [|discriminate]. intros [= <- _]. eapply RK_succeed; eauto.
Qed.
Lemma RK_res_trig_get k r k' r' n : res_trig_get k r = Some (k', r') -> RK k n -> RK k' n.
Proof.
  unfold res_trig_get. destruct (r_getq r) as [|[g q] rest]; [intros [= <- _]; auto|].
  destruct (succeed k g) eqn:E; [|discriminate]. intros [= <- _]. eapply RK_succeed; eauto.
Qed.
Lemma RK_res_request k rid r k' r' q n : res_request k rid r = Some (k', r', q) -> RK k n -> RK k' n.
Proof.
  unfold res_request. simpl. destruct (res_trig_put _ _) as [[k3 r3]|] eqn:E; [|discriminate].
  intros [= <- _ _] H. eapply RK_res_trig_put; [exact E|]. apply RK_add_cb; [exact I|]. apply (RK_new_event k n H).
Qed.
Lemma RK_res_release k rid r q k' r' g n : res_release k rid r q = Some (k', r', g) -> RK k n -> RK k' n.
Proof.
  unfold res_release. simpl. destruct (res_trig_get _ _) as [[k3 r3]|] eqn:E; [|discriminate].
  intros [= <- _ _] H. eapply RK_res_trig_get; [exact E|]. apply RK_add_cb; [exact I|]. apply (RK_new_event k n H).
Qed.

Section AtLeast.
Variable m : nat.        (* the process table never shrinks: it has at least m entries throughout *)
Definition CN (w : world) : Prop := RK (wk w) (length (wprocs w)) /\ (m <= length (wprocs w))%nat.

Lemma same_c w w' : wk w' = wk w -> length (wprocs w') = length (wprocs w) -> CN w -> CN w'.
Proof. unfold CN. intros -> ->. auto. Qed.
Lemma setk_c w k : RK k (length (wprocs w)) -> CN w -> CN (w <| wk := k |>).
Proof. intros R (_ & L). split; auto. Qed.

Create HintDb cdb.

Lemma crashw_c w c : CN w -> CN (crashw w c).
Proof. unfold crashw. destruct (wcrash w); auto. Qed.
Lemma logw_c w x : CN w -> CN (logw w x).
Proof. auto. Qed.
Lemma upd_edge_c w e f : CN w -> CN (upd_edge w e f).
Proof. auto. Qed.
Lemma upd_node_c w e f : CN w -> CN (upd_node w e f).
Proof. auto. Qed.
Lemma upd_item_c w e f : CN w -> CN (upd_item w e f).
Proof. auto. Qed.
Lemma upd_proc_c w e f : CN w -> CN (upd_proc w e f).
Proof. unfold CN, upd_proc. cbn [wk wprocs set]. simpl. rewrite upd_length. auto. Qed.
Lemma rk_of w : CN w -> RK (wk w) (length (wprocs w)).
Proof. intros (A & _). exact A. Qed.
Lemma setpc_c w p pc : CN w -> CN (setpc w p pc).
Proof. apply upd_proc_c. Qed.
#[local] Hint Resolve crashw_c logw_c upd_edge_c upd_node_c upd_item_c upd_proc_c setpc_c : cdb.
#[local] Hint Extern 4 (CN (set witems _ _)) => (eapply same_c; [| |]; [reflexivity|reflexivity|]) : cdb.

Lemma w_succeed_c w e s : CN w -> CN (w_succeed w e s).
Proof.
  unfold w_succeed. intros H. destruct (succeed (wk w) e) eqn:E; [|apply crashw_c; auto].
  apply setk_c; [|exact H]. eapply RK_succeed; [exact E|apply rk_of; exact H].
Qed.
#[local] Hint Resolve w_succeed_c : cdb.

Lemma w_succeed_all_c es : forall w, CN w -> CN (w_succeed_all w es).
Proof. unfold w_succeed_all. induction es as [|e es IH]; simpl; auto. intros w H. apply IH. auto with cdb. Qed.
#[local] Hint Resolve w_succeed_all_c : cdb.

Lemma w_event_c w w1 e : w_event w = (w1, e) -> CN w -> CN w1.
Proof. unfold w_event. simpl. intros [= <- _] H. apply setk_c; [|exact H]. apply (RK_new_event _ _ (rk_of _ H)). Qed.

Lemma w_timeout_c w d w1 e : w_timeout w d = (w1, e) -> CN w -> CN w1.
Proof.
  unfold w_timeout. destruct (d <? 0).
  - intros [= <- _] H. auto with cdb.
  - destruct (timeout (wk w) d) as [k e0] eqn:E. intros [= <- _] H. apply setk_c; [|exact H].
    apply (f_equal fst) in E. simpl in E. subst k. apply RK_timeout. apply rk_of; exact H.
Qed.

Lemma w_any_of_c w es w1 c : w_any_of w es = (w1, c) -> CN w -> CN w1.
Proof.
  unfold w_any_of. destruct (any_of (wk w) es) as [k e0] eqn:E. intros [= <- _] H. apply setk_c; [|exact H].
  apply (f_equal fst) in E. simpl in E. subst k. apply RK_any_of. apply rk_of; exact H.
Qed.

(* env.process(...): the one place where a resume callback for a NEW index is registered -- together with the process *)
Lemma spawn_c w p w1 pid d : spawn w p = (w1, pid, d) -> CN w -> CN w1.
Proof.
  unfold spawn. intros E H.
  destruct (w_event w) as [wa done] eqn:E1. destruct (w_event wa) as [wb ini] eqn:E2.
  inversion E; subst. clear E.
  assert (CN wb) as Hb by (eapply w_event_c; [exact E2|]; eapply w_event_c; [exact E1|]; exact H).
  assert (PW : wprocs wb = wprocs w) by (unfold w_event in E1, E2; injection E1 as <- _; injection E2 as <- _; reflexivity).
  destruct Hb as (Rb & Lb). rewrite PW in Rb, Lb. unfold CN. cbn [wk wprocs set]. simpl. rewrite PW, app_length. simpl. split; [|lia].
  apply RK_schedule, RK_mark_trig. apply RK_add_cb; [simpl; lia|]. eapply RK_mono; [|exact Rb]. lia.
Qed.

Lemma e_update_level_c w e : CN w -> CN (e_update_level w e).
Proof. auto. Qed.
#[local] Hint Resolve e_update_level_c : cdb.
Lemma store_op_c w e o w1 r ts : store_op w e o = (w1, r, ts) -> CN w -> CN w1.
Proof. unfold store_op. destruct (StoreB.step _ _) as [[s' r0] ts0]. intros [= <- _ _] H. auto. Qed.

Lemma out_err_c w r s : CN w -> CN (out_err w r s).
Proof. unfold out_err. intros H. destruct r; auto. destruct e; auto with cdb. Qed.
#[local] Hint Resolve out_err_c : cdb.

Lemma e_reserve_put_c w e p w1 t : e_reserve_put w e p = (w1, t) -> CN w -> CN w1.
Proof.
  unfold e_reserve_put. intros E H.
  destruct (w_event w) as [wa ev] eqn:E1. destruct (store_op wa e (StoreB.Sync ev)) as [[wb r1] t1] eqn:E2.
  destruct (store_op wb e (StoreB.RPut p 0)) as [[wc r2] t2] eqn:E3. inversion E; subst.
  apply w_succeed_all_c. eapply store_op_c; [exact E3|]. eapply store_op_c; [exact E2|]. eapply w_event_c; eauto.
Qed.

Lemma e_reserve_get_c w e p w1 t : e_reserve_get w e p = (w1, t) -> CN w -> CN w1.
Proof.
  unfold e_reserve_get. intros E H.
  destruct (w_event w) as [wa ev] eqn:E1. destruct (store_op wa e (StoreB.Sync ev)) as [[wb r1] t1] eqn:E2.
  destruct (store_op wb e (StoreB.RGet p 0)) as [[wc r2] t2] eqn:E3. inversion E; subst.
  apply w_succeed_all_c. eapply store_op_c; [exact E3|]. eapply store_op_c; [exact E2|]. eapply w_event_c; eauto.
Qed.

Lemma e_cancel_put_c w e t : CN w -> CN (e_cancel_put w e t).
Proof.
  unfold e_cancel_put. intros H. destruct (store_op w e (StoreB.CPut t)) as [[w1 r] ts] eqn:E.
  apply w_succeed_all_c, out_err_c. eapply store_op_c; eauto.
Qed.
Lemma e_cancel_get_c w e t : CN w -> CN (e_cancel_get w e t).
Proof.
  unfold e_cancel_get. intros H. destruct (store_op w e (StoreB.CGet t)) as [[w1 r] ts] eqn:E.
  apply w_succeed_all_c, out_err_c. eapply store_op_c; eauto.
Qed.
#[local] Hint Resolve e_cancel_put_c e_cancel_get_c : cdb.

Lemma fleet_after_put_c w e : CN w -> CN (fleet_after_put w e).
Proof.
  unfold fleet_after_put. intros H. destruct (_ =? _)%nat; auto.
  destruct (e_trig _); auto with cdb.
Qed.
#[local] Hint Resolve fleet_after_put_c : cdb.

Lemma e_put_c w e p t i : CN w -> CN (e_put w e p t i).
Proof.
  unfold e_put. intros H. destruct (ek (get_edge w e)).
  - destruct (_ <? 0); [auto with cdb|].
    destruct (StoreB.step _ _) as [[s' r] ts]. destruct r; auto with cdb.
    destruct (spawn _ _) as [[w2 pid] d] eqn:E. apply logw_c. apply w_succeed_all_c.
    eapply spawn_c; [exact E|]. auto with cdb.
  - destruct (StoreB.step _ _) as [[s' r] ts]. destruct r; auto with cdb.
Qed.
#[local] Hint Resolve e_put_c : cdb.

Lemma e_get_c w e p t n w1 r : e_get w e p t n = (w1, r) -> CN w -> CN w1.
Proof.
  unfold e_get. intros E H. destruct (StoreB.step _ _) as [[s' r0] ts]. destruct r0 as [?| |?|e0]; try destruct e0; inversion E; subst; auto 10 with cdb.
Qed.

Lemma update_state_c w n s : CN w -> CN (update_state w n s).
Proof. unfold update_state. intros H. destruct (nlast _); auto with cdb. Qed.
#[local] Hint Resolve update_state_c : cdb.

Lemma draw_delay_c w n w1 d : draw_delay w n = (w1, d) -> CN w -> CN w1.
Proof. unfold draw_delay. intros [= <- _] H. auto with cdb. Qed.

Lemma draw_sel_c w n o w1 v : draw_sel w n o = (w1, v) -> CN w -> CN w1.
Proof.
  unfold draw_sel. intros E H. destruct (if o then noutsel _ else ninsel _); inversion E; subst; auto with cdb.
Qed.

Lemma cancel_others_c l : forall w keep (put : bool), CN w ->
  CN (fold_left (fun (w : world) (et : nat * nat) => let '(e, t) := et in
                             if Nat.eqb t keep then w else if put then e_cancel_put w e t else e_cancel_get w e t) l w).
Proof.
  induction l as [|[e t] l IH]; simpl; auto. intros w keep put H. apply IH.
  destruct (Nat.eqb t keep); auto. destruct put; auto with cdb.
Qed.
Lemma cancel_others_cc w es ts keep put : CN w -> CN (cancel_others w es ts keep put).
Proof. unfold cancel_others. apply cancel_others_c. Qed.
#[local] Hint Resolve cancel_others_cc : cdb.

Lemma reserve_all_c pid (put : bool) es : forall w l w1 l1,
  fold_left (fun (acc : world * list nat) (e : nat) => let '(w, l) := acc in
                          let '(w', t) := if put then e_reserve_put w e pid else e_reserve_get w e pid in (w', l ++ [t]))
            es (w, l) = (w1, l1) -> CN w -> CN w1.
Proof.
  induction es as [|e es IH]; simpl; intros w l w1 l1 E H.
  - inversion E; subst; auto.
  - destruct put.
    + destruct (e_reserve_put w e pid) as [w' t] eqn:E1. eapply IH; [exact E|]. eapply e_reserve_put_c; eauto.
    + destruct (e_reserve_get w e pid) as [w' t] eqn:E1. eapply IH; [exact E|]. eapply e_reserve_get_c; eauto.
Qed.
Lemma reserve_all_cc w pid es put w1 l1 : reserve_all w pid es put = (w1, l1) -> CN w -> CN w1.
Proof. unfold reserve_all. apply reserve_all_c. Qed.

Lemma set_creation_c w i n : CN w -> CN (set_creation w i n).
Proof. intros H. unfold set_creation. auto with cdb. Qed.
Lemma update_state_rep_c w n : CN w -> CN (update_state_rep w n).
Proof.
  unfold update_state_rep. intros H. destruct (nlast _); auto with cdb.
  destruct (nsrep _). destruct (count_threads _). destruct (_ >? _); auto with cdb.
Qed.
Lemma occupancy_c w n a : CN w -> CN (occupancy w n a).
Proof. intros H. unfold occupancy. auto 8 with cdb. Qed.
Lemma set_thread_c w n p b : CN w -> CN (set_thread w n p b).
Proof. intros H. unfold set_thread. auto 8 with cdb. Qed.
Lemma add_blocked_time_c w p n : CN w -> CN (add_blocked_time w p n).
Proof. intros H. unfold add_blocked_time. auto 8 with cdb. Qed.
#[local] Hint Resolve set_creation_c update_state_rep_c occupancy_c set_thread_c add_blocked_time_c : cdb.

(* tactic: split every let / match / if of a block, derive CN of each intermediate world from the
   equation that introduced it *)
Ltac kstep :=
  match goal with
  | E : w_timeout ?w _ = (?w1, _) |- _ => assert (CN w1) by (eapply w_timeout_c; [exact E|auto 14 with cdb]); clear E
  | E : w_event ?w = (?w1, _) |- _ => assert (CN w1) by (eapply w_event_c; [exact E|auto 14 with cdb]); clear E
  | E : w_any_of ?w _ = (?w1, _) |- _ => assert (CN w1) by (eapply w_any_of_c; [exact E|auto 14 with cdb]); clear E
  | E : spawn ?w _ = (?w1, _, _) |- _ => assert (CN w1) by (eapply spawn_c; [exact E|auto 14 with cdb]); clear E
  | E : store_op ?w _ _ = (?w1, _, _) |- _ => assert (CN w1) by (eapply store_op_c; [exact E|auto 14 with cdb]); clear E
  | E : e_reserve_put ?w _ _ = (?w1, _) |- _ => assert (CN w1) by (eapply e_reserve_put_c; [exact E|auto 14 with cdb]); clear E
  | E : e_reserve_get ?w _ _ = (?w1, _) |- _ => assert (CN w1) by (eapply e_reserve_get_c; [exact E|auto 14 with cdb]); clear E
  | E : e_get ?w _ _ _ _ = (?w1, _) |- _ => assert (CN w1) by (eapply e_get_c; [exact E|auto 14 with cdb]); clear E
  | E : draw_delay ?w _ = (?w1, _) |- _ => assert (CN w1) by (eapply draw_delay_c; [exact E|auto 14 with cdb]); clear E
  | E : draw_sel ?w _ _ = (?w1, _) |- _ => assert (CN w1) by (eapply draw_sel_c; [exact E|auto 14 with cdb]); clear E
  | E : reserve_all ?w _ _ _ = (?w1, _) |- _ => assert (CN w1) by (eapply reserve_all_cc; [exact E|auto 14 with cdb]); clear E
  end.

Ltac ksplit :=
  repeat (match goal with
          | |- context [let '(_, _) := ?x in _] => destruct x as [? ?] eqn:?; try kstep
          | |- context [match ?x with _ => _ end] => destruct x eqn:?; try kstep
          end; simpl fst).

Ltac kauto := ksplit; simpl; auto 10 with cdb.

Ltac ksplit2 :=
  repeat (cbv zeta;
          match goal with
          | |- context [match ?x with _ => _ end] => destruct x eqn:?; repeat kstep; simpl fst
          end).
Ltac kgo := ksplit2; simpl; auto 12 with cdb.

Lemma source_loop_c w p n : CN w -> CN (fst (source_loop w p n)).
Proof. intros H. unfold source_loop. kgo. Qed.

Lemma spawn_push_c w n i e b : CN w -> CN (fst (spawn_push w n i e b)).
Proof. intros H. unfold spawn_push. kgo. Qed.

#[local] Hint Resolve source_loop_c spawn_push_c : cdb.

Lemma eqform {A} (f : world * A) w1 a : f = (w1, a) -> CN (fst f) -> CN w1.
Proof. intros ->. auto. Qed.

Ltac kstep2 :=
  match goal with
  | E : spawn_push ?w _ _ _ _ = (?w1, _) |- _ =>
      assert (CN w1) by (eapply eqform; [exact E|apply spawn_push_c; auto 14 with cdb]); clear E
  end.

Ltac ksplit3 :=
  repeat (cbv zeta;
          match goal with
          | |- context [match ?x with _ => _ end] => destruct x eqn:?; repeat (kstep || kstep2); cbn [fst snd]
          end).

Ltac kgo3 := ksplit3; cbn [fst snd]; auto 14 with cdb.

Lemma source_block_c w p : CN w -> CN (fst (source_block w p)).
Proof. intros H. unfold source_block. kgo3. Qed.

Lemma push_block_c w p : CN w -> CN (fst (push_block w p)).
Proof. intros H. unfold push_block. kgo3. Qed.

Lemma buftimer_block_c w p : CN w -> CN (fst (buftimer_block w p)).
Proof. intros H. unfold buftimer_block. kgo3. Qed.

Lemma sink_loop_c w p n : CN w -> CN (fst (sink_loop w p n)).
Proof. intros H. unfold sink_loop. kgo3. Qed.
#[local] Hint Resolve sink_loop_c : cdb.

Lemma sink_block_c w p : CN w -> CN (fst (sink_block w p)).
Proof. intros H. unfold sink_block. kgo3. Qed.


Lemma machine_request_c w p n : CN w -> CN (fst (machine_request w p n)).
Proof.
  intros H. unfold machine_request. cbv zeta.
  assert (CN (update_state_rep w n)) as H1 by auto with cdb.
  destruct (res_request (wk (update_state_rep w n)) n (nres (get_node (update_state_rep w n) n))) as [[[k r] q]|] eqn:E; cbn [fst].
  - apply setpc_c, upd_proc_c, upd_node_c. apply setk_c; [|exact H1]. eapply RK_res_request; [exact E|apply rk_of; exact H1].
  - auto with cdb.
Qed.
#[local] Hint Resolve machine_request_c : cdb.

Lemma machine_start_worker_c w p n i : CN w -> CN (fst (machine_start_worker w p n i)).
Proof. intros H. unfold machine_start_worker. kgo3. Qed.
#[local] Hint Resolve machine_start_worker_c : cdb.

Lemma machine_block_c w p : CN w -> CN (fst (machine_block w p)).
Proof. intros H. unfold machine_block. kgo3. Qed.

Lemma worker_release_c w p n : CN w -> CN (fst (worker_release w p n)).
Proof.
  intros H. unfold worker_release. cbv zeta.
  destruct (res_release (wk w) n (nres (get_node w n)) (ptk (me w p))) as [[[k r] g]|] eqn:E; cbn [fst].
  - apply setpc_c, upd_node_c. apply setk_c; [|exact H]. eapply RK_res_release; [exact E|apply rk_of; exact H].
  - auto with cdb.
Qed.
#[local] Hint Resolve worker_release_c : cdb.

Lemma worker_block_c w p : CN w -> CN (fst (worker_block w p)).
Proof. intros H. unfold worker_block. kgo3. Qed.

Lemma fleet_loop_c w p e : CN w -> CN (fst (fleet_loop w p e)).
Proof. intros H. unfold fleet_loop. kgo3. Qed.
#[local] Hint Resolve fleet_loop_c : cdb.

Lemma fleetact_block_c w p : CN w -> CN (fst (fleetact_block w p)).
Proof.
  intros H. unfold fleetact_block. cbv zeta.
  destruct (ppc (me w p)); [apply fleet_loop_c; auto|].
  destruct (StoreB.transit _) eqn:ET; [apply fleet_loop_c; auto|].
  match goal with |- context [fleet_loop (if _ then _ else ?w1) _ _] => set (wb := w1) end.
  assert (CN wb) as H1.
  { subst wb. match goal with |- CN (match ?b with _ => _ end) => destruct b end; auto.
    all: try (destruct (spawn _ _) as [[w2 pid] d] eqn:E; eapply spawn_c; [exact E|]; auto with cdb). }
  clearbody wb.
  destruct (e_trig _).
  - destruct (w_event wb) as [w3 a] eqn:E2. apply fleet_loop_c, upd_edge_c. eapply w_event_c; eauto.
  - apply fleet_loop_c. exact H1.
Qed.

Lemma fleetmove_fold_c e l : forall w, CN w ->
  CN (fold_left (fun (w : world) (it : nat) =>
                    match wcrash w with
                    | Some _ => w
                    | None =>
                        let '(w1, r, ts) := store_op w e (StoreB.Ready it) in
                        let w2 := upd_edge w1 e (fun x => x <| eintransit ::= filter (fun t => negb (Nat.eqb t it)) |>) in
                        w_succeed_all (out_err w2 r 61) ts
                    end) l w).
Proof.
  induction l as [|x l IH]; simpl; auto. intros w H. apply IH.
  destruct (wcrash w); auto. destruct (store_op w e (StoreB.Ready x)) as [[w1 r] ts] eqn:E.
  apply w_succeed_all_c, out_err_c, upd_edge_c. eapply store_op_c; eauto.
Qed.

Lemma fleetmove_block_c w p : CN w -> CN (fst (fleetmove_block w p)).
Proof.
  intros H. unfold fleetmove_block. cbv zeta.
  destruct (ppc (me w p)) as [|[|?]]; cbn [fst].
  - destruct (plst (me w p)); cbn [fst]; auto. destruct (w_timeout _ _) as [w1 t] eqn:E. cbn [fst].
    apply setpc_c. eapply w_timeout_c; eauto.
  - destruct (w_timeout _ _) as [w1 t] eqn:E. cbn [fst]. apply setpc_c. eapply w_timeout_c; eauto.
  - apply fleetmove_fold_c. auto.
Qed.

Lemma check_state_c w n : CN w -> CN (check_state w n).
Proof. intros H. unfold check_state. destruct (count_threads _). kgo3. Qed.
#[local] Hint Resolve check_state_c : cdb.

Lemma sc_request_c w p n pc : CN w -> CN (fst (sc_request w p n pc)).
Proof.
  intros H. unfold sc_request.
  destruct (res_request (wk w) n (nres (get_node w n))) as [[[k r] q]|] eqn:E; cbn [fst].
  - apply setpc_c, upd_proc_c, upd_node_c. apply setk_c; [|exact H]. eapply RK_res_request; [exact E|apply rk_of; exact H].
  - auto with cdb.
Qed.
Lemma sc_release_c w p n : CN w -> CN (fst (sc_release w p n)).
Proof.
  intros H. unfold sc_release.
  destruct (res_release (wk w) n (nres (get_node w n)) (ptk (me w p))) as [[[k r] g]|] eqn:E; cbn [fst].
  - apply setpc_c, upd_node_c. apply setk_c; [|exact H]. eapply RK_res_release; [exact E|apply rk_of; exact H].
  - auto with cdb.
Qed.
#[local] Hint Resolve sc_request_c sc_release_c : cdb.

Lemma sc_dispatch_c w p n c ph : CN w -> CN (fst (sc_dispatch w p n c ph)).
Proof. intros H. unfold sc_dispatch. kgo3. Qed.
#[local] Hint Resolve sc_dispatch_c : cdb.

Lemma sc_next_c w p n : CN w -> CN (fst (sc_next w p n)).
Proof. intros H. unfold sc_next. kgo3. Qed.
#[local] Hint Resolve sc_next_c : cdb.

Lemma sc_worker_cont_c w p n : CN w -> CN (fst (sc_worker_cont w p n)).
Proof. intros H. unfold sc_worker_cont. kgo3. Qed.
#[local] Hint Resolve sc_worker_cont_c : cdb.

Lemma sc_run_c f : forall w p n r, CN (fst r) -> CN (fst (sc_run f w p n r)).
Proof.
  induction f as [|f IH]; simpl; intros w p n r H; auto with cdb.
  destruct r as [w1 y]. cbn [fst] in *. destruct (wcrash w1); auto.
  destruct (Nat.eqb _ 8); auto. apply IH. auto with cdb.
Qed.

Lemma splitworker_block_c w p : CN w -> CN (fst (splitworker_block w p)).
Proof.
  intros H. unfold splitworker_block. cbv zeta. destruct (ppc (me w p)) as [|[|?]].
  - kgo3.
  - match goal with |- context [if ?b then _ else _] => destruct b end; cbn [fst]; auto with cdb.
    apply sc_run_c. auto 12 with cdb.
  - apply sc_run_c. auto with cdb.
Qed.

Lemma combworker_block_c w p : CN w -> CN (fst (combworker_block w p)).
Proof.
  intros H. unfold combworker_block. cbv zeta. destruct (ppc (me w p)); apply sc_run_c; auto with cdb.
Qed.

Lemma splitter_head_c w p n : CN w -> CN (fst (splitter_head w p n)).
Proof. intros H. unfold splitter_head. kgo3. Qed.
#[local] Hint Resolve splitter_head_c : cdb.

Lemma splitter_start_c w p n pal : CN w -> CN (fst (splitter_start w p n pal)).
Proof. intros H. unfold splitter_start. kgo3. Qed.
#[local] Hint Resolve splitter_start_c : cdb.

Lemma splitter_block_c w p : CN w -> CN (fst (splitter_block w p)).
Proof. intros H. unfold splitter_block. kgo3. Qed.

Lemma combiner_head_c w p n : CN w -> CN (fst (combiner_head w p n)).
Proof. intros H. unfold combiner_head. kgo3. Qed.
#[local] Hint Resolve combiner_head_c : cdb.

Lemma combiner_rep_c e p k0 j : forall a, CN (fst (fst a)) -> CN (fst (fst (comb_rep e p k0 j a))).
Proof.
  induction j as [|j IH]; intros [[w0 ts] ix] H; simpl; auto.
  destruct (e_reserve_get w0 e p) as [w1 t] eqn:E. apply IH. cbn [fst]. eapply e_reserve_get_c; eauto.
Qed.

Lemma combiner_go_c rc p es : forall k acc r, CN (fst (fst acc)) -> comb_go rc p k es acc = Some r -> CN (fst (fst r)).
Proof.
  induction es as [|e es IH]; simpl; intros k acc r HA EQ.
  - inversion EQ; subst; auto.
  - destruct (nth_error rc k) as [q|]; [|discriminate]. eapply IH; [|exact EQ]. apply combiner_rep_c. exact HA.
Qed.

Lemma combiner_reserve_c w p n w1 a b : combiner_reserve w p n = Some (w1, a, b) -> CN w -> CN w1.
Proof.
  unfold combiner_reserve. intros E H.
  assert (CN (fst (fst (w1, a, b)))) as K by (eapply combiner_go_c; [|exact E]; cbn [fst]; exact H). exact K.
Qed.

Lemma combiner_loop_c w p n : CN w -> CN (fst (combiner_loop w p n)).
Proof. intros H. unfold combiner_loop. kgo3. Qed.
#[local] Hint Resolve combiner_loop_c : cdb.

Lemma combiner_block_c w p : CN w -> CN (fst (combiner_block w p)).
Proof.
  intros H. unfold combiner_block. cbv zeta.
  destruct (ppc (me w p)) as [|[|[|[|[|[|?]]]]]].
  - kgo3.
  - auto with cdb.
  - destruct (e_get _ _ _ _ _) as [w1 it] eqn:E. assert (CN w1) by (eapply e_get_c; eauto).
    destruct it; cbn [fst]; auto. destruct (negb _); cbn [fst]; auto with cdb.
    destruct (combiner_reserve w1 p (pown (me w p))) as [[[w2 a] b]|] eqn:E2; cbn [fst]; auto with cdb.
    assert (CN w2) by (eapply combiner_reserve_c; eauto).
    destruct (w_any_of w2 a) as [w3 c] eqn:E3. cbn [fst]. apply setpc_c, upd_proc_c. eapply w_any_of_c; eauto.
  - auto with cdb.
  - kgo3.
  - kgo3.
  - kgo3.
Qed.

Lemma block_c w p : CN w -> CN (fst (block w p)).
Proof.
  intros H. unfold block. destruct (pkd (me w p)); cbn [fst]; auto with cdb;
    first [apply source_block_c | apply machine_block_c | apply worker_block_c | apply sink_block_c | apply push_block_c
          | apply buftimer_block_c | apply fleetact_block_c | apply fleetmove_block_c | apply splitter_block_c
          | apply splitworker_block_c | apply combiner_block_c | apply combworker_block_c]; auto.
Qed.

(* Process._resume of a process below the bound m: its own callback is registered for an index that exists *)
Lemma resume_c f : forall w p, (p < m)%nat -> CN w -> CN (resume f w p).
Proof.
  induction f as [|f IH]; simpl; intros w p LP H; auto with cdb.
  destruct (wcrash w); auto.
  pose proof (block_c (w <| wactive := p |>) p) as B.
  destruct (block (w <| wactive := p |>) p) as [w1 y]. cbn [fst] in B.
  assert (CN w1) as H1 by (apply B; exact H).
  destruct (wcrash w1); auto. destruct y.
  - destruct (e_proc _); [apply IH; auto|]. apply setk_c; [|exact H1].
    apply RK_add_cb; [simpl; destruct H1 as (_ & L1); lia|apply rk_of; exact H1].
  - apply upd_proc_c. apply setk_c; [|exact H1]. apply RK_schedule, RK_mark_trig. apply rk_of; exact H1.
Qed.

End AtLeast.

Lemma cn_weaken m m' w : (m' <= m)%nat -> CN m w -> CN m' w.
Proof. intros L (A & B). split; auto. lia. Qed.
Lemma cn_any w : RK (wk w) (length (wprocs w)) -> CN (length (wprocs w)) w.
Proof. intros H. split; auto. Qed.

Lemma run_cb_c w c : CN 0 w -> CN 0 (run_cb w c).
Proof.
  intros H. unfold run_cb. destruct (wcrash w); auto. destruct c.
  - destruct (Nat.ltb_spec p (length (wprocs w))) as [L|L]; [|apply crashw_c; exact H].
    apply (cn_weaken (length (wprocs w)) 0); [lia|]. apply resume_c; [exact L|]. apply cn_any. apply (rk_of 0); exact H.
  - apply setk_c; [|exact H]. apply RK_check. apply (rk_of 0); exact H.
  - destruct (res_trig_get _ _) as [[k0 r0]|] eqn:E; [|apply crashw_c; exact H].
    apply upd_node_c. apply setk_c; [|exact H]. eapply RK_res_trig_get; [exact E|apply (rk_of 0); exact H].
  - destruct (res_trig_put _ _) as [[k0 r0]|] eqn:E; [|apply crashw_c; exact H].
    apply upd_node_c. apply setk_c; [|exact H]. eapply RK_res_trig_put; [exact E|apply (rk_of 0); exact H].
  - exact H.
Qed.

Lemma run_cbs_c l : forall w, CN 0 w -> CN 0 (fold_left run_cb l w).
Proof. induction l as [|c l IH]; simpl; auto. intros w H. apply IH, run_cb_c, H. Qed.

(* one kernel step; and the callbacks it hands out all name existing processes: the refusal in run_cb is dead code *)
Theorem fstep_c w w' : CN 0 w -> fstep w = Some w' -> CN 0 w'.
Proof.
  unfold fstep. intros H. destruct (wcrash w); [discriminate|].
  destruct (pop (wk w)) as [[[k e] cbs]|] eqn:E; [|discriminate]. intros [= <-].
  apply run_cbs_c. destruct (RK_pop _ _ _ _ _ E (rk_of 0 _ H)) as (A & _). split; [exact A|lia].
Qed.

Theorem popped_callbacks_name_processes w k e cbs :
  CN 0 w -> pop (wk w) = Some (k, e, cbs) -> forall p, In (CbResume p) cbs -> (p < length (wprocs w))%nat.
Proof.
  intros H E p IN. destruct (RK_pop _ _ _ _ _ E (rk_of 0 _ H)) as (_ & B).
  rewrite Forall_forall in B. exact (B _ IN).
Qed.

Lemma mk_step_c w c : CN 0 w -> CN 0 (mk_step w c).
Proof.
  intros H. unfold mk_step. destruct c as [b i]. destruct b.
  - cbv zeta. match goal with |- context [spawn ?a ?b] => destruct (spawn a b) as [[w' pid] d] eqn:E end.
    eapply spawn_c; eauto.
  - destruct (ek (get_edge w i)); auto;
      destruct (w_event w) as [w1 act] eqn:E1; cbv zeta;
      match goal with |- context [spawn ?a ?b] => destruct (spawn a b) as [[w' pid] d] eqn:E end;
      (eapply spawn_c; [exact E|]); assert (CN 0 w1) as H1 by (eapply w_event_c; eauto); apply upd_edge_c; exact H1.
Qed.

Lemma mk_world_c nodes edges order : CN 0 (mk_world nodes edges order).
Proof.
  unfold mk_world.
  assert (forall l w, CN 0 w -> CN 0 (fold_left mk_step l w)) as G.
  { induction l as [|c l IH]; simpl; auto. intros w H. apply IH, mk_step_c, H. }
  apply G. split; [constructor|simpl; lia].
Qed.

(* for every factory configuration and every number of kernel steps *)
Theorem callbacks_name_existing_processes nodes edges order n :
  let w := FactoryInv.iter_fstep n (mk_world nodes edges order) in
  (forall e p, In (CbResume p) (e_cbs (get_ev (wk w) e)) -> (p < length (wprocs w))%nat) /\
  (forall k e cbs, pop (wk w) = Some (k, e, cbs) -> forall p, In (CbResume p) cbs -> (p < length (wprocs w))%nat).
Proof.
  assert (forall j w, CN 0 w -> CN 0 (FactoryInv.iter_fstep j w)) as G.
  { induction j as [|j IH]; simpl; intros w H; auto. destruct (fstep w) as [w'|] eqn:E; auto.
    apply IH. eapply fstep_c; eauto. }
  intros w. pose proof (G n _ (mk_world_c nodes edges order)) as H. fold w in H. split.
  - intros e p IN. destruct H as (R & _). unfold RK in R. unfold get_ev in IN.
    destruct (Nat.lt_ge_cases e (length (evs (wk w)))) as [L|L].
    + rewrite Forall_forall in R. specialize (R _ (nth_In _ ev0 L)). rewrite Forall_forall in R. exact (R _ IN).
    + rewrite nth_overflow in IN by exact L. destruct IN.
  - intros k e cbs E. eapply popped_callbacks_name_processes; eauto.
Qed.
