(* L2: the world of a factory -- kernel, edges (stores), nodes, processes, items, trace log.
   Data and basic edge / kernel plumbing.  Model only. *)
From Coq Require Import List ZArith Bool Arith.
From RecordUpdate Require Import RecordUpdate.
From FV Require Import ListLemmas Kernel SrcFragments Lens.
From FV Require StoreB.
Import ListNotations.
Open Scope Z_scope.

Inductive policy := PFirst | PRoundRobin | PConst (i : Z) | PStream (l : list Z) | PBad.
Inductive nkind := NSource | NMachine | NSink | NSplitter | NCombiner.
Inductive ekind := EBuffer | EFleet.

Inductive crash :=
| CAssert (where_ : nat) | CIndex (where_ : nat) | CValue (where_ : nat) | CRuntime (where_ : nat)
| CType (where_ : nat) | CAttr (where_ : nat) | CFuel | CDoubleSucceed (where_ : nat).

(* trace log entries: what an observer at the store API boundary sees *)
Inductive tev :=
| LGen (t : Z) (n : nat) (i : nat)
| LPut (t : Z) (e : nat) (i : nat)
| LGet (t : Z) (e : nat) (i : nat) (n : nat)
| LDiscard (t : Z) (n : nat) (i : nat)
| LRecv (t : Z) (n : nat) (i : nat) (c : Z)          (* c: the creation stamp read by the sink *)
| LPack (t : Z) (n : nat) (pallet : nat) (i : nat)   (* Pallet.add_item in a combiner *)
| LSel (n : nat) (out : bool) (idx : nat)      (* a selection recorded by a node *)
| LDraw (n : nat) (what : nat) (v : Z).        (* a value drawn from a delay / selector stream *)

Record iteminfo := { i_creation : option Z; i_src : nat; i_pallet : bool; i_contents : list nat }.
#[global] Instance eta_iteminfo : Settable _ := settable! Build_iteminfo <i_creation; i_src; i_pallet; i_contents>.

Record edge := {
  ek : ekind; est : StoreB.store; esrc : nat; edst : nat;
  edelays : list Z; edptr : nat;                 (* Buffer: delay stream (cyclic) *)
  efdelay : Z; eftransit : Z;                    (* Fleet: waiting delay, transit delay *)
  eact : nat;                                    (* Fleet: current activate_fleet event *)
  eintransit : list nat;                         (* Fleet: in_transit_items *)
  ewsum : Z; elastt : Z; elastn : Z              (* time-averaged level accumulators *)
}.
#[global] Instance eta_edge : Settable _ :=
  settable! Build_edge <ek; est; esrc; edst; edelays; edptr; efdelay; eftransit; eact; eintransit; ewsum; elastt; elastn>.

Record node := {
  nk : nkind; nins : list nat; nouts : list nat; nsetup : Z; nblocking : bool; nwcap : nat;
  ninsel : policy; noutsel : policy; ndelays : list Z;
  ndptr : nat; ninptr : nat; noutptr : nat;
  nstate : nat; nlast : option Z; ntstate : list Z;
  ngen : nat; ndisc : nat; nprocd : nat; nrecv : nat; ncycle : Z;
  nsrep : Z * Z; nthreads : list (nat * bool); nres : res; nnumw : nat; nocclast : Z; nocchist : list Z;
  nsumproc : Z; nsumblk : Z;
  nrecipe : list nat;                             (* Combiner: target_quantity_of_each_item *)
  npallet : bool                                  (* Source: flow_item_type = 'pallet' *)
}.
#[global] Instance eta_node : Settable _ :=
  settable! Build_node <nk; nins; nouts; nsetup; nblocking; nwcap; ninsel; noutsel; ndelays; ndptr; ninptr; noutptr;
                        nstate; nlast; ntstate; ngen; ndisc; nprocd; nrecv; ncycle; nsrep; nthreads; nres; nnumw;
                        nocclast; nocchist; nsumproc; nsumblk; nrecipe; npallet>.

Inductive pkind :=
| KSourceB | KMachineB | KWorker | KSinkB | KPush | KBufTimer | KFleetAct | KFleetMove
| KSplitterB | KSplitWorker | KCombinerB | KCombWorker.

(* a process: kind, program counter, owner (node or edge id) and its live locals *)
Record proc := {
  pkd : pkind; ppc : nat; pown : nat; pdone : nat;
  pit : nat; ptk : nat; pix : nat; pdl : Z; pt0 : Z; pt1 : Z;
  ptks : list nat; plst : list nat; paux : nat; palive : bool
}.
#[global] Instance eta_proc : Settable _ :=
  settable! Build_proc <pkd; ppc; pown; pdone; pit; ptk; pix; pdl; pt0; pt1; ptks; plst; paux; palive>.

Record world := {
  wk : kern; wedges : list edge; wnodes : list node; wprocs : list proc; witems : list iteminfo;
  wlog : list tev; wcrash : option crash; wactive : nat
}.
#[global] Instance eta_world : Settable _ :=
  settable! Build_world <wk; wedges; wnodes; wprocs; witems; wlog; wcrash; wactive>.

Definition edge0 : edge :=
  {| ek := EBuffer; est := StoreB.init StoreB.KBuffer StoreB.FIFO 0; esrc := 0; edst := 0; edelays := []; edptr := 0;
     efdelay := 1; eftransit := 0; eact := 0; eintransit := []; ewsum := 0; elastt := 0; elastn := 0 |}.
Definition node0 : node :=
  {| nk := NSink; nins := []; nouts := []; nsetup := 0; nblocking := true; nwcap := 1; ninsel := PFirst; noutsel := PFirst;
     ndelays := []; ndptr := 0; ninptr := 0; noutptr := 0; nstate := 0; nlast := None; ntstate := [];
     ngen := 0; ndisc := 0; nprocd := 0; nrecv := 0; ncycle := 0; nsrep := (-1, -1); nthreads := []; nres := res_init 1;
     nnumw := 0; nocclast := 0; nocchist := []; nsumproc := 0; nsumblk := 0; nrecipe := []; npallet := false |}.
Definition proc0 : proc :=
  {| pkd := KSinkB; ppc := 0; pown := 0; pdone := 0; pit := 0; ptk := 0; pix := 0; pdl := 0; pt0 := 0; pt1 := 0;
     ptks := []; plst := []; paux := 0; palive := false |}.
Definition item0 : iteminfo := {| i_creation := None; i_src := 0; i_pallet := false; i_contents := [] |}.

Definition get_edge (w : world) (e : nat) : edge := nth e (wedges w) edge0.
Definition get_node (w : world) (n : nat) : node := nth n (wnodes w) node0.
Definition get_proc (w : world) (p : nat) : proc := nth p (wprocs w) proc0.
Definition get_item (w : world) (i : nat) : iteminfo := nth i (witems w) item0.

Definition upd_edge (w : world) (e : nat) (f : edge -> edge) : world := w <| wedges ::= upd e f |>.
Definition upd_node (w : world) (n : nat) (f : node -> node) : world := w <| wnodes ::= upd n f |>.
Definition upd_proc (w : world) (p : nat) (f : proc -> proc) : world := w <| wprocs ::= upd p f |>.
Definition upd_item (w : world) (i : nat) (f : iteminfo -> iteminfo) : world := w <| witems ::= upd i f |>.

Definition crashw (w : world) (c : crash) : world :=
  match wcrash w with Some _ => w | None => w <| wcrash := Some c |> end.
Definition logw (w : world) (x : tev) : world := w <| wlog ::= fun l => l ++ [x] |>.
Definition wnow (w : world) : Z := now (wk w).

(* kernel plumbing lifted to the world *)
Definition w_succeed (w : world) (e : nat) (site : nat) : world :=
  match succeed (wk w) e with
  | Some k => w <| wk := k |>
  | None => crashw w (CDoubleSucceed site)
  end.
Definition w_succeed_all (w : world) (es : list nat) : world := fold_left (fun w e => w_succeed w e 0) es w.
Definition w_event (w : world) : world * nat := let '(k, e) := new_event (wk w) in (w <| wk := k |>, e).
(* env.timeout(d): a negative delay raises ValueError *)
Definition w_timeout (w : world) (d : Z) : world * nat :=
  if d <? 0 then (crashw w (CValue 1), 0%nat) else let '(k, e) := timeout (wk w) d in (w <| wk := k |>, e).
Definition w_any_of (w : world) (es : list nat) : world * nat := let '(k, e) := any_of (wk w) es in (w <| wk := k |>, e).

(* env.process(gen): completion event + Initialize event (URGENT), first block runs when it is popped *)
Definition spawn (w : world) (p : proc) : world * nat * nat :=
  let pid := length (wprocs w) in
  let '(w1, done) := w_event w in
  let '(w2, ini) := w_event w1 in
  let k := schedule (mark_trig (add_cb (wk w2) ini (CbResume pid)) ini) ini URGENT 0 in
  (w2 <| wk := k |> <| wprocs ::= fun l => l ++ [p <| pdone := done |> <| palive := true |>] |>, pid, done).

(* cyclic stream *)
Definition stream_at (l : list Z) (k : nat) : Z := nth (k mod length l)%nat l 0.

(* ------------------------------------------------------------------ edges *)

(* _update_time_averaged_level of the edge's store *)
Definition e_update_level (w : world) (e : nat) : world :=
  let ed := get_edge w e in
  let t := wnow w in
  upd_edge w e (fun x => x <| ewsum := ewsum ed + elastn ed * (t - elastt ed) |> <| elastt := t |>
                            <| elastn := Z.of_nat (length (StoreB.transit (est ed)) + length (StoreB.ready (est ed))) |>).

Definition store_op (w : world) (e : nat) (o : StoreB.op) : world * StoreB.out * list nat :=
  let '(s', r, ts) := StoreB.step (est (get_edge w e)) o in
  (upd_edge w e (fun x => x <| est := s' |>), r, ts).

Definition e_reserve_put (w : world) (e : nat) (pid : nat) : world * nat :=
  let '(w1, ev) := w_event w in
  let '(w2, _, _) := store_op w1 e (StoreB.Sync ev) in
  let '(w3, _, ts) := store_op w2 e (StoreB.RPut pid 0) in
  (w_succeed_all w3 ts, ev).

Definition e_reserve_get (w : world) (e : nat) (pid : nat) : world * nat :=
  let '(w1, ev) := w_event w in
  let '(w2, _, _) := store_op w1 e (StoreB.Sync ev) in
  let '(w3, _, ts) := store_op w2 e (StoreB.RGet pid 0) in
  (w_succeed_all w3 ts, ev).

Definition out_err (w : world) (r : StoreB.out) (site : nat) : world :=
  match r with
  | StoreB.OErr StoreB.ERuntime => crashw w (CRuntime site)
  | StoreB.OErr StoreB.EIndex => crashw w (CIndex site)
  | StoreB.OErr StoreB.EValue => crashw w (CValue site)
  | _ => w
  end.

Definition e_cancel_put (w : world) (e : nat) (tok : nat) : world :=
  let '(w1, r, ts) := store_op w e (StoreB.CPut tok) in w_succeed_all (out_err w1 r 10) ts.
Definition e_cancel_get (w : world) (e : nat) (tok : nat) : world :=
  let '(w1, r, ts) := store_op w e (StoreB.CGet tok) in w_succeed_all (out_err w1 r 11) ts.

Definition e_can_put (w : world) (e : nat) : bool :=
  let l := lensB (est (get_edge w e)) in
  match ek (get_edge w e) with EBuffer => Buffer_can_put l | EFleet => Fleet_can_put l end.
