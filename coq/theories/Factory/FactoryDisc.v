(* Whole-factory invariant DI: in every reachable world of every configuration a node's blocking flag
   is the configured one and a blocking node has discarded nothing -- C09's "a blocking node never
   discards", lifted through all process blocks with the tactic of FactoryInv.v / FactoryRes.v. *)
From Coq Require Import List ZArith Lia Bool Arith.
From RecordUpdate Require Import RecordUpdate.
From FV Require Import ListLemmas Kernel SrcFragments Lens World Factory.
From FV Require FactoryInv.
From FV Require StoreB.
Import ListNotations.
Open Scope Z_scope.

Section Config.
Variable bl : list bool.     (* the configured blocking flag of every node *)

Definition R (b : bool) (nd : node) : Prop := nblocking nd = b /\ (b = true -> ndisc nd = 0%nat).
Definition DI (w : world) : Prop :=
  length (wnodes w) = length bl /\ forall i, (i < length bl)%nat -> R (nth i bl true) (get_node w i).

Create HintDb ddb.






Lemma get_upd_same w n f : (n < length (wnodes w))%nat -> get_node (upd_node w n f) n = f (get_node w n).
Proof.
  unfold get_node, upd_node. cbn [wnodes set]. simpl. generalize (wnodes w). induction n as [|n IH]; intros [|x l] H; simpl in *; try lia; auto;
  apply IH; lia.
Qed.
Lemma get_upd_other w n m f : n <> m -> get_node (upd_node w n f) m = get_node w m.
Proof.
  unfold get_node, upd_node. cbn [wnodes set]. simpl. generalize (wnodes w). revert m. induction n as [|n IH]; intros [|m] [|x l] H; simpl in *; try lia; auto;
  apply IH; lia.
Qed.
Lemma upd_length {A} n (f : A -> A) l : length (upd n f l) = length l.
Proof. revert l. induction n as [|n IH]; intros [|x l]; simpl; auto. Qed.

Lemma upd_node_at w n f :
  (R (nth n bl true) (get_node w n) -> R (nth n bl true) (f (get_node w n))) -> DI w -> DI (upd_node w n f).
Proof.
  intros K (L & H). split.
  - unfold upd_node. cbn [wnodes set]. simpl. rewrite upd_length. exact L.
  - intros i Hi. destruct (Nat.eq_dec n i) as [->|NE].
    + rewrite get_upd_same; [|lia]. apply K, H, Hi.
    + rewrite get_upd_other; auto.
Qed.
Lemma DI_blocking w n : DI w -> nblocking (get_node w n) = false -> nth n bl true = false.
Proof.
  intros (L & H) Hb. destruct (Nat.ltb_spec n (length bl)) as [Hn|Hn].
  - destruct (H n Hn) as (A & _). congruence.
  - unfold get_node in Hb. rewrite nth_overflow in Hb; [discriminate|lia].
Qed.

Lemma crashw_d w c : DI w -> DI (crashw w c).
Proof. unfold crashw. destruct (wcrash w); auto. Qed.
Lemma logw_d w x : DI w -> DI (logw w x).
Proof. auto. Qed.
Lemma upd_edge_d w e f : DI w -> DI (upd_edge w e f).
Proof. auto. Qed.
Lemma upd_proc_d w e f : DI w -> DI (upd_proc w e f).
Proof. auto. Qed.
Lemma upd_item_d w e f : DI w -> DI (upd_item w e f).
Proof. auto. Qed.
Lemma setpc_d w p pc : DI w -> DI (setpc w p pc).
Proof. auto. Qed.
#[local] Hint Resolve crashw_d logw_d upd_edge_d upd_proc_d upd_item_d setpc_d : ddb.
(* side condition of a node update: the flag is untouched, and the discard counter is either untouched
   or incremented at a place where the block has just tested that the node is not blocking *)
Ltac side_plain := let Hx := fresh in intros Hx; exact Hx.
Ltac side_disc :=
  let A := fresh in let B := fresh in let C := fresh in
  intros [A B]; split; [exact A|];
  intros C; first [exact (B C)
    | exfalso;
      match goal with
      | Hb : nblocking (get_node ?w0 ?n) = false, H0 : DI ?w0 |- _ =>
          rewrite (DI_blocking w0 n H0 Hb) in C; discriminate
      end].
Ltac drok_side :=
  first [side_plain
        | side_disc
        | repeat (match goal with
                  | |- context [if ?b then _ else _] => destruct b
                  | |- context [match ?b with _ => _ end] => destruct b
                  end); side_plain].
#[local] Hint Extern 3 (DI (upd_node _ _ _)) => (apply upd_node_at; [drok_side|]) : ddb.




Lemma w_succeed_d w e s : DI w -> DI (w_succeed w e s).
Proof.
  unfold w_succeed. intros H. destruct (succeed (wk w) e) eqn:E; [exact H|apply crashw_d; auto].
Qed.
#[local] Hint Resolve w_succeed_d : ddb.

Lemma w_succeed_all_d es : forall w, DI w -> DI (w_succeed_all w es).
Proof. unfold w_succeed_all. induction es as [|e es IH]; simpl; auto. intros w H. apply IH. auto with ddb. Qed.
#[local] Hint Resolve w_succeed_all_d : ddb.

Lemma w_event_d w w1 e : w_event w = (w1, e) -> DI w -> DI w1.
Proof. unfold w_event. simpl. intros [= <- _] H. exact H. Qed.


Lemma w_timeout_d w d w1 e : w_timeout w d = (w1, e) -> DI w -> DI w1.
Proof.
  unfold w_timeout. destruct (d <? 0).
  - intros [= <- _] H. auto with ddb.
  - destruct (timeout (wk w) d) as [k e0]. intros [= <- _] H. exact H.
Qed.




Lemma w_any_of_d w es w1 c : w_any_of w es = (w1, c) -> DI w -> DI w1.
Proof.
  unfold w_any_of. destruct (any_of (wk w) es) as [k e0]. intros [= <- _] H. exact H.
Qed.

Lemma spawn_d w p w1 pid d : spawn w p = (w1, pid, d) -> DI w -> DI w1.
Proof.
  unfold spawn. intros E H.
  destruct (w_event w) as [wa done] eqn:E1. destruct (w_event wa) as [wb ini] eqn:E2.
  inversion E; subst. clear E.
  assert (DI wb) as Hb by (eapply w_event_d; [exact E2|]; eapply w_event_d; [exact E1|]; exact H). exact Hb.
Qed.

Lemma e_update_level_d w e : DI w -> DI (e_update_level w e).
Proof. auto. Qed.
#[local] Hint Resolve e_update_level_d : ddb.

Lemma store_op_d w e o w1 r ts : store_op w e o = (w1, r, ts) -> DI w -> DI w1.
Proof. unfold store_op. destruct (StoreB.step _ _) as [[s' r0] ts0]. intros [= <- _ _] H. auto. Qed.

Lemma out_err_d w r s : DI w -> DI (out_err w r s).
Proof. unfold out_err. intros H. destruct r; auto. destruct e; auto with ddb. Qed.
#[local] Hint Resolve out_err_d : ddb.

Lemma e_reserve_put_d w e p w1 t : e_reserve_put w e p = (w1, t) -> DI w -> DI w1.
Proof.
  unfold e_reserve_put. intros E H.
  destruct (w_event w) as [wa ev] eqn:E1. destruct (store_op wa e (StoreB.Sync ev)) as [[wb r1] t1] eqn:E2.
  destruct (store_op wb e (StoreB.RPut p 0)) as [[wc r2] t2] eqn:E3. inversion E; subst.
  apply w_succeed_all_d. eapply store_op_d; [exact E3|]. eapply store_op_d; [exact E2|]. eapply w_event_d; eauto.
Qed.

Lemma e_reserve_get_d w e p w1 t : e_reserve_get w e p = (w1, t) -> DI w -> DI w1.
Proof.
  unfold e_reserve_get. intros E H.
  destruct (w_event w) as [wa ev] eqn:E1. destruct (store_op wa e (StoreB.Sync ev)) as [[wb r1] t1] eqn:E2.
  destruct (store_op wb e (StoreB.RGet p 0)) as [[wc r2] t2] eqn:E3. inversion E; subst.
  apply w_succeed_all_d. eapply store_op_d; [exact E3|]. eapply store_op_d; [exact E2|]. eapply w_event_d; eauto.
Qed.

Lemma e_cancel_put_d w e t : DI w -> DI (e_cancel_put w e t).
Proof.
  unfold e_cancel_put. intros H. destruct (store_op w e (StoreB.CPut t)) as [[w1 r] ts] eqn:E.
  apply w_succeed_all_d, out_err_d. eapply store_op_d; eauto.
Qed.
Lemma e_cancel_get_d w e t : DI w -> DI (e_cancel_get w e t).
Proof.
  unfold e_cancel_get. intros H. destruct (store_op w e (StoreB.CGet t)) as [[w1 r] ts] eqn:E.
  apply w_succeed_all_d, out_err_d. eapply store_op_d; eauto.
Qed.
#[local] Hint Resolve e_cancel_put_d e_cancel_get_d : ddb.

Lemma fleet_after_put_d w e : DI w -> DI (fleet_after_put w e).
Proof.
  unfold fleet_after_put. intros H. destruct (_ =? _)%nat; auto.
  destruct (e_trig _); auto with ddb.
Qed.
#[local] Hint Resolve fleet_after_put_d : ddb.

Lemma e_put_d w e p t i : DI w -> DI (e_put w e p t i).
Proof.
  unfold e_put. intros H. destruct (ek (get_edge w e)).
  - destruct (_ <? 0); [auto with ddb|].
    destruct (StoreB.step _ _) as [[s' r] ts]. destruct r; auto with ddb.
    destruct (spawn _ _) as [[w2 pid] d] eqn:E. apply logw_d, w_succeed_all_d.
    eapply spawn_d; [exact E|]. auto with ddb.
  - destruct (StoreB.step _ _) as [[s' r] ts]. destruct r; auto with ddb.
Qed.
#[local] Hint Resolve e_put_d : ddb.

Lemma e_get_d w e p t n w1 r : e_get w e p t n = (w1, r) -> DI w -> DI w1.
Proof.
  unfold e_get. intros E H. destruct (StoreB.step _ _) as [[s' r0] ts]. destruct r0 as [?| |?|e0]; try destruct e0; inversion E; subst; auto 10 with ddb.
Qed.

Lemma update_state_d w n s : DI w -> DI (update_state w n s).
Proof. unfold update_state. intros H. destruct (nlast _); auto with ddb. Qed.
#[local] Hint Resolve update_state_d : ddb.

Lemma draw_delay_d w n w1 d : draw_delay w n = (w1, d) -> DI w -> DI w1.
Proof. unfold draw_delay. intros [= <- _] H. auto with ddb. Qed.

Lemma draw_sel_d w n o w1 v : draw_sel w n o = (w1, v) -> DI w -> DI w1.
Proof.
  unfold draw_sel. intros E H. destruct (if o then noutsel _ else ninsel _); inversion E; subst; auto with ddb.
Qed.

Lemma cancel_others_d l : forall w keep (put : bool), DI w ->
  DI (fold_left (fun (w : world) (et : nat * nat) => let '(e, t) := et in
                             if Nat.eqb t keep then w else if put then e_cancel_put w e t else e_cancel_get w e t) l w).
Proof.
  induction l as [|[e t] l IH]; simpl; auto. intros w keep put H. apply IH.
  destruct (Nat.eqb t keep); auto. destruct put; auto with ddb.
Qed.
Lemma cancel_others_dd w es ts keep put : DI w -> DI (cancel_others w es ts keep put).
Proof. unfold cancel_others. apply cancel_others_d. Qed.
#[local] Hint Resolve cancel_others_dd : ddb.

Lemma reserve_all_d pid (put : bool) es : forall w l w1 l1,
  fold_left (fun (acc : world * list nat) (e : nat) => let '(w, l) := acc in
                          let '(w', t) := if put then e_reserve_put w e pid else e_reserve_get w e pid in (w', l ++ [t]))
            es (w, l) = (w1, l1) -> DI w -> DI w1.
Proof.
  induction es as [|e es IH]; simpl; intros w l w1 l1 E H.
  - inversion E; subst; auto.
  - destruct put.
    + destruct (e_reserve_put w e pid) as [w' t] eqn:E1. eapply IH; [exact E|]. eapply e_reserve_put_d; eauto.
    + destruct (e_reserve_get w e pid) as [w' t] eqn:E1. eapply IH; [exact E|]. eapply e_reserve_get_d; eauto.
Qed.
Lemma reserve_all_dd w pid es put w1 l1 : reserve_all w pid es put = (w1, l1) -> DI w -> DI w1.
Proof. unfold reserve_all. apply reserve_all_d. Qed.

Lemma set_creation_d w i n : DI w -> DI (set_creation w i n).
Proof. intros H. unfold set_creation. auto 8 with ddb. Qed.
Lemma update_state_rep_d w n : DI w -> DI (update_state_rep w n).
Proof.
  unfold update_state_rep. intros H. destruct (nlast _); auto with ddb.
  destruct (nsrep _). destruct (count_threads _). destruct (_ >? _); auto with ddb.
Qed.
Lemma occupancy_d w n a : DI w -> DI (occupancy w n a).
Proof. intros H. unfold occupancy. auto 8 with ddb. Qed.
Lemma set_thread_d w n p b : DI w -> DI (set_thread w n p b).
Proof. intros H. unfold set_thread. auto 8 with ddb. Qed.
Lemma add_blocked_time_d w p n : DI w -> DI (add_blocked_time w p n).
Proof. intros H. unfold add_blocked_time. auto 8 with ddb. Qed.
#[local] Hint Resolve set_creation_d update_state_rep_d occupancy_d set_thread_d add_blocked_time_d : ddb.

(* tactic: split every let / match / if of a block, derive DI of each intermediate world from the
   equation that introduced it *)
Ltac kstep :=
  match goal with
  | E : w_timeout ?w _ = (?w1, _) |- _ => assert (DI w1) by (eapply w_timeout_d; [exact E|auto 14 with ddb]); clear E
  | E : w_event ?w = (?w1, _) |- _ => assert (DI w1) by (eapply w_event_d; [exact E|auto 14 with ddb]); clear E
  | E : w_any_of ?w _ = (?w1, _) |- _ => assert (DI w1) by (eapply w_any_of_d; [exact E|auto 14 with ddb]); clear E
  | E : spawn ?w _ = (?w1, _, _) |- _ => assert (DI w1) by (eapply spawn_d; [exact E|auto 14 with ddb]); clear E
  | E : store_op ?w _ _ = (?w1, _, _) |- _ => assert (DI w1) by (eapply store_op_d; [exact E|auto 14 with ddb]); clear E
  | E : e_reserve_put ?w _ _ = (?w1, _) |- _ => assert (DI w1) by (eapply e_reserve_put_d; [exact E|auto 14 with ddb]); clear E
  | E : e_reserve_get ?w _ _ = (?w1, _) |- _ => assert (DI w1) by (eapply e_reserve_get_d; [exact E|auto 14 with ddb]); clear E
  | E : e_get ?w _ _ _ _ = (?w1, _) |- _ => assert (DI w1) by (eapply e_get_d; [exact E|auto 14 with ddb]); clear E
  | E : draw_delay ?w _ = (?w1, _) |- _ => assert (DI w1) by (eapply draw_delay_d; [exact E|auto 14 with ddb]); clear E
  | E : draw_sel ?w _ _ = (?w1, _) |- _ => assert (DI w1) by (eapply draw_sel_d; [exact E|auto 14 with ddb]); clear E
  | E : reserve_all ?w _ _ _ = (?w1, _) |- _ => assert (DI w1) by (eapply reserve_all_dd; [exact E|auto 14 with ddb]); clear E
  end.

Ltac ksplit :=
  repeat (match goal with
          | |- context [let '(_, _) := ?x in _] => destruct x as [? ?] eqn:?; try kstep
          | |- context [match ?x with _ => _ end] => destruct x eqn:?; try kstep
          end; simpl fst).

Ltac kauto := ksplit; simpl; auto 10 with ddb.

Ltac ksplit2 :=
  repeat (cbv zeta;
          match goal with
          | |- context [match ?x with _ => _ end] => destruct x eqn:?; repeat kstep; simpl fst
          end).
Ltac kgo := ksplit2; simpl; auto 12 with ddb.

Lemma source_loop_d w p n : DI w -> DI (fst (source_loop w p n)).
Proof. intros H. unfold source_loop. kgo. Qed.

Lemma spawn_push_d w n i e b : DI w -> DI (fst (spawn_push w n i e b)).
Proof. intros H. unfold spawn_push. kgo. Qed.

#[local] Hint Resolve source_loop_d spawn_push_d : ddb.

Lemma eqform {A} (f : world * A) w1 a : f = (w1, a) -> DI (fst f) -> DI w1.
Proof. intros ->. auto. Qed.

Ltac kstep2 :=
  match goal with
  | E : spawn_push ?w _ _ _ _ = (?w1, _) |- _ =>
      assert (DI w1) by (eapply eqform; [exact E|apply spawn_push_d; auto 14 with ddb]); clear E
  end.

Ltac ksplit3 :=
  repeat (cbv zeta;
          match goal with
          | |- context [match ?x with _ => _ end] => destruct x eqn:?; repeat (kstep || kstep2); cbn [fst snd]
          end).
#[local] Hint Extern 6 (DI (set _ _ _)) => (unfold DI; cbn [wnodes set]; progress simpl) : ddb.
Ltac kgo3 := ksplit3; cbn [fst snd]; auto 14 with ddb.

Lemma source_block_d w p : DI w -> DI (fst (source_block w p)).
Proof. intros H. unfold source_block. kgo3. Qed.

Lemma push_block_d w p : DI w -> DI (fst (push_block w p)).
Proof. intros H. unfold push_block. kgo3. Qed.

Lemma buftimer_block_d w p : DI w -> DI (fst (buftimer_block w p)).
Proof. intros H. unfold buftimer_block. kgo3. Qed.

Lemma sink_loop_d w p n : DI w -> DI (fst (sink_loop w p n)).
Proof. intros H. unfold sink_loop. kgo3. Qed.
#[local] Hint Resolve sink_loop_d : ddb.

Lemma sink_block_d w p : DI w -> DI (fst (sink_block w p)).
Proof. intros H. unfold sink_block. kgo3. Qed.


Lemma machine_request_d w p n : DI w -> DI (fst (machine_request w p n)).
Proof.
  intros H. unfold machine_request. cbv zeta.
  assert (DI (update_state_rep w n)) as H1 by auto with ddb.
  destruct (res_request (wk (update_state_rep w n)) n (nres (get_node (update_state_rep w n) n))) as [[[k r] q]|] eqn:E; cbn [fst].
  - apply setpc_d, upd_proc_d. apply (upd_node_at (update_state_rep w n <| wk := k |>)); [side_plain|exact H1].
  - auto with ddb.
Qed.
#[local] Hint Resolve machine_request_d : ddb.

Lemma machine_start_worker_d w p n i : DI w -> DI (fst (machine_start_worker w p n i)).
Proof. intros H. unfold machine_start_worker. kgo3. Qed.
#[local] Hint Resolve machine_start_worker_d : ddb.

Lemma machine_block_d w p : DI w -> DI (fst (machine_block w p)).
Proof. intros H. unfold machine_block. kgo3. Qed.

Lemma worker_release_d w p n : DI w -> DI (fst (worker_release w p n)).
Proof.
  intros H. unfold worker_release. cbv zeta.
  destruct (res_release (wk w) n (nres (get_node w n)) (ptk (me w p))) as [[[k r] g]|] eqn:E; cbn [fst].
  - apply setpc_d. apply (upd_node_at (w <| wk := k |>)); [side_plain|exact H].
  - auto with ddb.
Qed.
#[local] Hint Resolve worker_release_d : ddb.

Lemma worker_block_d w p : DI w -> DI (fst (worker_block w p)).
Proof. intros H. unfold worker_block. kgo3. Qed.

Lemma fleet_loop_d w p e : DI w -> DI (fst (fleet_loop w p e)).
Proof. intros H. unfold fleet_loop. kgo3. Qed.
#[local] Hint Resolve fleet_loop_d : ddb.

Lemma fleetact_block_d w p : DI w -> DI (fst (fleetact_block w p)).
Proof.
  intros H. unfold fleetact_block. cbv zeta.
  destruct (ppc (me w p)); [apply fleet_loop_d; auto|].
  destruct (StoreB.transit _) eqn:ET; [apply fleet_loop_d; auto|].
  match goal with |- context [fleet_loop (if _ then _ else ?w1) _ _] => set (wb := w1) end.
  assert (DI wb) as H1.
  { subst wb. match goal with |- DI (match ?b with _ => _ end) => destruct b end; auto.
    all: try (destruct (spawn _ _) as [[w2 pid] d] eqn:E; eapply spawn_d; [exact E|]; auto with ddb). }
  clearbody wb.
  destruct (e_trig _).
  - destruct (w_event wb) as [w3 a] eqn:E2. apply fleet_loop_d, upd_edge_d. eapply w_event_d; eauto.
  - apply fleet_loop_d. exact H1.
Qed.

Lemma fleetmove_fold_d e l : forall w, DI w ->
  DI (fold_left (fun (w : world) (it : nat) =>
                    match wcrash w with
                    | Some _ => w
                    | None =>
                        let '(w1, r, ts) := store_op w e (StoreB.Ready it) in
                        let w2 := upd_edge w1 e (fun x => x <| eintransit ::= filter (fun t => negb (Nat.eqb t it)) |>) in
                        w_succeed_all (out_err w2 r 61) ts
                    end) l w).
Proof.
  induction l as [|x l IH]; simpl; auto. intros w H. apply IH.
  destruct (wcrash w); auto. destruct (store_op w e (StoreB.Ready x)) as [[w1 r] ts] eqn:E.
  apply w_succeed_all_d, out_err_d, upd_edge_d. eapply store_op_d; eauto.
Qed.

Lemma fleetmove_block_d w p : DI w -> DI (fst (fleetmove_block w p)).
Proof.
  intros H. unfold fleetmove_block. cbv zeta.
  destruct (ppc (me w p)) as [|[|?]]; cbn [fst].
  - destruct (plst (me w p)); cbn [fst]; auto. destruct (w_timeout _ _) as [w1 t] eqn:E. cbn [fst].
    apply setpc_d. eapply w_timeout_d; eauto.
  - destruct (w_timeout _ _) as [w1 t] eqn:E. cbn [fst]. apply setpc_d. eapply w_timeout_d; eauto.
  - apply fleetmove_fold_d. auto.
Qed.

Lemma check_state_d w n : DI w -> DI (check_state w n).
Proof. intros H. unfold check_state. destruct (count_threads _). kgo3. Qed.
#[local] Hint Resolve check_state_d : ddb.

Lemma sc_request_d w p n pc : DI w -> DI (fst (sc_request w p n pc)).
Proof.
  intros H. unfold sc_request.
  destruct (res_request (wk w) n (nres (get_node w n))) as [[[k r] q]|] eqn:E; cbn [fst].
  - apply setpc_d, upd_proc_d. apply (upd_node_at (w <| wk := k |>)); [side_plain|exact H].
  - auto with ddb.
Qed.
Lemma sc_release_d w p n : DI w -> DI (fst (sc_release w p n)).
Proof.
  intros H. unfold sc_release.
  destruct (res_release (wk w) n (nres (get_node w n)) (ptk (me w p))) as [[[k r] g]|] eqn:E; cbn [fst].
  - apply setpc_d. apply (upd_node_at (w <| wk := k |>)); [side_plain|exact H].
  - auto with ddb.
Qed.
#[local] Hint Resolve sc_request_d sc_release_d : ddb.

Lemma sc_dispatch_d w p n c ph : DI w -> DI (fst (sc_dispatch w p n c ph)).
Proof. intros H. unfold sc_dispatch. kgo3. Qed.
#[local] Hint Resolve sc_dispatch_d : ddb.

Lemma sc_next_d w p n : DI w -> DI (fst (sc_next w p n)).
Proof. intros H. unfold sc_next. kgo3. Qed.
#[local] Hint Resolve sc_next_d : ddb.

Lemma sc_worker_cont_d w p n : DI w -> DI (fst (sc_worker_cont w p n)).
Proof. intros H. unfold sc_worker_cont. kgo3. Qed.
#[local] Hint Resolve sc_worker_cont_d : ddb.

Lemma sc_run_d f : forall w p n r, DI (fst r) -> DI (fst (sc_run f w p n r)).
Proof.
  induction f as [|f IH]; simpl; intros w p n r H; auto with ddb.
  destruct r as [w1 y]. cbn [fst] in *. destruct (wcrash w1); auto.
  destruct (Nat.eqb _ 8); auto. apply IH. auto with ddb.
Qed.

Lemma splitworker_block_d w p : DI w -> DI (fst (splitworker_block w p)).
Proof.
  intros H. unfold splitworker_block. cbv zeta. destruct (ppc (me w p)) as [|[|?]].
  - kgo3.
  - match goal with |- context [if ?b then _ else _] => destruct b end; cbn [fst]; auto with ddb.
    apply sc_run_d. auto 12 with ddb.
  - apply sc_run_d. auto with ddb.
Qed.

Lemma combworker_block_d w p : DI w -> DI (fst (combworker_block w p)).
Proof.
  intros H. unfold combworker_block. cbv zeta. destruct (ppc (me w p)); apply sc_run_d; auto with ddb.
Qed.

Lemma splitter_head_d w p n : DI w -> DI (fst (splitter_head w p n)).
Proof. intros H. unfold splitter_head. kgo3. Qed.
#[local] Hint Resolve splitter_head_d : ddb.

Lemma splitter_start_d w p n pal : DI w -> DI (fst (splitter_start w p n pal)).
Proof. intros H. unfold splitter_start. kgo3. Qed.
#[local] Hint Resolve splitter_start_d : ddb.

Lemma splitter_block_d w p : DI w -> DI (fst (splitter_block w p)).
Proof. intros H. unfold splitter_block. kgo3. Qed.

Lemma combiner_head_d w p n : DI w -> DI (fst (combiner_head w p n)).
Proof. intros H. unfold combiner_head. kgo3. Qed.
#[local] Hint Resolve combiner_head_d : ddb.

Lemma combiner_rep_d e p k0 j : forall a, DI (fst (fst a)) -> DI (fst (fst (comb_rep e p k0 j a))).
Proof.
  induction j as [|j IH]; intros [[w0 ts] ix] H; simpl; auto.
  destruct (e_reserve_get w0 e p) as [w1 t] eqn:E. apply IH. cbn [fst]. eapply e_reserve_get_d; eauto.
Qed.

Lemma combiner_go_d rc p es : forall k acc r, DI (fst (fst acc)) -> comb_go rc p k es acc = Some r -> DI (fst (fst r)).
Proof.
  induction es as [|e es IH]; simpl; intros k acc r HA EQ.
  - inversion EQ; subst; auto.
  - destruct (nth_error rc k) as [q|]; [|discriminate]. eapply IH; [|exact EQ]. apply combiner_rep_d. exact HA.
Qed.

Lemma combiner_reserve_d w p n w1 a b : combiner_reserve w p n = Some (w1, a, b) -> DI w -> DI w1.
Proof.
  unfold combiner_reserve. intros E H.
  assert (DI (fst (fst (w1, a, b)))) as K by (eapply combiner_go_d; [|exact E]; cbn [fst]; exact H). exact K.
Qed.

Lemma combiner_loop_d w p n : DI w -> DI (fst (combiner_loop w p n)).
Proof. intros H. unfold combiner_loop. kgo3. Qed.
#[local] Hint Resolve combiner_loop_d : ddb.

Lemma combiner_block_d w p : DI w -> DI (fst (combiner_block w p)).
Proof.
  intros H. unfold combiner_block. cbv zeta.
  destruct (ppc (me w p)) as [|[|[|[|[|[|?]]]]]].
  - kgo3.
  - auto with ddb.
  - destruct (e_get _ _ _ _ _) as [w1 it] eqn:E. assert (DI w1) by (eapply e_get_d; eauto).
    destruct it; cbn [fst]; auto. destruct (negb _); cbn [fst]; auto with ddb.
    destruct (combiner_reserve w1 p (pown (me w p))) as [[[w2 a] b]|] eqn:E2; cbn [fst]; auto with ddb.
    assert (DI w2) by (eapply combiner_reserve_d; eauto).
    destruct (w_any_of w2 a) as [w3 c] eqn:E3. cbn [fst]. apply setpc_d, upd_proc_d. eapply w_any_of_d; eauto.
  - auto with ddb.
  - kgo3.
  - kgo3.
  - kgo3.
Qed.

Lemma block_d w p : DI w -> DI (fst (block w p)).
Proof.
  intros H. unfold block. destruct (pkd (me w p)); cbn [fst]; auto with ddb;
    first [apply source_block_d | apply machine_block_d | apply worker_block_d | apply sink_block_d | apply push_block_d
          | apply buftimer_block_d | apply fleetact_block_d | apply fleetmove_block_d | apply splitter_block_d
          | apply splitworker_block_d | apply combiner_block_d | apply combworker_block_d]; auto.
Qed.

Lemma resume_d f : forall w p, DI w -> DI (resume f w p).
Proof.
  induction f as [|f IH]; simpl; intros w p H; auto with ddb.
  destruct (wcrash w); auto.
  pose proof (block_d (w <| wactive := p |>) p) as B.
  destruct (block (w <| wactive := p |>) p) as [w1 y]. cbn [fst] in B.
  assert (DI w1) as H1 by (apply B; exact H).
  destruct (wcrash w1); auto. destruct y.
  - destruct (e_proc _); [apply IH; exact H1|]. exact H1.
  - apply upd_proc_d. exact H1.
Qed.

Lemma run_cb_d w c : DI w -> DI (run_cb w c).
Proof.
  intros H. unfold run_cb. destruct (wcrash w); auto. destruct c.
  - destruct (_ <? _)%nat; [apply resume_d; auto|apply crashw_d; auto].
  - exact H.
  - destruct (res_trig_get _ _) as [[k0 r0]|] eqn:E; auto with ddb;
      (apply (upd_node_at (w <| wk := k0 |>)); [side_plain|exact H]).
  - destruct (res_trig_put _ _) as [[k0 r0]|] eqn:E; auto with ddb;
      (apply (upd_node_at (w <| wk := k0 |>)); [side_plain|exact H]).
  - exact H.
Qed.


Lemma run_cbs_d l : forall w, DI w -> DI (fold_left run_cb l w).
Proof. induction l as [|c l IH]; simpl; auto. intros w H. apply IH, run_cb_d, H. Qed.



End Config.

Theorem fstep_d bl w w' : DI bl w -> fstep w = Some w' -> DI bl w'.
Proof.
  unfold fstep. intros H. destruct (wcrash w); [discriminate|].
  destruct (pop (wk w)) as [[[k e] cbs]|] eqn:E; [|discriminate]. intros [= <-].
  apply run_cbs_d. exact H.
Qed.

Lemma mk_step_d bl w c : DI bl w -> DI bl (mk_step w c).
Proof.
  intros H. unfold mk_step. destruct c as [b i]. destruct b.
  - cbv zeta. match goal with |- context [spawn ?a ?b] => destruct (spawn a b) as [[w' pid] d] eqn:E end.
    eapply spawn_d; eauto.
  - destruct (ek (get_edge w i)); auto;
      destruct (w_event w) as [w1 act] eqn:E1; cbv zeta;
      match goal with |- context [spawn ?a ?b] => destruct (spawn a b) as [[w' pid] d] eqn:E end;
      (eapply spawn_d; [exact E|]); assert (DI bl w1) as H1 by (eapply w_event_d; eauto); exact H1.
Qed.

Lemma mk_world_d nodes edges order :
  (forall nd, In nd nodes -> nblocking nd = true -> ndisc nd = 0%nat) ->
  DI (map nblocking nodes) (mk_world nodes edges order).
Proof.
  unfold mk_world. intros H0.
  assert (forall l w, DI (map nblocking nodes) w -> DI (map nblocking nodes) (fold_left mk_step l w)) as G.
  { induction l as [|c l IH]; simpl; auto. intros w H. apply IH, mk_step_d, H. }
  apply G. split; simpl.
  - rewrite map_length. reflexivity.
  - intros i Hi. rewrite map_length in Hi. unfold get_node. simpl.
    rewrite (nth_indep (map nblocking nodes) true (nblocking node0)) by (rewrite map_length; exact Hi).
    rewrite map_nth. split; auto. apply H0. apply nth_In. exact Hi.
Qed.

(* C09 (first half) at full strength: for every factory configuration whose blocking nodes start with
   a zero discard counter, and every number of kernel steps, a blocking node has discarded nothing
   and every node still has its configured blocking flag *)
Theorem blocking_never_discards nodes edges order n :
  (forall nd, In nd nodes -> nblocking nd = true -> ndisc nd = 0%nat) ->
  forall i, (i < length nodes)%nat ->
    let nd := get_node (FactoryInv.iter_fstep n (mk_world nodes edges order)) i in
    nblocking nd = nblocking (nth i nodes node0) /\ (nblocking nd = true -> ndisc nd = 0%nat).
Proof.
  intros H0 i Hi.
  assert (forall m w, DI (map nblocking nodes) w -> DI (map nblocking nodes) (FactoryInv.iter_fstep m w)) as G.
  { induction m as [|m IH]; simpl; intros w H; auto. destruct (fstep w) as [w'|] eqn:E; auto.
    apply IH. eapply fstep_d; eauto. }
  destruct (G n _ (mk_world_d nodes edges order H0)) as (L & K).
  assert (i < length (map nblocking nodes))%nat as Hi' by (rewrite map_length; exact Hi).
  destruct (K i Hi') as (A & B).
  rewrite (nth_indep (map nblocking nodes) true (nblocking node0)) in A, B by exact Hi'.
  rewrite map_nth in A, B. cbv zeta. split; [exact A|]. intros C. apply B. congruence.
Qed.
