(* L2: processes of a factory as yield-point state machines, and the transition function fstep
   (one kernel pop per step, like Environment.step).  Faithful to nodes/source.py, nodes/machine.py,
   nodes/sink.py, edges/buffer.py + base/buffer_store.py, edges/fleet.py + base/fleet_store.py
   (see DESIGN.md Appendix A for the yield-point tables).  Model only. *)
From Coq Require Import List ZArith Bool Arith.
From RecordUpdate Require Import RecordUpdate.
From FV Require Import ListLemmas Kernel SrcFragments Lens Accounting World.
From FV Require StoreB.
Import ListNotations.
Open Scope Z_scope.

(* what a block hands back to the resume loop *)
Inductive yld := YEvent (e : nat) | YDone.

Definition setpc (w : world) (p : nat) (pc : nat) : world := upd_proc w p (fun x => x <| ppc := pc |>).

(* ------------------------------------------------------------------ edge put / get *)

(* FleetStore._do_put's capacity trigger *)
Definition fleet_after_put (w : world) (e : nat) : world :=
  let ed := get_edge w e in
  let s := est ed in
  if (length (StoreB.transit s) + length (StoreB.ready s) =? StoreB.cap s)%nat then
    if e_trig (get_ev (wk w) (eact ed)) then w else w_succeed w (eact ed) 20
  else w.

(* edge.put(token, item) as called by a node process [pid]; [via_edge]: Buffer.put / Fleet.put
   (draws the delay, runs the stats collector) *)
Definition e_put (w : world) (e : nat) (pid : nat) (tok : nat) (item : nat) : world :=
  let ed := get_edge w e in
  match ek ed with
  | EBuffer =>
      let d := stream_at (edelays ed) (edptr ed) in
      let w0 := upd_edge w e (fun x => x <| edptr ::= S |>) in
      if d <? 0 then crashw w0 (CAssert 30) else
      let '(s', r, ts) := StoreB.step (est ed) (StoreB.Put pid tok item) in
      match r with
      | StoreB.OOk =>
          (* _do_put: append, _update_time_averaged_level, env.process(move_to_ready_items); put: _trigger_reserve_get *)
          let w1 := e_update_level (upd_edge w0 e (fun x => x <| est := s' |>)) e in
          let '(w2, _, _) := spawn w1 (proc0 <| pkd := KBufTimer |> <| pown := e |> <| pit := item |> <| pdl := d |>) in
          logw (w_succeed_all w2 ts) (LPut (wnow w) e item)
      | _ => out_err (upd_edge w0 e (fun x => x <| est := s' |>)) r 31
      end
  | EFleet =>
      let '(s', r, ts) := StoreB.step (est ed) (StoreB.Put pid tok item) in
      match r with
      | StoreB.OOk =>
          let w1 := upd_edge w e (fun x => x <| est := s' |>) in
          (* level update happens before the triggers; the counts are the same afterwards *)
          let w2 := e_update_level w1 e in
          let w3 := w_succeed_all w2 ts in
          logw (fleet_after_put w3 e) (LPut (wnow w) e item)
      | _ => out_err (upd_edge w e (fun x => x <| est := s' |>)) r 32
      end
  end.

(* store.get(token); [via_edge] = true for Buffer.get / Fleet.get (Machine), false for the Sink which
   calls the store directly -- the only difference is a second, idempotent level update *)
Definition e_get (w : world) (e : nat) (pid : nat) (tok : nat) (node : nat) : world * option nat :=
  let ed := get_edge w e in
  let '(s', r, ts) := StoreB.step (est ed) (StoreB.Get pid tok) in
  match r with
  | StoreB.OItem it =>
      (* _do_get: remove, _update_time_averaged_level ; get: _trigger_reserve_put *)
      let w1 := e_update_level (upd_edge w e (fun x => x <| est := s' |>)) e in
      (logw (w_succeed_all w1 ts) (LGet (wnow w) e it node), Some it)
  | _ => (out_err (upd_edge w e (fun x => x <| est := s' |>)) r 33, None)
  end.

(* ------------------------------------------------------------------ node helpers *)

(* Node.update_state *)
Definition update_state (w : world) (n : nat) (st : nat) : world :=
  let nd := get_node w n in
  let t := wnow w in
  let w1 := match nlast nd with
            | Some l => upd_node w n (fun x => x <| ntstate ::= upd (nstate nd) (fun v => v + (t - l)) |>)
            | None => w
            end in
  upd_node w1 n (fun x => x <| nstate := st |> <| nlast := Some t |>).

Definition ST_SETUP := 0%nat.
Definition ST_GEN := 1%nat.
Definition ST_BLOCKED := 2%nat.

(* Node.get_delay on the node's delay stream: one draw *)
Definition draw_delay (w : world) (n : nat) : world * Z :=
  let nd := get_node w n in
  let d := stream_at (ndelays nd) (ndptr nd) in
  (logw (upd_node w n (fun x => x <| ndptr ::= S |>)) (LDraw n 0 d), d).

(* index policies: one draw from the selector; None = the policy is not an index policy *)
Definition draw_sel (w : world) (n : nat) (out : bool) : world * option Z :=
  let nd := get_node w n in
  let pol := if out then noutsel nd else ninsel nd in
  let ptr := if out then noutptr nd else ninptr nd in
  let nedges := Z.of_nat (length (if out then nouts nd else nins nd)) in
  let bump w := upd_node w n (fun x => if out then x <| noutptr ::= S |> else x <| ninptr ::= S |>) in
  match pol with
  | PConst i => (w, Some i)
  | PRoundRobin =>
      (* generator state: ptr counts the draws; value = iterate round_robin_next from 0 *)
      let v := Z.of_nat ptr mod nedges in
      (bump w, Some v)
  | PStream l => let v := stream_at l ptr in (logw (bump w) (LDraw n (if out then 2 else 1) v), Some v)
  | _ => (w, None)
  end.

Definition first_triggered (w : world) (toks : list nat) : option (nat * nat) :=
  (fix go (i : nat) (l : list nat) : option (nat * nat) :=
     match l with
     | [] => None
     | t :: r => if e_trig (get_ev (wk w) t) then Some (i, t) else go (S i) r
     end) 0%nat toks.

Definition first_can_put (w : world) (es : list nat) : option nat :=
  (fix go (l : list nat) : option nat :=
     match l with [] => None | e :: r => if e_can_put w e then Some e else go r end) es.

(* cancel every token of [toks] (paired with its edge) except [keep] *)
Definition cancel_others (w : world) (edges toks : list nat) (keep : nat) (put : bool) : world :=
  fold_left (fun w et => let '(e, t) := et in
                         if Nat.eqb t keep then w else if put then e_cancel_put w e t else e_cancel_get w e t)
            (combine edges toks) w.

Definition reserve_all (w : world) (pid : nat) (edges : list nat) (put : bool) : world * list nat :=
  fold_left (fun acc e => let '(w, l) := acc in
                          let '(w', t) := if put then e_reserve_put w e pid else e_reserve_get w e pid in (w', l ++ [t]))
            edges (w, []).

Definition set_creation (w : world) (i : nat) (n : nat) : world :=
  upd_item w i (fun x => x <| i_creation := Some (wnow w) |> <| i_src := n |>).

Definition in_range (v : Z) (n : nat) : bool := (0 <=? v) && (v <? Z.of_nat n).

(* ------------------------------------------------------------------ Machine accounting *)

Definition count_threads (nd : node) : Z * Z :=
  (Z.of_nat (length (filter (fun x => negb (snd x)) (nthreads nd))),
   Z.of_nat (length (filter (fun x => snd x) (nthreads nd)))).

(* Machine.update_state_rep *)
Definition update_state_rep (w : world) (n : nat) : world :=
  let nd := get_node w n in
  let t := wnow w in
  match nlast nd with
  | Some l =>
      let el := t - l in
      let '(p, b) := nsrep nd in
      let add (k : nat) (c : bool) (ts : list Z) := if c then upd k (fun v => v + el) ts else ts in
      let ts := ntstate nd in
      let ts := add 1%nat (c_idle p b) ts in                     (* IDLE *)
      let ts := add 3%nat (c_allblk p b) ts in                   (* ALL_ACTIVE_BLOCKED *)
      let ts := add 2%nat (c_oneproc p b) ts in                  (* ATLEAST_ONE_PROCESSING *)
      let ts := add 4%nat (c_allproc p b) ts in                  (* ALL_ACTIVE_PROCESSING *)
      let ts := add 5%nat (c_oneblk p b) ts in                   (* ATLEAST_ONE_BLOCKED *)
      let '(np, nb) := count_threads nd in
      let w1 := upd_node w n (fun x => x <| ntstate := ts |> <| nsrep := (np, nb) |> <| nlast := Some t |>) in
      if (np + nb >? Z.of_nat (nwcap nd)) then crashw w1 (CAssert 40) else w1
  | None => upd_node w n (fun x => x <| nlast := Some t |>)
  end.

(* Machine._update_worker_occupancy('ADD' / 'REMOVE') *)
Definition occupancy (w : world) (n : nat) (add : bool) : world :=
  let nd := get_node w n in
  let t := wnow w in
  upd_node w n (fun x => x <| nocchist ::= upd (nnumw nd) (fun v => v + (t - nocclast nd)) |>
                           <| nnumw := if add then S (nnumw nd) else pred (nnumw nd) |> <| nocclast := t |>).

Definition set_thread (w : world) (n pid : nat) (blocked : bool) : world :=
  upd_node w n (fun x => x <| nthreads ::= map (fun y => if Nat.eqb (fst y) pid then (pid, blocked) else y) |>).

(* ------------------------------------------------------------------ the blocks *)

Definition me (w : world) (p : nat) : proc := get_proc w p.

(* Source: the GENERATING branch of the loop head: update_state(self.state), draw, yield timeout *)
Definition source_loop (w : world) (p n : nat) : world * yld :=
  let w := update_state w n (nstate (get_node w n)) in
  let '(w, d) := draw_delay w n in
  if d <? 0 then (crashw w (CAssert 50), YDone) else
  let '(w, t) := w_timeout w d in
  (setpc w p 2, YEvent t).

Definition spawn_push (w : world) (n : nat) (item edge : nat) (from_source : bool) : world * nat :=
  let '(w, _, done) := spawn w (proc0 <| pkd := KPush |> <| pown := n |> <| pit := item |> <| pix := edge |>
                                       <| paux := if from_source then 1%nat else 0%nat |>) in
  (w, done).

Definition source_block (w : world) (p : nat) : world * yld :=
  let pr := me w p in
  let n := pown pr in
  let nd := get_node w n in
  match ppc pr with
  | 0%nat =>
      (* asserts, reset(), first loop iteration in SETUP_STATE *)
      if negb (match nins nd with [] => true | _ => false end) then (crashw w (CAssert 51), YDone) else
      if (length (nouts nd) <? 1)%nat then (crashw w (CAssert 52), YDone) else
      match noutsel nd with
      | PConst i => if in_range i (length (nouts nd)) then
                      let w := update_state w n ST_SETUP in
                      let '(w, t) := w_timeout w (nsetup nd) in (setpc w p 1, YEvent t)
                    else (crashw w (CAssert 53), YDone)
      | PBad => (crashw w (CValue 54), YDone)
      | _ => let w := update_state w n ST_SETUP in
             let '(w, t) := w_timeout w (nsetup nd) in (setpc w p 1, YEvent t)
      end
  | 1%nat => let w := update_state w n ST_GEN in source_loop w p n
  | 2%nat =>
      (* an item is due: create it *)
      let item := length (witems w) in
      let w := w <| witems ::= fun l => l ++ [item0 <| i_src := n |> <| i_pallet := npallet nd |>] |> in
      let w := upd_node w n (fun x => x <| ngen ::= S |>) in
      let w := logw w (LGen (wnow w) n item) in
      let w := upd_proc w p (fun x => x <| pit := item |>) in
      match noutsel nd with
      | PFirst =>
          if nblocking nd then
            let w := update_state w n ST_BLOCKED in
            let '(w, toks) := reserve_all w p (nouts nd) true in
            let '(w, c) := w_any_of w toks in
            (setpc (upd_proc w p (fun x => x <| ptks := toks |>)) p 3, YEvent c)
          else
            match first_can_put w (nouts nd) with
            | Some e => let w := update_state w n ST_BLOCKED in
                        let '(w, done) := spawn_push w n item e true in (setpc w p 4, YEvent done)
            | None => let w := logw (upd_node w n (fun x => x <| ndisc ::= S |>)) (LDiscard (wnow w) n item) in
                      source_loop w p n
            end
      | _ =>
          let '(w, v) := draw_sel w n true in
          match v with
          | None => (crashw w (CValue 55), YDone)
          | Some i =>
              if negb (in_range i (length (nouts nd))) then (crashw w (CIndex 56), YDone) else
              let e := nth (Z.to_nat i) (nouts nd) 0%nat in
              if nblocking nd then
                let w := update_state w n ST_BLOCKED in
                let '(w, done) := spawn_push w n item e true in (setpc w p 4, YEvent done)
              else if e_can_put w e then
                let '(w, done) := spawn_push w n item e true in (setpc w p 5, YEvent done)
              else
                let w := logw (upd_node w n (fun x => x <| ndisc ::= S |>)) (LDiscard (wnow w) n item) in
                source_loop w p n
          end
      end
  | 3%nat =>
      match first_triggered w (ptks pr) with
      | None => (crashw w (CValue 57), YDone)
      | Some (idx, tok) =>
          let w := cancel_others w (nouts nd) (ptks pr) tok true in
          let w := set_creation w (pit pr) n in
          let w := e_put w (nth idx (nouts nd) 0%nat) p tok (pit pr) in
          let w := update_state w n ST_GEN in
          source_loop w p n
      end
  | 4%nat => let w := update_state w n ST_GEN in source_loop w p n
  | _ => source_loop w p n
  end.

(* _push_item(item, edge) of Source (paux = 1: set_creation) and Machine *)
Definition push_block (w : world) (p : nat) : world * yld :=
  let pr := me w p in
  match ppc pr with
  | 0%nat => let '(w, t) := e_reserve_put w (pix pr) p in
             (setpc (upd_proc w p (fun x => x <| ptk := t |>)) p 1, YEvent t)
  | _ => let w := if Nat.eqb (paux pr) 1 then set_creation w (pit pr) (pown pr) else w in
         (e_put w (pix pr) p (ptk pr) (pit pr), YDone)
  end.

(* BufferStore.move_to_ready_items(item) *)
Definition buftimer_block (w : world) (p : nat) : world * yld :=
  let pr := me w p in
  let e := pown pr in
  match ppc pr with
  | 0%nat =>
      match StoreB.transit (est (get_edge w e)) with
      | [] => (w, YDone)
      | _ => let '(w, t) := w_timeout w (pdl pr) in (setpc w p 1, YEvent t)
      end
  | _ =>
      let '(w1, r, ts) := store_op w e (StoreB.Ready (pit pr)) in
      (w_succeed_all (out_err w1 r 60) ts, YDone)
  end.

(* Sink.behaviour *)
Definition sink_loop (w : world) (p n : nat) : world * yld :=
  let nd := get_node w n in
  let w := update_state w n 0 in
  let '(w, toks) := reserve_all w p (nins nd) false in
  let '(w, c) := w_any_of w toks in
  (setpc (upd_proc w p (fun x => x <| ptks := toks |>)) p 1, YEvent c).

Definition sink_block (w : world) (p : nat) : world * yld :=
  let pr := me w p in
  let n := pown pr in
  let nd := get_node w n in
  match ppc pr with
  | 0%nat =>
      if (length (nins nd) <? 1)%nat then (crashw w (CAssert 70), YDone) else
      if negb (match nouts nd with [] => true | _ => false end) then (crashw w (CAssert 71), YDone) else
      sink_loop w p n
  | _ =>
      match first_triggered w (ptks pr) with
      | None => (crashw w (CValue 72), YDone)
      | Some (idx, tok) =>
          let w := cancel_others w (nins nd) (ptks pr) tok false in
          let '(w, it) := e_get w (nth idx (nins nd) 0%nat) p tok n in
          match it with
          | None => (w, YDone)
          | Some i =>
              match i_creation (get_item w i) with
              | None => (crashw w (CType 73), YDone)      (* now - None *)
              | Some c =>
                  let w := upd_node w n (fun x => x <| nrecv ::= S |> <| ncycle ::= fun v => v + (wnow w - c) |>) in
                  sink_loop (logw w (LRecv (wnow w) n i c)) p n
              end
          end
      end
  end.

(* Machine.behaviour: the tail of the loop: update_state_rep, request a worker slot *)
Definition machine_request (w : world) (p n : nat) : world * yld :=
  let w := update_state_rep w n in
  match res_request (wk w) n (nres (get_node w n)) with
  | None => (crashw w (CDoubleSucceed 80), YDone)
  | Some (k, r, q) =>
      let w := upd_node (w <| wk := k |>) n (fun x => x <| nres := r |>) in
      (setpc (upd_proc w p (fun x => x <| ptk := q |>)) p 2, YEvent q)
  end.

(* after the item has been pulled: draw the delay, start the worker, loop *)
Definition machine_start_worker (w : world) (p n : nat) (item : nat) : world * yld :=
  let '(w, d) := draw_delay w n in
  if d <? 0 then (crashw w (CAssert 81), YDone) else
  let req := ptk (me w p) in
  let '(w, wp, _) := spawn w (proc0 <| pkd := KWorker |> <| pown := n |> <| pit := item |> <| pdl := d |> <| ptk := req |>) in
  let w := upd_node w n (fun x => x <| nthreads ::= fun l => l ++ [(wp, false)] |>) in
  let w := update_state_rep w n in
  machine_request w p n.

Definition policy_ok (pol : policy) (nedges : nat) : option crash :=
  match pol with
  | PConst i => if in_range i nedges then None else Some (CAssert 82)
  | PBad => Some (CValue 83)
  | _ => None
  end.

Definition machine_block (w : world) (p : nat) : world * yld :=
  let pr := me w p in
  let n := pown pr in
  let nd := get_node w n in
  match ppc pr with
  | 0%nat =>
      match policy_ok (ninsel nd) (length (nins nd)), policy_ok (noutsel nd) (length (nouts nd)) with
      | Some c, _ => (crashw w c, YDone)
      | None, Some c => (crashw w c, YDone)
      | None, None =>
          if (length (nins nd) <? 1)%nat || (length (nouts nd) <? 1)%nat then (crashw w (CAssert 84), YDone) else
          let '(w, t) := w_timeout w (nsetup nd) in (setpc w p 1, YEvent t)
      end
  | 1%nat =>
      let w := upd_node w n (fun x => x <| ntstate ::= upd 0 (fun v => v + nsetup nd) |> <| nsrep := (0, 0) |>) in
      let w := update_state_rep w n in
      machine_request w p n
  | 2%nat =>
      let w := occupancy w n true in
      match ninsel nd with
      | PFirst =>
          let '(w, toks) := reserve_all w p (nins nd) false in
          let '(w, c) := w_any_of w toks in
          (setpc (upd_proc w p (fun x => x <| ptks := toks |>)) p 3, YEvent c)
      | _ =>
          let '(w, v) := draw_sel w n false in
          match v with
          | None => (crashw w (CValue 85), YDone)
          | Some i =>
              if negb (in_range i (length (nins nd))) then (crashw w (CAssert 86), YDone) else
              let w := logw w (LSel n false (Z.to_nat i)) in
              let e := nth (Z.to_nat i) (nins nd) 0%nat in
              let '(w, t) := e_reserve_get w e p in
              (setpc (upd_proc w p (fun x => x <| ptks := [t] |> <| pix := Z.to_nat i |>)) p 4, YEvent t)
          end
      end
  | 3%nat =>
      match first_triggered w (ptks pr) with
      | None => (crashw w (CValue 87), YDone)
      | Some (idx, tok) =>
          let w := logw w (LSel n false idx) in
          let w := cancel_others w (nins nd) (ptks pr) tok false in
          let '(w, it) := e_get w (nth idx (nins nd) 0%nat) p tok n in
          match it with
          | None => (w, YDone)
          | Some i => machine_start_worker w p n i
          end
      end
  | _ =>
      let e := nth (pix pr) (nins nd) 0%nat in
      let '(w, it) := e_get w e p (hd 0%nat (ptks pr)) n in
      match it with
      | None => (w, YDone)
      | Some i => machine_start_worker w p n i
      end
  end.

(* Machine.worker: the release epilogue *)
Definition worker_release (w : world) (p n : nat) : world * yld :=
  let pr := me w p in
  match res_release (wk w) n (nres (get_node w n)) (ptk pr) with
  | None => (crashw w (CDoubleSucceed 90), YDone)
  | Some (k, r, g) =>
      let w := upd_node (w <| wk := k |>) n (fun x => x <| nres := r |>) in
      (setpc w p 9, YEvent g)
  end.

Definition add_blocked_time (w : world) (p n : nat) : world :=
  upd_node w n (fun x => x <| nsumblk ::= fun v => v + (wnow w - pt1 (me w p)) |>).

Definition worker_block (w : world) (p : nat) : world * yld :=
  let pr := me w p in
  let n := pown pr in
  let nd := get_node w n in
  match ppc pr with
  | 0%nat =>
      let w := update_state_rep w n in
      let w := upd_proc w p (fun x => x <| pt0 := wnow w |>) in
      let '(w, t) := w_timeout w (pdl pr) in (setpc w p 1, YEvent t)
  | 1%nat =>
      let w := upd_node w n (fun x => x <| nsumproc ::= fun v => v + (wnow w - pt0 pr) |>) in
      match noutsel nd with
      | PFirst =>
          if nblocking nd then
            let w := update_state_rep w n in
            let w := set_thread w n p true in
            let w := update_state_rep w n in
            let w := upd_proc w p (fun x => x <| pt1 := wnow w |>) in
            let '(w, toks) := reserve_all w p (nouts nd) true in
            let '(w, c) := w_any_of w toks in
            (setpc (upd_proc w p (fun x => x <| ptks := toks |>)) p 2, YEvent c)
          else
            match first_can_put w (nouts nd) with
            | Some e =>
                let w := upd_proc w p (fun x => x <| pt1 := wnow w |>) in
                let w := update_state_rep w n in
                let w := set_thread w n p true in
                let w := update_state_rep w n in
                let '(w, done) := spawn_push w n (pit pr) e false in (setpc w p 3, YEvent done)
            | None =>
                let w := logw (upd_node w n (fun x => x <| ndisc ::= S |>)) (LDiscard (wnow w) n (pit pr)) in
                worker_release w p n
            end
      | _ =>
          let '(w, v) := draw_sel w n true in
          match v with
          | None => (crashw w (CValue 91), YDone)
          | Some i =>
              if negb (in_range i (length (nouts nd))) then (crashw w (CAssert 92), YDone) else
              let w := logw w (LSel n true (Z.to_nat i)) in
              let e := nth (Z.to_nat i) (nouts nd) 0%nat in
              let w := set_thread w n p true in
              let w := update_state_rep w n in
              if nblocking nd then
                let w := upd_proc w p (fun x => x <| pt1 := wnow w |>) in
                let '(w, t) := e_reserve_put w e p in
                (setpc (upd_proc w p (fun x => x <| ptks := [t] |> <| pix := e |>)) p 5, YEvent t)
              else if e_can_put w e then
                let w := upd_proc w p (fun x => x <| pt1 := wnow w |>) in
                let '(w, done) := spawn_push w n (pit pr) e false in (setpc w p 6, YEvent done)
              else
                let w := logw (upd_node w n (fun x => x <| ndisc ::= S |>)) (LDiscard (wnow w) n (pit pr)) in
                worker_release w p n
          end
      end
  | 2%nat =>
      match first_triggered w (ptks pr) with
      | None => (crashw w (CValue 93), YDone)
      | Some (idx, tok) =>
          let w := logw w (LSel n true idx) in
          let w := cancel_others w (nouts nd) (ptks pr) tok true in
          let w := upd_node w n (fun x => x <| nprocd ::= S |>) in
          let w := e_put w (nth idx (nouts nd) 0%nat) p tok (pit pr) in
          let w := add_blocked_time w p n in
          let w := update_state_rep w n in
          worker_release w p n
      end
  | 3%nat =>
      let w := upd_node w n (fun x => x <| nprocd ::= S |>) in
      let w := add_blocked_time w p n in
      let w := update_state_rep w n in
      worker_release w p n
  | 5%nat =>
      let w := upd_node w n (fun x => x <| nprocd ::= S |>) in
      let w := e_put w (pix pr) p (hd 0%nat (ptks pr)) (pit pr) in
      let w := add_blocked_time w p n in
      worker_release w p n
  | 6%nat =>
      let w := upd_node w n (fun x => x <| nprocd ::= S |>) in
      let w := add_blocked_time w p n in
      worker_release w p n
  | _ =>
      (* after the release: leave the thread list, occupancy REMOVE, update_state_rep *)
      let w := upd_node w n (fun x => x <| nthreads ::= filter (fun y => negb (Nat.eqb (fst y) p)) |>) in
      let w := occupancy w n false in
      (update_state_rep w n, YDone)
  end.

(* FleetStore.fleet_activation_process *)
Definition fleet_loop (w : world) (p e : nat) : world * yld :=
  let '(w, t) := w_timeout w (efdelay (get_edge w e)) in
  let '(w, c) := w_any_of w [t; eact (get_edge w e)] in
  (setpc w p 1, YEvent c).

Definition fleetact_block (w : world) (p : nat) : world * yld :=
  let pr := me w p in
  let e := pown pr in
  match ppc pr with
  | 0%nat => fleet_loop w p e
  | _ =>
      let ed := get_edge w e in
      match StoreB.transit (est ed) with
      | [] => fleet_loop w p e
      | _ =>
          let batch := filter (fun it => negb (existsb (Nat.eqb it) (eintransit ed))) (StoreB.transit (est ed)) in
          let w := match batch with
                   | [] => w
                   | _ => let w := upd_edge w e (fun x => x <| eintransit ::= fun l => l ++ batch |>) in
                          let '(w, _, _) := spawn w (proc0 <| pkd := KFleetMove |> <| pown := e |> <| plst := batch |>) in w
                   end in
          let w := if e_trig (get_ev (wk w) (eact (get_edge w e)))
                   then let '(w, a) := w_event w in upd_edge w e (fun x => x <| eact := a |>)
                   else w in
          fleet_loop w p e
      end
  end.

(* FleetStore.move_to_ready_items(batch) *)
Definition fleetmove_block (w : world) (p : nat) : world * yld :=
  let pr := me w p in
  let e := pown pr in
  match ppc pr with
  | 0%nat =>
      match plst pr with
      | [] => (w, YDone)
      | _ => let '(w, t) := w_timeout w (eftransit (get_edge w e)) in (setpc w p 1, YEvent t)
      end
  | 1%nat => let '(w, t) := w_timeout w (eftransit (get_edge w e)) in (setpc w p 2, YEvent t)
  | _ =>
      (fold_left (fun w it =>
                    match wcrash w with
                    | Some _ => w
                    | None =>
                        let '(w1, r, ts) := store_op w e (StoreB.Ready it) in
                        let w2 := upd_edge w1 e (fun x => x <| eintransit ::= filter (fun t => negb (Nat.eqb t it)) |>) in
                        w_succeed_all (out_err w2 r 61) ts
                    end) (plst pr) w, YDone)
  end.

(* ------------------------------------------------------------------ Splitter / Combiner *)

(* check_thread_state_and_update_{splitter,combiner}_state *)
Definition check_state (w : world) (n : nat) : world :=
  let nd := get_node w n in
  let '(p, b) := count_threads nd in
  if (p + b >? Z.of_nat (nwcap nd)) then crashw w (CAssert 110) else
  if (p =? 0) && (b =? 0) then update_state w n 1
  else if p >? 0 then update_state w n 2
  else if b =? Z.of_nat (length (nthreads nd)) then update_state w n 3
  else crashw w (CValue 111).

Definition sc_request (w : world) (p n : nat) (pc : nat) : world * yld :=
  match res_request (wk w) n (nres (get_node w n)) with
  | None => (crashw w (CDoubleSucceed 112), YDone)
  | Some (k, r, q) =>
      let w := upd_node (w <| wk := k |>) n (fun x => x <| nres := r |>) in
      (setpc (upd_proc w p (fun x => x <| ptk := q |>)) p pc, YEvent q)
  end.

Definition is_buffer (w : world) (e : nat) : bool := match ek (get_edge w e) with EBuffer => true | _ => false end.

(* the push of one flow item by a splitter / combiner worker; [plst] = [current item; phase] *)
Definition sc_cur (pr : proc) : nat := nth 0 (plst pr) 0%nat.
Definition sc_phase (pr : proc) : nat := nth 1 (plst pr) 0%nat.

Definition sc_release (w : world) (p n : nat) : world * yld :=
  match res_release (wk w) n (nres (get_node w n)) (ptk (me w p)) with
  | None => (crashw w (CDoubleSucceed 113), YDone)
  | Some (k, r, g) => (setpc (upd_node (w <| wk := k |>) n (fun x => x <| nres := r |>)) p 9, YEvent g)
  end.

Definition sc_dispatch (w : world) (p n : nat) (cur phase : nat) : world * yld :=
  let nd := get_node w n in
  let w := upd_proc w p (fun x => x <| plst := [cur; phase] |>) in
  let drop w := logw (upd_node w n (fun x => x <| ndisc ::= S |>)) (LDiscard (wnow w) n cur) in
  match noutsel nd with
  | PFirst =>
      if nblocking nd then
        let w := check_state w n in
        let w := set_thread w n p true in
        let w := check_state w n in
        let w := upd_proc w p (fun x => x <| pt1 := wnow w |>) in
        let '(w, toks) := reserve_all w p (nouts nd) true in
        let '(w, c) := w_any_of w toks in
        (setpc (upd_proc w p (fun x => x <| ptks := toks |>)) p 2, YEvent c)
      else
        match first_can_put w (nouts nd) with
        | Some e =>
            let w := upd_proc w p (fun x => x <| pt1 := wnow w |>) in
            let w := check_state w n in
            let w := set_thread w n p true in
            let w := check_state w n in
            if is_buffer w e then
              let '(w, done) := spawn_push w n cur e false in (setpc w p 3, YEvent done)
            else (crashw w (CValue 114), YDone)
        | None => (setpc (drop w) p 8, YEvent 0%nat)
        end
  | _ =>
      let '(w, v) := draw_sel w n true in
      match v with
      | None => (crashw w (CValue 115), YDone)
      | Some i =>
          if negb (in_range i (length (nouts nd))) then (crashw w (CAssert 116), YDone) else
          let w := logw w (LSel n true (Z.to_nat i)) in
          let e := nth (Z.to_nat i) (nouts nd) 0%nat in
          let w := set_thread w n p true in
          let w := check_state w n in
          if nblocking nd then
            let w := upd_proc w p (fun x => x <| pt1 := wnow w |>) in
            let '(w, t) := e_reserve_put w e p in
            (setpc (upd_proc w p (fun x => x <| ptks := [t] |> <| pix := e |>)) p 5, YEvent t)
          else if e_can_put w e then
            let w := upd_proc w p (fun x => x <| pt1 := wnow w |>) in
            if is_buffer w e then
              let '(w, done) := spawn_push w n cur e false in (setpc w p 6, YEvent done)
            else (crashw w (CValue 117), YDone)
          else (setpc (drop w) p 8, YEvent 0%nat)
      end
  end.

(* the worker continues after one push (or drop): next content item, then the pallet itself, then release *)
Definition sc_next (w : world) (p n : nat) : world * yld :=
  let pr := me w p in
  match pkd pr, sc_phase pr with
  | KSplitWorker, 0%nat =>
      let pal := pit pr in
      match i_contents (get_item w pal) with
      | x :: rest => sc_dispatch (upd_item w pal (fun y => y <| i_contents := rest |>)) p n x 0
      | [] => sc_dispatch w p n pal 1
      end
  | _, _ => sc_release w p n
  end.

(* continuation points 2,3,5,6 of the dispatch; 8 = "dropped" (no yield in the Python: handled inline) *)
Definition sc_worker_cont (w : world) (p n : nat) : world * yld :=
  let pr := me w p in
  let nd := get_node w n in
  let cur := sc_cur pr in
  match ppc pr with
  | 2%nat =>
      match first_triggered w (ptks pr) with
      | None => (crashw w (CValue 118), YDone)
      | Some (idx, tok) =>
          let w := logw w (LSel n true idx) in
          let w := cancel_others w (nouts nd) (ptks pr) tok true in
          let e := nth idx (nouts nd) 0%nat in
          if negb (is_buffer w e) then (crashw w (CValue 119), YDone) else
          let w := upd_node w n (fun x => x <| nprocd ::= S |>) in
          let w := e_put w e p tok cur in
          sc_next (add_blocked_time w p n) p n
      end
  | 3%nat | 6%nat =>
      let w := upd_node w n (fun x => x <| nprocd ::= S |>) in
      sc_next (add_blocked_time w p n) p n
  | 5%nat =>
      let w := upd_node w n (fun x => x <| nprocd ::= S |>) in
      let w := e_put w (pix pr) p (hd 0%nat (ptks pr)) cur in
      sc_next (add_blocked_time w p n) p n
  | 9%nat =>
      let w := upd_node w n (fun x => x <| nthreads ::= filter (fun y => negb (Nat.eqb (fst y) p)) |>) in
      let w := occupancy w n false in
      (check_state w n, YDone)
  | _ => sc_next w p n
  end.

(* a dropped item does not yield in the Python; the model uses pc 8 with a dummy yield that the
   resume loop must not wait on -- so drops are resolved here, before returning *)
Fixpoint sc_run (fuel : nat) (w : world) (p n : nat) (r : world * yld) : world * yld :=
  match fuel with
  | O => (crashw (fst r) CFuel, YDone)
  | S f =>
      let '(w1, y) := r in
      match wcrash w1 with
      | Some _ => r
      | None => if Nat.eqb (ppc (me w1 p)) 8 then sc_run f w1 p n (sc_next (setpc w1 p 7) p n) else r
      end
  end.

Definition splitworker_block (w : world) (p : nat) : world * yld :=
  let pr := me w p in
  let n := pown pr in
  match ppc pr with
  | 0%nat =>
      let w := check_state w n in
      let w := upd_proc w p (fun x => x <| pt0 := wnow w |>) in
      let '(w, t) := w_timeout w (pdl pr) in (setpc w p 1, YEvent t)
  | 1%nat =>
      let w := upd_node w n (fun x => x <| nsumproc ::= fun v => v + (wnow w - pt0 pr) |>) in
      (* len(pallet.items): an Item has no attribute `items` *)
      if negb (i_pallet (get_item w (pit pr))) then (crashw w (CAttr 125), YDone) else
      let w := upd_proc w p (fun x => x <| plst := [0%nat; 0%nat] |>) in
      sc_run 64 w p n (sc_next w p n)
  | _ => sc_run 64 w p n (sc_worker_cont w p n)
  end.

Definition combworker_block (w : world) (p : nat) : world * yld :=
  let pr := me w p in
  let n := pown pr in
  match ppc pr with
  | 0%nat => sc_run 64 w p n (sc_dispatch w p n (pit pr) 1)
  | _ => sc_run 64 w p n (sc_worker_cont w p n)
  end.

(* Splitter.behaviour *)
Definition splitter_head (w : world) (p n : nat) : world * yld :=
  let nd := get_node w n in
  let w := check_state w n in
  match ninsel nd with
  | PFirst =>
      let '(w, toks) := reserve_all w p (nins nd) false in
      let '(w, c) := w_any_of w toks in
      (setpc (upd_proc w p (fun x => x <| ptks := toks |>)) p 2, YEvent c)
  | _ =>
      let '(w, v) := draw_sel w n false in
      match v with
      | None => (crashw w (CValue 120), YDone)
      | Some i =>
          if negb (in_range i (length (nins nd))) then (crashw w (CAssert 121), YDone) else
          let w := logw w (LSel n false (Z.to_nat i)) in
          let e := nth (Z.to_nat i) (nins nd) 0%nat in
          let '(w, t) := e_reserve_get w e p in
          (setpc (upd_proc w p (fun x => x <| paux := t |> <| pix := Z.to_nat i |>)) p 4, YEvent t)
      end
  end.

Definition splitter_start (w : world) (p n : nat) (pal : nat) : world * yld :=
  let '(w, d) := draw_delay w n in
  if d <? 0 then (crashw w (CAssert 122), YDone) else
  let req := ptk (me w p) in
  let '(w, wp, _) := spawn w (proc0 <| pkd := KSplitWorker |> <| pown := n |> <| pit := pal |> <| pdl := d |> <| ptk := req |>) in
  let w := upd_node w n (fun x => x <| nthreads ::= fun l => l ++ [(wp, false)] |>) in
  splitter_head w p n.

Definition splitter_block (w : world) (p : nat) : world * yld :=
  let pr := me w p in
  let n := pown pr in
  let nd := get_node w n in
  match ppc pr with
  | 0%nat =>
      match policy_ok (ninsel nd) (length (nins nd)), policy_ok (noutsel nd) (length (nouts nd)) with
      | Some c, _ => (crashw w c, YDone)
      | None, Some c => (crashw w c, YDone)
      | None, None =>
          if (length (nins nd) <? 1)%nat || (length (nouts nd) <? 1)%nat then (crashw w (CAssert 123), YDone) else
          let w := upd_node w n (fun x => x <| nstate := 0%nat |> <| nlast := Some (wnow w) |>) in
          let '(w, t) := w_timeout w (nsetup nd) in (setpc w p 1, YEvent t)
      end
  | 1%nat => splitter_head (update_state w n 1) p n
  | 2%nat =>
      match first_triggered w (ptks pr) with
      | None => (crashw w (CValue 124), YDone)
      | Some (idx, tok) =>
          let w := logw w (LSel n false idx) in
          let w := cancel_others w (nins nd) (ptks pr) tok false in
          sc_request (upd_proc w p (fun x => x <| paux := tok |> <| pix := idx |>)) p n 3
      end
  | 4%nat => sc_request w p n 3
  | _ =>
      let w := occupancy w n true in
      let '(w, it) := e_get w (nth (pix pr) (nins nd) 0%nat) p (paux pr) n in
      match it with
      | None => (w, YDone)
      | Some pal =>
          (* pallet.items: an Item has no such attribute *)
          if i_pallet (get_item w pal) then splitter_start w p n pal else
          splitter_start w p n pal
      end
  end.

(* Combiner.behaviour *)
(* the worker slot is requested first (pc 5 continues once it is granted), as in Machine.behaviour *)
Definition combiner_head (w : world) (p n : nat) : world * yld :=
  let w := check_state w n in
  sc_request w p n 5.

(* reserve qty tokens on every ingredient edge *)
Fixpoint comb_rep (e p k : nat) (j : nat) (a : world * list nat * list nat) : world * list nat * list nat :=
  match j with
  | O => a
  | S j' => let '(w0, ts, ix) := a in
            let '(w1, t) := e_reserve_get w0 e p in comb_rep e p k j' (w1, ts ++ [t], ix ++ [k])
  end.

Fixpoint comb_go (recipe : list nat) (p : nat) (k : nat) (es : list nat) (acc : world * list nat * list nat)
  : option (world * list nat * list nat) :=
  match es with
  | [] => Some acc
  | e :: rest =>
      match nth_error recipe k with
      | None => None
      | Some q => comb_go recipe p (S k) rest (comb_rep e p k q acc)
      end
  end.

Definition combiner_reserve (w : world) (p n : nat) : option (world * list nat * list nat) :=
  let nd := get_node w n in comb_go (nrecipe nd) p 1%nat (tl (nins nd)) (w, [], []).

Definition any_triggered (w : world) (toks : list nat) : bool := existsb (fun t => e_trig (get_ev (wk w) t)) toks.

(* the gathering loop head: [ptks] outstanding tokens, [plst] their in-edge indices, [pt1] = any_of event in use *)
Definition combiner_loop (w : world) (p n : nat) : world * yld :=
  let pr := me w p in
  match ptks pr with
  | [] =>
      let '(w, d) := draw_delay w n in
      if d <? 0 then (crashw w (CAssert 130), YDone) else
      let w := upd_proc w p (fun x => x <| pdl := d |>) in
      let w := update_state w n 2 in
      let w := upd_proc w p (fun x => x <| pt0 := wnow w |>) in
      let '(w, t) := w_timeout w d in (setpc w p 6, YEvent t)
  | toks =>
      if any_triggered w toks then (setpc w p 4, YEvent (Z.to_nat (pt1 pr)))
      else let '(w, c) := w_any_of w toks in
           (setpc (upd_proc w p (fun x => x <| pt1 := Z.of_nat c |>)) p 4, YEvent c)
  end.

Definition combiner_block (w : world) (p : nat) : world * yld :=
  let pr := me w p in
  let n := pown pr in
  let nd := get_node w n in
  match ppc pr with
  | 0%nat =>
      match policy_ok (noutsel nd) (length (nouts nd)) with
      | Some c => (crashw w c, YDone)
      | None =>
          if (length (nins nd) <? 1)%nat || (length (nouts nd) <? 1)%nat then (crashw w (CAssert 131), YDone) else
          let w := upd_node w n (fun x => x <| nstate := 0%nat |> <| nlast := Some (wnow w) |>) in
          let '(w, t) := w_timeout w (nsetup nd) in (setpc w p 1, YEvent t)
      end
  | 1%nat => combiner_head (update_state w n 1) p n
  | 2%nat =>
      let '(w, it) := e_get w (hd 0%nat (nins nd)) p (paux pr) n in
      match it with
      | None => (w, YDone)
      | Some pal =>
          if negb (i_pallet (get_item w pal)) then (crashw w (CRuntime 132), YDone) else
          match combiner_reserve w p n with
          | None => (crashw w (CIndex 133), YDone)
          | Some (w, toks, idxs) =>
              let '(w, c) := w_any_of w toks in
              (setpc (upd_proc w p (fun x => x <| pit := pal |> <| ptks := toks |> <| plst := idxs |> <| pt1 := Z.of_nat c |>
                                                   <| pix := 0%nat |>)) p 3, YEvent c)
          end
      end
  | 3%nat => combiner_loop w p n
  | 4%nat =>
      match first_triggered w (ptks pr) with
      | None => (crashw w (CValue 134), YDone)
      | Some (ti, tok) =>
          let eidx := nth ti (plst pr) 0%nat in
          let '(w, it) := e_get w (nth eidx (nins nd) 0%nat) p tok n in
          match it with
          | None => (w, YDone)
          | Some i =>
              if i_pallet (get_item w i) then (crashw w (CRuntime 135), YDone) else
              let w := upd_item w (pit pr) (fun y => y <| i_contents ::= fun l => l ++ [i] |>) in
              let w := logw w (LPack (wnow w) n (pit pr) i) in
              let w := upd_proc w p (fun x => x <| ptks := remove_nth ti (ptks pr) |> <| plst := remove_nth ti (plst pr) |>
                                                <| pix := S (pix pr) |>) in
              combiner_loop w p n
          end
      end
  | 5%nat =>
      let w := occupancy w n true in
      let '(w, t) := e_reserve_get w (hd 0%nat (nins nd)) p in
      (setpc (upd_proc w p (fun x => x <| paux := t |>)) p 2, YEvent t)
  | _ =>
      let w := upd_node w n (fun x => x <| nsumproc ::= fun v => v + (wnow w - pt0 pr) |>) in
      let '(w, wp, _) := spawn w (proc0 <| pkd := KCombWorker |> <| pown := n |> <| pit := pit pr |> <| ptk := ptk pr |>
                                         <| plst := [pit pr; 1%nat] |>) in
      let w := upd_node w n (fun x => x <| nthreads ::= fun l => l ++ [(wp, false)] |>) in
      combiner_head w p n
  end.

Definition block (w : world) (p : nat) : world * yld :=
  match pkd (me w p) with
  | KSourceB => source_block w p
  | KPush => push_block w p
  | KBufTimer => buftimer_block w p
  | KSinkB => sink_block w p
  | KMachineB => machine_block w p
  | KWorker => worker_block w p
  | KFleetAct => fleetact_block w p
  | KFleetMove => fleetmove_block w p
  | KSplitterB => splitter_block w p
  | KSplitWorker => splitworker_block w p
  | KCombinerB => combiner_block w p
  | KCombWorker => combworker_block w p
  end.

(* Process._resume: run blocks until the process waits on an event that has not been processed *)
Fixpoint resume (fuel : nat) (w : world) (p : nat) : world :=
  match fuel with
  | O => crashw w CFuel
  | S f =>
      match wcrash w with
      | Some _ => w
      | None =>
          let '(w1, y) := block (w <| wactive := p |>) p in
          match wcrash w1 with
          | Some _ => w1
          | None =>
              match y with
              | YDone =>
                  (* generator finished: the process event is scheduled *)
                  let d := pdone (me w1 p) in
                  upd_proc (w1 <| wk := schedule (mark_trig (wk w1) d) d NORMAL 0 |>) p (fun x => x <| palive := false |>)
              | YEvent e =>
                  if e_proc (get_ev (wk w1) e) then resume f w1 p
                  else w1 <| wk := add_cb (wk w1) e (CbResume p) |>
              end
          end
      end
  end.

Definition FUEL := 64%nat.

Definition run_cb (w : world) (c : cb) : world :=
  match wcrash w with
  | Some _ => w
  | None =>
      match c with
      (* a resume callback always names an existing process; the default record of an index that does not
         exist is never run *)
      | CbResume p => if (p <? length (wprocs w))%nat then resume FUEL w p else crashw w CFuel
      | CbCheck c => w <| wk := check (wk w) c |>
      | CbResTrigGet n =>
          match res_trig_get (wk w) (nres (get_node w n)) with
          | Some (k, r) => upd_node (w <| wk := k |>) n (fun x => x <| nres := r |>)
          | None => crashw w (CDoubleSucceed 100)
          end
      | CbResTrigPut n =>
          match res_trig_put (wk w) (nres (get_node w n)) with
          | Some (k, r) => upd_node (w <| wk := k |>) n (fun x => x <| nres := r |>)
          | None => crashw w (CDoubleSucceed 101)
          end
      | CbStoreTrigPut e => w
      end
  end.

(* Environment.step: None when the queue is empty *)
Definition fstep (w : world) : option world :=
  match wcrash w with
  | Some _ => None
  | None =>
      match pop (wk w) with
      | None => None
      | Some (k, _, cbs) => Some (fold_left run_cb cbs (w <| wk := k |>))
      end
  end.

(* env.run(until = T): process every event scheduled strictly before T; [n] bounds the number of
   kernel steps of this evaluation (the driver reports when it is exhausted) *)
Fixpoint run_until (n : nat) (T : Z) (w : world) : world * bool :=
  match n with
  | O => (w, false)
  | S m =>
      match wcrash w with
      | Some _ => (w, true)
      | None =>
          match queue (wk w) with
          | [] => (w, true)
          | x :: _ => if q_time x <? T then
                        match fstep w with Some w' => run_until m T w' | None => (w, true) end
                      else (w <| wk := {| now := T; seq := seq (wk w); queue := queue (wk w); evs := evs (wk w) |} |>, true)
          end
      end
  end.

(* ------------------------------------------------------------------ finalisation at time T
   (update_final_state_time / update_final_buffer_avg_content); None = the Python raises *)
Definition finalize_node (T : Z) (nd : node) : option node :=
  match nk nd with
  | NMachine =>
      match nlast nd with
      | None =>                                       (* still in set-up: the elapsed time is set-up time *)
          if negb (Nat.eqb (nnumw nd) (length (r_users (nres nd)))) then None else
          Some (nd <| ntstate ::= upd 0%nat (fun v => v + T) |>
                   <| nocchist ::= upd (nnumw nd) (fun v => v + (T - nocclast nd)) |> <| nocclast := T |>)
      | Some l =>
          let d := T - l in
          let np := Z.of_nat (length (filter (fun x => negb (snd x)) (nthreads nd))) in
          let nb := Z.of_nat (length (filter (fun x => snd x) (nthreads nd))) in
          if negb (Nat.eqb (nnumw nd) (length (r_users (nres nd)))) then None else
          let nd1 := nd <| nsumproc ::= fun v => v + np * d |> <| nsumblk ::= fun v => v + nb * d |>
                        <| nocchist ::= upd (nnumw nd) (fun v => v + (T - nocclast nd)) |> <| nocclast := T |> in
          (* update_state_rep(T) *)
          let '(p, b) := nsrep nd1 in
          let add (k : nat) (c : bool) (ts : list Z) := if c then upd k (fun v => v + d) ts else ts in
          let ts := ntstate nd1 in
          let ts := add 1%nat (c_idle p b) ts in
          let ts := add 3%nat (c_allblk p b) ts in
          let ts := add 2%nat (c_oneproc p b) ts in
          let ts := add 4%nat (c_allproc p b) ts in
          let ts := add 5%nat (c_oneblk p b) ts in
          Some (nd1 <| ntstate := ts |> <| nsrep := (np, nb) |> <| nlast := Some T |>)
      end
  | NSplitter | NCombiner =>
      match nlast nd with
      | None => None
      | Some l =>
          let d := T - l in
          let np := Z.of_nat (length (filter (fun x => negb (snd x)) (nthreads nd))) in
          let nb := Z.of_nat (length (filter (fun x => snd x) (nthreads nd))) in
          if negb (Nat.eqb (nnumw nd) (length (r_users (nres nd)))) then None else
          Some (nd <| nsumproc ::= fun v => v + np * d |> <| nsumblk ::= fun v => v + nb * d |>
                   <| ntstate ::= upd (nstate nd) (fun v => v + d) |>
                   <| nocchist ::= upd (nnumw nd) (fun v => v + (T - nocclast nd)) |> <| nocclast := T |>)
      end
  | _ =>
      match nlast nd with
      | None => None
      | Some l => Some (nd <| ntstate ::= upd (nstate nd) (fun v => v + (T - l)) |>)
      end
  end.

Definition finalize_edge (T : Z) (ed : edge) : edge :=
  ed <| ewsum := ewsum ed + elastn ed * (T - elastt ed) |> <| elastt := T |>
     <| elastn := Z.of_nat (length (StoreB.transit (est ed)) + length (StoreB.ready (est ed))) |>.

(* ------------------------------------------------------------------ building the initial world *)
Definition mk_step (w : world) (c : bool * nat) : world :=
  let '(is_node, i) := c in
  if is_node then
    let kd := match nk (get_node w i) with
              | NSource => KSourceB | NMachine => KMachineB | NSink => KSinkB
              | NSplitter => KSplitterB | NCombiner => KCombinerB end in
    let '(w', _, _) := spawn w (proc0 <| pkd := kd |> <| pown := i |>) in w'
  else
    match ek (get_edge w i) with
    | EFleet =>
        let '(w1, act) := w_event w in
        let w2 := upd_edge w1 i (fun x => x <| eact := act |>) in
        let '(w', _, _) := spawn w2 (proc0 <| pkd := KFleetAct |> <| pown := i |>) in w'
    | _ => w
    end.

Definition mk_world (nodes : list node) (edges : list edge) (order : list (bool * nat)) : world :=
  fold_left mk_step order
    {| wk := kinit; wedges := edges; wnodes := nodes; wprocs := []; witems := []; wlog := [];
       wcrash := None; wactive := 0 |}.
