(* Whole-factory lifting of ANY invariant of the bound-item store that every store operation keeps
   unconditionally: the node and edge code of a factory reaches the stores only through StoreB.step, so
   such an invariant holds on every edge in every reachable world of every configuration.  Lifted
   through all process blocks with the tactic of FactoryInv.v; instantiated at the end for
   C05 (both waiting queues sorted by (priority, arrival number)) and
   C01 (items + granted space reservations never exceed the capacity). *)
From Coq Require Import List ZArith Lia Bool Arith.
From RecordUpdate Require Import RecordUpdate.
From FV Require Import ListLemmas ListLemmas2 Kernel SrcFragments Lens World Factory.
From FV Require FactoryInv.
From FV Require StoreB StoreBInv StoreBProps StoreBOrder StoreBCap StoreBWeak.
Import ListNotations.
Open Scope Z_scope.

Section Generic.
Variable SP : StoreB.store -> Prop.
Hypothesis SP_step : forall s o, SP s -> SP (StoreB.step_st s o).
Hypothesis SP_empty : SP (est edge0).
Notation QInv_of := SP (only parsing).
Definition EOK (ed : edge) : Prop := SP (est ed).
Definition QE (w : world) : Prop := Forall EOK (wedges w).

Create HintDb qdb.
Lemma crashw_q w c : QE w -> QE (crashw w c).
Proof. unfold crashw. destruct (wcrash w); auto. Qed.

Lemma upd_forall {A} (P : A -> Prop) n f : forall l, Forall P l -> (forall x, nth_error l n = Some x -> P x -> P (f x)) -> Forall P (upd n f l).
Proof.
  induction n as [|n IH]; intros [|y l] H K; simpl; auto; inversion H; subst; constructor; auto.
Qed.
Lemma upd_edge_all w e f : (forall x, EOK x -> EOK (f x)) -> QE w -> QE (upd_edge w e f).
Proof. unfold QE, upd_edge. intros K H. cbn [wedges set]. simpl. apply upd_forall; auto. Qed.
Lemma upd_edge_at w e f : (EOK (get_edge w e) -> EOK (f (get_edge w e))) -> QE w -> QE (upd_edge w e f).
Proof.
  unfold QE, upd_edge. intros K H. cbn [wedges set]. simpl. apply upd_forall; auto.
  intros x E Hx. unfold get_edge in K. rewrite (nth_error_nth _ _ edge0 E) in K. auto.
Qed.
Lemma QE_get w e : QE w -> EOK (get_edge w e).
Proof.
  unfold QE, get_edge. intros H. destruct (nth_error (wedges w) e) as [x|] eqn:E.
  - rewrite (nth_error_nth _ _ edge0 E). eapply Forall_forall; [exact H|]. eapply nth_error_In; eauto.
  - rewrite nth_overflow; [|apply nth_error_None; exact E]. unfold EOK. exact SP_empty.
Qed.
Lemma logw_q w x : QE w -> QE (logw w x).
Proof. auto. Qed.
Lemma upd_node_q w e f : QE w -> QE (upd_node w e f).
Proof. auto. Qed.
Lemma upd_proc_q w e f : QE w -> QE (upd_proc w e f).
Proof. auto. Qed.
Lemma upd_item_q w e f : QE w -> QE (upd_item w e f).
Proof. auto. Qed.
Lemma setpc_q w p pc : QE w -> QE (setpc w p pc).
Proof. auto. Qed.
#[local] Hint Resolve crashw_q logw_q upd_node_q upd_proc_q upd_item_q setpc_q : qdb.
Ltac eok_side :=
  let x := fresh in let Hx := fresh in intros x Hx;
  first [exact Hx
        | repeat (match goal with
                  | |- context [if ?b then _ else _] => destruct b
                  | |- context [match ?b with _ => _ end] => destruct b
                  end); exact Hx].
#[local] Hint Extern 3 (QE (upd_edge _ _ _)) => (apply upd_edge_all; [eok_side|]) : qdb.




Lemma w_succeed_q w e s : QE w -> QE (w_succeed w e s).
Proof.
  unfold w_succeed. intros H. destruct (succeed (wk w) e) eqn:E; [exact H|apply crashw_q; auto].
Qed.
#[local] Hint Resolve w_succeed_q : qdb.

Lemma w_succeed_all_q es : forall w, QE w -> QE (w_succeed_all w es).
Proof. unfold w_succeed_all. induction es as [|e es IH]; simpl; auto. intros w H. apply IH. auto with qdb. Qed.
#[local] Hint Resolve w_succeed_all_q : qdb.

Lemma w_event_q w w1 e : w_event w = (w1, e) -> QE w -> QE w1.
Proof. unfold w_event. simpl. intros [= <- _] H. exact H. Qed.


Lemma w_timeout_q w d w1 e : w_timeout w d = (w1, e) -> QE w -> QE w1.
Proof.
  unfold w_timeout. destruct (d <? 0).
  - intros [= <- _] H. auto with qdb.
  - destruct (timeout (wk w) d) as [k e0]. intros [= <- _] H. exact H.
Qed.




Lemma w_any_of_q w es w1 c : w_any_of w es = (w1, c) -> QE w -> QE w1.
Proof.
  unfold w_any_of. destruct (any_of (wk w) es) as [k e0]. intros [= <- _] H. exact H.
Qed.

Lemma spawn_q w p w1 pid d : spawn w p = (w1, pid, d) -> QE w -> QE w1.
Proof.
  unfold spawn. intros E H.
  destruct (w_event w) as [wa done] eqn:E1. destruct (w_event wa) as [wb ini] eqn:E2.
  inversion E; subst. clear E.
  assert (QE wb) as Hb by (eapply w_event_q; [exact E2|]; eapply w_event_q; [exact E1|]; exact H). exact Hb.
Qed.



Lemma e_update_level_q w e : QE w -> QE (e_update_level w e).
Proof. intros H. unfold e_update_level. apply upd_edge_all; auto. Qed.
#[local] Hint Resolve e_update_level_q : qdb.

Lemma set_est_q w e o : QE w -> QE (upd_edge w e (fun x => x <| est := fst (fst (StoreB.step (est (get_edge w e)) o)) |>)).
Proof.
  intros H. apply upd_edge_at; auto. intros K. unfold EOK in *. cbn. apply (SP_step _ o K).
Qed.

Lemma store_op_q w e o w1 r ts : store_op w e o = (w1, r, ts) -> QE w -> QE w1.
Proof.
  unfold store_op. destruct (StoreB.step _ _) as [[s' r0] ts0] eqn:E. intros [= <- _ _] H.
  replace s' with (fst (fst (StoreB.step (est (get_edge w e)) o))) by (rewrite E; reflexivity). apply set_est_q, H.
Qed.

Lemma out_err_q w r s : QE w -> QE (out_err w r s).
Proof. unfold out_err. intros H. destruct r; auto. destruct e; auto with qdb. Qed.
#[local] Hint Resolve out_err_q : qdb.

Lemma e_reserve_put_q w e p w1 t : e_reserve_put w e p = (w1, t) -> QE w -> QE w1.
Proof.
  unfold e_reserve_put. intros E H.
  destruct (w_event w) as [wa ev] eqn:E1. destruct (store_op wa e (StoreB.Sync ev)) as [[wb r1] t1] eqn:E2.
  destruct (store_op wb e (StoreB.RPut p 0)) as [[wc r2] t2] eqn:E3. inversion E; subst.
  apply w_succeed_all_q. eapply store_op_q; [exact E3|]. eapply store_op_q; [exact E2|]. eapply w_event_q; eauto.
Qed.

Lemma e_reserve_get_q w e p w1 t : e_reserve_get w e p = (w1, t) -> QE w -> QE w1.
Proof.
  unfold e_reserve_get. intros E H.
  destruct (w_event w) as [wa ev] eqn:E1. destruct (store_op wa e (StoreB.Sync ev)) as [[wb r1] t1] eqn:E2.
  destruct (store_op wb e (StoreB.RGet p 0)) as [[wc r2] t2] eqn:E3. inversion E; subst.
  apply w_succeed_all_q. eapply store_op_q; [exact E3|]. eapply store_op_q; [exact E2|]. eapply w_event_q; eauto.
Qed.

Lemma e_cancel_put_q w e t : QE w -> QE (e_cancel_put w e t).
Proof.
  unfold e_cancel_put. intros H. destruct (store_op w e (StoreB.CPut t)) as [[w1 r] ts] eqn:E.
  apply w_succeed_all_q, out_err_q. eapply store_op_q; [exact E|exact H].
Qed.
Lemma e_cancel_get_q w e t : QE w -> QE (e_cancel_get w e t).
Proof.
  unfold e_cancel_get. intros H. destruct (store_op w e (StoreB.CGet t)) as [[w1 r] ts] eqn:E.
  apply w_succeed_all_q, out_err_q. eapply store_op_q; [exact E|exact H].
Qed.
#[local] Hint Resolve e_cancel_put_q e_cancel_get_q : qdb.

Lemma fleet_after_put_q w e : QE w -> QE (fleet_after_put w e).
Proof.
  unfold fleet_after_put. intros H. destruct (_ =? _)%nat; auto.
  destruct (e_trig _); auto with qdb.
Qed.
#[local] Hint Resolve fleet_after_put_q : qdb.


Lemma e_put_q w e p t i : QE w -> QE (e_put w e p t i).
Proof.
  unfold e_put. intros H. destruct (ek (get_edge w e)).
  - destruct (_ <? 0); [auto with qdb|].
    assert (QE (upd_edge w e (fun x => x <| edptr ::= S |>))) as H0 by auto with qdb.
    destruct (StoreB.step _ _) as [[s' r] ts] eqn:ES.
    assert (QE (upd_edge (upd_edge w e (fun x => x <| edptr ::= S |>)) e (fun x => x <| est := s' |>))) as H1.
    { apply upd_edge_at; auto. intros K. unfold EOK in *. cbn.
      assert (QInv_of (est (get_edge w e))) as K0 by (apply (QE_get w e H)).
      pose proof (SP_step _ (StoreB.Put p t i) K0) as Q. unfold StoreB.step_st in Q. rewrite ES in Q. exact Q. }
    destruct r; auto with qdb.
    destruct (spawn _ _) as [[w2 pid] d] eqn:E. apply logw_q, w_succeed_all_q.
    eapply spawn_q; [exact E|]. apply e_update_level_q. exact H1.
  - destruct (StoreB.step _ _) as [[s' r] ts] eqn:ES.
    assert (QE (upd_edge w e (fun x => x <| est := s' |>))) as H1.
    { apply upd_edge_at; auto. intros K. unfold EOK in *. cbn.
      pose proof (SP_step _ (StoreB.Put p t i) K) as Q. unfold StoreB.step_st in Q. rewrite ES in Q. exact Q. }
    destruct r; auto 8 with qdb.
Qed.
#[local] Hint Resolve e_put_q : qdb.

Lemma e_get_q w e p t n w1 r : e_get w e p t n = (w1, r) -> QE w -> QE w1.
Proof.
  unfold e_get. intros E H. destruct (StoreB.step _ _) as [[s' r0] ts] eqn:ES.
  assert (QE (upd_edge w e (fun x => x <| est := s' |>))) as H1.
  { apply upd_edge_at; auto. intros K. unfold EOK in *. cbn.
    pose proof (SP_step _ (StoreB.Get p t) K) as Q. unfold StoreB.step_st in Q. rewrite ES in Q. exact Q. }
  destruct r0 as [?| |?|e0]; try destruct e0; inversion E; subst; auto 10 with qdb.
Qed.

Lemma update_state_q w n s : QE w -> QE (update_state w n s).
Proof. unfold update_state. intros H. destruct (nlast _); auto with qdb. Qed.
#[local] Hint Resolve update_state_q : qdb.

Lemma draw_delay_q w n w1 d : draw_delay w n = (w1, d) -> QE w -> QE w1.
Proof. unfold draw_delay. intros [= <- _] H. auto with qdb. Qed.

Lemma draw_sel_q w n o w1 v : draw_sel w n o = (w1, v) -> QE w -> QE w1.
Proof.
  unfold draw_sel. intros E H. destruct (if o then noutsel _ else ninsel _); inversion E; subst; auto with qdb.
Qed.

Lemma cancel_others_q l : forall w keep (put : bool), QE w ->
  QE (fold_left (fun (w : world) (et : nat * nat) => let '(e, t) := et in
                             if Nat.eqb t keep then w else if put then e_cancel_put w e t else e_cancel_get w e t) l w).
Proof.
  induction l as [|[e t] l IH]; simpl; auto. intros w keep put H. apply IH.
  destruct (Nat.eqb t keep); auto. destruct put; auto with qdb.
Qed.
Lemma cancel_others_qq w es ts keep put : QE w -> QE (cancel_others w es ts keep put).
Proof. unfold cancel_others. apply cancel_others_q. Qed.
#[local] Hint Resolve cancel_others_qq : qdb.

Lemma reserve_all_q pid (put : bool) es : forall w l w1 l1,
  fold_left (fun (acc : world * list nat) (e : nat) => let '(w, l) := acc in
                          let '(w', t) := if put then e_reserve_put w e pid else e_reserve_get w e pid in (w', l ++ [t]))
            es (w, l) = (w1, l1) -> QE w -> QE w1.
Proof.
  induction es as [|e es IH]; simpl; intros w l w1 l1 E H.
  - inversion E; subst; auto.
  - destruct put.
    + destruct (e_reserve_put w e pid) as [w' t] eqn:E1. eapply IH; [exact E|]. eapply e_reserve_put_q; eauto.
    + destruct (e_reserve_get w e pid) as [w' t] eqn:E1. eapply IH; [exact E|]. eapply e_reserve_get_q; eauto.
Qed.
Lemma reserve_all_qq w pid es put w1 l1 : reserve_all w pid es put = (w1, l1) -> QE w -> QE w1.
Proof. unfold reserve_all. apply reserve_all_q. Qed.

Lemma set_creation_q w i n : QE w -> QE (set_creation w i n).
Proof. intros H. unfold set_creation. auto 8 with qdb. Qed.
Lemma update_state_rep_q w n : QE w -> QE (update_state_rep w n).
Proof.
  unfold update_state_rep. intros H. destruct (nlast _); auto with qdb.
  destruct (nsrep _). destruct (count_threads _). destruct (_ >? _); auto with qdb.
Qed.
Lemma occupancy_q w n a : QE w -> QE (occupancy w n a).
Proof. intros H. unfold occupancy. auto 8 with qdb. Qed.
Lemma set_thread_q w n p b : QE w -> QE (set_thread w n p b).
Proof. intros H. unfold set_thread. auto 8 with qdb. Qed.
Lemma add_blocked_time_q w p n : QE w -> QE (add_blocked_time w p n).
Proof. intros H. unfold add_blocked_time. auto 8 with qdb. Qed.
#[local] Hint Resolve set_creation_q update_state_rep_q occupancy_q set_thread_q add_blocked_time_q : qdb.

(* tactic: split every let / match / if of a block, derive QE of each intermediate world from the
   equation that introduced it *)
Ltac kstep :=
  match goal with
  | E : w_timeout ?w _ = (?w1, _) |- _ => assert (QE w1) by (eapply w_timeout_q; [exact E|auto 14 with qdb]); clear E
  | E : w_event ?w = (?w1, _) |- _ => assert (QE w1) by (eapply w_event_q; [exact E|auto 14 with qdb]); clear E
  | E : w_any_of ?w _ = (?w1, _) |- _ => assert (QE w1) by (eapply w_any_of_q; [exact E|auto 14 with qdb]); clear E
  | E : spawn ?w _ = (?w1, _, _) |- _ => assert (QE w1) by (eapply spawn_q; [exact E|auto 14 with qdb]); clear E
  | E : store_op ?w _ _ = (?w1, _, _) |- _ => assert (QE w1) by (eapply store_op_q; [exact E|auto 14 with qdb]); clear E
  | E : e_reserve_put ?w _ _ = (?w1, _) |- _ => assert (QE w1) by (eapply e_reserve_put_q; [exact E|auto 14 with qdb]); clear E
  | E : e_reserve_get ?w _ _ = (?w1, _) |- _ => assert (QE w1) by (eapply e_reserve_get_q; [exact E|auto 14 with qdb]); clear E
  | E : e_get ?w _ _ _ _ = (?w1, _) |- _ => assert (QE w1) by (eapply e_get_q; [exact E|auto 14 with qdb]); clear E
  | E : draw_delay ?w _ = (?w1, _) |- _ => assert (QE w1) by (eapply draw_delay_q; [exact E|auto 14 with qdb]); clear E
  | E : draw_sel ?w _ _ = (?w1, _) |- _ => assert (QE w1) by (eapply draw_sel_q; [exact E|auto 14 with qdb]); clear E
  | E : reserve_all ?w _ _ _ = (?w1, _) |- _ => assert (QE w1) by (eapply reserve_all_qq; [exact E|auto 14 with qdb]); clear E
  end.

Ltac ksplit :=
  repeat (match goal with
          | |- context [let '(_, _) := ?x in _] => destruct x as [? ?] eqn:?; try kstep
          | |- context [match ?x with _ => _ end] => destruct x eqn:?; try kstep
          end; simpl fst).

Ltac kauto := ksplit; simpl; auto 10 with qdb.

Ltac ksplit2 :=
  repeat (cbv zeta;
          match goal with
          | |- context [match ?x with _ => _ end] => destruct x eqn:?; repeat kstep; simpl fst
          end).
Ltac kgo := ksplit2; simpl; auto 12 with qdb.

Lemma source_loop_q w p n : QE w -> QE (fst (source_loop w p n)).
Proof. intros H. unfold source_loop. kgo. Qed.

Lemma spawn_push_q w n i e b : QE w -> QE (fst (spawn_push w n i e b)).
Proof. intros H. unfold spawn_push. kgo. Qed.

#[local] Hint Resolve source_loop_q spawn_push_q : qdb.

Lemma eqform {A} (f : world * A) w1 a : f = (w1, a) -> QE (fst f) -> QE w1.
Proof. intros ->. auto. Qed.

Ltac kstep2 :=
  match goal with
  | E : spawn_push ?w _ _ _ _ = (?w1, _) |- _ =>
      assert (QE w1) by (eapply eqform; [exact E|apply spawn_push_q; auto 14 with qdb]); clear E
  end.

Ltac ksplit3 :=
  repeat (cbv zeta;
          match goal with
          | |- context [match ?x with _ => _ end] => destruct x eqn:?; repeat (kstep || kstep2); cbn [fst snd]
          end).
#[local] Hint Extern 6 (QE (set _ _ _)) => (unfold QE; cbn [wedges set]; progress simpl) : qdb.
Ltac kgo3 := ksplit3; cbn [fst snd]; auto 14 with qdb.

Lemma source_block_q w p : QE w -> QE (fst (source_block w p)).
Proof. intros H. unfold source_block. kgo3. Qed.

Lemma push_block_q w p : QE w -> QE (fst (push_block w p)).
Proof. intros H. unfold push_block. kgo3. Qed.



Lemma buftimer_block_q w p : QE w -> QE (fst (buftimer_block w p)).
Proof. intros H. unfold buftimer_block. kgo3. Qed.

Lemma sink_loop_q w p n : QE w -> QE (fst (sink_loop w p n)).
Proof. intros H. unfold sink_loop. kgo3. Qed.
#[local] Hint Resolve sink_loop_q : qdb.

Lemma sink_block_q w p : QE w -> QE (fst (sink_block w p)).
Proof. intros H. unfold sink_block. kgo3. Qed.


Lemma machine_request_q w p n : QE w -> QE (fst (machine_request w p n)).
Proof.
  intros H. unfold machine_request. cbv zeta.
  assert (QE (update_state_rep w n)) as H1 by auto with qdb.
  destruct (res_request (wk (update_state_rep w n)) n (nres (get_node (update_state_rep w n) n))) as [[[k r] q]|] eqn:E; cbn [fst].
  - apply setpc_q, upd_proc_q. apply upd_node_q. exact H1.
  - auto with qdb.
Qed.
#[local] Hint Resolve machine_request_q : qdb.

Lemma machine_start_worker_q w p n i : QE w -> QE (fst (machine_start_worker w p n i)).
Proof. intros H. unfold machine_start_worker. kgo3. Qed.
#[local] Hint Resolve machine_start_worker_q : qdb.

Lemma machine_block_q w p : QE w -> QE (fst (machine_block w p)).
Proof. intros H. unfold machine_block. kgo3. Qed.

Lemma worker_release_q w p n : QE w -> QE (fst (worker_release w p n)).
Proof.
  intros H. unfold worker_release. cbv zeta.
  destruct (res_release (wk w) n (nres (get_node w n)) (ptk (me w p))) as [[[k r] g]|] eqn:E; cbn [fst].
  - apply setpc_q. apply upd_node_q. exact H.
  - auto with qdb.
Qed.
#[local] Hint Resolve worker_release_q : qdb.

Lemma worker_block_q w p : QE w -> QE (fst (worker_block w p)).
Proof. intros H. unfold worker_block. kgo3. Qed.

Lemma fleet_loop_q w p e : QE w -> QE (fst (fleet_loop w p e)).
Proof. intros H. unfold fleet_loop. kgo3. Qed.
#[local] Hint Resolve fleet_loop_q : qdb.

Lemma fleetact_block_q w p : QE w -> QE (fst (fleetact_block w p)).
Proof.
  intros H. unfold fleetact_block. cbv zeta.
  destruct (ppc (me w p)); [apply fleet_loop_q; auto|].
  destruct (StoreB.transit _) eqn:ET; [apply fleet_loop_q; auto|].
  match goal with |- context [fleet_loop (if _ then _ else ?w1) _ _] => set (wb := w1) end.
  assert (QE wb) as H1.
  { subst wb. match goal with |- QE (match ?b with _ => _ end) => destruct b end; auto.
    all: try (destruct (spawn _ _) as [[w2 pid] d] eqn:E; eapply spawn_q; [exact E|]; auto with qdb). }
  clearbody wb.
  destruct (e_trig _).
  - destruct (w_event wb) as [w3 a] eqn:E2. apply fleet_loop_q.
    assert (QE w3) as H3 by (eapply w_event_q; eauto). auto with qdb.
  - apply fleet_loop_q. exact H1.
Qed.

Lemma fleetmove_fold_q e l : forall w, QE w ->
  QE (fold_left (fun (w : world) (it : nat) =>
                    match wcrash w with
                    | Some _ => w
                    | None =>
                        let '(w1, r, ts) := store_op w e (StoreB.Ready it) in
                        let w2 := upd_edge w1 e (fun x => x <| eintransit ::= filter (fun t => negb (Nat.eqb t it)) |>) in
                        w_succeed_all (out_err w2 r 61) ts
                    end) l w).
Proof.
  induction l as [|x l IH]; simpl; auto. intros w H. apply IH.
  destruct (wcrash w); auto. destruct (store_op w e (StoreB.Ready x)) as [[w1 r] ts] eqn:E.
  apply w_succeed_all_q, out_err_q. assert (QE w1) as H1 by (eapply store_op_q; eauto). auto with qdb.
Qed.

Lemma fleetmove_block_q w p : QE w -> QE (fst (fleetmove_block w p)).
Proof.
  intros H. unfold fleetmove_block. cbv zeta.
  destruct (ppc (me w p)) as [|[|?]]; cbn [fst].
  - destruct (plst (me w p)); cbn [fst]; auto. destruct (w_timeout _ _) as [w1 t] eqn:E. cbn [fst].
    apply setpc_q. eapply w_timeout_q; eauto.
  - destruct (w_timeout _ _) as [w1 t] eqn:E. cbn [fst]. apply setpc_q. eapply w_timeout_q; eauto.
  - apply fleetmove_fold_q. auto.
Qed.

Lemma check_state_q w n : QE w -> QE (check_state w n).
Proof. intros H. unfold check_state. destruct (count_threads _). kgo3. Qed.
#[local] Hint Resolve check_state_q : qdb.

Lemma sc_request_q w p n pc : QE w -> QE (fst (sc_request w p n pc)).
Proof.
  intros H. unfold sc_request.
  destruct (res_request (wk w) n (nres (get_node w n))) as [[[k r] q]|] eqn:E; cbn [fst].
  - apply setpc_q, upd_proc_q. apply upd_node_q. exact H.
  - auto with qdb.
Qed.
Lemma sc_release_q w p n : QE w -> QE (fst (sc_release w p n)).
Proof.
  intros H. unfold sc_release.
  destruct (res_release (wk w) n (nres (get_node w n)) (ptk (me w p))) as [[[k r] g]|] eqn:E; cbn [fst].
  - apply setpc_q. apply upd_node_q. exact H.
  - auto with qdb.
Qed.
#[local] Hint Resolve sc_request_q sc_release_q : qdb.

Lemma sc_dispatch_q w p n c ph : QE w -> QE (fst (sc_dispatch w p n c ph)).
Proof. intros H. unfold sc_dispatch. kgo3. Qed.
#[local] Hint Resolve sc_dispatch_q : qdb.

Lemma sc_next_q w p n : QE w -> QE (fst (sc_next w p n)).
Proof. intros H. unfold sc_next. kgo3. Qed.
#[local] Hint Resolve sc_next_q : qdb.

Lemma sc_worker_cont_q w p n : QE w -> QE (fst (sc_worker_cont w p n)).
Proof. intros H. unfold sc_worker_cont. kgo3. Qed.
#[local] Hint Resolve sc_worker_cont_q : qdb.

Lemma sc_run_q f : forall w p n r, QE (fst r) -> QE (fst (sc_run f w p n r)).
Proof.
  induction f as [|f IH]; simpl; intros w p n r H; auto with qdb.
  destruct r as [w1 y]. cbn [fst] in *. destruct (wcrash w1); auto.
  destruct (Nat.eqb _ 8); auto. apply IH. auto with qdb.
Qed.

Lemma splitworker_block_q w p : QE w -> QE (fst (splitworker_block w p)).
Proof.
  intros H. unfold splitworker_block. cbv zeta. destruct (ppc (me w p)) as [|[|?]].
  - kgo3.
  - match goal with |- context [if ?b then _ else _] => destruct b end; cbn [fst]; auto with qdb.
    apply sc_run_q. auto 12 with qdb.
  - apply sc_run_q. auto with qdb.
Qed.

Lemma combworker_block_q w p : QE w -> QE (fst (combworker_block w p)).
Proof.
  intros H. unfold combworker_block. cbv zeta. destruct (ppc (me w p)); apply sc_run_q; auto with qdb.
Qed.

Lemma splitter_head_q w p n : QE w -> QE (fst (splitter_head w p n)).
Proof. intros H. unfold splitter_head. kgo3. Qed.
#[local] Hint Resolve splitter_head_q : qdb.

Lemma splitter_start_q w p n pal : QE w -> QE (fst (splitter_start w p n pal)).
Proof. intros H. unfold splitter_start. kgo3. Qed.
#[local] Hint Resolve splitter_start_q : qdb.

Lemma splitter_block_q w p : QE w -> QE (fst (splitter_block w p)).
Proof. intros H. unfold splitter_block. kgo3. Qed.

Lemma combiner_head_q w p n : QE w -> QE (fst (combiner_head w p n)).
Proof. intros H. unfold combiner_head. kgo3. Qed.
#[local] Hint Resolve combiner_head_q : qdb.

Lemma combiner_rep_q e p k0 j : forall a, QE (fst (fst a)) -> QE (fst (fst (comb_rep e p k0 j a))).
Proof.
  induction j as [|j IH]; intros [[w0 ts] ix] H; simpl; auto.
  destruct (e_reserve_get w0 e p) as [w1 t] eqn:E. apply IH. cbn [fst]. eapply e_reserve_get_q; eauto.
Qed.

Lemma combiner_go_q rc p es : forall k acc r, QE (fst (fst acc)) -> comb_go rc p k es acc = Some r -> QE (fst (fst r)).
Proof.
  induction es as [|e es IH]; simpl; intros k acc r HA EQ.
  - inversion EQ; subst; auto.
  - destruct (nth_error rc k) as [q|]; [|discriminate]. eapply IH; [|exact EQ]. apply combiner_rep_q. exact HA.
Qed.

Lemma combiner_reserve_q w p n w1 a b : combiner_reserve w p n = Some (w1, a, b) -> QE w -> QE w1.
Proof.
  unfold combiner_reserve. intros E H.
  assert (QE (fst (fst (w1, a, b)))) as K by (eapply combiner_go_q; [|exact E]; cbn [fst]; exact H). exact K.
Qed.

Lemma combiner_loop_q w p n : QE w -> QE (fst (combiner_loop w p n)).
Proof. intros H. unfold combiner_loop. kgo3. Qed.
#[local] Hint Resolve combiner_loop_q : qdb.

Lemma combiner_block_q w p : QE w -> QE (fst (combiner_block w p)).
Proof.
  intros H. unfold combiner_block. cbv zeta.
  destruct (ppc (me w p)) as [|[|[|[|[|[|?]]]]]].
  - kgo3.
  - auto with qdb.
  - destruct (e_get _ _ _ _ _) as [w1 it] eqn:E. assert (QE w1) by (eapply e_get_q; eauto).
    destruct it; cbn [fst]; auto. destruct (negb _); cbn [fst]; auto with qdb.
    destruct (combiner_reserve w1 p (pown (me w p))) as [[[w2 a] b]|] eqn:E2; cbn [fst]; auto with qdb.
    assert (QE w2) by (eapply combiner_reserve_q; eauto).
    destruct (w_any_of w2 a) as [w3 c] eqn:E3. cbn [fst]. apply setpc_q, upd_proc_q. eapply w_any_of_q; eauto.
  - auto with qdb.
  - kgo3.
  - kgo3.
  - kgo3.
Qed.

Lemma block_q w p : QE w -> QE (fst (block w p)).
Proof.
  intros H. unfold block. destruct (pkd (me w p)); cbn [fst]; auto with qdb;
    first [apply source_block_q | apply machine_block_q | apply worker_block_q | apply sink_block_q | apply push_block_q
          | apply buftimer_block_q | apply fleetact_block_q | apply fleetmove_block_q | apply splitter_block_q
          | apply splitworker_block_q | apply combiner_block_q | apply combworker_block_q]; auto.
Qed.

Lemma resume_q f : forall w p, QE w -> QE (resume f w p).
Proof.
  induction f as [|f IH]; simpl; intros w p H; auto with qdb.
  destruct (wcrash w); auto.
  pose proof (block_q (w <| wactive := p |>) p) as B.
  destruct (block (w <| wactive := p |>) p) as [w1 y]. cbn [fst] in B.
  assert (QE w1) as H1 by (apply B; exact H).
  destruct (wcrash w1); auto. destruct y.
  - destruct (e_proc _); [apply IH; exact H1|]. exact H1.
  - apply upd_proc_q. exact H1.
Qed.

Lemma run_cb_q w c : QE w -> QE (run_cb w c).
Proof.
  intros H. unfold run_cb. destruct (wcrash w); auto. destruct c.
  - destruct (_ <? _)%nat; [apply resume_q; auto|apply crashw_q; auto].
  - exact H.
  - destruct (res_trig_get _ _) as [[k0 r0]|] eqn:E; auto with qdb; apply upd_node_q; exact H.
  - destruct (res_trig_put _ _) as [[k0 r0]|] eqn:E; auto with qdb; apply upd_node_q; exact H.
  - exact H.
Qed.


Lemma run_cbs_q l : forall w, QE w -> QE (fold_left run_cb l w).
Proof. induction l as [|c l IH]; simpl; auto. intros w H. apply IH, run_cb_q, H. Qed.



Theorem fstep_q w w' : QE w -> fstep w = Some w' -> QE w'.
Proof.
  unfold fstep. intros H. destruct (wcrash w); [discriminate|].
  destruct (pop (wk w)) as [[[k e] cbs]|] eqn:E; [|discriminate]. intros [= <-].
  apply run_cbs_q. exact H.
Qed.

Lemma mk_step_q w c : QE w -> QE (mk_step w c).
Proof.
  intros H. unfold mk_step. destruct c as [b i]. destruct b.
  - cbv zeta. match goal with |- context [spawn ?a ?b] => destruct (spawn a b) as [[w' pid] d] eqn:E end.
    eapply spawn_q; eauto.
  - destruct (ek (get_edge w i)); auto;
      destruct (w_event w) as [w1 act] eqn:E1; cbv zeta;
      match goal with |- context [spawn ?a ?b] => destruct (spawn a b) as [[w' pid] d] eqn:E end;
      (eapply spawn_q; [exact E|]); assert (QE w1) as H1 by (eapply w_event_q; eauto); auto with qdb.
Qed.

Lemma mk_world_q nodes edges order : Forall EOK edges -> QE (mk_world nodes edges order).
Proof.
  unfold mk_world. intros H0.
  assert (forall l w, QE w -> QE (fold_left mk_step l w)) as G.
  { induction l as [|c l IH]; simpl; auto. intros w H. apply IH, mk_step_q, H. }
  apply G. exact H0.
Qed.

Theorem store_invariant_everywhere nodes edges order n :
  Forall EOK edges ->
  forall i ed, nth_error (wedges (FactoryInv.iter_fstep n (mk_world nodes edges order))) i = Some ed -> SP (est ed).
Proof.
  intros H0.
  assert (forall m w, QE w -> QE (FactoryInv.iter_fstep m w)) as G.
  { induction m as [|m IH]; simpl; intros w H; auto. destruct (fstep w) as [w'|] eqn:E; auto.
    apply IH. eapply fstep_q; eauto. }
  intros i ed E. pose proof (G n _ (mk_world_q nodes edges order H0)) as K.
  eapply Forall_forall in K; [exact K|]. eapply nth_error_In; eauto.
Qed.
End Generic.

(* C05 at the factory level: every configuration whose edges start with sorted (e.g. empty) waiting
   queues, every number of kernel steps: on every edge both waiting queues are sorted by
   (priority, arrival number) *)
Theorem queues_sorted_everywhere nodes edges order n :
  Forall (fun ed => StoreBOrder.QInv (est ed)) edges ->
  forall i ed, nth_error (wedges (FactoryInv.iter_fstep n (mk_world nodes edges order))) i = Some ed ->
    StoreBOrder.QInv (est ed).
Proof.
  apply (store_invariant_everywhere StoreBOrder.QInv StoreBOrder.step_qinv).
  unfold edge0. simpl. apply StoreBOrder.init_qinv.
Qed.

(* C01 at the factory level: every configuration whose edges start within their capacity (e.g. empty),
   every number of kernel steps: on every edge granted space reservations + items never exceed the
   capacity (StoreBCap.cap_step needs no side condition on the items, so it lifts) *)
Theorem capacity_respected_everywhere nodes edges order n :
  Forall (fun ed => StoreBCap.CapOK (est ed)) edges ->
  forall i ed, nth_error (wedges (FactoryInv.iter_fstep n (mk_world nodes edges order))) i = Some ed ->
    (length (StoreB.putres (est ed)) + length (StoreB.transit (est ed)) + length (StoreB.ready (est ed)) <= StoreB.cap (est ed))%nat.
Proof.
  intros H i ed E.
  apply (store_invariant_everywhere StoreBCap.CapOK StoreBCap.cap_step (StoreBCap.init_cap _ _ _) nodes edges order n H i ed E).
Qed.

(* C04 / C10 at the factory level: every configuration whose Buffer / Fleet edges start empty (or in
   any state satisfying WN), every number of kernel steps: on every edge no space request is waiting
   while the edge could grant it and no retrieval request is waiting while an unreserved item is
   ready -- no lost wake-up anywhere in any factory (StoreBWeak.wn_step needs no side condition) *)
Theorem no_lost_wakeup_everywhere nodes edges order n :
  Forall (fun ed => StoreBWeak.WN (est ed)) edges ->
  forall i ed, nth_error (wedges (FactoryInv.iter_fstep n (mk_world nodes edges order))) i = Some ed ->
    StoreBProps.NoLost (est ed) /\ StoreBWeak.W (est ed).
Proof.
  intros H i ed E.
  assert (StoreBWeak.WN (est ed)) as (_ & A & B).
  { apply (store_invariant_everywhere StoreBWeak.WN StoreBWeak.wn_step (StoreBWeak.init_wn StoreB.KBuffer StoreB.FIFO 0 eq_refl) nodes edges order n H i ed E). }
  split; auto.
Qed.
