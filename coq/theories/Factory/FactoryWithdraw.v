(* C10 -- "a node that commits to one edge withdraws its requests on all the others, so no reservation
   is left behind that would permanently occupy space": every node process of the model commits through
   the one helper [cancel_others]; on the space side it provably clears every other token it is given,
   at every reachable world of every factory (the token invariant StoreBTok.TokB is unconditional, so it
   lifts through FactoryQueue.v's generic section). *)
From Coq Require Import List ZArith Lia Bool Arith.
From RecordUpdate Require Import RecordUpdate.
From FV Require Import ListLemmas Kernel World Factory.
From FV Require FactoryInv FactoryQueue.
From FV Require StoreB StoreBTok StoreBTokG.
Import ListNotations.

Definition PTw (w : world) (e t : nat) : Prop := StoreBTok.PT (est (get_edge w e)) t.
Definition AllTok (w : world) : Prop := Forall (fun ed => StoreBTok.TokB (est ed)) (wedges w).

Lemma w_succeed_edges w e s : wedges (w_succeed w e s) = wedges w.
Proof. unfold w_succeed. destruct (succeed _ _); [reflexivity|]. unfold crashw. destruct (wcrash w); reflexivity. Qed.
Lemma w_succeed_all_edges ts : forall w, wedges (w_succeed_all w ts) = wedges w.
Proof. unfold w_succeed_all. induction ts as [|t ts IH]; simpl; auto. intros w. rewrite IH. apply w_succeed_edges. Qed.
Lemma out_err_edges w r s : wedges (out_err w r s) = wedges w.
Proof. unfold out_err. destruct r; auto. destruct e; unfold crashw; destruct (wcrash w); reflexivity. Qed.

Lemma e_cancel_put_edges w e t :
  wedges (e_cancel_put w e t) = upd e (fun x => x <| est := StoreB.step_st (est (get_edge w e)) (StoreB.CPut t) |>) (wedges w).
Proof.
  unfold e_cancel_put, store_op. destruct (StoreB.step (est (get_edge w e)) (StoreB.CPut t)) as [[s' r] ts] eqn:E.
  rewrite w_succeed_all_edges, out_err_edges. unfold upd_edge. cbn [wedges set]. simpl.
  unfold StoreB.step_st. rewrite E. reflexivity.
Qed.

Lemma nth_upd_same {A} n (f : A -> A) : forall l d, (n < length l)%nat -> nth n (upd n f l) d = f (nth n l d).
Proof. induction n as [|n IH]; intros [|x l] d L; simpl in *; try lia; auto. apply IH. lia. Qed.
Lemma nth_upd_other {A} n m (f : A -> A) : forall l d, n <> m -> nth m (upd n f l) d = nth m l d.
Proof. revert m; induction n as [|n IH]; intros m [|x l] d NE; destruct m; simpl in *; try lia; auto. Qed.
Lemma upd_len {A} n (f : A -> A) l : length (upd n f l) = length l.
Proof. revert n; induction l as [|x l IH]; intros [|n]; simpl; auto. Qed.
Lemma upd_forall {A} (P : A -> Prop) n f : forall l, Forall P l -> (forall x, nth_error l n = Some x -> P x -> P (f x)) -> Forall P (upd n f l).
Proof. induction n as [|n IH]; intros [|y l] H K; simpl; auto; inversion H; subst; constructor; auto. Qed.

(* one cancellation: the invariant is kept, the cancelled token is gone from that edge, no token appears anywhere *)
Lemma e_cancel_put_spec w e t :
  AllTok w -> (e < length (wedges w))%nat ->
  let w' := e_cancel_put w e t in
  AllTok w' /\ length (wedges w') = length (wedges w) /\ ~ PTw w' e t /\
  (forall e' t', ~ PTw w e' t' -> ~ PTw w' e' t').
Proof.
  intros H L w'. assert (wedges w' = upd e (fun x => x <| est := StoreB.step_st (est (get_edge w e)) (StoreB.CPut t) |>) (wedges w)) as EW
    by (apply e_cancel_put_edges).
  assert (StoreBTok.TokB (est (get_edge w e))) as TE.
  { unfold AllTok in H. eapply Forall_forall in H; [exact H|]. unfold get_edge. apply nth_In. exact L. }
  split; [|split; [|split]].
  - unfold AllTok. rewrite EW. apply upd_forall; auto. intros x _ _. cbn. apply StoreBTok.tokb_step. exact TE.
  - rewrite EW. apply upd_len.
  - unfold PTw, get_edge. rewrite EW. rewrite nth_upd_same by exact L. cbn. apply StoreBTok.cput_absent. exact TE.
  - intros e' t' NP. unfold PTw, get_edge in *. rewrite EW. destruct (Nat.eq_dec e e') as [<-|NE].
    + rewrite nth_upd_same by exact L. cbn. intros K. apply StoreBTok.pt_origin in K. destruct K as [K|K]; [apply NP; exact K|exact K].
    + rewrite nth_upd_other by exact NE. exact NP.
Qed.

Theorem cancel_others_withdraws l : forall w keep,
  AllTok w -> (forall e t, In (e, t) l -> (e < length (wedges w))%nat) ->
  let w' := fold_left (fun (w : world) (et : nat * nat) => let '(e, t) := et in
                         if Nat.eqb t keep then w else e_cancel_put w e t) l w in
  AllTok w' /\ length (wedges w') = length (wedges w) /\
  (forall e t, In (e, t) l -> t <> keep -> ~ PTw w' e t) /\
  (forall e t, ~ PTw w e t -> ~ PTw w' e t).
Proof.
  induction l as [|[e t] l IH]; intros w keep H R; simpl.
  - repeat split; auto; intros e t [] .
  - destruct (Nat.eqb_spec t keep) as [EQ|NE].
    + destruct (IH w keep H (fun e0 t0 I => R e0 t0 (or_intror I))) as (A & B & C & D).
      repeat split; auto. intros e0 t0 [I|I] NK; [inversion I; subst; contradiction|]. apply C; auto.
    + assert (e < length (wedges w))%nat as L by (apply (R e t); left; reflexivity).
      destruct (e_cancel_put_spec w e t H L) as (A1 & B1 & C1 & D1).
      destruct (IH (e_cancel_put w e t) keep A1) as (A & B & C & D).
      { intros e0 t0 I. rewrite B1. apply (R e0 t0). right. exact I. }
      repeat split; auto; try lia.
      intros e0 t0 [I|I] NK; [inversion I; subst; apply D; exact C1|]. apply C; auto.
Qed.

(* every configuration whose edges start with distinct tokens (e.g. empty: StoreBTok.init_tokb), every
   number of kernel steps, every call of the commit helper on the space side: afterwards none of the other
   tokens is waiting or granted on its edge, and the helper has not put any token anywhere *)
Theorem commit_withdraws_other_space_requests nodes edges order n :
  Forall (fun ed => StoreBTok.TokB (est ed)) edges ->
  let w := FactoryInv.iter_fstep n (mk_world nodes edges order) in
  forall es ts keep, (forall e, In e es -> (e < length (wedges w))%nat) ->
    let w' := cancel_others w es ts keep true in
    (forall e t, In (e, t) (combine es ts) -> t <> keep -> ~ PTw w' e t) /\
    (forall e t, ~ PTw w e t -> ~ PTw w' e t).
Proof.
  intros H0 w es ts keep R w'.
  assert (AllTok w) as HA.
  { unfold AllTok. apply Forall_forall. intros ed I. apply In_nth_error in I. destruct I as (i & E).
    apply (FactoryQueue.store_invariant_everywhere StoreBTok.TokB StoreBTok.tokb_step
             (StoreBTok.init_tokb StoreB.KBuffer StoreB.FIFO 0) nodes edges order n H0 i ed E). }
  destruct (cancel_others_withdraws (combine es ts) w keep HA) as (_ & _ & C & D).
  { intros e t I. apply R. eapply in_combine_l; eauto. }
  split; [exact C|exact D].
Qed.

(* ------------------------------------------------------------------ the retrieval side *)
Definition GTw (w : world) (e t : nat) : Prop := StoreBTokG.GT (est (get_edge w e)) t.
Definition AllTokG (w : world) : Prop := Forall (fun ed => StoreBTokG.TokG (est ed)) (wedges w).

Lemma w_succeed_crash w e s : wcrash (w_succeed w e s) = None -> wcrash w = None.
Proof. unfold w_succeed. destruct (succeed _ _); [auto|]. unfold crashw. destruct (wcrash w) eqn:E; [rewrite E; auto|cbn; discriminate]. Qed.
Lemma w_succeed_all_crash ts : forall w, wcrash (w_succeed_all w ts) = None -> wcrash w = None.
Proof. unfold w_succeed_all. induction ts as [|t ts IH]; simpl; auto. intros w H. apply IH in H. eapply w_succeed_crash; eauto. Qed.

Lemma cget_result s t : match snd (fst (StoreB.step s (StoreB.CGet t))) with StoreB.OOk | StoreB.OErr _ => True | _ => False end.
Proof.
  cbn [StoreB.step]. unfold StoreB.after_get.
  destruct (existsb _ _).
  - destruct (StoreB.trig_get _) as [[? ?]|]; exact I.
  - destruct (index_where _ _); [|exact I]. destruct (nth_error _ _) as [[? ?]|]; [|exact I].
    destruct (existsb _ _); [|exact I]. destruct (StoreB.trig_get _) as [[? ?]|]; exact I.
Qed.

Lemma e_cancel_get_edges w e t :
  wedges (e_cancel_get w e t) = upd e (fun x => x <| est := StoreB.step_st (est (get_edge w e)) (StoreB.CGet t) |>) (wedges w).
Proof.
  unfold e_cancel_get, store_op. destruct (StoreB.step (est (get_edge w e)) (StoreB.CGet t)) as [[s' r] ts] eqn:E.
  rewrite w_succeed_all_edges, out_err_edges. unfold upd_edge. cbn [wedges set]. simpl.
  unfold StoreB.step_st. rewrite E. reflexivity.
Qed.
Lemma e_cancel_get_crash w e t : wcrash (e_cancel_get w e t) = None -> wcrash w = None.
Proof.
  unfold e_cancel_get, store_op. destruct (StoreB.step _ _) as [[s' r] ts]. intros H. apply w_succeed_all_crash in H.
  assert (forall c, wcrash (crashw (upd_edge w e (fun x => x <| est := s' |>)) c) = None -> wcrash w = None) as K.
  { intros c. unfold crashw, upd_edge. cbn [wcrash set]. simpl. destruct (wcrash w) eqn:E; cbn [wcrash set]; simpl; [rewrite E|]; auto; discriminate. }
  unfold out_err in H. destruct r as [| | |er]; try exact H; destruct er; eapply K; exact H.
Qed.

(* one cancellation: the invariant is kept, no token appears anywhere, and -- unless the run has crashed (a refused
   cancellation is an unhandled exception) -- the cancelled token is gone from that edge *)
Lemma e_cancel_get_spec w e t :
  AllTokG w -> (e < length (wedges w))%nat ->
  let w' := e_cancel_get w e t in
  AllTokG w' /\ length (wedges w') = length (wedges w) /\ (wcrash w' = None -> ~ GTw w' e t) /\
  (forall e' t', ~ GTw w e' t' -> ~ GTw w' e' t').
Proof.
  intros H L w'. assert (wedges w' = upd e (fun x => x <| est := StoreB.step_st (est (get_edge w e)) (StoreB.CGet t) |>) (wedges w)) as EW
    by (apply e_cancel_get_edges).
  assert (StoreBTokG.TokG (est (get_edge w e))) as TE.
  { unfold AllTokG in H. eapply Forall_forall in H; [exact H|]. unfold get_edge. apply nth_In. exact L. }
  split; [|split; [|split]].
  - unfold AllTokG. rewrite EW. apply upd_forall; auto. intros x _ _. cbn. apply StoreBTokG.tokg_step. exact TE.
  - rewrite EW. apply upd_len.
  - intros NC. unfold GTw, get_edge. rewrite EW. rewrite nth_upd_same by exact L. cbn.
    unfold w', e_cancel_get, store_op in NC.
    pose proof (cget_result (est (get_edge w e)) t) as CR.
    unfold StoreB.step_st.
    destruct (StoreB.step (est (get_edge w e)) (StoreB.CGet t)) as [[s' r] ts] eqn:E. cbn [fst snd] in *.
    apply w_succeed_all_crash in NC. destruct r as [| | |er]; try contradiction.
    + eapply StoreBTokG.cget_absent; eauto.
    + exfalso. unfold out_err in NC. destruct er; unfold crashw, upd_edge in NC; cbn [wcrash set] in NC; simpl in NC;
        destruct (wcrash w) eqn:EC; cbn [wcrash set] in NC; simpl in NC; try rewrite EC in NC; discriminate.
  - intros e' t' NP. unfold GTw, get_edge in *. rewrite EW. destruct (Nat.eq_dec e e') as [<-|NE].
    + rewrite nth_upd_same by exact L. cbn. apply StoreBTokG.gt_not_back; [intros p pr; discriminate|exact NP].
    + rewrite nth_upd_other by exact NE. exact NP.
Qed.

Theorem cancel_others_withdraws_get l : forall w keep,
  AllTokG w -> (forall e t, In (e, t) l -> (e < length (wedges w))%nat) ->
  let w' := fold_left (fun (w : world) (et : nat * nat) => let '(e, t) := et in
                         if Nat.eqb t keep then w else e_cancel_get w e t) l w in
  AllTokG w' /\ length (wedges w') = length (wedges w) /\ (wcrash w' = None -> wcrash w = None) /\
  (wcrash w' = None -> forall e t, In (e, t) l -> t <> keep -> ~ GTw w' e t) /\
  (forall e t, ~ GTw w e t -> ~ GTw w' e t).
Proof.
  induction l as [|[e t] l IH]; intros w keep H R; simpl.
  - repeat split; auto; intros _ e t [].
  - destruct (Nat.eqb_spec t keep) as [EQ|NE].
    + destruct (IH w keep H (fun e0 t0 I => R e0 t0 (or_intror I))) as (A & B & B' & C & D).
      repeat split; auto. intros NC e0 t0 [I|I] NK; [inversion I; subst; contradiction|]. apply C; auto.
    + assert (e < length (wedges w))%nat as L by (apply (R e t); left; reflexivity).
      destruct (e_cancel_get_spec w e t H L) as (A1 & B1 & C1 & D1).
      destruct (IH (e_cancel_get w e t) keep A1) as (A & B & B' & C & D).
      { intros e0 t0 I. rewrite B1. apply (R e0 t0). right. exact I. }
      repeat split; auto; try lia.
      * intros NC. apply B' in NC. eapply e_cancel_get_crash; eauto.
      * intros NC e0 t0 [I|I] NK; [inversion I; subst; apply D; apply C1; apply B'; exact NC|]. apply C; auto.
Qed.

(* every configuration whose edges start with distinct tokens, every number of kernel steps, every call of the commit
   helper on the retrieval side: unless the run has crashed, afterwards none of the other tokens is waiting or granted on
   its edge, and the helper has not put any token anywhere *)
Theorem commit_withdraws_other_retrieval_requests nodes edges order n :
  Forall (fun ed => StoreBTokG.TokG (est ed)) edges ->
  let w := FactoryInv.iter_fstep n (mk_world nodes edges order) in
  forall es ts keep, (forall e, In e es -> (e < length (wedges w))%nat) ->
    let w' := cancel_others w es ts keep false in
    (wcrash w' = None -> forall e t, In (e, t) (combine es ts) -> t <> keep -> ~ GTw w' e t) /\
    (forall e t, ~ GTw w e t -> ~ GTw w' e t).
Proof.
  intros H0 w es ts keep R w'.
  assert (AllTokG w) as HA.
  { unfold AllTokG. apply Forall_forall. intros ed I. apply In_nth_error in I. destruct I as (i & E).
    apply (FactoryQueue.store_invariant_everywhere StoreBTokG.TokG StoreBTokG.tokg_step
             (StoreBTokG.init_tokg StoreB.KBuffer StoreB.FIFO 0) nodes edges order n H0 i ed E). }
  destruct (cancel_others_withdraws_get (combine es ts) w keep HA) as (_ & _ & _ & C & D).
  { intros e t I. apply R. eapply in_combine_l; eauto. }
  split; [exact C|exact D].
Qed.
