(* C09 (non-blocking never waits) / C11 at the factory level: in every reachable world of every
   factory configuration, when the probe a non-blocking node consults (Buffer.can_put / Fleet.can_put,
   regenerated from the source) answers yes, the space reservation the node then issues on that edge
   is granted by the store in the same call -- the node does not wait; when it answers no, nothing is
   granted (the request would wait, which is why the node discards instead).
   Uses only invariants that every store operation keeps unconditionally (StoreBWeak.WN: capacity
   bound + no lost wake-up), lifted to every reachable world in FactoryQueue.v.
   [e_reserve_put] first aligns the store's token counter with the kernel's event counter (Sync) and
   then performs RPut; the statement is about exactly that pair of store steps.  That the store token
   granted is the kernel event the process then waits on (the alignment itself) is a property of the
   model's bookkeeping that the trace-exact correspondence covers; it is not proved here. *)
From Coq Require Import List ZArith Lia Bool Arith.
From RecordUpdate Require Import RecordUpdate.
From FV Require Import ListLemmas Kernel SrcFragments Lens World Factory.
From FV Require FactoryInv FactoryQueue.
From FV Require StoreB StoreBProps StoreBCap StoreBWeak.
Import ListNotations.

Lemma can_put_is_room_w s :
  StoreBCap.CapOK s ->
  Buffer_can_put (lensB s) = (StoreB.used s <? StoreB.cap s)%nat /\
  Fleet_can_put (lensB s) = (StoreB.used s <? StoreB.cap s)%nat.
Proof.
  intros H1. unfold StoreBCap.CapOK, Buffer_can_put, Fleet_can_put, StoreB.used, lensB, zl in *; simpl.
  set (a := length (StoreB.transit s)) in *. set (b := length (StoreB.ready s)) in *.
  set (c := length (StoreB.putres s)) in *. set (k := StoreB.cap s) in *.
  destruct (Z.eqb_spec (Z.of_nat a + Z.of_nat b) (Z.of_nat k));
    destruct (Nat.ltb_spec (c + a + b) k); try (split; reflexivity); try lia;
    split; apply Z.gtb_lt || (apply not_true_is_false; intros G; apply Z.gtb_lt in G); lia.
Qed.

Lemma room_iff_granted s p pr :
  StoreBWeak.WN s ->
  ((StoreB.used s <? StoreB.cap s)%nat = true <-> snd (StoreB.step s (StoreB.RPut p pr)) = [StoreB.next s]) /\
  ((StoreB.used s <? StoreB.cap s)%nat = false <-> snd (StoreB.step s (StoreB.RPut p pr)) = []).
Proof.
  intros (NB & _ & (NP & _)).
  rewrite <- (StoreBProps.allow_put_nobelt s NB). simpl.
  set (r := {| StoreB.r_tok := StoreB.next s; StoreB.r_pid := p; StoreB.r_prio := StoreB.eff_prio s pr |}).
  set (s1 := StoreB.set_next (StoreB.set_putq s (StoreB.ins r (StoreB.putq s))) (S (StoreB.next s))).
  assert (StoreB.allow_put s1 = StoreB.allow_put s) as EA by reflexivity.
  assert (StoreB.putq s1 = StoreB.ins r (StoreB.putq s)) as EP by reflexivity.
  destruct (StoreB.trig_put s1) as [s2 ts] eqn:E. simpl.
  unfold StoreB.trig_put in E. rewrite EP, EA in E.
  destruct (StoreB.putq s) as [|x q] eqn:EQ.
  - simpl in E. destruct (StoreB.allow_put s); inversion E; subst; simpl; split; split; congruence.
  - assert (StoreB.allow_put s = false) as F by (apply NP; congruence).
    destruct (StoreB.ins r (x :: q)) as [|y q'] eqn:EI.
    { exfalso. eapply StoreBProps.ins_nonnil; eauto. }
    rewrite F in E. inversion E; subst. rewrite F. split; split; congruence.
Qed.

Lemma sync_lens s n : lensB (StoreB.step_st s (StoreB.Sync n)) = lensB s.
Proof. unfold StoreB.step_st. simpl. destruct (StoreB.next s <=? n)%nat; reflexivity. Qed.

(* the store of edge e as [e_reserve_put] sees it after aligning the token counter with event ev *)
Definition synced (w : world) (e ev : nat) : StoreB.store := StoreB.step_st (est (get_edge w e)) (StoreB.Sync ev).

Theorem probe_decides_grant_everywhere nodes edges order n :
  Forall (fun ed => StoreBWeak.WN (est ed)) edges ->
  let w := FactoryInv.iter_fstep n (mk_world nodes edges order) in
  forall e ev p, (e < length (wedges w))%nat ->
    (e_can_put w e = true -> snd (StoreB.step (synced w e ev) (StoreB.RPut p 0)) = [StoreB.next (synced w e ev)]) /\
    (e_can_put w e = false -> snd (StoreB.step (synced w e ev) (StoreB.RPut p 0)) = []).
Proof.
  intros H0 w e ev p L.
  destruct (nth_error (wedges w) e) as [ed|] eqn:E; [|apply nth_error_None in E; lia].
  assert (StoreBWeak.WN (est ed)) as WNe.
  { apply (FactoryQueue.store_invariant_everywhere StoreBWeak.WN StoreBWeak.wn_step
             (StoreBWeak.init_wn StoreB.KBuffer StoreB.FIFO 0 eq_refl) nodes edges order n H0 e ed E). }
  assert (get_edge w e = ed) as GE by (unfold get_edge; apply nth_error_nth; exact E).
  assert (StoreBWeak.WN (synced w e ev)) as WS by (unfold synced; rewrite GE; apply StoreBWeak.wn_step, WNe).
  assert (lensB (synced w e ev) = lensB (est ed)) as LS by (unfold synced; rewrite GE; apply sync_lens).
  destruct (room_iff_granted (synced w e ev) p 0 WS) as (Ry & Rn).
  destruct WS as (_ & (CO & _) & _). destruct (can_put_is_room_w _ CO) as (CB & CF).
  unfold e_can_put. rewrite GE. rewrite <- LS.
  destruct (ek ed); rewrite ?CB, ?CF; split; intros Hc; first [apply Ry; exact Hc | apply Rn; exact Hc].
Qed.
