(* C09 (non-blocking never waits) / C11 at the factory level: in every reachable world of every
   factory configuration, when the probe a non-blocking node consults (Buffer.can_put / Fleet.can_put,
   regenerated from the source) answers yes, the space reservation the node then issues on that edge
   is granted by the store in the same call -- the node does not wait; when it answers no, nothing is
   granted (the request would wait, which is why the node discards instead).
   Uses only invariants that every store operation keeps unconditionally (StoreBWeak.WN: capacity
   bound + no lost wake-up), lifted to every reachable world in FactoryQueue.v.
   [e_reserve_put] first aligns the store's token counter with the kernel's event counter (Sync) and
   then performs RPut; the statement is about exactly that pair of store steps.  That the store token
   granted is the kernel event the process then waits on (the alignment itself) is a property of the
   model's bookkeeping that the trace-exact correspondence covers; it is not proved here. *)
From Coq Require Import List ZArith Lia Bool Arith.
From RecordUpdate Require Import RecordUpdate.
From FV Require Import ListLemmas Kernel SrcFragments Lens World Factory.
From FV Require FactoryInv FactoryQueue.
From FV Require StoreB StoreBProps StoreBCap StoreBWeak.
Import ListNotations.

Lemma can_put_is_room_w s :
  StoreBCap.CapOK s ->
  Buffer_can_put (lensB s) = (StoreB.used s <? StoreB.cap s)%nat /\
  Fleet_can_put (lensB s) = (StoreB.used s <? StoreB.cap s)%nat.
Proof.
  intros H1. unfold StoreBCap.CapOK, Buffer_can_put, Fleet_can_put, StoreB.used, lensB, zl in *; simpl.
  set (a := length (StoreB.transit s)) in *. set (b := length (StoreB.ready s)) in *.
  set (c := length (StoreB.putres s)) in *. set (k := StoreB.cap s) in *.
  destruct (Z.eqb_spec (Z.of_nat a + Z.of_nat b) (Z.of_nat k));
    destruct (Nat.ltb_spec (c + a + b) k); try (split; reflexivity); try lia;
    split; apply Z.gtb_lt || (apply not_true_is_false; intros G; apply Z.gtb_lt in G); lia.
Qed.

Lemma room_iff_granted s p pr :
  StoreBWeak.WN s ->
  ((StoreB.used s <? StoreB.cap s)%nat = true <-> snd (StoreB.step s (StoreB.RPut p pr)) = [StoreB.next s]) /\
  ((StoreB.used s <? StoreB.cap s)%nat = false <-> snd (StoreB.step s (StoreB.RPut p pr)) = []).
Proof.
  intros (NB & _ & (NP & _)).
  rewrite <- (StoreBProps.allow_put_nobelt s NB). simpl.
  set (r := {| StoreB.r_tok := StoreB.next s; StoreB.r_pid := p; StoreB.r_prio := StoreB.eff_prio s pr |}).
  set (s1 := StoreB.set_next (StoreB.set_putq s (StoreB.ins r (StoreB.putq s))) (S (StoreB.next s))).
  assert (StoreB.allow_put s1 = StoreB.allow_put s) as EA by reflexivity.
  assert (StoreB.putq s1 = StoreB.ins r (StoreB.putq s)) as EP by reflexivity.
  destruct (StoreB.trig_put s1) as [s2 ts] eqn:E. simpl.
  unfold StoreB.trig_put in E. rewrite EP, EA in E.
  destruct (StoreB.putq s) as [|x q] eqn:EQ.
  - simpl in E. destruct (StoreB.allow_put s); inversion E; subst; simpl; split; split; congruence.
  - assert (StoreB.allow_put s = false) as F by (apply NP; congruence).
    destruct (StoreB.ins r (x :: q)) as [|y q'] eqn:EI.
    { exfalso. eapply StoreBProps.ins_nonnil; eauto. }
    rewrite F in E. inversion E; subst. rewrite F. split; split; congruence.
Qed.

Lemma sync_lens s n : lensB (StoreB.step_st s (StoreB.Sync n)) = lensB s.
Proof. unfold StoreB.step_st. simpl. destruct (StoreB.next s <=? n)%nat; reflexivity. Qed.

(* the store of edge e as [e_reserve_put] sees it after aligning the token counter with event ev *)
Definition synced (w : world) (e ev : nat) : StoreB.store := StoreB.step_st (est (get_edge w e)) (StoreB.Sync ev).

Theorem probe_decides_grant_everywhere nodes edges order n :
  Forall (fun ed => StoreBWeak.WN (est ed)) edges ->
  let w := FactoryInv.iter_fstep n (mk_world nodes edges order) in
  forall e ev p, (e < length (wedges w))%nat ->
    (e_can_put w e = true -> snd (StoreB.step (synced w e ev) (StoreB.RPut p 0)) = [StoreB.next (synced w e ev)]) /\
    (e_can_put w e = false -> snd (StoreB.step (synced w e ev) (StoreB.RPut p 0)) = []).
Proof.
  intros H0 w e ev p L.
  destruct (nth_error (wedges w) e) as [ed|] eqn:E; [|apply nth_error_None in E; lia].
  assert (StoreBWeak.WN (est ed)) as WNe.
  { apply (FactoryQueue.store_invariant_everywhere StoreBWeak.WN StoreBWeak.wn_step
             (StoreBWeak.init_wn StoreB.KBuffer StoreB.FIFO 0 eq_refl) nodes edges order n H0 e ed E). }
  assert (get_edge w e = ed) as GE by (unfold get_edge; apply nth_error_nth; exact E).
  assert (StoreBWeak.WN (synced w e ev)) as WS by (unfold synced; rewrite GE; apply StoreBWeak.wn_step, WNe).
  assert (lensB (synced w e ev) = lensB (est ed)) as LS by (unfold synced; rewrite GE; apply sync_lens).
  destruct (room_iff_granted (synced w e ev) p 0 WS) as (Ry & Rn).
  destruct WS as (_ & (CO & _) & _). destruct (can_put_is_room_w _ CO) as (CB & CF).
  unfold e_can_put. rewrite GE. rewrite <- LS.
  destruct (ek ed); rewrite ?CB, ?CF; split; intros Hc; first [apply Ry; exact Hc | apply Rn; exact Hc].
Qed.

(* ---- with the token alignment of FactoryTok.v: the event the process waits on is triggered *)
From FV Require FactoryTok.

Lemma nth_upd_same {A} n (f : A -> A) : forall l d, (n < length l)%nat -> nth n (upd n f l) d = f (nth n l d).
Proof. induction n as [|n IH]; intros [|x l] d L; simpl in *; try lia; auto. apply IH. lia. Qed.
Lemma nth_app_last {A} (l : list A) x d : nth (length l) (l ++ [x]) d = x.
Proof. rewrite app_nth2 by lia. rewrite Nat.sub_diag. reflexivity. Qed.

Theorem probe_yes_reservation_triggered nodes edges order n :
  Forall (fun ed => StoreBWeak.WN (est ed)) edges ->
  Forall (fun ed => StoreB.next (est ed) = 0%nat) edges ->
  let w := FactoryInv.iter_fstep n (mk_world nodes edges order) in
  forall e p, (e < length (wedges w))%nat -> e_can_put w e = true ->
    e_trig (get_ev (wk (fst (e_reserve_put w e p))) (snd (e_reserve_put w e p))) = true.
Proof.
  intros HW HN w e p L CP.
  destruct (nth_error (wedges w) e) as [ed|] eqn:EN; [|apply nth_error_None in EN; lia].
  pose proof (FactoryTok.tokens_aligned_everywhere nodes edges order n HN e ed EN) as TA. fold w in TA.
  set (ev := length (evs (wk w))) in *.
  destruct (probe_decides_grant_everywhere nodes edges order n HW e ev p L) as (PY & _). fold w in PY.
  specialize (PY CP).
  assert (get_edge w e = ed) as GE by (unfold get_edge; apply nth_error_nth; exact EN).
  assert (StoreB.next (synced w e ev) = ev) as NS.
  { unfold synced. rewrite GE. apply FactoryTok.sync_sets_next. exact TA. }
  rewrite NS in PY.
  destruct (e_reserve_put w e p) as [w' t] eqn:ER. cbn [fst snd]. unfold e_reserve_put in ER.
  destruct (w_event w) as [wa ev'] eqn:E1. destruct (store_op wa e (StoreB.Sync ev')) as [[wb r1] t1] eqn:E2.
  destruct (store_op wb e (StoreB.RPut p 0)) as [[wc r2] t2] eqn:E3. injection ER as ERa ERb. subst w' t.
  unfold w_event in E1. simpl in E1. injection E1 as E1a E1b. subst ev'. fold ev in E1a |- *.
  assert (get_edge wa e = ed) as GA by (rewrite <- E1a; unfold get_edge; cbn [wedges set]; simpl; fold (get_edge w e); exact GE).
  assert (length (wedges wa) = length (wedges w)) as LA by (rewrite <- E1a; reflexivity).
  assert (wk wa = set_evs (wk w) (evs (wk w) ++ [ev0])) as KA by (rewrite <- E1a; reflexivity).
  unfold store_op in E2. rewrite GA in E2. fold ev in E2.
  destruct (StoreB.step (est ed) (StoreB.Sync ev)) as [[s1 r0] ts0] eqn:S1. cbv beta iota zeta in E2. injection E2 as E2a E2b E2c. subst wb r1 t1.
  assert (s1 = synced w e ev) as ES1 by (unfold synced, StoreB.step_st; rewrite GE, S1; reflexivity).
  assert (get_edge (upd_edge wa e (fun x => x <| est := s1 |>)) e = ed <| est := s1 |>) as GB.
  { unfold get_edge, upd_edge. cbn [wedges set]. simpl. rewrite nth_upd_same by (rewrite LA; exact L).
    fold (get_edge wa e). rewrite GA. reflexivity. }
  unfold store_op in E3. rewrite GB in E3. change (est (ed <| est := s1 |>)) with s1 in E3.
  destruct (StoreB.step s1 (StoreB.RPut p 0)) as [[s2 r3] ts3] eqn:S2. cbv beta iota zeta in E3. injection E3 as E3a E3b E3c. subst wc r2 t2.
  assert (ts3 = [ev]) as -> by (rewrite ES1 in S2; rewrite S2 in PY; exact PY).
  unfold w_succeed_all. cbn [fold_left]. unfold w_succeed.
  assert (wk (upd_edge (upd_edge wa e (fun x => x <| est := s1 |>)) e (fun x => x <| est := s2 |>)) = wk wa) as KW by reflexivity.
  rewrite KW, KA. unfold succeed.
  assert (get_ev (set_evs (wk w) (evs (wk w) ++ [ev0])) ev = ev0) as G0.
  { unfold get_ev. simpl. unfold ev. apply nth_app_last. }
  rewrite G0. cbn [e_trig ev0]. cbn [wk set]. simpl.
  unfold get_ev, schedule, mark_trig. simpl.
  rewrite nth_upd_same by (rewrite app_length; simpl; unfold ev; lia). reflexivity.
Qed.
