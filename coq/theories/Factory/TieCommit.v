(* Tie B for the commit protocol of the node processes.  After `yield self.env.any_of(L)` every node process
     chosen = next((event for event in L if event.triggered), None)       -- the first GRANTED request in edge order
     index  = L.index(chosen)                                              -- the index it records and uses
     for event in L: [if event is not chosen:] event.resourcename.reserve_{put,get}_cancel(event)     -- withdraws the others
   (Source and Sink remove the chosen event from L first and then cancel all of L).  translator/py_to_gallina.py re-reads these
   three steps from Machine.worker, Splitter.worker, Combiner.worker, Source.behaviour (space side), Machine.behaviour,
   Splitter.behaviour, Sink.behaviour (retrieval side) and the choice of Combiner.behaviour's gather loop on every run, as
   functions over lists of abstract events (identity + flags); the translator refuses a loop body that does anything besides
   cancelling (for instance one that changes the list it walks).  Here: each regenerated function equals the specification,
   and the specification is what the model's [first_triggered] / [cancel_others] compute. *)
From Coq Require Import List Bool Arith Lia.
From FV Require Import SrcFragments Kernel World Factory.
Import ListNotations.

Fixpoint idx_of (t : nat) (l : list nat) : nat := match l with [] => 0 | y :: r => if Nat.eqb y t then 0 else S (idx_of t r) end.

Lemma withdraw_guard_ok l x :
  map ev_id (filter (fun e => negb (ev_is e x)) l) = filter (fun t => negb (Nat.eqb t (ev_id x))) (map ev_id l).
Proof. induction l as [|y l IH]; simpl; auto. unfold ev_is at 1. destruct (Nat.eqb (ev_id y) (ev_id x)); simpl; rewrite IH; reflexivity. Qed.

Lemma filter_all_id (t : nat) l : ~ In t l -> filter (fun y => negb (Nat.eqb y t)) l = l.
Proof.
  induction l as [|y l IH]; simpl; auto. intros H. destruct (Nat.eqb_spec y t) as [E|E]; [exfalso; apply H; left; exact E|].
  simpl. rewrite IH; auto.
Qed.

Lemma withdraw_remove_ok l x :
  NoDup (map ev_id l) -> map ev_id (pyremove x l) = filter (fun t => negb (Nat.eqb t (ev_id x))) (map ev_id l).
Proof.
  induction l as [|y l IH]; simpl; auto. intros H. inversion H as [|a b NI ND]; subst. unfold ev_is at 1.
  destruct (Nat.eqb_spec (ev_id y) (ev_id x)) as [E|E]; simpl.
  - rewrite filter_all_id; [reflexivity|]. rewrite <- E. exact NI.
  - rewrite IH by exact ND. reflexivity.
Qed.

Lemma index_ok l x : pyindex x l = idx_of (ev_id x) (map ev_id l).
Proof. induction l as [|y l IH]; simpl; auto. unfold ev_is at 1. destruct (Nat.eqb (ev_id y) (ev_id x)); auto. Qed.

(* ------------------------------------------------------------------ the regenerated functions meet the specification *)
Lemma Machine_worker_pick_src l : Machine_worker_pick l = find ev_triggered l.
Proof. reflexivity. Qed.
Lemma Splitter_worker_pick_src l : Splitter_worker_pick l = find ev_triggered l.
Proof. reflexivity. Qed.
Lemma Combiner_worker_pick_src l : Combiner_worker_pick l = find ev_triggered l.
Proof. reflexivity. Qed.
Lemma Source_behaviour_pick_src l : Source_behaviour_pick l = find ev_triggered l.
Proof. reflexivity. Qed.
Lemma Machine_behaviour_pick_src l : Machine_behaviour_pick l = find ev_triggered l.
Proof. reflexivity. Qed.
Lemma Splitter_behaviour_pick_src l : Splitter_behaviour_pick l = find ev_triggered l.
Proof. reflexivity. Qed.
Lemma Sink_behaviour_pick_src l : Sink_behaviour_pick l = find ev_triggered l.
Proof. reflexivity. Qed.
Lemma Combiner_gather_pick_src l : Combiner_gather_pick l = find ev_triggered l.
Proof. reflexivity. Qed.
Lemma Machine_worker_index_src l x : Machine_worker_index l x = idx_of (ev_id x) (map ev_id l).
Proof. unfold Machine_worker_index. apply index_ok. Qed.
Lemma Machine_worker_withdraw_src l x :
  NoDup (map ev_id l) -> map ev_id (Machine_worker_withdraw l x) = filter (fun t => negb (Nat.eqb t (ev_id x))) (map ev_id l).
Proof. intros H. unfold Machine_worker_withdraw. first [apply withdraw_guard_ok | apply withdraw_remove_ok; exact H]. Qed.
Lemma Splitter_worker_index_src l x : Splitter_worker_index l x = idx_of (ev_id x) (map ev_id l).
Proof. unfold Splitter_worker_index. apply index_ok. Qed.
Lemma Splitter_worker_withdraw_src l x :
  NoDup (map ev_id l) -> map ev_id (Splitter_worker_withdraw l x) = filter (fun t => negb (Nat.eqb t (ev_id x))) (map ev_id l).
Proof. intros H. unfold Splitter_worker_withdraw. first [apply withdraw_guard_ok | apply withdraw_remove_ok; exact H]. Qed.
Lemma Combiner_worker_index_src l x : Combiner_worker_index l x = idx_of (ev_id x) (map ev_id l).
Proof. unfold Combiner_worker_index. apply index_ok. Qed.
Lemma Combiner_worker_withdraw_src l x :
  NoDup (map ev_id l) -> map ev_id (Combiner_worker_withdraw l x) = filter (fun t => negb (Nat.eqb t (ev_id x))) (map ev_id l).
Proof. intros H. unfold Combiner_worker_withdraw. first [apply withdraw_guard_ok | apply withdraw_remove_ok; exact H]. Qed.
Lemma Source_behaviour_index_src l x : Source_behaviour_index l x = idx_of (ev_id x) (map ev_id l).
Proof. unfold Source_behaviour_index. apply index_ok. Qed.
Lemma Source_behaviour_withdraw_src l x :
  NoDup (map ev_id l) -> map ev_id (Source_behaviour_withdraw l x) = filter (fun t => negb (Nat.eqb t (ev_id x))) (map ev_id l).
Proof. intros H. unfold Source_behaviour_withdraw. first [apply withdraw_guard_ok | apply withdraw_remove_ok; exact H]. Qed.
Lemma Machine_behaviour_index_src l x : Machine_behaviour_index l x = idx_of (ev_id x) (map ev_id l).
Proof. unfold Machine_behaviour_index. apply index_ok. Qed.
Lemma Machine_behaviour_withdraw_src l x :
  NoDup (map ev_id l) -> map ev_id (Machine_behaviour_withdraw l x) = filter (fun t => negb (Nat.eqb t (ev_id x))) (map ev_id l).
Proof. intros H. unfold Machine_behaviour_withdraw. first [apply withdraw_guard_ok | apply withdraw_remove_ok; exact H]. Qed.
Lemma Splitter_behaviour_index_src l x : Splitter_behaviour_index l x = idx_of (ev_id x) (map ev_id l).
Proof. unfold Splitter_behaviour_index. apply index_ok. Qed.
Lemma Splitter_behaviour_withdraw_src l x :
  NoDup (map ev_id l) -> map ev_id (Splitter_behaviour_withdraw l x) = filter (fun t => negb (Nat.eqb t (ev_id x))) (map ev_id l).
Proof. intros H. unfold Splitter_behaviour_withdraw. first [apply withdraw_guard_ok | apply withdraw_remove_ok; exact H]. Qed.
Lemma Sink_behaviour_index_src l x : Sink_behaviour_index l x = idx_of (ev_id x) (map ev_id l).
Proof. unfold Sink_behaviour_index. apply index_ok. Qed.
Lemma Sink_behaviour_withdraw_src l x :
  NoDup (map ev_id l) -> map ev_id (Sink_behaviour_withdraw l x) = filter (fun t => negb (Nat.eqb t (ev_id x))) (map ev_id l).
Proof. intros H. unfold Sink_behaviour_withdraw. first [apply withdraw_guard_ok | apply withdraw_remove_ok; exact H]. Qed.

(* ------------------------------------------------------------------ ... and the specification is what the model computes *)
Definition abs_ev (w : world) (t : nat) : pyev :=
  {| ev_id := t; ev_triggered := e_trig (get_ev (wk w) t); ev_processed := e_proc (get_ev (wk w) t); ev_ok := true |}.

Lemma map_abs_ids w l : map ev_id (map (abs_ev w) l) = l.
Proof. induction l as [|t l IH]; simpl; congruence. Qed.

(* the model's choice: the first granted token, with its position *)
Theorem model_choice_is_first_granted w toks :
  first_triggered w toks =
  match find ev_triggered (map (abs_ev w) toks) with
  | Some e => Some (idx_of (ev_id e) toks, ev_id e)
  | None => None
  end.
Proof.
  unfold first_triggered.
  assert (forall l i,
    (fix go (i : nat) (l : list nat) : option (nat * nat) :=
       match l with [] => None | t :: r => if e_trig (get_ev (wk w) t) then Some (i, t) else go (S i) r end) i l =
    match find ev_triggered (map (abs_ev w) l) with Some e => Some (i + idx_of (ev_id e) l, ev_id e) | None => None end) as G.
  { induction l as [|t r IH]; intros i; [reflexivity|]. cbn [map find abs_ev ev_triggered].
    destruct (e_trig (get_ev (wk w) t)) eqn:E.
    - cbn [ev_id idx_of]. rewrite Nat.eqb_refl, Nat.add_0_r. reflexivity.
    - rewrite IH. destruct (find ev_triggered (map (abs_ev w) r)) as [e|] eqn:F; [|reflexivity].
      apply find_some in F. destruct F as (I & T). apply in_map_iff in I. destruct I as (t' & <- & _).
      cbn [abs_ev ev_id ev_triggered] in *. cbn [idx_of].
      destruct (Nat.eqb_spec t t') as [<-|NE]; [congruence|]. f_equal. f_equal. lia. }
  rewrite G. destruct (find _ _); reflexivity.
Qed.

(* the model's withdrawal: exactly the requests whose token is not the kept one, in edge order *)
Theorem model_withdrawal_is_all_others w es ts keep put :
  cancel_others w es ts keep put =
  fold_left (fun w et => if put then e_cancel_put w (fst et) (snd et) else e_cancel_get w (fst et) (snd et))
            (filter (fun et => negb (Nat.eqb (snd et) keep)) (combine es ts)) w.
Proof.
  unfold cancel_others. generalize (combine es ts). intros l. revert w.
  induction l as [|[e t] l IH]; intros w; [reflexivity|]. cbn [fold_left filter snd fst].
  destruct (Nat.eqb t keep); cbn [negb fold_left fst snd]; rewrite IH; reflexivity.
Qed.

(* together, for a regenerated withdrawal function W (any of the seven above): the tokens it withdraws from the event list the
   model's tokens stand for are the tokens the model withdraws *)
Theorem regenerated_withdrawal_is_the_models (W : list pyev -> pyev -> list pyev) :
  (forall l x, NoDup (map ev_id l) -> map ev_id (W l x) = filter (fun t => negb (Nat.eqb t (ev_id x))) (map ev_id l)) ->
  forall w ts keep, NoDup ts ->
  map ev_id (W (map (abs_ev w) ts) (abs_ev w keep)) = filter (fun t => negb (Nat.eqb t keep)) ts.
Proof. intros H w ts keep ND. rewrite H by (rewrite map_abs_ids; exact ND). rewrite map_abs_ids. reflexivity. Qed.

(* ------------------------------------------------------------------ the probe loop of the non-blocking paths (C09): the edge
   chosen is the first out-edge whose can_put() is true; the item is pushed exactly when there is one and dropped otherwise; the
   index-policy paths test can_put() of the drawn edge (a call, not the always-true bound method) *)
Lemma Source_behaviour_probe_src l : Source_behaviour_probe l = find ed_can_put l.
Proof. reflexivity. Qed.
Lemma Source_behaviour_probe_pushes_src r : Source_behaviour_probe_pushes r = match r with Some _ => true | None => false end.
Proof. reflexivity. Qed.
Lemma Source_behaviour_index_probe_src e : Source_behaviour_index_probe e = ed_can_put e.
Proof. reflexivity. Qed.
Lemma Machine_worker_probe_src l : Machine_worker_probe l = find ed_can_put l.
Proof. reflexivity. Qed.
Lemma Machine_worker_probe_pushes_src r : Machine_worker_probe_pushes r = match r with Some _ => true | None => false end.
Proof. reflexivity. Qed.
Lemma Machine_worker_index_probe_src e : Machine_worker_index_probe e = ed_can_put e.
Proof. reflexivity. Qed.
Lemma Splitter_worker_probe_src l : Splitter_worker_probe l = find ed_can_put l.
Proof. reflexivity. Qed.
Lemma Splitter_worker_probe_pushes_src r : Splitter_worker_probe_pushes r = match r with Some _ => true | None => false end.
Proof. reflexivity. Qed.
Lemma Splitter_worker_index_probe_src e : Splitter_worker_index_probe e = ed_can_put e.
Proof. reflexivity. Qed.
Lemma Combiner_worker_probe_src l : Combiner_worker_probe l = find ed_can_put l.
Proof. reflexivity. Qed.
Lemma Combiner_worker_probe_pushes_src r : Combiner_worker_probe_pushes r = match r with Some _ => true | None => false end.
Proof. reflexivity. Qed.
Lemma Combiner_worker_index_probe_src e : Combiner_worker_index_probe e = ed_can_put e.
Proof. reflexivity. Qed.

Definition abs_edge (w : world) (e : nat) : pyedge := {| ed_id := e; ed_can_put := e_can_put w e |}.

(* the model's search: the first out-edge whose probe says yes *)
Theorem model_probe_is_first_with_room w es :
  first_can_put w es = option_map ed_id (find ed_can_put (map (abs_edge w) es)).
Proof.
  unfold first_can_put. induction es as [|e r IH]; [reflexivity|]. cbn [map find abs_edge ed_can_put].
  destruct (e_can_put w e); [reflexivity|]. exact IH.
Qed.
