(* Whole-factory invariant for C18 (counters): in every reachable world of every configuration a node's
   counters of generated, discarded and received items equal the number of such events in the trace.
   Lifted through all process blocks with the tactic of FactoryInv.v. *)
From Coq Require Import List ZArith Lia Bool Arith.
From RecordUpdate Require Import RecordUpdate.
From FV Require Import ListLemmas Kernel SrcFragments Lens World Factory.
From FV Require FactoryInv.
From FV Require StoreB.
Import ListNotations.
Open Scope Z_scope.

Definition is_gen (n : nat) (x : tev) : bool := match x with LGen _ m _ => Nat.eqb m n | _ => false end.
Definition is_disc (n : nat) (x : tev) : bool := match x with LDiscard _ m _ => Nat.eqb m n | _ => false end.
Definition is_recv (n : nat) (x : tev) : bool := match x with LRecv _ m _ _ => Nat.eqb m n | _ => false end.
Definition cnt (p : tev -> bool) (l : list tev) : nat := length (filter p l).
Definition counted (x : tev) : bool := match x with LGen _ _ _ | LDiscard _ _ _ | LRecv _ _ _ _ => true | _ => false end.

Definition COK (log : list tev) (n : nat) (nd : node) : Prop :=
  ngen nd = cnt (is_gen n) log /\ ndisc nd = cnt (is_disc n) log /\ nrecv nd = cnt (is_recv n) log.
Definition CN (w : world) : Prop := forall n, (n < length (wnodes w))%nat -> COK (wlog w) n (get_node w n).

Lemma cnt_snoc p l x : cnt p (l ++ [x]) = (cnt p l + if p x then 1 else 0)%nat.
Proof. unfold cnt. rewrite filter_app, app_length. simpl. destruct (p x); reflexivity. Qed.

Lemma upd_length {A} n (f : A -> A) l : length (upd n f l) = length l.
Proof. revert l. induction n as [|n IH]; intros [|x l]; simpl; auto. Qed.
Lemma nth_upd_same {A} n (f : A -> A) : forall l d, (n < length l)%nat -> nth n (upd n f l) d = f (nth n l d).
Proof. induction n as [|n IH]; intros [|x l] d H; simpl in *; try lia; auto. apply IH. lia. Qed.
Lemma nth_upd_other {A} n m (f : A -> A) : forall l d, n <> m -> nth m (upd n f l) d = nth m l d.
Proof. revert m. induction n as [|n IH]; intros [|m] [|x l] d H; simpl in *; try lia; auto; apply IH; lia. Qed.

(* a node update that leaves the three counters alone *)
Lemma upd_node_keep w n f :
  (forall x, ngen (f x) = ngen x /\ ndisc (f x) = ndisc x /\ nrecv (f x) = nrecv x) -> CN w -> CN (upd_node w n f).
Proof.
  intros K H m L. unfold upd_node in *. cbn [wnodes wlog set] in *. simpl in *. rewrite upd_length in L.
  specialize (H m L). unfold get_node in *. cbn [wnodes set]. simpl. destruct (Nat.eq_dec n m) as [->|NE].
  - rewrite nth_upd_same by exact L. destruct (K (nth m (wnodes w) node0)) as (A & B & C). unfold COK in *. rewrite A, B, C. exact H.
  - rewrite nth_upd_other by exact NE. exact H.
Qed.
(* a trace entry that is not a generation, a discard or a reception *)
Lemma logw_c w x : counted x = false -> CN w -> CN (logw w x).
Proof.
  intros Q H m L. specialize (H m L). unfold logw, COK in *. cbn [wlog wnodes set] in *. simpl in *. unfold get_node in *. cbn [wnodes set]. simpl.
  rewrite !cnt_snoc. destruct x; try discriminate; simpl; rewrite !Nat.add_0_r; exact H.
Qed.

(* the three places where a counter moves: the counter and the trace move together *)
Lemma pair_core w n (f : node -> node) x (dg dd dr : nat) :
  (forall y, ngen (f y) = (ngen y + dg)%nat /\ ndisc (f y) = (ndisc y + dd)%nat /\ nrecv (f y) = (nrecv y + dr)%nat) ->
  (forall m, (if is_gen m x then 1 else 0)%nat = (if Nat.eqb n m then dg else 0)%nat /\
             (if is_disc m x then 1 else 0)%nat = (if Nat.eqb n m then dd else 0)%nat /\
             (if is_recv m x then 1 else 0)%nat = (if Nat.eqb n m then dr else 0)%nat) ->
  CN w -> CN (logw (upd_node w n f) x).
Proof.
  intros K X H m L. unfold logw, upd_node in *. cbn [wnodes wlog set] in *. simpl in *. rewrite upd_length in L.
  specialize (H m L). unfold get_node, COK in *. cbn [wnodes set]. simpl. rewrite !cnt_snoc.
  destruct (X m) as (X1 & X2 & X3). rewrite X1, X2, X3. destruct (Nat.eq_dec n m) as [->|NE].
  - rewrite nth_upd_same by exact L. rewrite Nat.eqb_refl. destruct (K (nth m (wnodes w) node0)) as (A & B & C).
    rewrite A, B, C. destruct H as (H1 & H2 & H3). rewrite H1, H2, H3. auto.
  - rewrite nth_upd_other by exact NE. destruct (Nat.eqb_spec n m); [congruence|]. rewrite !Nat.add_0_r. exact H.
Qed.
Lemma gen_pair w n t i : CN w -> CN (logw (upd_node w n (fun x => x <| ngen ::= S |>)) (LGen t n i)).
Proof.
  apply (pair_core w n _ _ 1 0 0).
  - intros y. cbn. repeat split; lia.
  - intros m. simpl. rewrite (Nat.eqb_sym n m). destruct (Nat.eqb m n); auto.
Qed.
Lemma disc_pair w n t i : CN w -> CN (logw (upd_node w n (fun x => x <| ndisc ::= S |>)) (LDiscard t n i)).
Proof.
  apply (pair_core w n _ _ 0 1 0).
  - intros y. cbn. repeat split; lia.
  - intros m. simpl. rewrite (Nat.eqb_sym n m). destruct (Nat.eqb m n); auto.
Qed.
Lemma recv_pair w n t i c g : CN w -> CN (logw (upd_node w n (fun x => x <| nrecv ::= S |> <| ncycle ::= g |>)) (LRecv t n i c)).
Proof.
  apply (pair_core w n _ _ 0 0 1).
  - intros y. cbn. repeat split; lia.
  - intros m. simpl. rewrite (Nat.eqb_sym n m). destruct (Nat.eqb m n); auto.
Qed.

Create HintDb cdb.





Lemma crashw_c w c : CN w -> CN (crashw w c).
Proof. unfold crashw. destruct (wcrash w); auto. Qed.
Lemma upd_edge_c w e f : CN w -> CN (upd_edge w e f).
Proof. auto. Qed.
Lemma upd_proc_c w e f : CN w -> CN (upd_proc w e f).
Proof. auto. Qed.
Lemma upd_item_c w e f : CN w -> CN (upd_item w e f).
Proof. auto. Qed.
Lemma setpc_c w p pc : CN w -> CN (setpc w p pc).
Proof. auto. Qed.
#[local] Hint Resolve crashw_c upd_edge_c upd_proc_c upd_item_c setpc_c : cdb.
Ltac cn_side :=
  let x := fresh in intros x;
  first [repeat split; reflexivity
        | repeat (match goal with
                  | |- context [if ?b then _ else _] => destruct b
                  | |- context [match ?b with _ => _ end] => destruct b
                  end); repeat split; reflexivity].
#[local] Hint Extern 1 (CN (logw (upd_node _ _ _) (LGen _ _ _))) => apply gen_pair : cdb.
#[local] Hint Extern 1 (CN (logw (upd_node _ _ _) (LDiscard _ _ _))) => apply disc_pair : cdb.
#[local] Hint Extern 1 (CN (logw (upd_node _ _ _) (LRecv _ _ _ _))) => apply recv_pair : cdb.
#[local] Hint Extern 2 (CN (logw _ _)) => (apply logw_c; [reflexivity|]) : cdb.
#[local] Hint Extern 3 (CN (upd_node _ _ _)) => (apply upd_node_keep; [cn_side|]) : cdb.




Lemma w_succeed_c w e s : CN w -> CN (w_succeed w e s).
Proof.
  unfold w_succeed. intros H. destruct (succeed (wk w) e) eqn:E; [exact H|apply crashw_c; auto].
Qed.
#[local] Hint Resolve w_succeed_c : cdb.

Lemma w_succeed_all_c es : forall w, CN w -> CN (w_succeed_all w es).
Proof. unfold w_succeed_all. induction es as [|e es IH]; simpl; auto. intros w H. apply IH. auto with cdb. Qed.
#[local] Hint Resolve w_succeed_all_c : cdb.

Lemma w_event_c w w1 e : w_event w = (w1, e) -> CN w -> CN w1.
Proof. unfold w_event. simpl. intros [= <- _] H. exact H. Qed.


Lemma w_timeout_c w d w1 e : w_timeout w d = (w1, e) -> CN w -> CN w1.
Proof.
  unfold w_timeout. destruct (d <? 0).
  - intros [= <- _] H. auto with cdb.
  - destruct (timeout (wk w) d) as [k e0]. intros [= <- _] H. exact H.
Qed.




Lemma w_any_of_c w es w1 c : w_any_of w es = (w1, c) -> CN w -> CN w1.
Proof.
  unfold w_any_of. destruct (any_of (wk w) es) as [k e0]. intros [= <- _] H. exact H.
Qed.

Lemma spawn_c w p w1 pid d : spawn w p = (w1, pid, d) -> CN w -> CN w1.
Proof.
  unfold spawn. intros E H.
  destruct (w_event w) as [wa done] eqn:E1. destruct (w_event wa) as [wb ini] eqn:E2.
  inversion E; subst. clear E.
  assert (CN wb) as Hb by (eapply w_event_c; [exact E2|]; eapply w_event_c; [exact E1|]; exact H). exact Hb.
Qed.

Lemma e_update_level_c w e : CN w -> CN (e_update_level w e).
Proof. auto. Qed.
#[local] Hint Resolve e_update_level_c : cdb.

Lemma store_op_c w e o w1 r ts : store_op w e o = (w1, r, ts) -> CN w -> CN w1.
Proof. unfold store_op. destruct (StoreB.step _ _) as [[s' r0] ts0]. intros [= <- _ _] H. auto. Qed.

Lemma out_err_c w r s : CN w -> CN (out_err w r s).
Proof. unfold out_err. intros H. destruct r; auto. destruct e; auto with cdb. Qed.
#[local] Hint Resolve out_err_c : cdb.

Lemma e_reserve_put_c w e p w1 t : e_reserve_put w e p = (w1, t) -> CN w -> CN w1.
Proof.
  unfold e_reserve_put. intros E H.
  destruct (w_event w) as [wa ev] eqn:E1. destruct (store_op wa e (StoreB.Sync ev)) as [[wb r1] t1] eqn:E2.
  destruct (store_op wb e (StoreB.RPut p 0)) as [[wc r2] t2] eqn:E3. inversion E; subst.
  apply w_succeed_all_c. eapply store_op_c; [exact E3|]. eapply store_op_c; [exact E2|]. eapply w_event_c; eauto.
Qed.

Lemma e_reserve_get_c w e p w1 t : e_reserve_get w e p = (w1, t) -> CN w -> CN w1.
Proof.
  unfold e_reserve_get. intros E H.
  destruct (w_event w) as [wa ev] eqn:E1. destruct (store_op wa e (StoreB.Sync ev)) as [[wb r1] t1] eqn:E2.
  destruct (store_op wb e (StoreB.RGet p 0)) as [[wc r2] t2] eqn:E3. inversion E; subst.
  apply w_succeed_all_c. eapply store_op_c; [exact E3|]. eapply store_op_c; [exact E2|]. eapply w_event_c; eauto.
Qed.

Lemma e_cancel_put_c w e t : CN w -> CN (e_cancel_put w e t).
Proof.
  unfold e_cancel_put. intros H. destruct (store_op w e (StoreB.CPut t)) as [[w1 r] ts] eqn:E.
  apply w_succeed_all_c, out_err_c. eapply store_op_c; eauto.
Qed.
Lemma e_cancel_get_c w e t : CN w -> CN (e_cancel_get w e t).
Proof.
  unfold e_cancel_get. intros H. destruct (store_op w e (StoreB.CGet t)) as [[w1 r] ts] eqn:E.
  apply w_succeed_all_c, out_err_c. eapply store_op_c; eauto.
Qed.
#[local] Hint Resolve e_cancel_put_c e_cancel_get_c : cdb.

Lemma fleet_after_put_c w e : CN w -> CN (fleet_after_put w e).
Proof.
  unfold fleet_after_put. intros H. destruct (_ =? _)%nat; auto.
  destruct (e_trig _); auto with cdb.
Qed.
#[local] Hint Resolve fleet_after_put_c : cdb.

Lemma e_put_c w e p t i : CN w -> CN (e_put w e p t i).
Proof.
  unfold e_put. intros H. destruct (ek (get_edge w e)).
  - destruct (_ <? 0); [auto with cdb|].
    destruct (StoreB.step _ _) as [[s' r] ts]. destruct r; auto with cdb.
    destruct (spawn _ _) as [[w2 pid] d] eqn:E. apply logw_c; [reflexivity|]. apply w_succeed_all_c.
    eapply spawn_c; [exact E|]. auto with cdb.
  - destruct (StoreB.step _ _) as [[s' r] ts]. destruct r; auto with cdb.
Qed.
#[local] Hint Resolve e_put_c : cdb.

Lemma e_get_c w e p t n w1 r : e_get w e p t n = (w1, r) -> CN w -> CN w1.
Proof.
  unfold e_get. intros E H. destruct (StoreB.step _ _) as [[s' r0] ts]. destruct r0 as [?| |?|e0]; try destruct e0; inversion E; subst; auto 10 with cdb.
Qed.

Lemma update_state_c w n s : CN w -> CN (update_state w n s).
Proof. unfold update_state. intros H. destruct (nlast _); auto with cdb. Qed.
#[local] Hint Resolve update_state_c : cdb.

Lemma draw_delay_c w n w1 d : draw_delay w n = (w1, d) -> CN w -> CN w1.
Proof. unfold draw_delay. intros [= <- _] H. auto with cdb. Qed.

Lemma draw_sel_c w n o w1 v : draw_sel w n o = (w1, v) -> CN w -> CN w1.
Proof.
  unfold draw_sel. intros E H. destruct (if o then noutsel _ else ninsel _); inversion E; subst; auto with cdb.
Qed.

Lemma cancel_others_c l : forall w keep (put : bool), CN w ->
  CN (fold_left (fun (w : world) (et : nat * nat) => let '(e, t) := et in
                             if Nat.eqb t keep then w else if put then e_cancel_put w e t else e_cancel_get w e t) l w).
Proof.
  induction l as [|[e t] l IH]; simpl; auto. intros w keep put H. apply IH.
  destruct (Nat.eqb t keep); auto. destruct put; auto with cdb.
Qed.
Lemma cancel_others_cc w es ts keep put : CN w -> CN (cancel_others w es ts keep put).
Proof. unfold cancel_others. apply cancel_others_c. Qed.
#[local] Hint Resolve cancel_others_cc : cdb.

Lemma reserve_all_c pid (put : bool) es : forall w l w1 l1,
  fold_left (fun (acc : world * list nat) (e : nat) => let '(w, l) := acc in
                          let '(w', t) := if put then e_reserve_put w e pid else e_reserve_get w e pid in (w', l ++ [t]))
            es (w, l) = (w1, l1) -> CN w -> CN w1.
Proof.
  induction es as [|e es IH]; simpl; intros w l w1 l1 E H.
  - inversion E; subst; auto.
  - destruct put.
    + destruct (e_reserve_put w e pid) as [w' t] eqn:E1. eapply IH; [exact E|]. eapply e_reserve_put_c; eauto.
    + destruct (e_reserve_get w e pid) as [w' t] eqn:E1. eapply IH; [exact E|]. eapply e_reserve_get_c; eauto.
Qed.
Lemma reserve_all_cc w pid es put w1 l1 : reserve_all w pid es put = (w1, l1) -> CN w -> CN w1.
Proof. unfold reserve_all. apply reserve_all_c. Qed.

Lemma set_creation_c w i n : CN w -> CN (set_creation w i n).
Proof. intros H. unfold set_creation. auto 8 with cdb. Qed.
Lemma update_state_rep_c w n : CN w -> CN (update_state_rep w n).
Proof.
  unfold update_state_rep. intros H. destruct (nlast _); auto with cdb.
  destruct (nsrep _). destruct (count_threads _). destruct (_ >? _); auto with cdb.
Qed.
Lemma occupancy_c w n a : CN w -> CN (occupancy w n a).
Proof. intros H. unfold occupancy. auto 8 with cdb. Qed.
Lemma set_thread_c w n p b : CN w -> CN (set_thread w n p b).
Proof. intros H. unfold set_thread. auto 8 with cdb. Qed.
Lemma add_blocked_time_c w p n : CN w -> CN (add_blocked_time w p n).
Proof. intros H. unfold add_blocked_time. auto 8 with cdb. Qed.
#[local] Hint Resolve set_creation_c update_state_rep_c occupancy_c set_thread_c add_blocked_time_c : cdb.

(* tactic: split every let / match / if of a block, derive CN of each intermediate world from the
   equation that introduced it *)
Ltac kstep :=
  match goal with
  | E : w_timeout ?w _ = (?w1, _) |- _ => assert (CN w1) by (eapply w_timeout_c; [exact E|auto 14 with cdb]); clear E
  | E : w_event ?w = (?w1, _) |- _ => assert (CN w1) by (eapply w_event_c; [exact E|auto 14 with cdb]); clear E
  | E : w_any_of ?w _ = (?w1, _) |- _ => assert (CN w1) by (eapply w_any_of_c; [exact E|auto 14 with cdb]); clear E
  | E : spawn ?w _ = (?w1, _, _) |- _ => assert (CN w1) by (eapply spawn_c; [exact E|auto 14 with cdb]); clear E
  | E : store_op ?w _ _ = (?w1, _, _) |- _ => assert (CN w1) by (eapply store_op_c; [exact E|auto 14 with cdb]); clear E
  | E : e_reserve_put ?w _ _ = (?w1, _) |- _ => assert (CN w1) by (eapply e_reserve_put_c; [exact E|auto 14 with cdb]); clear E
  | E : e_reserve_get ?w _ _ = (?w1, _) |- _ => assert (CN w1) by (eapply e_reserve_get_c; [exact E|auto 14 with cdb]); clear E
  | E : e_get ?w _ _ _ _ = (?w1, _) |- _ => assert (CN w1) by (eapply e_get_c; [exact E|auto 14 with cdb]); clear E
  | E : draw_delay ?w _ = (?w1, _) |- _ => assert (CN w1) by (eapply draw_delay_c; [exact E|auto 14 with cdb]); clear E
  | E : draw_sel ?w _ _ = (?w1, _) |- _ => assert (CN w1) by (eapply draw_sel_c; [exact E|auto 14 with cdb]); clear E
  | E : reserve_all ?w _ _ _ = (?w1, _) |- _ => assert (CN w1) by (eapply reserve_all_cc; [exact E|auto 14 with cdb]); clear E
  end.

Ltac ksplit :=
  repeat (match goal with
          | |- context [let '(_, _) := ?x in _] => destruct x as [? ?] eqn:?; try kstep
          | |- context [match ?x with _ => _ end] => destruct x eqn:?; try kstep
          end; simpl fst).

Ltac kauto := ksplit; simpl; auto 10 with cdb.

Ltac ksplit2 :=
  repeat (cbv zeta;
          match goal with
          | |- context [match ?x with _ => _ end] => destruct x eqn:?; repeat kstep; simpl fst
          end).
Ltac kgo := ksplit2; simpl; auto 12 with cdb.

Lemma source_loop_c w p n : CN w -> CN (fst (source_loop w p n)).
Proof. intros H. unfold source_loop. kgo. Qed.

Lemma spawn_push_c w n i e b : CN w -> CN (fst (spawn_push w n i e b)).
Proof. intros H. unfold spawn_push. kgo. Qed.

#[local] Hint Resolve source_loop_c spawn_push_c : cdb.

Lemma eqform {A} (f : world * A) w1 a : f = (w1, a) -> CN (fst f) -> CN w1.
Proof. intros ->. auto. Qed.

Ltac kstep2 :=
  match goal with
  | E : spawn_push ?w _ _ _ _ = (?w1, _) |- _ =>
      assert (CN w1) by (eapply eqform; [exact E|apply spawn_push_c; auto 14 with cdb]); clear E
  end.

Ltac ksplit3 :=
  repeat (cbv zeta;
          match goal with
          | |- context [match ?x with _ => _ end] => destruct x eqn:?; repeat (kstep || kstep2); cbn [fst snd]
          end).
#[local] Hint Extern 6 (CN (set _ _ _)) => (unfold CN; cbn [wnodes wlog set]; progress simpl) : cdb.
Ltac kgo3 := ksplit3; cbn [fst snd]; auto 14 with cdb.

Lemma source_block_c w p : CN w -> CN (fst (source_block w p)).
Proof. intros H. unfold source_block. kgo3. Qed.

Lemma push_block_c w p : CN w -> CN (fst (push_block w p)).
Proof. intros H. unfold push_block. kgo3. Qed.

Lemma buftimer_block_c w p : CN w -> CN (fst (buftimer_block w p)).
Proof. intros H. unfold buftimer_block. kgo3. Qed.

Lemma sink_loop_c w p n : CN w -> CN (fst (sink_loop w p n)).
Proof. intros H. unfold sink_loop. kgo3. Qed.
#[local] Hint Resolve sink_loop_c : cdb.

Lemma sink_block_c w p : CN w -> CN (fst (sink_block w p)).
Proof. intros H. unfold sink_block. kgo3. Qed.


Lemma machine_request_c w p n : CN w -> CN (fst (machine_request w p n)).
Proof.
  intros H. unfold machine_request. cbv zeta.
  assert (CN (update_state_rep w n)) as H1 by auto with cdb.
  destruct (res_request (wk (update_state_rep w n)) n (nres (get_node (update_state_rep w n) n))) as [[[k r] q]|] eqn:E; cbn [fst].
  - apply setpc_c, upd_proc_c. apply upd_node_keep; [intros ?; repeat split; reflexivity|exact H1].
  - auto with cdb.
Qed.
#[local] Hint Resolve machine_request_c : cdb.

Lemma machine_start_worker_c w p n i : CN w -> CN (fst (machine_start_worker w p n i)).
Proof. intros H. unfold machine_start_worker. kgo3. Qed.
#[local] Hint Resolve machine_start_worker_c : cdb.

Lemma machine_block_c w p : CN w -> CN (fst (machine_block w p)).
Proof. intros H. unfold machine_block. kgo3. Qed.

Lemma worker_release_c w p n : CN w -> CN (fst (worker_release w p n)).
Proof.
  intros H. unfold worker_release. cbv zeta.
  destruct (res_release (wk w) n (nres (get_node w n)) (ptk (me w p))) as [[[k r] g]|] eqn:E; cbn [fst].
  - apply setpc_c. apply upd_node_keep; [intros ?; repeat split; reflexivity|exact H].
  - auto with cdb.
Qed.
#[local] Hint Resolve worker_release_c : cdb.

Lemma worker_block_c w p : CN w -> CN (fst (worker_block w p)).
Proof. intros H. unfold worker_block. kgo3. Qed.

Lemma fleet_loop_c w p e : CN w -> CN (fst (fleet_loop w p e)).
Proof. intros H. unfold fleet_loop. kgo3. Qed.
#[local] Hint Resolve fleet_loop_c : cdb.

Lemma fleetact_block_c w p : CN w -> CN (fst (fleetact_block w p)).
Proof.
  intros H. unfold fleetact_block. cbv zeta.
  destruct (ppc (me w p)); [apply fleet_loop_c; auto|].
  destruct (StoreB.transit _) eqn:ET; [apply fleet_loop_c; auto|].
  match goal with |- context [fleet_loop (if _ then _ else ?w1) _ _] => set (wb := w1) end.
  assert (CN wb) as H1.
  { subst wb. match goal with |- CN (match ?b with _ => _ end) => destruct b end; auto.
    all: try (destruct (spawn _ _) as [[w2 pid] d] eqn:E; eapply spawn_c; [exact E|]; auto with cdb). }
  clearbody wb.
  destruct (e_trig _).
  - destruct (w_event wb) as [w3 a] eqn:E2. apply fleet_loop_c, upd_edge_c. eapply w_event_c; eauto.
  - apply fleet_loop_c. exact H1.
Qed.

Lemma fleetmove_fold_c e l : forall w, CN w ->
  CN (fold_left (fun (w : world) (it : nat) =>
                    match wcrash w with
                    | Some _ => w
                    | None =>
                        let '(w1, r, ts) := store_op w e (StoreB.Ready it) in
                        let w2 := upd_edge w1 e (fun x => x <| eintransit ::= filter (fun t => negb (Nat.eqb t it)) |>) in
                        w_succeed_all (out_err w2 r 61) ts
                    end) l w).
Proof.
  induction l as [|x l IH]; simpl; auto. intros w H. apply IH.
  destruct (wcrash w); auto. destruct (store_op w e (StoreB.Ready x)) as [[w1 r] ts] eqn:E.
  apply w_succeed_all_c, out_err_c, upd_edge_c. eapply store_op_c; eauto.
Qed.

Lemma fleetmove_block_c w p : CN w -> CN (fst (fleetmove_block w p)).
Proof.
  intros H. unfold fleetmove_block. cbv zeta.
  destruct (ppc (me w p)) as [|[|?]]; cbn [fst].
  - destruct (plst (me w p)); cbn [fst]; auto. destruct (w_timeout _ _) as [w1 t] eqn:E. cbn [fst].
    apply setpc_c. eapply w_timeout_c; eauto.
  - destruct (w_timeout _ _) as [w1 t] eqn:E. cbn [fst]. apply setpc_c. eapply w_timeout_c; eauto.
  - apply fleetmove_fold_c. auto.
Qed.

Lemma check_state_c w n : CN w -> CN (check_state w n).
Proof. intros H. unfold check_state. destruct (count_threads _). kgo3. Qed.
#[local] Hint Resolve check_state_c : cdb.

Lemma sc_request_c w p n pc : CN w -> CN (fst (sc_request w p n pc)).
Proof.
  intros H. unfold sc_request.
  destruct (res_request (wk w) n (nres (get_node w n))) as [[[k r] q]|] eqn:E; cbn [fst].
  - apply setpc_c, upd_proc_c. apply upd_node_keep; [intros ?; repeat split; reflexivity|exact H].
  - auto with cdb.
Qed.
Lemma sc_release_c w p n : CN w -> CN (fst (sc_release w p n)).
Proof.
  intros H. unfold sc_release.
  destruct (res_release (wk w) n (nres (get_node w n)) (ptk (me w p))) as [[[k r] g]|] eqn:E; cbn [fst].
  - apply setpc_c. apply upd_node_keep; [intros ?; repeat split; reflexivity|exact H].
  - auto with cdb.
Qed.
#[local] Hint Resolve sc_request_c sc_release_c : cdb.

Lemma sc_dispatch_c w p n c ph : CN w -> CN (fst (sc_dispatch w p n c ph)).
Proof. intros H. unfold sc_dispatch. kgo3. Qed.
#[local] Hint Resolve sc_dispatch_c : cdb.

Lemma sc_next_c w p n : CN w -> CN (fst (sc_next w p n)).
Proof. intros H. unfold sc_next. kgo3. Qed.
#[local] Hint Resolve sc_next_c : cdb.

Lemma sc_worker_cont_c w p n : CN w -> CN (fst (sc_worker_cont w p n)).
Proof. intros H. unfold sc_worker_cont. kgo3. Qed.
#[local] Hint Resolve sc_worker_cont_c : cdb.

Lemma sc_run_c f : forall w p n r, CN (fst r) -> CN (fst (sc_run f w p n r)).
Proof.
  induction f as [|f IH]; simpl; intros w p n r H; auto with cdb.
  destruct r as [w1 y]. cbn [fst] in *. destruct (wcrash w1); auto.
  destruct (Nat.eqb _ 8); auto. apply IH. auto with cdb.
Qed.

Lemma splitworker_block_c w p : CN w -> CN (fst (splitworker_block w p)).
Proof.
  intros H. unfold splitworker_block. cbv zeta. destruct (ppc (me w p)) as [|[|?]].
  - kgo3.
  - match goal with |- context [if ?b then _ else _] => destruct b end; cbn [fst]; auto with cdb.
    apply sc_run_c. auto 12 with cdb.
  - apply sc_run_c. auto with cdb.
Qed.

Lemma combworker_block_c w p : CN w -> CN (fst (combworker_block w p)).
Proof.
  intros H. unfold combworker_block. cbv zeta. destruct (ppc (me w p)); apply sc_run_c; auto with cdb.
Qed.

Lemma splitter_head_c w p n : CN w -> CN (fst (splitter_head w p n)).
Proof. intros H. unfold splitter_head. kgo3. Qed.
#[local] Hint Resolve splitter_head_c : cdb.

Lemma splitter_start_c w p n pal : CN w -> CN (fst (splitter_start w p n pal)).
Proof. intros H. unfold splitter_start. kgo3. Qed.
#[local] Hint Resolve splitter_start_c : cdb.

Lemma splitter_block_c w p : CN w -> CN (fst (splitter_block w p)).
Proof. intros H. unfold splitter_block. kgo3. Qed.

Lemma combiner_head_c w p n : CN w -> CN (fst (combiner_head w p n)).
Proof. intros H. unfold combiner_head. kgo3. Qed.
#[local] Hint Resolve combiner_head_c : cdb.

Lemma combiner_rep_c e p k0 j : forall a, CN (fst (fst a)) -> CN (fst (fst (comb_rep e p k0 j a))).
Proof.
  induction j as [|j IH]; intros [[w0 ts] ix] H; simpl; auto.
  destruct (e_reserve_get w0 e p) as [w1 t] eqn:E. apply IH. cbn [fst]. eapply e_reserve_get_c; eauto.
Qed.

Lemma combiner_go_c rc p es : forall k acc r, CN (fst (fst acc)) -> comb_go rc p k es acc = Some r -> CN (fst (fst r)).
Proof.
  induction es as [|e es IH]; simpl; intros k acc r HA EQ.
  - inversion EQ; subst; auto.
  - destruct (nth_error rc k) as [q|]; [|discriminate]. eapply IH; [|exact EQ]. apply combiner_rep_c. exact HA.
Qed.

Lemma combiner_reserve_c w p n w1 a b : combiner_reserve w p n = Some (w1, a, b) -> CN w -> CN w1.
Proof.
  unfold combiner_reserve. intros E H.
  assert (CN (fst (fst (w1, a, b)))) as K by (eapply combiner_go_c; [|exact E]; cbn [fst]; exact H). exact K.
Qed.

Lemma combiner_loop_c w p n : CN w -> CN (fst (combiner_loop w p n)).
Proof. intros H. unfold combiner_loop. kgo3. Qed.
#[local] Hint Resolve combiner_loop_c : cdb.

Lemma combiner_block_c w p : CN w -> CN (fst (combiner_block w p)).
Proof.
  intros H. unfold combiner_block. cbv zeta.
  destruct (ppc (me w p)) as [|[|[|[|[|[|?]]]]]].
  - kgo3.
  - auto with cdb.
  - destruct (e_get _ _ _ _ _) as [w1 it] eqn:E. assert (CN w1) by (eapply e_get_c; eauto).
    destruct it; cbn [fst]; auto. destruct (negb _); cbn [fst]; auto with cdb.
    destruct (combiner_reserve w1 p (pown (me w p))) as [[[w2 a] b]|] eqn:E2; cbn [fst]; auto with cdb.
    assert (CN w2) by (eapply combiner_reserve_c; eauto).
    destruct (w_any_of w2 a) as [w3 c] eqn:E3. cbn [fst]. apply setpc_c, upd_proc_c. eapply w_any_of_c; eauto.
  - auto with cdb.
  - kgo3.
  - kgo3.
  - kgo3.
Qed.

Lemma block_c w p : CN w -> CN (fst (block w p)).
Proof.
  intros H. unfold block. destruct (pkd (me w p)); cbn [fst]; auto with cdb;
    first [apply source_block_c | apply machine_block_c | apply worker_block_c | apply sink_block_c | apply push_block_c
          | apply buftimer_block_c | apply fleetact_block_c | apply fleetmove_block_c | apply splitter_block_c
          | apply splitworker_block_c | apply combiner_block_c | apply combworker_block_c]; auto.
Qed.

Lemma resume_c f : forall w p, CN w -> CN (resume f w p).
Proof.
  induction f as [|f IH]; simpl; intros w p H; auto with cdb.
  destruct (wcrash w); auto.
  pose proof (block_c (w <| wactive := p |>) p) as B.
  destruct (block (w <| wactive := p |>) p) as [w1 y]. cbn [fst] in B.
  assert (CN w1) as H1 by (apply B; exact H).
  destruct (wcrash w1); auto. destruct y.
  - destruct (e_proc _); [apply IH; exact H1|]. exact H1.
  - apply upd_proc_c. exact H1.
Qed.

Lemma run_cb_c w c : CN w -> CN (run_cb w c).
Proof.
  intros H. unfold run_cb. destruct (wcrash w); auto. destruct c.
  - destruct (_ <? _)%nat; [apply resume_c; auto|apply crashw_c; auto].
  - exact H.
  - destruct (res_trig_get _ _) as [[k0 r0]|] eqn:E; auto with cdb;
      (apply upd_node_keep; [intros ?; repeat split; reflexivity|exact H]).
  - destruct (res_trig_put _ _) as [[k0 r0]|] eqn:E; auto with cdb;
      (apply upd_node_keep; [intros ?; repeat split; reflexivity|exact H]).
  - exact H.
Qed.


Lemma run_cbs_c l : forall w, CN w -> CN (fold_left run_cb l w).
Proof. induction l as [|c l IH]; simpl; auto. intros w H. apply IH, run_cb_c, H. Qed.



Theorem fstep_c w w' : CN w -> fstep w = Some w' -> CN w'.
Proof.
  unfold fstep. intros H. destruct (wcrash w); [discriminate|].
  destruct (pop (wk w)) as [[[k e] cbs]|] eqn:E; [|discriminate]. intros [= <-].
  apply run_cbs_c. exact H.
Qed.

Lemma mk_step_c w c : CN w -> CN (mk_step w c).
Proof.
  intros H. unfold mk_step. destruct c as [b i]. destruct b.
  - cbv zeta. match goal with |- context [spawn ?a ?b] => destruct (spawn a b) as [[w' pid] d] eqn:E end.
    eapply spawn_c; eauto.
  - destruct (ek (get_edge w i)); auto;
      destruct (w_event w) as [w1 act] eqn:E1; cbv zeta;
      match goal with |- context [spawn ?a ?b] => destruct (spawn a b) as [[w' pid] d] eqn:E end;
      (eapply spawn_c; [exact E|]); assert (CN w1) as H1 by (eapply w_event_c; eauto); auto with cdb.
Qed.

Lemma mk_world_c nodes edges order :
  (forall nd, In nd nodes -> ngen nd = 0%nat /\ ndisc nd = 0%nat /\ nrecv nd = 0%nat) -> CN (mk_world nodes edges order).
Proof.
  unfold mk_world. intros H0.
  assert (forall l w, CN w -> CN (fold_left mk_step l w)) as G.
  { induction l as [|c l IH]; simpl; auto. intros w H. apply IH, mk_step_c, H. }
  apply G. intros n L. simpl in *. unfold COK, cnt. simpl. apply H0. unfold get_node. simpl. apply nth_In. exact L.
Qed.

(* C18 (counters), for every factory configuration whose nodes start with zero counters, and every number
   of kernel steps: a node's counters of generated, discarded and received items are the numbers of
   generation, discard and reception events of that node in the trace *)
Theorem counters_are_event_counts nodes edges order n :
  (forall nd, In nd nodes -> ngen nd = 0%nat /\ ndisc nd = 0%nat /\ nrecv nd = 0%nat) ->
  let w := FactoryInv.iter_fstep n (mk_world nodes edges order) in
  forall i, (i < length (wnodes w))%nat ->
    ngen (get_node w i) = cnt (is_gen i) (wlog w) /\
    ndisc (get_node w i) = cnt (is_disc i) (wlog w) /\
    nrecv (get_node w i) = cnt (is_recv i) (wlog w).
Proof.
  intros H0.
  assert (forall m w, CN w -> CN (FactoryInv.iter_fstep m w)) as G.
  { induction m as [|m IH]; simpl; intros w H; auto. destruct (fstep w) as [w'|] eqn:E; auto.
    apply IH. eapply fstep_c; eauto. }
  intros w i L. exact (G n _ (mk_world_c nodes edges order H0) i L).
Qed.
