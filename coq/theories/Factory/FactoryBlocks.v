(* C09, the non-blocking half, at the level of the process blocks: what a non-blocking machine worker and a
   non-blocking source do in the block that runs when an item is ready (the worker's processing timer has fired /
   the source has just created the item), for FIRST_AVAILABLE output:
     - no out-edge has room (the probe can_put is false on every out-edge): the item is dropped in that very block --
       exactly one discard is counted and one discard entry is written for exactly that item, no edge is touched
       (no reservation is issued, nothing is put), and the process goes on (the worker to the release of its slot,
       the source to its next inter-arrival wait);
     - some out-edge has room: nothing is dropped or counted, no edge is touched by this block, and a push process
       for the FIRST such out-edge and exactly this item is started (C09_probe_yes_then_no_wait: its reservation is
       granted in the call and its event is already triggered).
   Stated for every world: no reachability assumption is needed. *)
From Coq Require Import List ZArith Lia Bool Arith.
From RecordUpdate Require Import RecordUpdate.
From FV Require Import ListLemmas Kernel SrcFragments Lens Accounting World Factory.
From FV Require StoreB.
Import ListNotations.
Open Scope Z_scope.

Lemma upd_len {A} n (f : A -> A) l : length (upd n f l) = length l.
Proof. revert n; induction l as [|x l IH]; intros [|n]; simpl; auto. Qed.
Lemma nth_upd_eq {A} n (f : A -> A) : forall l d, (n < length l)%nat -> nth n (upd n f l) d = f (nth n l d).
Proof. induction n as [|n IH]; intros [|x l] d H; simpl in *; try lia; auto. apply IH. lia. Qed.

Lemma nth_upd_other {A} n m (f : A -> A) : forall l d, n <> m -> nth m (upd n f l) d = nth m l d.
Proof. revert m. induction n as [|n IH]; intros [|m] [|x l] d H; simpl in *; try lia; auto; apply IH; lia. Qed.

(* the probe looks at the edges only *)
Lemma e_can_put_edges w w' e : wedges w' = wedges w -> e_can_put w' e = e_can_put w e.
Proof. unfold e_can_put, get_edge. intros ->. reflexivity. Qed.
Lemma first_can_put_edges w w' l : wedges w' = wedges w -> first_can_put w' l = first_can_put w l.
Proof.
  intros E. unfold first_can_put. induction l as [|e l IH]; [reflexivity|].
  rewrite (e_can_put_edges w w' e E). destruct (e_can_put w e); auto.
Qed.
Lemma first_can_put_some w l e : first_can_put w l = Some e ->
  exists l1 l2, l = l1 ++ e :: l2 /\ e_can_put w e = true /\ Forall (fun x => e_can_put w x = false) l1.
Proof.
  unfold first_can_put. induction l as [|x l IH]; [discriminate|].
  destruct (e_can_put w x) eqn:C.
  - intros [= <-]. exists [], l. repeat split; auto.
  - intros H. destruct (IH H) as (l1 & l2 & A & B & D). exists (x :: l1), l2. subst. repeat split; auto.
Qed.
Lemma first_can_put_none w l : first_can_put w l = None -> Forall (fun x => e_can_put w x = false) l.
Proof.
  unfold first_can_put. induction l as [|x l IH]; [constructor|].
  destruct (e_can_put w x) eqn:C; [discriminate|]. intros H. constructor; auto.
Qed.

(* what the three summary facts are about *)
Definition edges_untouched (w w' : world) : Prop := wedges w' = wedges w /\ witems w' = witems w.
Definition not_crashed (w : world) : Prop := wcrash w = None.

(* the worker's epilogue touches neither edges, items, trace nor the discard counter *)
Lemma worker_release_shape w p n :
  let r := worker_release w p n in
  wedges (fst r) = wedges w /\ witems (fst r) = witems w /\ wlog (fst r) = wlog w /\
  ndisc (get_node (fst r) n) = ndisc (get_node w n) /\ length (wprocs (fst r)) = length (wprocs w).
Proof.
  unfold worker_release. cbv zeta.
  destruct (res_release (wk w) n (nres (get_node w n)) (ptk (me w p))) as [[[k r] g]|]; cbn [fst].
  - repeat split; try reflexivity.
    + unfold get_node, setpc, upd_proc, upd_node. cbn [wnodes set]. simpl.
      destruct (Nat.lt_ge_cases n (length (wnodes w))) as [L|L].
      * rewrite nth_upd_eq by exact L. reflexivity.
      * rewrite !nth_overflow; auto. rewrite upd_len. exact L.
    + unfold setpc, upd_proc, upd_node. cbn [wprocs set]. simpl. apply upd_len.
  - unfold crashw. destruct (wcrash w); repeat split; reflexivity.
Qed.

(* ------------------------------------------------------------------ Machine worker, FIRST_AVAILABLE, non-blocking *)
Theorem worker_nonblocking_drops w p :
  let n := pown (me w p) in let nd := get_node w n in
  ppc (me w p) = 1%nat -> noutsel nd = PFirst -> nblocking nd = false ->
  first_can_put w (nouts nd) = None -> (n < length (wnodes w))%nat ->
  let w' := fst (worker_block w p) in
  edges_untouched w w' /\
  wlog w' = wlog w ++ [LDiscard (wnow w) n (pit (me w p))] /\
  ndisc (get_node w' n) = S (ndisc nd).
Proof.
  intros n nd PC SEL NB FC L. unfold worker_block. fold n. fold nd. rewrite PC, SEL, NB.
  set (w1 := upd_node w n (fun x => x <| nsumproc ::= fun v => v + (wnow w - pt0 (me w p)) |>)).
  assert (E1 : wedges w1 = wedges w) by reflexivity.
  rewrite (first_can_put_edges w w1 _ E1), FC. cbv zeta.
  match goal with |- context [worker_release ?a ?b ?c] => destruct (worker_release_shape a b c) as (A & B & C & D & _) end.
  repeat split.
  - rewrite A. reflexivity.
  - rewrite B. reflexivity.
  - rewrite C. reflexivity.
  - rewrite D. unfold get_node, logw, upd_node, w1. cbn [wnodes set]. simpl.
    rewrite nth_upd_eq by (rewrite upd_len; exact L). rewrite nth_upd_eq by exact L. reflexivity.
Qed.

Lemma spawn_shape w pr :
  let '(w1, pid, d) := spawn w pr in
  wedges w1 = wedges w /\ witems w1 = witems w /\ wlog w1 = wlog w /\ wnodes w1 = wnodes w /\
  pid = length (wprocs w) /\ exists dn, wprocs w1 = wprocs w ++ [pr <| pdone := dn |> <| palive := true |>].
Proof.
  unfold spawn. destruct (w_event w) as [wa dn] eqn:E1. destruct (w_event wa) as [wb ini] eqn:E2.
  unfold w_event in *. injection E1 as <- <-. injection E2 as <- <-. cbn. repeat split; eauto.
Qed.

Lemma update_state_rep_shape w n :
  wedges (update_state_rep w n) = wedges w /\ witems (update_state_rep w n) = witems w /\ wlog (update_state_rep w n) = wlog w /\
  wprocs (update_state_rep w n) = wprocs w /\ ndisc (get_node (update_state_rep w n) n) = ndisc (get_node w n).
Proof.
  unfold update_state_rep. destruct (nlast (get_node w n)).
  - destruct (nsrep (get_node w n)) as [a b]. destruct (count_threads (get_node w n)) as [c d].
    assert (forall f, (forall x, ndisc (f x) = ndisc x) -> ndisc (get_node (upd_node w n f) n) = ndisc (get_node w n)) as G.
    { intros f F. unfold get_node, upd_node. cbn [wnodes set]. simpl. destruct (Nat.lt_ge_cases n (length (wnodes w))) as [L|L].
      - rewrite nth_upd_eq by exact L. apply F.
      - rewrite !nth_overflow; auto. rewrite upd_len. exact L. }
    destruct (_ >? _); [unfold crashw; match goal with |- context [wcrash ?x] => destruct (wcrash x) end|];
      repeat split; try reflexivity; apply G; reflexivity.
  - repeat split; try reflexivity. unfold get_node, upd_node. cbn [wnodes set]. simpl.
    destruct (Nat.lt_ge_cases n (length (wnodes w))) as [L|L].
    + rewrite nth_upd_eq by exact L. reflexivity.
    + rewrite !nth_overflow; auto. rewrite upd_len. exact L.
Qed.

Lemma get_node_nodes w w' n : wnodes w' = wnodes w -> get_node w' n = get_node w n.
Proof. unfold get_node. intros ->. reflexivity. Qed.

Theorem worker_nonblocking_pushes w p e :
  let n := pown (me w p) in let nd := get_node w n in
  ppc (me w p) = 1%nat -> noutsel nd = PFirst -> nblocking nd = false ->
  first_can_put w (nouts nd) = Some e -> (p < length (wprocs w))%nat ->
  let w' := fst (worker_block w p) in
  edges_untouched w w' /\ wlog w' = wlog w /\ ndisc (get_node w' n) = ndisc nd /\
  (* one process more: the push of exactly this item to the first out-edge with room *)
  length (wprocs w') = S (length (wprocs w)) /\
  let q := nth (length (wprocs w)) (wprocs w') proc0 in
  pkd q = KPush /\ pown q = n /\ pit q = pit (me w p) /\ pix q = e /\ ppc q = 0%nat /\ palive q = true.
Proof.
  intros n nd PC SEL NB FC LP. unfold worker_block. fold n. fold nd. rewrite PC, SEL, NB.
  set (w1 := upd_node w n (fun x => x <| nsumproc ::= fun v => v + (wnow w - pt0 (me w p)) |>)).
  assert (E1 : wedges w1 = wedges w) by reflexivity.
  rewrite (first_can_put_edges w w1 _ E1), FC. cbv zeta. unfold spawn_push.
  set (w2 := upd_proc w1 p (fun x => x <| pt1 := wnow w1 |>)).
  destruct (update_state_rep_shape w2 n) as (A1 & A2 & A3 & A4 & A5).
  set (w3 := update_state_rep w2 n) in *.
  set (w4 := set_thread w3 n p true).
  destruct (update_state_rep_shape w4 n) as (B1 & B2 & B3 & B4 & B5).
  set (w5 := update_state_rep w4 n) in *.
  match goal with |- context [spawn ?a ?b] => pose proof (spawn_shape a b) as SS; destruct (spawn a b) as [[w6 pid] dn] end.
  destruct SS as (S1 & S2 & S3 & S4 & S5 & dn' & S6). cbn [fst].
  assert (ND4 : ndisc (get_node w4 n) = ndisc (get_node w3 n)).
  { unfold w4, get_node, set_thread, upd_node. cbn [wnodes set]. simpl.
    destruct (Nat.lt_ge_cases n (length (wnodes w3))) as [L|L].
    - rewrite nth_upd_eq by exact L. reflexivity.
    - rewrite !nth_overflow; auto. rewrite upd_len. exact L. }
  assert (ND1 : ndisc (get_node w2 n) = ndisc nd).
  { unfold w2, w1, nd, get_node, upd_proc, upd_node. cbn [wnodes set]. simpl.
    destruct (Nat.lt_ge_cases n (length (wnodes w))) as [L|L].
    - rewrite nth_upd_eq by exact L. reflexivity.
    - rewrite !nth_overflow; auto. rewrite upd_len. exact L. }
  assert (PR : wprocs w5 = upd p (fun x => x <| pt1 := wnow w1 |>) (wprocs w)).
  { rewrite B4. unfold w4. cbn [wprocs set_thread upd_node set]. simpl. rewrite A4. reflexivity. }
  split; [split|].
  - cbn [wedges setpc upd_proc set]. simpl. rewrite S1, B1. unfold w4. cbn. rewrite A1. reflexivity.
  - cbn [witems setpc upd_proc set]. simpl. rewrite S2, B2. unfold w4. cbn. rewrite A2. reflexivity.
  - split; [cbn [wlog setpc upd_proc set]; simpl; rewrite S3, B3; unfold w4; cbn; rewrite A3; reflexivity|].
    split.
    { rewrite (get_node_nodes w6 (setpc w6 p 3) n) by reflexivity. rewrite (get_node_nodes w5 w6 n S4).
      rewrite B5, ND4, A5. exact ND1. }
    assert (LEN : length (wprocs w5) = length (wprocs w)) by (rewrite PR; apply upd_len).
    cbn [wprocs setpc upd_proc set]. simpl. rewrite S6. rewrite upd_len, app_length, LEN. simpl.
    split; [lia|].
    assert (NE : p <> length (wprocs w)) by lia.
    rewrite nth_upd_other by exact NE. rewrite app_nth2 by lia. rewrite LEN, Nat.sub_diag. cbn. repeat split; reflexivity.
Qed.

(* ------------------------------------------------------------------ Source, FIRST_AVAILABLE, non-blocking *)
Lemma update_state_shape w n st :
  let w' := update_state w n st in
  wedges w' = wedges w /\ witems w' = witems w /\ wlog w' = wlog w /\ wprocs w' = wprocs w /\ wk w' = wk w /\ wcrash w' = wcrash w /\
  ndisc (get_node w' n) = ndisc (get_node w n) /\ ndelays (get_node w' n) = ndelays (get_node w n) /\
  ndptr (get_node w' n) = ndptr (get_node w n).
Proof.
  unfold update_state. cbv zeta.
  assert (forall (x : world) f, (forall y, ndisc (f y) = ndisc y /\ ndelays (f y) = ndelays y /\ ndptr (f y) = ndptr y) ->
            ndisc (get_node (upd_node x n f) n) = ndisc (get_node x n) /\ ndelays (get_node (upd_node x n f) n) = ndelays (get_node x n) /\
            ndptr (get_node (upd_node x n f) n) = ndptr (get_node x n)) as G.
  { intros x f F. unfold get_node, upd_node. cbn [wnodes set]. simpl. destruct (Nat.lt_ge_cases n (length (wnodes x))) as [L|L].
    - rewrite nth_upd_eq by exact L. apply F.
    - rewrite !nth_overflow; auto. rewrite upd_len. exact L. }
  destruct (nlast (get_node w n)).
  - match goal with |- context [upd_node (upd_node w n ?f) n ?g] =>
      destruct (G w f) as (A1 & A2 & A3); [intros y; repeat split; reflexivity|];
      destruct (G (upd_node w n f) g) as (B1 & B2 & B3); [intros y; repeat split; reflexivity|] end.
    repeat split; try reflexivity; congruence.
  - match goal with |- context [upd_node w n ?g] => destruct (G w g) as (B1 & B2 & B3); [intros y; repeat split; reflexivity|] end.
    repeat split; try reflexivity; assumption.
Qed.

Lemma source_loop_shape w p n :
  let w' := fst (source_loop w p n) in
  wedges w' = wedges w /\ witems w' = witems w /\
  wlog w' = wlog w ++ [LDraw n 0 (stream_at (ndelays (get_node w n)) (ndptr (get_node w n)))] /\
  ndisc (get_node w' n) = ndisc (get_node w n).
Proof.
  unfold source_loop. cbv zeta.
  destruct (update_state_shape w n (nstate (get_node w n))) as (A1 & A2 & A3 & A4 & A5 & A6 & A7 & A8 & A9).
  set (w1 := update_state w n (nstate (get_node w n))) in *. clearbody w1.
  unfold draw_delay. cbv zeta. rewrite A8, A9.
  set (d := stream_at (ndelays (get_node w n)) (ndptr (get_node w n))).
  set (w2 := logw (upd_node w1 n (fun x => x <| ndptr ::= S |>)) (LDraw n 0 d)).
  assert (N2 : ndisc (get_node w2 n) = ndisc (get_node w n)).
  { rewrite <- A7. unfold w2, get_node, logw, upd_node. cbn [wnodes set]. simpl.
    destruct (Nat.lt_ge_cases n (length (wnodes w1))) as [L|L].
    - rewrite nth_upd_eq by exact L. reflexivity.
    - rewrite !nth_overflow; auto. rewrite upd_len. exact L. }
  assert (S2 : wedges w2 = wedges w /\ witems w2 = witems w /\ wlog w2 = wlog w ++ [LDraw n 0 d]).
  { unfold w2, logw, upd_node. cbn [wedges witems wlog set]. simpl. rewrite A1, A2, A3. auto. }
  destruct S2 as (S21 & S22 & S23).
  destruct (d <? 0) eqn:EN.
  - cbn [fst]. unfold crashw. destruct (wcrash w2); cbn; auto.
  - unfold w_timeout. rewrite EN. destruct (timeout (wk w2) d) as [k e]. cbn [fst]. auto.
Qed.

Theorem source_nonblocking_drops w p :
  let n := pown (me w p) in let nd := get_node w n in
  ppc (me w p) = 2%nat -> noutsel nd = PFirst -> nblocking nd = false ->
  first_can_put w (nouts nd) = None -> (n < length (wnodes w))%nat ->
  let item := length (witems w) in
  let w' := fst (source_block w p) in
  wedges w' = wedges w /\
  witems w' = witems w ++ [item0 <| i_src := n |> <| i_pallet := npallet nd |>] /\
  wlog w' = wlog w ++ [LGen (wnow w) n item; LDiscard (wnow w) n item;
                       LDraw n 0 (stream_at (ndelays nd) (ndptr nd))] /\
  ndisc (get_node w' n) = S (ndisc nd).
Proof.
  intros n nd PC SEL NB FC L item. unfold source_block. fold n. fold nd. rewrite PC, SEL, NB. cbv zeta.
  set (wa := w <| witems ::= fun l => l ++ [item0 <| i_src := n |> <| i_pallet := npallet nd |>] |>).
  set (wb := upd_node wa n (fun x => x <| ngen ::= S |>)).
  set (wc := logw wb (LGen (wnow wb) n (length (witems w)))).
  set (wd := upd_proc wc p (fun x => x <| pit := length (witems w) |>)).
  assert (ED : wedges wd = wedges w) by reflexivity.
  rewrite (first_can_put_edges w wd _ ED), FC.
  set (we := logw (upd_node wd n (fun x => x <| ndisc ::= S |>)) (LDiscard (wnow wd) n (length (witems w)))).
  destruct (source_loop_shape we p n) as (S1 & S2 & S3 & S4).
  assert (GN : get_node we n = (get_node w n) <| ngen ::= S |> <| ndisc ::= S |>).
  { unfold we, wd, wc, wb, wa, get_node, logw, upd_proc, upd_node. cbn [wnodes set]. simpl.
    rewrite nth_upd_eq by (rewrite upd_len; exact L). rewrite nth_upd_eq by exact L. reflexivity. }
  rewrite S1, S2, S3, S4, GN. repeat split.
  assert (LW : wlog we = wlog w ++ [LGen (wnow w) n item; LDiscard (wnow w) n item]).
  { unfold we, wd, wc, wb, wa, logw, upd_proc, upd_node. cbn [wlog set]. simpl. rewrite <- app_assoc. reflexivity. }
  rewrite LW, <- app_assoc. reflexivity.
Qed.

Theorem source_nonblocking_pushes w p e :
  let n := pown (me w p) in let nd := get_node w n in
  ppc (me w p) = 2%nat -> noutsel nd = PFirst -> nblocking nd = false ->
  first_can_put w (nouts nd) = Some e -> (p < length (wprocs w))%nat ->
  let item := length (witems w) in
  let w' := fst (source_block w p) in
  wedges w' = wedges w /\
  wlog w' = wlog w ++ [LGen (wnow w) n item] /\
  ndisc (get_node w' n) = ndisc nd /\
  length (wprocs w') = S (length (wprocs w)) /\
  let q := nth (length (wprocs w)) (wprocs w') proc0 in
  pkd q = KPush /\ pown q = n /\ pit q = item /\ pix q = e /\ ppc q = 0%nat /\ palive q = true.
Proof.
  intros n nd PC SEL NB FC LP item. unfold source_block. fold n. fold nd. rewrite PC, SEL, NB. cbv zeta.
  set (wa := w <| witems ::= fun l => l ++ [item0 <| i_src := n |> <| i_pallet := npallet nd |>] |>).
  set (wb := upd_node wa n (fun x => x <| ngen ::= S |>)).
  set (wc := logw wb (LGen (wnow wb) n (length (witems w)))).
  set (wd := upd_proc wc p (fun x => x <| pit := length (witems w) |>)).
  assert (ED : wedges wd = wedges w) by reflexivity.
  rewrite (first_can_put_edges w wd _ ED), FC.
  destruct (update_state_shape wd n ST_BLOCKED) as (A1 & A2 & A3 & A4 & A5 & A6 & A7 & _ & _).
  set (we := update_state wd n ST_BLOCKED) in *. clearbody we.
  unfold spawn_push.
  match goal with |- context [spawn ?a ?b] => pose proof (spawn_shape a b) as SS; destruct (spawn a b) as [[w6 pid] dn] end.
  destruct SS as (S1 & S2 & S3 & S4 & S5 & dn' & S6). cbn [fst].
  assert (ND : ndisc (get_node wd n) = ndisc nd).
  { unfold wd, wc, wb, wa, nd, get_node, logw, upd_proc, upd_node. cbn [wnodes set]. simpl.
    destruct (Nat.lt_ge_cases n (length (wnodes w))) as [L|L].
    - rewrite nth_upd_eq by exact L. reflexivity.
    - rewrite !nth_overflow; auto. rewrite upd_len. exact L. }
  assert (PR : wprocs we = upd p (fun x => x <| pit := length (witems w) |>) (wprocs w)) by (rewrite A4; reflexivity).
  assert (LEN : length (wprocs we) = length (wprocs w)) by (rewrite PR; apply upd_len).
  split; [cbn [wedges setpc upd_proc set]; simpl; rewrite S1, A1; reflexivity|].
  split; [cbn [wlog setpc upd_proc set]; simpl; rewrite S3, A3; reflexivity|].
  split; [rewrite (get_node_nodes w6 (setpc w6 p 4) n) by reflexivity; rewrite (get_node_nodes we w6 n S4); rewrite A7; exact ND|].
  cbn [wprocs setpc upd_proc set]. simpl. rewrite S6. rewrite upd_len, app_length, LEN. simpl.
  split; [lia|].
  assert (NE : p <> length (wprocs w)) by lia.
  rewrite nth_upd_other by exact NE. rewrite app_nth2 by lia. rewrite LEN, Nat.sub_diag. cbn. repeat split; reflexivity.
Qed.

(* ------------------------------------------------------------------ C15: ROUND_ROBIN, one step per item, recorded *)
Lemma node_field_upd {A} (f : node -> A) w n g :
  (forall x, f (g x) = f x) -> f (get_node (upd_node w n g) n) = f (get_node w n).
Proof.
  intros F. unfold get_node, upd_node. cbn [wnodes set]. simpl. destruct (Nat.lt_ge_cases n (length (wnodes w))) as [L|L].
  - rewrite nth_upd_eq by exact L. apply F.
  - rewrite !nth_overflow; auto. rewrite upd_len. exact L.
Qed.

Lemma update_state_rep_outptr w n :
  noutptr (get_node (update_state_rep w n) n) = noutptr (get_node w n) /\
  nouts (get_node (update_state_rep w n) n) = nouts (get_node w n).
Proof.
  unfold update_state_rep. destruct (nlast (get_node w n)).
  - destruct (nsrep (get_node w n)) as [a b]. destruct (count_threads (get_node w n)) as [c d].
    destruct (_ >? _); [unfold crashw; match goal with |- context [wcrash ?x] => destruct (wcrash x) end|];
      split; apply (node_field_upd _ w n); reflexivity.
  - split; apply (node_field_upd _ w n); reflexivity.
Qed.

Definition same_frame (w w' : world) : Prop :=
  wnodes w' = wnodes w /\ wlog w' = wlog w /\ wprocs w' = wprocs w /\ witems w' = witems w.
Lemma same_frame_refl w : same_frame w w. Proof. repeat split. Qed.
Lemma same_frame_trans a b c : same_frame a b -> same_frame b c -> same_frame a c.
Proof. intros (A1 & A2 & A3 & A4) (B1 & B2 & B3 & B4). repeat split; congruence. Qed.
Lemma store_op_frame w e o : same_frame w (fst (fst (store_op w e o))).
Proof. unfold store_op. destruct (StoreB.step _ _) as [[s r] t]. repeat split. Qed.
Lemma w_succeed_all_frame l : forall w, same_frame w (w_succeed_all w l).
Proof.
  unfold w_succeed_all. induction l as [|y l IH]; intros w; simpl; [apply same_frame_refl|].
  eapply same_frame_trans; [|apply IH]. unfold w_succeed. destruct (succeed (wk w) y); [repeat split|].
  unfold crashw. destruct (wcrash w); repeat split.
Qed.
Lemma e_reserve_put_shape w e p : same_frame w (fst (e_reserve_put w e p)).
Proof.
  unfold e_reserve_put. destruct (w_event w) as [w1 ev] eqn:E1.
  pose proof (store_op_frame w1 e (StoreB.Sync ev)) as F2. destruct (store_op w1 e (StoreB.Sync ev)) as [[w2 r2] t2]. cbn [fst] in F2.
  pose proof (store_op_frame w2 e (StoreB.RPut p 0)) as F3. destruct (store_op w2 e (StoreB.RPut p 0)) as [[w3 r3] t3]. cbn [fst] in *.
  assert (F1 : same_frame w w1) by (unfold w_event in E1; injection E1 as <- _; repeat split).
  eapply same_frame_trans; [exact F1|]. eapply same_frame_trans; [exact F2|]. eapply same_frame_trans; [exact F3|].
  apply w_succeed_all_frame.
Qed.

(* a blocking machine worker under ROUND_ROBIN: the block that runs when the item is ready draws exactly one index --
   the number of draws so far modulo the number of out-edges --, records exactly that index, and reserves space on
   exactly that out-edge *)
Theorem worker_round_robin_step w p :
  let n := pown (me w p) in let nd := get_node w n in
  ppc (me w p) = 1%nat -> noutsel nd = PRoundRobin -> nblocking nd = true -> nouts nd <> [] ->
  (n < length (wnodes w))%nat -> (p < length (wprocs w))%nat ->
  let k := noutptr nd in let m := length (nouts nd) in
  let w' := fst (worker_block w p) in
  noutptr (get_node w' n) = S k /\
  wlog w' = wlog w ++ [LSel n true (k mod m)] /\
  pix (me w' p) = nth (k mod m) (nouts nd) 0%nat /\
  ppc (me w' p) = 5%nat.
Proof.
  intros n nd PC SEL NB NE L LP k m. unfold worker_block. fold n. fold nd. rewrite PC, SEL.
  set (w1 := upd_node w n (fun x => x <| nsumproc ::= fun v => v + (wnow w - pt0 (me w p)) |>)).
  assert (G1 : get_node w1 n = nd <| nsumproc ::= fun v => v + (wnow w - pt0 (me w p)) |>).
  { unfold w1, nd, get_node, upd_node. cbn [wnodes set]. simpl. apply nth_upd_eq. exact L. }
  unfold draw_sel. rewrite G1. cbn [noutsel noutptr nouts set]. simpl. rewrite SEL. fold k. fold m.
  assert (M : (0 < m)%nat) by (unfold m; destruct (nouts nd); [congruence|simpl; lia]).
  assert (IR : in_range (Z.of_nat k mod Z.of_nat m) m = true).
  { unfold in_range. pose proof (Z.mod_pos_bound (Z.of_nat k) (Z.of_nat m)) as B.
    apply andb_true_iff. split; [apply Z.leb_le|apply Z.ltb_lt]; lia. }
  rewrite IR. cbn [negb]. rewrite NB.
  assert (TN : Z.to_nat (Z.of_nat k mod Z.of_nat m) = (k mod m)%nat).
  { rewrite <- Nat2Z.inj_mod. apply Nat2Z.id. }
  rewrite TN.
  set (w2 := upd_node w1 n (fun x => x <| noutptr ::= S |>)).
  set (w3 := logw w2 (LSel n true (k mod m))).
  set (w4 := set_thread w3 n p true).
  destruct (update_state_rep_shape w4 n) as (B1 & B2 & B3 & B4 & _).
  destruct (update_state_rep_outptr w4 n) as (B5 & _).
  set (w5 := update_state_rep w4 n) in *. clearbody w5.
  set (w6 := upd_proc w5 p (fun x => x <| pt1 := wnow w5 |>)).
  destruct (e_reserve_put_shape w6 (nth (k mod m) (nouts nd) 0%nat) p) as (C1 & C2 & C3 & C4).
  destruct (e_reserve_put w6 (nth (k mod m) (nouts nd) 0%nat) p) as [w7 t] eqn:E7. cbn [fst] in *.
  assert (P4 : noutptr (get_node w4 n) = S k).
  { unfold w4, set_thread. rewrite (node_field_upd noutptr w3 n) by reflexivity.
    unfold w3, w2, get_node, logw, upd_node. cbn [wnodes set]. simpl.
    rewrite nth_upd_eq by (unfold w1, upd_node; cbn [wnodes set]; simpl; rewrite upd_len; exact L).
    rewrite nth_upd_eq by exact L. reflexivity. }
  assert (LEN5 : length (wprocs w5) = length (wprocs w)) by (rewrite B4; reflexivity).
  split; [|split; [|split]].
  - rewrite (get_node_nodes w7 _ n) by reflexivity. rewrite (get_node_nodes w6 w7 n C1).
    rewrite (get_node_nodes w5 w6 n) by reflexivity. rewrite B5. exact P4.
  - cbn [wlog setpc upd_proc set]. simpl. rewrite C2. unfold w6. cbn [wlog upd_proc set]. simpl. rewrite B3. reflexivity.
  - unfold me, get_proc, setpc, upd_proc. cbn [wprocs set]. simpl. rewrite C3.
    rewrite nth_upd_eq by (rewrite upd_len; unfold w6, upd_proc; cbn [wprocs set]; simpl; rewrite upd_len, LEN5; exact LP).
    cbn. rewrite nth_upd_eq by (unfold w6, upd_proc; cbn [wprocs set]; simpl; rewrite upd_len, LEN5; exact LP). reflexivity.
  - unfold me, get_proc, setpc, upd_proc. cbn [wprocs set]. simpl. rewrite C3.
    rewrite nth_upd_eq by (rewrite upd_len; unfold w6, upd_proc; cbn [wprocs set]; simpl; rewrite upd_len, LEN5; exact LP).
    reflexivity.
Qed.

(* ------------------------------------------------------------------ C08: the worker's timer, C16: the splitter's order *)
(* the first block of a machine worker (it runs in the instant in which the item was pulled): it stamps the start of
   processing with the clock, arms ONE timer -- for exactly the delay that was drawn for this item -- and waits on it;
   it touches no edge, no item, no trace entry *)
Theorem worker_arms_the_drawn_delay w p :
  ppc (me w p) = 0%nat -> 0 <= pdl (me w p) -> (p < length (wprocs w))%nat ->
  let r := worker_block w p in let w' := fst r in
  wedges w' = wedges w /\ witems w' = witems w /\ wlog w' = wlog w /\
  pt0 (me w' p) = wnow w /\ ppc (me w' p) = 1%nat /\
  exists t, snd r = YEvent t /\ t = length (evs (wk w)) /\
    e_trig (get_ev (wk w') t) = true /\
    In {| q_time := wnow w + pdl (me w p); q_prio := NORMAL; q_seq := seq (wk w); q_ev := t |} (queue (wk w')) /\
    length (queue (wk w')) = S (length (queue (wk w))).
Proof.
  intros PC D LP. unfold worker_block. rewrite PC. cbv zeta.
  destruct (update_state_rep_shape w (pown (me w p))) as (A1 & A2 & A3 & A4 & _).
  assert (AK : wk (update_state_rep w (pown (me w p))) = wk w).
  { unfold update_state_rep. destruct (nlast _); [|reflexivity]. destruct (nsrep _). destruct (count_threads _).
    destruct (_ >? _); [unfold crashw; match goal with |- context [wcrash ?x] => destruct (wcrash x) end|]; reflexivity. }
  set (w1 := update_state_rep w (pown (me w p))) in *. clearbody w1.
  assert (N1 : wnow w1 = wnow w) by (unfold wnow; rewrite AK; reflexivity).
  set (w2 := upd_proc w1 p (fun x => x <| pt0 := wnow w1 |>)).
  assert (PD : pdl (me w2 p) = pdl (me w p) /\ pdl (me w p) <? 0 = false).
  { split; [|apply Z.ltb_ge; exact D]. unfold w2, me, get_proc, upd_proc. cbn [wprocs set]. simpl. rewrite A4.
    rewrite nth_upd_eq by exact LP. reflexivity. }
  destruct PD as (PD1 & PD2).
  unfold w_timeout. rewrite PD2. unfold timeout, new_event. cbn [fst snd].
  assert (K2 : wk w2 = wk w) by (unfold w2; cbn [wk upd_proc set]; simpl; exact AK).
  repeat split.
  - cbn [wedges setpc upd_proc set]. simpl. exact A1.
  - cbn [witems setpc upd_proc set]. simpl. exact A2.
  - cbn [wlog setpc upd_proc set]. simpl. exact A3.
  - unfold me, get_proc, setpc, upd_proc, w2. cbn [wprocs set]. simpl. rewrite A4.
    rewrite nth_upd_eq by (rewrite upd_len; exact LP). cbn. rewrite nth_upd_eq by exact LP. cbn. exact N1.
  - unfold me, get_proc, setpc, upd_proc, w2. cbn [wprocs set]. simpl. rewrite A4.
    rewrite nth_upd_eq by (rewrite upd_len; exact LP). reflexivity.
  - exists (length (evs (wk w))). rewrite K2. cbn [wk setpc upd_proc set]. simpl.
    split; [reflexivity|]. split; [reflexivity|]. split; [|split].
    + unfold get_ev, schedule, mark_trig, set_evs. cbn [evs]. rewrite nth_upd_eq by (rewrite app_length; simpl; lia).
      reflexivity.
    + unfold schedule, mark_trig, set_evs. cbn [queue now seq]. apply qins_in. left. unfold wnow. reflexivity.
    + unfold schedule, mark_trig, set_evs. cbn [queue].
      assert (forall x q, length (qins x q) = S (length q)) as QL.
      { intros x q. induction q as [|y q IH]; simpl; auto. destruct (qlt x y); simpl; auto. }
      apply QL.
Qed.

(* the splitter's worker hands out the head of what is left on the pallet, the pallet itself only when nothing is
   left, and nothing after the pallet *)
Theorem splitter_next_is_head w p n x rest :
  pkd (me w p) = KSplitWorker -> sc_phase (me w p) = 0%nat ->
  i_contents (get_item w (pit (me w p))) = x :: rest ->
  sc_next w p n = sc_dispatch (upd_item w (pit (me w p)) (fun y => y <| i_contents := rest |>)) p n x 0.
Proof. intros K PH C. unfold sc_next. rewrite K, PH, C. reflexivity. Qed.

Theorem splitter_pallet_comes_last w p n :
  pkd (me w p) = KSplitWorker -> sc_phase (me w p) = 0%nat ->
  i_contents (get_item w (pit (me w p))) = [] ->
  sc_next w p n = sc_dispatch w p n (pit (me w p)) 1.
Proof. intros K PH C. unfold sc_next. rewrite K, PH, C. reflexivity. Qed.

Theorem splitter_nothing_after_the_pallet w p n ph :
  sc_phase (me w p) = S ph -> sc_next w p n = sc_release w p n.
Proof. intros PH. unfold sc_next. rewrite PH. destruct (pkd (me w p)); reflexivity. Qed.

(* a dispatched flow item is recorded as the worker's current item with its phase *)
Theorem dispatch_records_current w p c ph :
  (p < length (wprocs w))%nat ->
  let w0 := upd_proc w p (fun x => x <| plst := [c; ph] |>) in
  sc_cur (me w0 p) = c /\ sc_phase (me w0 p) = ph.
Proof.
  intros LP. unfold sc_cur, sc_phase, me, get_proc, upd_proc. cbn [wprocs set]. simpl.
  rewrite nth_upd_eq by exact LP. cbn. auto.
Qed.

(* ------------------------------------------------------------------ C15, the input side: a machine whose in-edge policy
   is an index policy draws exactly one index per item when its worker slot is granted, records exactly that index, and
   issues its retrieval request on exactly that in-edge (no other edge is touched) *)
Lemma e_reserve_get_shape w e p : same_frame w (fst (e_reserve_get w e p)) /\ snd (e_reserve_get w e p) = length (evs (wk w)).
Proof.
  unfold e_reserve_get. destruct (w_event w) as [w1 ev] eqn:E1.
  pose proof (store_op_frame w1 e (StoreB.Sync ev)) as F2. destruct (store_op w1 e (StoreB.Sync ev)) as [[w2 r2] t2]. cbn [fst] in F2.
  pose proof (store_op_frame w2 e (StoreB.RGet p 0)) as F3. destruct (store_op w2 e (StoreB.RGet p 0)) as [[w3 r3] t3]. cbn [fst snd] in *.
  assert (F1 : same_frame w w1 /\ ev = length (evs (wk w))) by (unfold w_event in E1; injection E1 as <- <-; repeat split).
  destruct F1 as [F1 EV]. split; [|exact EV].
  eapply same_frame_trans; [exact F1|]. eapply same_frame_trans; [exact F2|]. eapply same_frame_trans; [exact F3|].
  apply w_succeed_all_frame.
Qed.

Lemma occupancy_shape w n add :
  wlog (occupancy w n add) = wlog w /\ wprocs (occupancy w n add) = wprocs w /\ wedges (occupancy w n add) = wedges w /\
  wk (occupancy w n add) = wk w /\ length (wnodes (occupancy w n add)) = length (wnodes w) /\
  (forall A (f : node -> A),
     (forall x a b c, f (x <| nocchist := a |> <| nnumw := b |> <| nocclast := c |>) = f x) ->
     f (get_node (occupancy w n add) n) = f (get_node w n)).
Proof.
  unfold occupancy, upd_node. cbn [wlog wprocs wedges wk wnodes set]. simpl. repeat split; try apply upd_len.
  intros A f Hf. unfold get_node. cbn [wnodes set]. simpl.
  destruct (Nat.lt_ge_cases n (length (wnodes w))) as [L|L].
  - rewrite nth_upd_eq by exact L. apply Hf.
  - rewrite !nth_overflow; try (rewrite ?upd_len; exact L). reflexivity.
Qed.

Lemma get_proc_upd w p f : (p < length (wprocs w))%nat -> get_proc (upd_proc w p f) p = f (get_proc w p).
Proof. intros L. unfold get_proc, upd_proc. cbn [wprocs set]. simpl. apply nth_upd_eq. exact L. Qed.
Lemma upd_proc_len w p f : length (wprocs (upd_proc w p f)) = length (wprocs w).
Proof. unfold upd_proc. cbn [wprocs set]. simpl. apply upd_len. Qed.
Lemma get_proc_procs w w' p : wprocs w' = wprocs w -> get_proc w' p = get_proc w p.
Proof. unfold get_proc. intros ->. reflexivity. Qed.

Theorem machine_round_robin_pull w p :
  let n := pown (me w p) in let nd := get_node w n in
  ppc (me w p) = 2%nat -> ninsel nd = PRoundRobin -> nins nd <> [] ->
  (n < length (wnodes w))%nat -> (p < length (wprocs w))%nat ->
  let k := ninptr nd in let m := length (nins nd) in
  let w' := fst (machine_block w p) in
  ninptr (get_node w' n) = S k /\
  wlog w' = wlog w ++ [LSel n false (k mod m)] /\
  pix (me w' p) = (k mod m)%nat /\
  ptks (me w' p) = [length (evs (wk w))] /\
  ppc (me w' p) = 4%nat.
Proof.
  intros n nd PC SEL NE L LP k m. unfold machine_block. fold n. fold nd. rewrite PC, SEL.
  destruct (occupancy_shape w n true) as (O1 & O2 & O3 & O4 & O5 & O6).
  set (w1 := occupancy w n true) in *.
  assert (G1a : ninsel (get_node w1 n) = PRoundRobin) by (rewrite (O6 _ ninsel) by reflexivity; exact SEL).
  assert (G1b : ninptr (get_node w1 n) = k) by (rewrite (O6 _ ninptr) by reflexivity; reflexivity).
  assert (G1c : nins (get_node w1 n) = nins nd) by (rewrite (O6 _ nins) by reflexivity; reflexivity).
  clearbody w1.
  unfold draw_sel. rewrite G1a, G1b, G1c. fold m.
  assert (M : (0 < m)%nat) by (unfold m; destruct (nins nd); [congruence|simpl; lia]).
  assert (IR : in_range (Z.of_nat k mod Z.of_nat m) m = true).
  { unfold in_range. pose proof (Z.mod_pos_bound (Z.of_nat k) (Z.of_nat m)) as B.
    apply andb_true_iff. split; [apply Z.leb_le|apply Z.ltb_lt]; lia. }
  rewrite IR. cbn [negb].
  assert (TN : Z.to_nat (Z.of_nat k mod Z.of_nat m) = (k mod m)%nat).
  { rewrite <- Nat2Z.inj_mod. apply Nat2Z.id. }
  rewrite TN.
  set (w2 := upd_node w1 n (fun x => x <| ninptr ::= S |>)).
  set (w3 := logw w2 (LSel n false (k mod m))).
  destruct (e_reserve_get_shape w3 (nth (k mod m) (nins nd) 0%nat) p) as ((C1 & C2 & C3 & C4) & C5).
  destruct (e_reserve_get w3 (nth (k mod m) (nins nd) 0%nat) p) as [w4 t] eqn:E4. cbn [fst snd] in *.
  assert (LEN3 : length (wprocs w3) = length (wprocs w)) by (unfold w3, w2, logw, upd_node; cbn [wprocs set]; simpl; rewrite O2; reflexivity).
  assert (K3 : wk w3 = wk w) by (unfold w3, w2, logw, upd_node; cbn [wk set]; simpl; exact O4).
  split; [|split; [|split; [|split]]].
  - rewrite (get_node_nodes w4 _ n) by reflexivity. rewrite (get_node_nodes w3 w4 n C1).
    unfold w3, w2, get_node, logw, upd_node. cbn [wnodes set]. simpl.
    rewrite nth_upd_eq by (rewrite O5; exact L). cbn [ninptr set]. simpl. f_equal. exact G1b.
  - cbn [wlog setpc upd_proc set]. simpl. rewrite C2. unfold w3, w2, logw, upd_node. cbn [wlog set]. simpl. rewrite O1. reflexivity.
  - unfold me, setpc. rewrite get_proc_upd by (rewrite upd_proc_len, C3, LEN3; exact LP).
    rewrite get_proc_upd by (rewrite C3, LEN3; exact LP). reflexivity.
  - unfold me, setpc. rewrite get_proc_upd by (rewrite upd_proc_len, C3, LEN3; exact LP).
    rewrite get_proc_upd by (rewrite C3, LEN3; exact LP). cbn. rewrite C5, K3. reflexivity.
  - unfold me, setpc. rewrite get_proc_upd by (rewrite upd_proc_len, C3, LEN3; exact LP). reflexivity.
Qed.

Theorem machine_constant_pull w p i :
  let n := pown (me w p) in let nd := get_node w n in
  ppc (me w p) = 2%nat -> ninsel nd = PConst i -> in_range i (length (nins nd)) = true ->
  (n < length (wnodes w))%nat -> (p < length (wprocs w))%nat ->
  let w' := fst (machine_block w p) in
  ninptr (get_node w' n) = ninptr nd /\
  wlog w' = wlog w ++ [LSel n false (Z.to_nat i)] /\
  pix (me w' p) = Z.to_nat i /\
  ptks (me w' p) = [length (evs (wk w))] /\
  ppc (me w' p) = 4%nat.
Proof.
  intros n nd PC SEL IR L LP. unfold machine_block. fold n. fold nd. rewrite PC, SEL.
  destruct (occupancy_shape w n true) as (O1 & O2 & O3 & O4 & O5 & O6).
  set (w1 := occupancy w n true) in *.
  assert (G1a : ninsel (get_node w1 n) = PConst i) by (rewrite (O6 _ ninsel) by reflexivity; exact SEL).
  assert (G1b : ninptr (get_node w1 n) = ninptr nd) by (rewrite (O6 _ ninptr) by reflexivity; reflexivity).
  clearbody w1.
  unfold draw_sel. rewrite G1a. rewrite IR. cbn [negb].
  set (w3 := logw w1 (LSel n false (Z.to_nat i))).
  destruct (e_reserve_get_shape w3 (nth (Z.to_nat i) (nins nd) 0%nat) p) as ((C1 & C2 & C3 & C4) & C5).
  destruct (e_reserve_get w3 (nth (Z.to_nat i) (nins nd) 0%nat) p) as [w4 t] eqn:E4. cbn [fst snd] in *.
  assert (LEN3 : length (wprocs w3) = length (wprocs w)) by (unfold w3, logw; cbn [wprocs set]; simpl; rewrite O2; reflexivity).
  assert (K3 : wk w3 = wk w) by (unfold w3, logw; cbn [wk set]; simpl; exact O4).
  split; [|split; [|split; [|split]]].
  - rewrite (get_node_nodes w4 _ n) by reflexivity. rewrite (get_node_nodes w3 w4 n C1).
    rewrite (get_node_nodes w1 w3 n) by reflexivity. exact G1b.
  - cbn [wlog setpc upd_proc set]. simpl. rewrite C2. unfold w3, logw. cbn [wlog set]. simpl. rewrite O1. reflexivity.
  - unfold me, setpc. rewrite get_proc_upd by (rewrite upd_proc_len, C3, LEN3; exact LP).
    rewrite get_proc_upd by (rewrite C3, LEN3; exact LP). reflexivity.
  - unfold me, setpc. rewrite get_proc_upd by (rewrite upd_proc_len, C3, LEN3; exact LP).
    rewrite get_proc_upd by (rewrite C3, LEN3; exact LP). cbn. rewrite C5, K3. reflexivity.
  - unfold me, setpc. rewrite get_proc_upd by (rewrite upd_proc_len, C3, LEN3; exact LP). reflexivity.
Qed.

(* the other edges: a reservation request changes no edge but the one it is issued on *)
Definition only_edge (e : nat) (w w' : world) : Prop := forall e', e' <> e -> get_edge w' e' = get_edge w e'.
Lemma only_edge_refl e w : only_edge e w w. Proof. intros e' _. reflexivity. Qed.
Lemma only_edge_trans e a b c : only_edge e a b -> only_edge e b c -> only_edge e a c.
Proof. intros A B e' N. rewrite (B e' N). apply A. exact N. Qed.
Lemma only_edge_edges e w w' : wedges w' = wedges w -> only_edge e w w'.
Proof. intros H e' _. unfold get_edge. rewrite H. reflexivity. Qed.
Lemma store_op_only w e o : only_edge e w (fst (fst (store_op w e o))).
Proof.
  unfold store_op. destruct (StoreB.step _ _) as [[s r] t]. cbn [fst]. intros e' N.
  unfold get_edge, upd_edge. cbn [wedges set]. simpl. apply nth_upd_other. congruence.
Qed.
Lemma w_succeed_all_edges l : forall w, wedges (w_succeed_all w l) = wedges w.
Proof.
  unfold w_succeed_all. induction l as [|y l IH]; intros w; simpl; [reflexivity|].
  rewrite IH. unfold w_succeed. destruct (succeed (wk w) y); [reflexivity|].
  unfold crashw. destruct (wcrash w); reflexivity.
Qed.
Lemma e_reserve_get_only w e p : only_edge e w (fst (e_reserve_get w e p)).
Proof.
  unfold e_reserve_get. destruct (w_event w) as [w1 ev] eqn:E1.
  pose proof (store_op_only w1 e (StoreB.Sync ev)) as F2. destruct (store_op w1 e (StoreB.Sync ev)) as [[w2 r2] t2]. cbn [fst] in F2.
  pose proof (store_op_only w2 e (StoreB.RGet p 0)) as F3. destruct (store_op w2 e (StoreB.RGet p 0)) as [[w3 r3] t3]. cbn [fst snd] in *.
  assert (F1 : only_edge e w w1) by (unfold w_event in E1; injection E1 as <- _; apply only_edge_edges; reflexivity).
  eapply only_edge_trans; [exact F1|]. eapply only_edge_trans; [exact F2|]. eapply only_edge_trans; [exact F3|].
  apply only_edge_edges. apply w_succeed_all_edges.
Qed.
Lemma e_reserve_put_only w e p : only_edge e w (fst (e_reserve_put w e p)).
Proof.
  unfold e_reserve_put. destruct (w_event w) as [w1 ev] eqn:E1.
  pose proof (store_op_only w1 e (StoreB.Sync ev)) as F2. destruct (store_op w1 e (StoreB.Sync ev)) as [[w2 r2] t2]. cbn [fst] in F2.
  pose proof (store_op_only w2 e (StoreB.RPut p 0)) as F3. destruct (store_op w2 e (StoreB.RPut p 0)) as [[w3 r3] t3]. cbn [fst snd] in *.
  assert (F1 : only_edge e w w1) by (unfold w_event in E1; injection E1 as <- _; apply only_edge_edges; reflexivity).
  eapply only_edge_trans; [exact F1|]. eapply only_edge_trans; [exact F2|]. eapply only_edge_trans; [exact F3|].
  apply only_edge_edges. apply w_succeed_all_edges.
Qed.

Theorem machine_round_robin_pull_touches_one_edge w p :
  let n := pown (me w p) in let nd := get_node w n in
  ppc (me w p) = 2%nat -> ninsel nd = PRoundRobin -> nins nd <> [] ->
  only_edge (nth (ninptr nd mod length (nins nd)) (nins nd) 0%nat) w (fst (machine_block w p)).
Proof.
  intros n nd PC SEL NE. unfold machine_block. fold n. fold nd. rewrite PC, SEL.
  destruct (occupancy_shape w n true) as (O1 & O2 & O3 & O4 & O5 & O6).
  set (w1 := occupancy w n true) in *.
  assert (G1a : ninsel (get_node w1 n) = PRoundRobin) by (rewrite (O6 _ ninsel) by reflexivity; exact SEL).
  assert (G1b : ninptr (get_node w1 n) = ninptr nd) by (rewrite (O6 _ ninptr) by reflexivity; reflexivity).
  assert (G1c : nins (get_node w1 n) = nins nd) by (rewrite (O6 _ nins) by reflexivity; reflexivity).
  clearbody w1.
  unfold draw_sel. rewrite G1a, G1b, G1c.
  set (k := ninptr nd). set (m := length (nins nd)).
  assert (M : (0 < m)%nat) by (unfold m; destruct (nins nd); [congruence|simpl; lia]).
  assert (IR : in_range (Z.of_nat k mod Z.of_nat m) m = true).
  { unfold in_range. pose proof (Z.mod_pos_bound (Z.of_nat k) (Z.of_nat m)) as B.
    apply andb_true_iff. split; [apply Z.leb_le|apply Z.ltb_lt]; lia. }
  rewrite IR. cbn [negb].
  assert (TN : Z.to_nat (Z.of_nat k mod Z.of_nat m) = (k mod m)%nat).
  { rewrite <- Nat2Z.inj_mod. apply Nat2Z.id. }
  rewrite TN.
  set (w3 := logw (upd_node w1 n (fun x => x <| ninptr ::= S |>)) (LSel n false (k mod m))).
  pose proof (e_reserve_get_only w3 (nth (k mod m) (nins nd) 0%nat) p) as C.
  destruct (e_reserve_get w3 (nth (k mod m) (nins nd) 0%nat) p) as [w4 t] eqn:E4. cbn [fst] in *.
  eapply only_edge_trans; [|eapply only_edge_trans; [exact C|apply only_edge_edges; reflexivity]].
  apply only_edge_edges. unfold w3, logw, upd_node. cbn [wedges set]. simpl. exact O3.
Qed.

(* ------------------------------------------------------------------ C16: the combiner's pack step *)
Definition keeps_pack (p : nat) (w w' : world) : Prop :=
  witems w' = witems w /\ length (wprocs w') = length (wprocs w) /\
  ptks (get_proc w' p) = ptks (get_proc w p) /\ plst (get_proc w' p) = plst (get_proc w p) /\
  pit (get_proc w' p) = pit (get_proc w p) /\ pix (get_proc w' p) = pix (get_proc w p) /\
  exists l, wlog w' = wlog w ++ l.
Lemma keeps_pack_refl p w : keeps_pack p w w.
Proof. repeat split. exists []. rewrite app_nil_r. reflexivity. Qed.
Lemma keeps_pack_trans p a b c : keeps_pack p a b -> keeps_pack p b c -> keeps_pack p a c.
Proof.
  intros (A1 & A2 & A3 & A4 & A5 & A6 & l1 & A7) (B1 & B2 & B3 & B4 & B5 & B6 & l2 & B7).
  repeat split; try congruence. exists (l1 ++ l2). rewrite B7, A7, app_assoc. reflexivity.
Qed.
Lemma keeps_pack_procs p w w' l : witems w' = witems w -> wprocs w' = wprocs w -> wlog w' = wlog w ++ l -> keeps_pack p w w'.
Proof. intros A B C. unfold keeps_pack, get_proc. rewrite A, B. repeat split. exists l. exact C. Qed.
Lemma keeps_pack_upd p w f :
  (forall x, ptks (f x) = ptks x /\ plst (f x) = plst x /\ pit (f x) = pit x /\ pix (f x) = pix x) ->
  keeps_pack p w (upd_proc w p f).
Proof.
  intros F. unfold keeps_pack. rewrite upd_proc_len. split; [reflexivity|]. split; [reflexivity|].
  destruct (Nat.lt_ge_cases p (length (wprocs w))) as [L|L].
  - rewrite get_proc_upd by exact L. destruct (F (get_proc w p)) as (F1 & F2 & F3 & F4).
    repeat split; auto. exists []. rewrite app_nil_r. reflexivity.
  - assert (E : get_proc (upd_proc w p f) p = get_proc w p).
    { unfold get_proc, upd_proc. cbn [wprocs set]. simpl. rewrite !nth_overflow; auto. rewrite upd_len. exact L. }
    rewrite E. repeat split. exists []. rewrite app_nil_r. reflexivity.
Qed.

Lemma combiner_loop_keeps w p n : keeps_pack p w (fst (combiner_loop w p n)).
Proof.
  unfold combiner_loop. destruct (ptks (me w p)) as [|t0 ts] eqn:ET.
  - unfold draw_delay. cbv zeta.
    set (d := stream_at (ndelays (get_node w n)) (ndptr (get_node w n))).
    set (w1 := logw (upd_node w n (fun x => x <| ndptr ::= S |>)) (LDraw n 0 d)).
    assert (K1 : keeps_pack p w w1) by (apply keeps_pack_procs with (l := [LDraw n 0 d]); reflexivity).
    destruct (d <? 0).
    { cbn [fst]. eapply keeps_pack_trans; [exact K1|]. apply keeps_pack_procs with (l := []); try rewrite app_nil_r;
      unfold crashw; destruct (wcrash w1); reflexivity. }
    set (w2 := upd_proc w1 p (fun x => x <| pdl := d |>)).
    assert (K2 : keeps_pack p w1 w2) by (apply keeps_pack_upd; intros x; repeat split; reflexivity).
    destruct (update_state_shape w2 n 2) as (U1 & U2 & U3 & U4 & _).
    set (w3 := update_state w2 n 2) in *.
    assert (K3 : keeps_pack p w2 w3) by (apply keeps_pack_procs with (l := []); try rewrite app_nil_r; assumption).
    clearbody w3.
    set (w4 := upd_proc w3 p (fun x => x <| pt0 := wnow w3 |>)).
    assert (K4 : keeps_pack p w3 w4) by (apply keeps_pack_upd; intros x; repeat split; reflexivity).
    assert (K5 : keeps_pack p w4 (fst (w_timeout w4 d))).
    { unfold w_timeout. destruct (d <? 0).
      - cbn [fst]. apply keeps_pack_procs with (l := []); try rewrite app_nil_r; unfold crashw; destruct (wcrash w4); reflexivity.
      - destruct (timeout (wk w4) d) as [k e]. cbn [fst]. apply keeps_pack_procs with (l := []); try rewrite app_nil_r; reflexivity. }
    destruct (w_timeout w4 d) as [w5 t]. cbn [fst] in *.
    eapply keeps_pack_trans; [exact K1|]. eapply keeps_pack_trans; [exact K2|]. eapply keeps_pack_trans; [exact K3|].
    eapply keeps_pack_trans; [exact K4|]. eapply keeps_pack_trans; [exact K5|].
    unfold setpc. apply keeps_pack_upd. intros x; repeat split; reflexivity.
  - destruct (any_triggered w (t0 :: ts)).
    + cbn [fst]. unfold setpc. apply keeps_pack_upd. intros x; repeat split; reflexivity.
    + unfold w_any_of. destruct (any_of (wk w) (t0 :: ts)) as [k c]. cbn [fst].
      eapply keeps_pack_trans; [|unfold setpc; apply keeps_pack_upd; intros x; repeat split; reflexivity].
      eapply keeps_pack_trans; [|apply keeps_pack_upd; intros x; repeat split; reflexivity].
      apply keeps_pack_procs with (l := []); try rewrite app_nil_r; reflexivity.
Qed.

Lemma e_get_items w e p tok n : witems (fst (e_get w e p tok n)) = witems w /\ wprocs (fst (e_get w e p tok n)) = wprocs w.
Proof.
  unfold e_get. destruct (StoreB.step _ _) as [[s r] ts]. destruct r as [t| |it|er]; cbn [fst];
    try (unfold out_err; try destruct er; unfold crashw; cbn [upd_edge]; try destruct (wcrash _); split; reflexivity).
  unfold logw. cbn [witems wprocs set]. simpl.
  destruct (w_succeed_all_frame ts (e_update_level (upd_edge w e (fun x => x <| est := s |>)) e)) as (_ & _ & A3 & A4).
  rewrite A3, A4. unfold e_update_level, upd_edge. cbn [witems wprocs set]. simpl. split; reflexivity.
Qed.

(* the block that runs when one of the outstanding ingredient reservations has been granted: the item retrieved with the
   first granted token goes into THE pallet this combiner is filling, at the end of its contents, and into no other item;
   exactly that token leaves the outstanding list (with its in-edge index); the pack is recorded right after the retrieval *)
Theorem combiner_packs_the_retrieved_item w p ti tok w1 i :
  let pr := me w p in let n := pown pr in let nd := get_node w n in
  ppc pr = 4%nat -> (p < length (wprocs w))%nat -> (pit pr < length (witems w))%nat ->
  first_triggered w (ptks pr) = Some (ti, tok) ->
  e_get w (nth (nth ti (plst pr) 0%nat) (nins nd) 0%nat) p tok n = (w1, Some i) ->
  i_pallet (get_item w i) = false ->
  let w' := fst (combiner_block w p) in
  i_contents (get_item w' (pit pr)) = i_contents (get_item w (pit pr)) ++ [i] /\
  (forall j, j <> pit pr -> get_item w' j = get_item w j) /\
  ptks (me w' p) = remove_nth ti (ptks pr) /\ plst (me w' p) = remove_nth ti (plst pr) /\
  pit (me w' p) = pit pr /\ pix (me w' p) = S (pix pr) /\
  exists l, wlog w' = wlog w1 ++ LPack (wnow w1) n (pit pr) i :: l.
Proof.
  intros pr n nd PC LP LI FT EG NP. unfold combiner_block. fold pr. fold n. fold nd. rewrite PC, FT.
  destruct (e_get_items w (nth (nth ti (plst pr) 0%nat) (nins nd) 0%nat) p tok n) as (I1 & I2).
  rewrite EG in *. cbn [fst] in *.
  assert (GI : forall j, get_item w1 j = get_item w j) by (intros j; unfold get_item; rewrite I1; reflexivity).
  rewrite GI, NP.
  set (w2 := upd_item w1 (pit pr) (fun y => y <| i_contents ::= fun l => l ++ [i] |>)).
  set (w3 := logw w2 (LPack (wnow w2) n (pit pr) i)).
  set (w4 := upd_proc w3 p (fun x => x <| ptks := remove_nth ti (ptks pr) |> <| plst := remove_nth ti (plst pr) |> <| pix := S (pix pr) |>)).
  destruct (combiner_loop_keeps w4 p n) as (K1 & K2 & K3 & K4 & K5 & K6 & l & K7).
  assert (LP4 : (p < length (wprocs w3))%nat) by (unfold w3, w2, logw, upd_item; cbn [wprocs set]; simpl; rewrite I2; exact LP).
  assert (G4 : get_proc w4 p = (get_proc w3 p) <| ptks := remove_nth ti (ptks pr) |> <| plst := remove_nth ti (plst pr) |> <| pix := S (pix pr) |>)
    by (unfold w4; apply get_proc_upd; exact LP4).
  assert (G3 : get_proc w3 p = pr) by (unfold pr, me, get_proc, w3, w2, logw, upd_item; cbn [wprocs set]; simpl; rewrite I2; reflexivity).
  rewrite G3 in G4.
  assert (IT : witems w4 = upd (pit pr) (fun y => y <| i_contents ::= fun l => l ++ [i] |>) (witems w)).
  { unfold w4, w3, w2, upd_proc, logw, upd_item. cbn [witems set]. simpl. rewrite I1. reflexivity. }
  split; [|split; [|split; [|split; [|split; [|split]]]]].
  - unfold get_item at 1. rewrite K1, IT. rewrite nth_upd_eq by exact LI. reflexivity.
  - intros j N. unfold get_item. rewrite K1, IT. apply nth_upd_other. congruence.
  - unfold me. rewrite K3, G4. reflexivity.
  - unfold me. rewrite K4, G4. reflexivity.
  - unfold me. rewrite K5, G4. reflexivity.
  - unfold me. rewrite K6, G4. reflexivity.
  - exists l. rewrite K7. unfold w4, w3, w2, upd_proc, logw, upd_item. cbn [wlog wnow set]. simpl.
    rewrite <- app_assoc. reflexivity.
Qed.

(* ------------------------------------------------------------------ C09, index policies: the non-blocking machine worker
   under ROUND_ROBIN draws its out-edge once, records it, and then either drops the item at once (no room on the drawn edge)
   or hands it to a push process for exactly that edge *)
Lemma set_thread_shape w n p b :
  wedges (set_thread w n p b) = wedges w /\ witems (set_thread w n p b) = witems w /\ wlog (set_thread w n p b) = wlog w /\
  wprocs (set_thread w n p b) = wprocs w /\ wk (set_thread w n p b) = wk w /\
  ndisc (get_node (set_thread w n p b) n) = ndisc (get_node w n).
Proof.
  unfold set_thread. repeat split. rewrite (node_field_upd ndisc w n) by reflexivity. reflexivity.
Qed.

Lemma update_state_rep_nodes_len w n : length (wnodes (update_state_rep w n)) = length (wnodes w).
Proof.
  unfold update_state_rep. destruct (nlast (get_node w n)).
  - destruct (nsrep (get_node w n)) as [a b]. destruct (count_threads (get_node w n)) as [c d].
    destruct (_ >? _); [unfold crashw; match goal with |- context [wcrash ?x] => destruct (wcrash x) end|];
      unfold upd_node; cbn [wnodes set]; simpl; apply upd_len.
  - unfold upd_node; cbn [wnodes set]; simpl; apply upd_len.
Qed.

(* a non-blocking machine worker under ROUND_ROBIN whose drawn out-edge has no room: one draw, recorded; the item is dropped
   in that very block: one discard counted and logged for exactly this item, no edge touched *)
Theorem worker_nonblocking_round_robin_drops w p :
  let n := pown (me w p) in let nd := get_node w n in
  ppc (me w p) = 1%nat -> noutsel nd = PRoundRobin -> nblocking nd = false -> nouts nd <> [] ->
  (n < length (wnodes w))%nat ->
  let k := noutptr nd in let m := length (nouts nd) in
  e_can_put w (nth (k mod m) (nouts nd) 0%nat) = false ->
  let w' := fst (worker_block w p) in
  edges_untouched w w' /\
  wlog w' = wlog w ++ [LSel n true (k mod m); LDiscard (wnow w) n (pit (me w p))] /\
  ndisc (get_node w' n) = S (ndisc nd).
Proof.
  intros n nd PC SEL NB NE L k m CP. unfold worker_block. fold n. fold nd. rewrite PC, SEL.
  set (w1 := upd_node w n (fun x => x <| nsumproc ::= fun v => v + (wnow w - pt0 (me w p)) |>)).
  assert (G1 : get_node w1 n = nd <| nsumproc ::= fun v => v + (wnow w - pt0 (me w p)) |>).
  { unfold w1, nd, get_node, upd_node. cbn [wnodes set]. simpl. apply nth_upd_eq. exact L. }
  unfold draw_sel. rewrite G1. cbn [noutsel noutptr nouts set]. simpl. rewrite SEL. fold k. fold m.
  assert (M : (0 < m)%nat) by (unfold m; destruct (nouts nd); [congruence|simpl; lia]).
  assert (IR : in_range (Z.of_nat k mod Z.of_nat m) m = true).
  { unfold in_range. pose proof (Z.mod_pos_bound (Z.of_nat k) (Z.of_nat m)) as B.
    apply andb_true_iff. split; [apply Z.leb_le|apply Z.ltb_lt]; lia. }
  rewrite IR. cbn [negb]. rewrite NB.
  assert (TN : Z.to_nat (Z.of_nat k mod Z.of_nat m) = (k mod m)%nat).
  { rewrite <- Nat2Z.inj_mod. apply Nat2Z.id. }
  rewrite TN.
  set (w2 := upd_node w1 n (fun x => x <| noutptr ::= S |>)).
  set (w3 := logw w2 (LSel n true (k mod m))).
  destruct (set_thread_shape w3 n p true) as (T1 & T2 & T3 & T4 & T5 & T6).
  set (w4 := set_thread w3 n p true) in *.
  destruct (update_state_rep_shape w4 n) as (B1 & B2 & B3 & B4 & B5).
  assert (K5 : wk (update_state_rep w4 n) = wk w4).
  { unfold update_state_rep. destruct (nlast (get_node w4 n)); [|reflexivity].
    destruct (nsrep (get_node w4 n)) as [a b]. destruct (count_threads (get_node w4 n)) as [c d].
    destruct (_ >? _); [unfold crashw; match goal with |- context [wcrash ?x] => destruct (wcrash x) end|]; reflexivity. }
  set (w5 := update_state_rep w4 n) in *.
  assert (E5 : wedges w5 = wedges w) by (rewrite B1, T1; reflexivity).
  rewrite (e_can_put_edges w w5 _ E5), CP.
  assert (N5 : wnow w5 = wnow w) by (unfold wnow; rewrite K5, T5; reflexivity).
  match goal with |- context [worker_release ?a ?b ?c] => destruct (worker_release_shape a b c) as (A & B & C & D & _) end.
  assert (D3 : ndisc (get_node w3 n) = ndisc nd).
  { rewrite (get_node_nodes w2 w3 n) by reflexivity. unfold w2. rewrite (node_field_upd ndisc w1 n) by reflexivity.
    rewrite G1. reflexivity. }
  assert (LN5 : (n < length (wnodes w5))%nat).
  { unfold w5. rewrite update_state_rep_nodes_len. unfold w4, set_thread, w3, w2, w1, logw, upd_node. cbn [wnodes set]. simpl.
    rewrite !upd_len. exact L. }
  repeat split.
  - rewrite A. cbn [wedges logw upd_node set]. simpl. exact E5.
  - rewrite B. cbn [witems logw upd_node set]. simpl. rewrite B2, T2. reflexivity.
  - rewrite C. cbn [wlog logw upd_node set]. simpl. rewrite B3, T3. unfold w3, w2, w1, logw, upd_node. cbn [wlog set]. simpl.
    rewrite <- app_assoc. simpl. rewrite N5. reflexivity.
  - rewrite D. rewrite (get_node_nodes (upd_node w5 n (fun x => x <| ndisc ::= S |>)) _ n) by reflexivity.
    unfold get_node at 1. unfold upd_node. cbn [wnodes set]. simpl.
    rewrite nth_upd_eq by exact LN5. cbn. fold (get_node w5 n). rewrite B5, T6, D3. reflexivity.
Qed.

Local Opaque spawn.
(* ... and when the drawn out-edge has room: nothing is dropped, no edge is touched by this block, and a push process for
   exactly this item and exactly the drawn out-edge is started *)
Theorem worker_nonblocking_round_robin_pushes w p :
  let n := pown (me w p) in let nd := get_node w n in
  ppc (me w p) = 1%nat -> noutsel nd = PRoundRobin -> nblocking nd = false -> nouts nd <> [] ->
  (n < length (wnodes w))%nat -> (p < length (wprocs w))%nat ->
  let k := noutptr nd in let m := length (nouts nd) in
  e_can_put w (nth (k mod m) (nouts nd) 0%nat) = true ->
  let w' := fst (worker_block w p) in
  edges_untouched w w' /\ wlog w' = wlog w ++ [LSel n true (k mod m)] /\ ndisc (get_node w' n) = ndisc nd /\
  length (wprocs w') = S (length (wprocs w)) /\
  let q := nth (length (wprocs w)) (wprocs w') proc0 in
  pkd q = KPush /\ pown q = n /\ pit q = pit (me w p) /\ pix q = nth (k mod m) (nouts nd) 0%nat /\ ppc q = 0%nat /\ palive q = true.
Proof.
  intros n nd PC SEL NB NE L LP k m CP. unfold worker_block. fold n. fold nd. rewrite PC, SEL.
  set (w1 := upd_node w n (fun x => x <| nsumproc ::= fun v => v + (wnow w - pt0 (me w p)) |>)).
  assert (G1 : get_node w1 n = nd <| nsumproc ::= fun v => v + (wnow w - pt0 (me w p)) |>).
  { unfold w1, nd, get_node, upd_node. cbn [wnodes set]. simpl. apply nth_upd_eq. exact L. }
  unfold draw_sel. rewrite G1. cbn [noutsel noutptr nouts set]. simpl. rewrite SEL. fold k. fold m.
  assert (M : (0 < m)%nat) by (unfold m; destruct (nouts nd); [congruence|simpl; lia]).
  assert (IR : in_range (Z.of_nat k mod Z.of_nat m) m = true).
  { unfold in_range. pose proof (Z.mod_pos_bound (Z.of_nat k) (Z.of_nat m)) as B.
    apply andb_true_iff. split; [apply Z.leb_le|apply Z.ltb_lt]; lia. }
  rewrite IR. cbn [negb]. rewrite NB.
  assert (TN : Z.to_nat (Z.of_nat k mod Z.of_nat m) = (k mod m)%nat).
  { rewrite <- Nat2Z.inj_mod. apply Nat2Z.id. }
  rewrite TN.
  set (w2 := upd_node w1 n (fun x => x <| noutptr ::= S |>)).
  set (w3 := logw w2 (LSel n true (k mod m))).
  destruct (set_thread_shape w3 n p true) as (T1 & T2 & T3 & T4 & T5 & T6).
  set (w4 := set_thread w3 n p true) in *.
  destruct (update_state_rep_shape w4 n) as (B1 & B2 & B3 & B4 & B5).
  set (w5 := update_state_rep w4 n) in *.
  assert (E5 : wedges w5 = wedges w) by (rewrite B1, T1; reflexivity).
  rewrite (e_can_put_edges w w5 _ E5), CP. unfold spawn_push.
  set (w6 := upd_proc w5 p (fun x => x <| pt1 := wnow w5 |>)).
  match goal with |- context [spawn ?a ?b] => pose proof (spawn_shape a b) as SS; destruct (spawn a b) as [[w7 pid] dn] end.
  destruct SS as (S1 & S2 & S3 & S4 & S5 & dn' & S6). cbn [fst].
  assert (D3 : ndisc (get_node w3 n) = ndisc nd).
  { rewrite (get_node_nodes w2 w3 n) by reflexivity. unfold w2. rewrite (node_field_upd ndisc w1 n) by reflexivity.
    rewrite G1. reflexivity. }
  assert (LEN : length (wprocs w6) = length (wprocs w)).
  { unfold w6. rewrite upd_proc_len, B4, T4. reflexivity. }
  split; [split|].
  - cbn [wedges setpc upd_proc set]. simpl. rewrite S1. exact E5.
  - cbn [witems setpc upd_proc set]. simpl. rewrite S2. unfold w6. cbn [witems upd_proc set]. simpl. rewrite B2, T2. reflexivity.
  - split; [cbn [wlog setpc upd_proc set]; simpl; rewrite S3; unfold w6; cbn [wlog upd_proc set]; simpl; rewrite B3, T3; reflexivity|].
    split.
    { rewrite (get_node_nodes w7 (setpc w7 p 6) n) by reflexivity. rewrite (get_node_nodes w6 w7 n S4).
      rewrite (get_node_nodes w5 w6 n) by reflexivity. rewrite B5, T6. exact D3. }
    cbn [wprocs setpc upd_proc set]. simpl. rewrite S6. rewrite upd_len, app_length, LEN. simpl.
    split; [lia|].
    assert (NEp : p <> length (wprocs w)) by lia.
    rewrite nth_upd_other by exact NEp. assert (LEN' : length (upd p (fun x : proc => x <| pt1 := wnow w5 |>) (wprocs w5)) = length (wprocs w)) by (exact LEN).
    rewrite app_nth2 by (rewrite LEN'; lia). rewrite LEN', Nat.sub_diag. cbn. repeat split; reflexivity.
Qed.
Local Transparent spawn.

(* the output side: the blocking ROUND_ROBIN worker's block touches no edge other than the out-edge it drew *)
Theorem worker_round_robin_touches_one_edge w p :
  let n := pown (me w p) in let nd := get_node w n in
  ppc (me w p) = 1%nat -> noutsel nd = PRoundRobin -> nblocking nd = true -> nouts nd <> [] ->
  (n < length (wnodes w))%nat ->
  only_edge (nth (noutptr nd mod length (nouts nd)) (nouts nd) 0%nat) w (fst (worker_block w p)).
Proof.
  intros n nd PC SEL NB NE L. unfold worker_block. fold n. fold nd. rewrite PC, SEL.
  set (w1 := upd_node w n (fun x => x <| nsumproc ::= fun v => v + (wnow w - pt0 (me w p)) |>)).
  assert (G1 : get_node w1 n = nd <| nsumproc ::= fun v => v + (wnow w - pt0 (me w p)) |>).
  { unfold w1, nd, get_node, upd_node. cbn [wnodes set]. simpl. apply nth_upd_eq. exact L. }
  unfold draw_sel. rewrite G1. cbn [noutsel noutptr nouts set]. simpl. rewrite SEL.
  set (k := noutptr nd). set (m := length (nouts nd)).
  assert (M : (0 < m)%nat) by (unfold m; destruct (nouts nd); [congruence|simpl; lia]).
  assert (IR : in_range (Z.of_nat k mod Z.of_nat m) m = true).
  { unfold in_range. pose proof (Z.mod_pos_bound (Z.of_nat k) (Z.of_nat m)) as B.
    apply andb_true_iff. split; [apply Z.leb_le|apply Z.ltb_lt]; lia. }
  rewrite IR. cbn [negb]. rewrite NB.
  assert (TN : Z.to_nat (Z.of_nat k mod Z.of_nat m) = (k mod m)%nat).
  { rewrite <- Nat2Z.inj_mod. apply Nat2Z.id. }
  rewrite TN.
  set (w3 := logw (upd_node w1 n (fun x => x <| noutptr ::= S |>)) (LSel n true (k mod m))).
  destruct (set_thread_shape w3 n p true) as (T1 & _).
  set (w4 := set_thread w3 n p true) in *.
  destruct (update_state_rep_shape w4 n) as (B1 & _).
  set (w5 := update_state_rep w4 n) in *.
  set (w6 := upd_proc w5 p (fun x => x <| pt1 := wnow w5 |>)).
  pose proof (e_reserve_put_only w6 (nth (k mod m) (nouts nd) 0%nat) p) as C.
  destruct (e_reserve_put w6 (nth (k mod m) (nouts nd) 0%nat) p) as [w7 t] eqn:E7. cbn [fst] in *.
  eapply only_edge_trans; [|eapply only_edge_trans; [exact C|apply only_edge_edges; reflexivity]].
  apply only_edge_edges. unfold w6. cbn [wedges upd_proc set]. simpl. rewrite B1, T1. reflexivity.
Qed.

(* ------------------------------------------------------------------ C09: splitter and combiner workers (their shared dispatch
   of one flow item -- a content item or the pallet itself), FIRST_AVAILABLE, non-blocking *)
Lemma check_state_shape w n :
  let w' := check_state w n in
  wedges w' = wedges w /\ witems w' = witems w /\ wlog w' = wlog w /\ wprocs w' = wprocs w /\ wk w' = wk w /\
  ndisc (get_node w' n) = ndisc (get_node w n).
Proof.
  unfold check_state. destruct (count_threads (get_node w n)) as [a b].
  assert (forall c, let w' := crashw w c in
            wedges w' = wedges w /\ witems w' = witems w /\ wlog w' = wlog w /\ wprocs w' = wprocs w /\ wk w' = wk w /\
            ndisc (get_node w' n) = ndisc (get_node w n)) as C.
  { intros c. unfold crashw. destruct (wcrash w); repeat split; reflexivity. }
  assert (forall st, let w' := update_state w n st in
            wedges w' = wedges w /\ witems w' = witems w /\ wlog w' = wlog w /\ wprocs w' = wprocs w /\ wk w' = wk w /\
            ndisc (get_node w' n) = ndisc (get_node w n)) as U.
  { intros st. destruct (update_state_shape w n st) as (A1 & A2 & A3 & A4 & A5 & A6 & A7 & _). repeat split; assumption. }
  destruct (_ >? _); [apply C|]. destruct (_ && _); [apply U|]. destruct (_ >? _); [apply U|]. destruct (_ =? _); [apply U|apply C].
Qed.

Theorem dispatch_nonblocking_drops w p n cur ph :
  let nd := get_node w n in
  noutsel nd = PFirst -> nblocking nd = false -> first_can_put w (nouts nd) = None -> (n < length (wnodes w))%nat ->
  let w' := fst (sc_dispatch w p n cur ph) in
  wedges w' = wedges w /\ witems w' = witems w /\
  wlog w' = wlog w ++ [LDiscard (wnow w) n cur] /\
  ndisc (get_node w' n) = S (ndisc nd) /\
  length (wprocs w') = length (wprocs w) /\ wk w' = wk w.
Proof.
  intros nd SEL NB FC L. unfold sc_dispatch. fold nd. rewrite SEL, NB. cbv zeta.
  set (w1 := upd_proc w p (fun x => x <| plst := [cur; ph] |>)).
  assert (E1 : wedges w1 = wedges w) by reflexivity.
  rewrite (first_can_put_edges w w1 _ E1), FC. cbn [fst].
  repeat split.
  - unfold setpc, logw, upd_node, upd_proc, w1. cbn [wnodes set]. simpl.
    unfold get_node. cbn [wnodes set]. simpl. rewrite nth_upd_eq by exact L. reflexivity.
  - unfold setpc, logw, upd_node, upd_proc, w1. cbn [wprocs set]. simpl. rewrite !upd_len. reflexivity.
Qed.

Theorem dispatch_nonblocking_pushes w p n cur ph e :
  let nd := get_node w n in
  noutsel nd = PFirst -> nblocking nd = false -> first_can_put w (nouts nd) = Some e -> is_buffer w e = true ->
  (p < length (wprocs w))%nat ->
  let w' := fst (sc_dispatch w p n cur ph) in
  wedges w' = wedges w /\ witems w' = witems w /\ wlog w' = wlog w /\ ndisc (get_node w' n) = ndisc nd /\
  (* one process more: the push of exactly this item to the first out-edge with room *)
  length (wprocs w') = S (length (wprocs w)) /\
  let q := nth (length (wprocs w)) (wprocs w') proc0 in
  pkd q = KPush /\ pown q = n /\ pit q = cur /\ pix q = e /\ ppc q = 0%nat /\ palive q = true.
Proof.
  intros nd SEL NB FC IB LP. unfold sc_dispatch. fold nd. rewrite SEL, NB. cbv zeta.
  set (w1 := upd_proc w p (fun x => x <| plst := [cur; ph] |>)).
  assert (E1 : wedges w1 = wedges w) by reflexivity.
  rewrite (first_can_put_edges w w1 _ E1), FC.
  set (w2 := upd_proc w1 p (fun x => x <| pt1 := wnow w1 |>)).
  destruct (check_state_shape w2 n) as (A1 & A2 & A3 & A4 & A5 & A6).
  set (w3 := check_state w2 n) in *.
  destruct (set_thread_shape w3 n p true) as (T1 & T2 & T3 & T4 & T5 & T6).
  set (w4 := set_thread w3 n p true) in *.
  destruct (check_state_shape w4 n) as (B1 & B2 & B3 & B4 & B5 & B6).
  set (w5 := check_state w4 n) in *.
  assert (IB5 : is_buffer w5 e = true).
  { unfold is_buffer, get_edge in *. rewrite B1, T1, A1. exact IB. }
  rewrite IB5. unfold spawn_push.
  match goal with |- context [spawn ?a ?b] => pose proof (spawn_shape a b) as SS; destruct (spawn a b) as [[w6 pid] dn] end.
  destruct SS as (S1 & S2 & S3 & S4 & S5 & dn' & S6). cbn [fst].
  assert (ND1 : ndisc (get_node w2 n) = ndisc nd) by reflexivity.
  assert (PR : wprocs w5 = upd p (fun x => x <| pt1 := wnow w1 |>) (upd p (fun x => x <| plst := [cur; ph] |>) (wprocs w))).
  { rewrite B4, T4, A4. reflexivity. }
  assert (LEN : length (wprocs w5) = length (wprocs w)) by (rewrite PR, !upd_len; reflexivity).
  split; [cbn [wedges setpc upd_proc set]; simpl; rewrite S1, B1, T1, A1; reflexivity|].
  split; [cbn [witems setpc upd_proc set]; simpl; rewrite S2, B2, T2, A2; reflexivity|].
  split; [cbn [wlog setpc upd_proc set]; simpl; rewrite S3, B3, T3, A3; reflexivity|].
  split.
  { rewrite (get_node_nodes w6 (setpc w6 p 3) n) by reflexivity. rewrite (get_node_nodes w5 w6 n S4).
    rewrite B6, T6, A6. exact ND1. }
  cbn [wprocs setpc upd_proc set]. simpl. rewrite S6. rewrite upd_len, app_length, LEN. simpl.
  split; [lia|].
  assert (NE : p <> length (wprocs w)) by lia.
  rewrite nth_upd_other by exact NE. rewrite app_nth2 by lia. rewrite LEN, Nat.sub_diag. cbn. repeat split; reflexivity.
Qed.
